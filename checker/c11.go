// c11.go: C11 — Mann-Whitney U statistics and p-values (thin).
package main

import (
	"fmt"
	"go/constant"
	"go/token"
	"go/types"
	"math/big"
	"os"
	"sort"
	"strings"

	"golang.org/x/tools/go/ssa"
)

func init() { register("C11", checkC11) }

func checkC11(c *Ctx) {
	c.Rule("C11/R1", "guards: no result is produced for an empty sample; the exact branch rejects a single rank group (all values equal) and the approximate branch rejects zero variance, both before any p-value is computed")
	c.Rule("C11/R2", "every switch over the alternative hypothesis handles its three constants")
	c.Rule("C11/R3", "closed forms (identity over the rationals, per alternative and branch): U1 = R1 - n1(n1+1)/2; the exact distribution is built for (n1, n2) in this order (as a set on untied paths); the exact tails CDF(U1), 1-CDF(U1-1), 2·CDF(min(U1,U2)) or 1 at the centre; mu = n1n2/2; sigma^2 = n1n2((N+1) - t/(N(N-1)))/12; continuity correction ∓1/2 by alternative; the three normal tails; the tie term is the sum of t^3 - t; a tied group's rank is the mean of its first and last rank")
	c.Rule("C11/R4", "the exact method is used exactly when both sizes are within the limit that applies (the tie limit when ties were seen, the plain limit otherwise); ties are flagged whenever a rank group has more than one member, in either sample, and the tie vector always reaches the exact distribution")
	c.Rule("C11/R5", "every p-value the test can return lies in [0,1] by construction (interval evaluation with CDF values in [0,1] and min(x,1-x) <= 1/2)")
	c.Rule("C11/R7", "exact distribution code: every integer quotient in the tie-aware counting code has a dividend tested non-negative (truncating division is the floor only then); the untied mass function reads p(k)[k] for k = floor(U) or its mirror image n1n2 - floor(U)")
	c.Rule("C11/R11", "the legacy wrapper leaves the sample-size decision to the test: benchstat.UTest returns nothing before it has called MannWhitneyUTest (one value against several has an exact p-value)")
	c.Rule("C11/R10", "the legacy wrapper tests the samples it reports (same rule as C17/R8): nothing on the way from benchstat.UTest/TTest reads the unfiltered Values")
	c.Rule("C11/R8", "binomial coefficients are exact where they are integers: the int64 product in mathChoose is guarded by n <= 20; C(n,k) is 0 outside 0 <= k <= n and 1 at k = 0 and k = n (constant evaluation of eleven boundary arguments)")
	c.Rule("C11/R9", "exact-distribution code hygiene: no min/max over one and the same operand (a size normalisation that forgets one of the two sizes), and no recurrence over a table of integers (arrangement counts exceed 2^64 well inside the exact limits; the tables hold float64 probabilities or counts)")
	c.Rule("C11/R6", "the legacy wrappers return every test error (converted) with p = -1 and the test's own P otherwise")

	p := mustLoad(c, loadOpts{}, "./internal/stats", "./benchstat")
	p.Funcs("internal/stats", "benchstat")
	fn := p.Fn("internal/stats", "MannWhitneyUTest")
	if fn == nil {
		c.Undecided("C11/R1", "anchor:MannWhitneyUTest", "", "not found")
		return
	}
	c11Guards(c, p, fn)
	c11Switches(c, p, fn)
	c11Forms(c, p, fn)
	c11Ties(c, p, fn)
	c11Wrappers(c, p)
	c11Dist(c, p)
	c11Hygiene(c, p)
	c.Under("C17/R8", "C11/R10", func() { c17Retained(c, p) })
	c11WrapperCallsFirst(c, p)
}

func c11Guards(c *Ctx, p *Prog, fn *ssa.Function) {
	const R = "C11/R1"
	site := p.pos(fn.Pos())
	// non-nil result returns
	var results []*ssa.BasicBlock
	for _, b := range fn.Blocks {
		if ret, ok := b.Instrs[len(b.Instrs)-1].(*ssa.Return); ok {
			if _, isAlloc := retVal(ret, 0).(*ssa.Alloc); isAlloc {
				results = append(results, b)
			}
		}
	}
	c.Floor(R, "result-producing returns", len(results), 1)
	lenIs := func(v ssa.Value, param *ssa.Parameter) bool {
		call, ok := v.(*ssa.Call)
		if !ok {
			return false
		}
		bi, ok := call.Call.Value.(*ssa.Builtin)
		return ok && bi.Name() == "len" && call.Call.Args[0] == param
	}
	for i, b := range results {
		okEmpty := map[int]bool{}
		for _, f := range factsAt(b) {
			bo, ok := f.Cond.(*ssa.BinOp)
			if !ok || bo.Op != token.EQL || f.True {
				continue
			}
			if k, ok := constInt(bo.Y); ok && k == 0 {
				for pi := 0; pi < 2; pi++ {
					if lenIs(bo.X, fn.Params[pi]) {
						okEmpty[pi] = true
					}
				}
			}
		}
		c.Check(okEmpty[0] && okEmpty[1], R, fmt.Sprintf("result#%d:non-empty-samples", i+1), site, "both samples were tested for emptiness", "a result can be produced although a sample is empty")
	}
	// the two degenerate-input guards
	var exactGuard, approxGuard bool
	eachInstr(fn, func(b *ssa.BasicBlock, in ssa.Instruction) {
		bo, ok := in.(*ssa.BinOp)
		if !ok || bo.Op != token.EQL {
			return
		}
		returnsErr := func() bool {
			for _, r := range *bo.Referrers() {
				if ifi, ok := r.(*ssa.If); ok {
					tb := ifi.Block().Succs[0]
					if ret, ok := tb.Instrs[len(tb.Instrs)-1].(*ssa.Return); ok {
						if la := loadAddr(retLast(ret)); la != nil {
							if g, ok := la.(*ssa.Global); ok && g.Name() == "ErrSamplesEqual" {
								return true
							}
						}
					}
				}
			}
			return false
		}
		if k, ok := constInt(bo.Y); ok && k == 1 {
			if call, ok := bo.X.(*ssa.Call); ok {
				if bi, ok := call.Call.Value.(*ssa.Builtin); ok && bi.Name() == "len" && returnsErr() {
					exactGuard = true
				}
			}
		}
		if k, ok := bo.Y.(*ssa.Const); ok && k.Value != nil && isFloat(bo.X.Type()) && constant.Sign(constant.ToFloat(k.Value)) == 0 && returnsErr() {
			if call, ok := bo.X.(*ssa.Call); ok && objIs(calleeObj(&call.Call), "math", "", "Sqrt") {
				approxGuard = true
			}
		}
	})
	c.Check(exactGuard, R, "exact:all-equal-guard", site, "a single rank group is reported as ErrSamplesEqual", "the exact branch does not reject samples whose values are all equal")
	c.Check(approxGuard, R, "approx:zero-variance-guard", site, "zero variance is reported as ErrSamplesEqual", "the approximate branch does not reject zero variance: it would divide by zero and return NaN/±Inf as a p-value")
}

func c11Switches(c *Ctx, p *Prog, fn *ssa.Function) {
	const R = "C11/R2"
	hypT := p.Named("internal/stats", "LocationHypothesis")
	var all []string
	sc := p.Pkg("internal/stats").Types.Scope()
	names := map[string]string{}
	for _, n := range sc.Names() {
		if k, ok := sc.Lookup(n).(*types.Const); ok && hypT != nil && types.Identical(k.Type(), hypT) {
			all = append(all, constKey(k.Val()))
			names[constKey(k.Val())] = n
		}
	}
	sort.Strings(all)
	for _, f := range p.Funcs("internal/stats") {
		// parameters of the hypothesis type
		var alt *ssa.Parameter
		for _, prm := range f.Params {
			if hypT != nil && types.Identical(prm.Type(), hypT) {
				alt = prm
			}
		}
		if alt == nil {
			continue
		}
		// chains of comparisons alt == const: a chain starts at a comparison whose block is not the false-successor of another comparison
		type cmpI struct {
			b *ssa.BasicBlock
			k string
		}
		var cmps []cmpI
		eachInstr(f, func(b *ssa.BasicBlock, in ssa.Instruction) {
			if bo, ok := in.(*ssa.BinOp); ok && bo.Op == token.EQL && bo.X == alt {
				if k, ok := bo.Y.(*ssa.Const); ok && k.Value != nil {
					cmps = append(cmps, cmpI{b, constKey(k.Value)})
				}
			}
		})
		isFalseSucc := map[*ssa.BasicBlock]bool{}
		for _, cm := range cmps {
			isFalseSucc[cm.b.Succs[1]] = true
		}
		n := 0
		for _, cm := range cmps {
			if isFalseSucc[cm.b] {
				continue
			}
			n++
			got := map[string]bool{}
			for b := cm.b; ; {
				found := false
				for _, c2 := range cmps {
					if c2.b == b {
						got[c2.k] = true
						found = true
					}
				}
				if !found {
					break
				}
				b = b.Succs[1]
			}
			var missing []string
			for _, k := range all {
				if !got[k] {
					missing = append(missing, names[k])
				}
			}
			c.Check(len(missing) == 0, R, fmt.Sprintf("%s:switch#%d", fnName(f), n), p.pos(cm.b.Instrs[len(cm.b.Instrs)-1].Pos()), "handles all three alternatives", fmt.Sprintf("a switch over the alternative hypothesis has no case for %v: the p-value silently stays 0 for it", missing))
		}
	}
}

var e7Salt int

// e7UF is the uninterpreted-function value used by both the expression evaluator and reference formulas.
func e7UF(name string, x *big.Rat) *big.Rat {
	r := hashRat(name+"("+x.RatString()+")", e7Salt)
	if strings.HasPrefix(name, "CDF:") {
		// distribution functions take values in (0,1)
		return rQuo(r, rAdd(r, rat(1, 1)))
	}
	return r
}

func c11Forms(c *Ctx, p *Prog, fn *ssa.Function) {
	const R = "C11/R3"
	site := p.pos(fn.Pos())
	hypT := p.Named("internal/stats", "LocationHypothesis")
	alts := map[string]constant.Value{}
	for _, n := range []string{"LocationLess", "LocationDiffers", "LocationGreater"} {
		if k, ok := p.Obj("internal/stats", n).(*types.Const); ok {
			alts[n] = k.Val()
		}
	}
	// region: from the block that computes U1 (first block after the rank loops that dominates the returns of results)
	start := c11AfterRanking(fn)
	if start == nil {
		c.Undecided(R, "forms:region", site, "cannot locate the block computing the U statistics")
		return
	}
	var altParam *ssa.Parameter
	for _, prm := range fn.Params {
		if hypT != nil && types.Identical(prm.Type(), hypT) {
			altParam = prm
		}
	}
	stop := map[*ssa.BasicBlock]bool{}
	for _, b := range fn.Blocks {
		if !start.Dominates(b) {
			stop[b] = true
		}
	}
	// leaves
	leafOf := func(s *Sym) string {
		str := s.String()
		switch {
		case s.Op == "call" && s.Name == "len" && strings.Contains(str, "param:x1"):
			return "n1"
		case s.Op == "call" && s.Name == "len" && strings.Contains(str, "param:x2"):
			return "n2"
		case s.Op == "opaque" && strings.Contains(s.Name, "R1"):
			return "R1"
		case s.Op == "call" && strings.Contains(s.Name, "tieCorrection"):
			return "t"
		case s.Op == "opaque" && (strings.HasPrefix(s.Name, "call:") && strings.Contains(s.Name, "len")):
			return ""
		}
		return ""
	}
	// n1, n2 are computed before the region (len calls): bind them by Init
	init := map[ssa.Value]*Sym{}
	eachInstr(fn, func(b *ssa.BasicBlock, in ssa.Instruction) {
		if call, ok := in.(*ssa.Call); ok && b == fn.Blocks[0] {
			if bi, ok := call.Call.Value.(*ssa.Builtin); ok && bi.Name() == "len" {
				if call.Call.Args[0] == fn.Params[0] {
					init[call] = &Sym{Op: "opaque", Name: "N1", Type: call.Type()}
				}
				if call.Call.Args[0] == fn.Params[1] {
					init[call] = &Sym{Op: "opaque", Name: "N2", Type: call.Type()}
				}
			}
		}
	})
	rankFn := c11RankHelper(fn)
	fromRank := func(s *Sym) bool {
		return rankFn != nil && s.Op == "extract" && len(s.Args) == 1 && s.Args[0].Op == "call" && strings.Contains(s.Args[0].Name, "."+rankFn.Name())
	}
	leaf2 := func(s *Sym) string {
		if fromRank(s) && isFloat2(s.Type) {
			return "R1"
		}
		if s.Op == "opaque" {
			switch {
			case s.Name == "N1":
				return "n1"
			case s.Name == "N2":
				return "n2"
			case strings.Contains(s.Name, "R1"):
				return "R1"
			}
		}
		if s.Op == "call" && strings.Contains(s.Name, "tieCorrection") {
			return "t"
		}
		return leafOf(s)
	}
	pts := []map[string]*big.Rat{
		{"n1": rat(5, 1), "n2": rat(7, 1), "R1": rat(33, 1), "t": rat(12, 1)},
		{"n1": rat(30, 1), "n2": rat(41, 1), "R1": rat(1500, 1), "t": rat(0, 1)},
		{"n1": rat(9, 1), "n2": rat(6, 1), "R1": rat(60, 1), "t": rat(60, 1)},
	}
	cdf := func(dist string, x *big.Rat) *big.Rat { return e7UF("CDF:"+dist, x) }
	nCases := 0
	for _, altName := range []string{"LocationLess", "LocationDiffers", "LocationGreater"} {
		av := alts[altName]
		if av == nil || altParam == nil {
			c.Undecided(R, "forms:"+altName, site, "alternative constant not found")
			continue
		}
		in2 := map[ssa.Value]*Sym{altParam: symConst(av, altParam.Type())}
		for k, v := range init {
			in2[k] = v
		}
		mk := func() *e6Interp {
			return &e6Interp{Init: in2, PureCall: func(f *types.Func) bool { return true }}
		}
		outs, why := e6Enumerate(mk, start, nil, stop, 4096)
		if why != "" {
			c.Undecided(R, "forms:"+altName, site, why)
			continue
		}
		for _, o := range outs {
			if o.Term != "return" || len(o.Results) != 2 || !(o.Results[1].isConst() && o.Results[1].IsNil) {
				continue
			}
			res := o.Results[0]
			pS := o.Mem[(&Sym{Op: "fieldaddr", Args: []*Sym{res}, Name: "P"}).String()]
			uS := o.Mem[(&Sym{Op: "fieldaddr", Args: []*Sym{res}, Name: "U"}).String()]
			if pS == nil || uS == nil {
				c.Undecided(R, "forms:"+altName+":result", site, "result fields not found")
				continue
			}
			// which branch: exact (UDist CDF) or approximate (normal CDF)
			exact := strings.Contains(pS.String(), "UDist") || (pS.isConst() && strings.Contains(o.AssignStr(), "U1")) || strings.Contains(o.AssignStr(), "len(")
			approx := strings.Contains(pS.String(), "NormalDist") || strings.Contains(pS.String(), "StdNormal")
			centre := false
			for _, k := range o.AtomKeys() {
				v := o.Assign[k]
				_ = v
				s := o.AtomSyms[k]
				if s.Op == "binop" && s.Tok == token.EQL && isFloat2(s.Args[0].Type) && !s.Args[1].isConst() && v {
					centre = true
				}
			}
			branch := "exact"
			if approx {
				branch = "approx"
			}
			_ = exact
			// were ties seen on this path? (the flag the ranking loop sets; "?" when the path does not test it)
			ties := "?"
			for _, k := range o.AtomKeys() {
				v := o.Assign[k]
				_ = v
				if s := o.AtomSyms[k]; strings.Contains(s.String(), "hasTies") && s.Op != "binop" {
					ties = fmt.Sprint(v)
				} else if fromRank(s) && isBoolT(s.Type) {
					ties = fmt.Sprint(v)
				}
			}
			key := fmt.Sprintf("forms[%s %s centre=%v]", altName, branch, centre)
			if branch == "exact" {
				key = fmt.Sprintf("forms[%s %s ties=%s centre=%v]", altName, branch, ties, centre)
			}
			nCases++
			u1 := func(g func(string) *big.Rat) *big.Rat {
				return rSub(g("R1"), rQuo(rMul(g("n1"), rAdd(g("n1"), rat(1, 1))), rat(2, 1)))
			}
			u2 := func(g func(string) *big.Rat) *big.Rat { return rSub(rMul(g("n1"), g("n2")), u1(g)) }
			// U statistic
			okU, dU := c11Eq(uS, u1, pts, leaf2)
			c.Check(okU, R, key+":U", site, "U = R1 - n1(n1+1)/2", "U statistic: "+dU)
			var ref, symmetric func(g func(string) *big.Rat) *big.Rat
			var refs []func(g func(string) *big.Rat) *big.Rat
			if branch == "exact" {
				// the exact distribution is that of the first sample's U: UDist{N1: n1, N2: n2}. Without ties it is the same
				// distribution with the sizes exchanged, so the sizes are compared as a set on paths known to be untied.
				c11DistSorted = ties == "false"
				dist := func(g func(string) *big.Rat) string { return c11ExactDist(g("n1"), g("n2")) }
				switch altName {
				case "LocationLess":
					ref = func(g func(string) *big.Rat) *big.Rat { return cdf(dist(g), u1(g)) }
				case "LocationGreater", "LocationDiffers":
					// P(U >= U1) = 1 - CDF(U1 - step): U moves in whole steps without ties and half steps with ties
					var steps []*big.Rat
					switch ties {
					case "false":
						steps = []*big.Rat{rat(1, 1)}
					case "true":
						steps = []*big.Rat{rat(1, 2)}
					default:
						steps = []*big.Rat{rat(1, 1), rat(1, 2)} // one expression for both cases must be right in both
					}
					greater := func(step *big.Rat) func(g func(string) *big.Rat) *big.Rat {
						return func(g func(string) *big.Rat) *big.Rat { return rSub(rat(1, 1), cdf(dist(g), rSub(u1(g), step))) }
					}
					for _, st := range steps {
						st := st
						if altName == "LocationGreater" {
							refs = append(refs, greater(st))
							continue
						}
						// twice the smaller tail, capped at 1
						refs = append(refs, func(g func(string) *big.Rat) *big.Rat {
							a, b := cdf(dist(g), u1(g)), greater(st)(g)
							if b.Cmp(a) < 0 {
								a = b
							}
							v := rMul(rat(2, 1), a)
							if v.Cmp(rat(1, 1)) > 0 {
								return rat(1, 1)
							}
							return v
						})
					}
					if altName == "LocationDiffers" {
						// Without ties the distribution of U is symmetric about n1n2/2, so P(U >= U1) = CDF(U2) and twice
						// the smaller tail is 2 CDF(min(U1,U2)), which is 1 at the centre: an accepted form only there.
						symmetric = func(g func(string) *big.Rat) *big.Rat {
							if centre {
								return rat(1, 1)
							}
							a, b := u1(g), u2(g)
							m := a
							if b.Cmp(a) < 0 {
								m = b
							}
							v := rMul(rat(2, 1), cdf(dist(g), m))
							if v.Cmp(rat(1, 1)) > 0 {
								return rat(1, 1)
							}
							return v
						}
					}
				}
			} else {
				c11DistSorted = false
				dist := "normal"
				ref = func(g func(string) *big.Rat) *big.Rat {
					N := rAdd(g("n1"), g("n2"))
					mu := rQuo(rMul(g("n1"), g("n2")), rat(2, 1))
					inner := rSub(rAdd(N, rat(1, 1)), rQuo(g("t"), rMul(N, rSub(N, rat(1, 1)))))
					sigma := e7UF("math.Sqrt", rQuo(rMul(rMul(g("n1"), g("n2")), inner), rat(12, 1)))
					numer := rSub(u1(g), mu)
					switch altName {
					case "LocationLess":
						numer = rAdd(numer, rat(1, 2))
					case "LocationGreater":
						numer = rSub(numer, rat(1, 2))
					case "LocationDiffers":
						numer = rSub(numer, rMul(big.NewRat(int64(numer.Sign()), 1), rat(1, 2)))
					}
					z := rQuo(numer, sigma)
					switch altName {
					case "LocationLess":
						return cdf(dist, z)
					case "LocationGreater":
						return rSub(rat(1, 1), cdf(dist, z))
					}
					a := cdf(dist, z)
					b := rSub(rat(1, 1), a)
					if b.Cmp(a) < 0 {
						a = b
					}
					return rMul(rat(2, 1), a)
				}
			}
			if ref != nil {
				refs = append(refs, ref)
			}
			okP, dP := len(refs) > 0, ""
			for _, r := range refs {
				ok1, d1 := c11Eq(pS, r, pts, leaf2)
				if !ok1 {
					okP, dP = false, d1
					break
				}
			}
			switch {
			case okP:
				c.OK(R, key+":P", site, "p-value formula matches the documented closed form")
			case symmetric != nil && ties == "false":
				okS, dS := c11Eq(pS, symmetric, pts, leaf2)
				c.Check(okS, R, key+":P", site, "untied two-sided p: 2 CDF(min(U1,U2)) capped at 1 (equal to twice the smaller tail by the symmetry of the untied distribution)", "p-value: "+dS)
			case symmetric != nil:
				if okS, _ := c11Eq(pS, symmetric, pts, leaf2); okS {
					c.Bad(R, key+":P:symmetric-form-under-ties", site, "the two-sided exact p-value is computed as 2 CDF(min(U1,U2)) also when ties were seen; the tied distribution is not symmetric, so this is not twice the smaller one-sided value and changes when the samples are swapped (e.g. {1,2,2,3} vs {2,3,3,4,5}: 0.159 one way, 0.063 the other)")
				} else {
					c.Bad(R, key+":P", site, "p-value: "+dP)
				}
			default:
				c.Bad(R, key+":P", site, "p-value: "+dP)
			}
			lo, hi, known := symInterval(pS)
			if !known {
				c.Undecided("C11/R5", key+":range", site, "cannot bound the p-value expression "+truncate(pS.String(), 160))
			} else {
				c.Check(lo.Sign() >= 0 && hi.Cmp(rat(1, 1)) <= 0, "C11/R5", key+":range", site, fmt.Sprintf("p lies in [%s, %s]", lo.RatString(), hi.RatString()),
					fmt.Sprintf("the p-value expression ranges over [%s, %s], not within [0,1]: with ties twice the lower tail exceeds 1 (e.g. {1,2} vs {1,1,1} gives 1.2)", lo.RatString(), hi.RatString()))
			}
		}
	}
	c.Floor(R, "closed-form cases (alternative x branch)", nCases, 6)
	// tie term
	if tc := p.Fn("internal/stats", "tieCorrection"); tc != nil {
		okT := false
		for _, lp := range naturalLoops(tc) {
			start := loopBodyStart(lp)
			outs, why := e6Enumerate(func() *e6Interp { return &e6Interp{} }, start, lp.Header, iterStop(lp, start), 16)
			if why != "" || len(outs) != 1 {
				continue
			}
			for _, in := range lp.Header.Instrs {
				phi, ok := in.(*ssa.Phi)
				if !ok || phi.Comment != "t" {
					continue
				}
				for j, pr := range lp.Header.Preds {
					if pr == outs[0].ExitFrom {
						nv := outs[0].Val(phi.Edges[j])
						ok2, _ := e7Equal(nv, func(g func(string) *big.Rat) *big.Rat {
							tt := g("tie")
							return rAdd(g("acc"), rSub(rMul(tt, rMul(tt, tt)), tt))
						}, []map[string]*big.Rat{{"acc": rat(5, 1), "tie": rat(3, 1)}, {"acc": rat(0, 1), "tie": rat(7, 1)}}, func(s *Sym) string {
							if s.String() == outs[0].Val(phi).String() {
								return "acc"
							}
							if s.Op == "load" {
								return "tie"
							}
							return ""
						})
						okT = ok2
					}
				}
			}
		}
		c.Check(okT, R, "tieCorrection:t^3-t", p.pos(tc.Pos()), "each tie group contributes t^3 - t", "the tie correction term is not the sum of t^3 - t over the tie groups")
	}
}

// c11Eq wraps e7Equal, making CDF method calls and mathSign uninterpreted/interpreted consistently with the references.
func c11Eq(s *Sym, ref func(func(string) *big.Rat) *big.Rat, pts []map[string]*big.Rat, leafOf func(*Sym) string) (bool, string) {
	for i, pt := range pts {
		e7Salt = i + 1
		env := &ratEnv{leaves: map[string]*big.Rat{}, salt: i + 1, leafOf: leafOf, named: pt}
		var got *big.Rat
		var failure string
		func() {
			defer func() {
				if r := recover(); r != nil {
					if ee, ok := r.(e7Err); ok {
						failure = ee.msg
						return
					}
					panic(r)
				}
			}()
			got = c11Eval(env, s)
		}()
		if failure != "" {
			return false, "cannot evaluate: " + failure
		}
		want := ref(func(n string) *big.Rat { return pt[n] })
		if got.Cmp(want) != 0 {
			gf, _ := got.Float64()
			wf, _ := want.Float64()
			var ps []string
			for k, v := range pt {
				ps = append(ps, k+"="+v.RatString())
			}
			return false, fmt.Sprintf("at %s the code computes %.6g where the documented formula gives %.6g (expression %s)", strings.Join(sortedStrs(ps), " "), gf, wf, truncate(s.String(), 200))
		}
	}
	return true, ""
}

func truncate(s string, n int) string {
	if len(s) > n {
		return s[:n] + "…"
	}
	return s
}

// c11DistSorted: compare the sizes of the exact distribution as a set (the untied distribution is symmetric in them).
var c11DistSorted bool

func c11ExactDist(n1, n2 *big.Rat) string {
	if n1 == nil || n2 == nil {
		return "exact"
	}
	if c11DistSorted && n1.Cmp(n2) > 0 {
		n1, n2 = n2, n1
	}
	return "exact[" + n1.RatString() + "," + n2.RatString() + "]"
}

// c11Eval: like ratEnv.eval, with CDF methods as uninterpreted functions keyed by distribution kind and mathSign interpreted.
func c11Eval(e *ratEnv, s *Sym) *big.Rat {
	if s.Op == "call" {
		name := s.Name
		if i := strings.Index(name, "@"); i >= 0 {
			name = name[:i]
		}
		switch {
		case strings.HasSuffix(name, ".CDF"):
			kind := "normal"
			if !strings.Contains(name, "NormalDist") {
				// the exact distribution is identified by the sample sizes it was built with
				n1, n2 := e.named["n1"], e.named["n2"]
				if rcv := s.Args[0]; rcv.Op == "struct" && rcv.Fields["N1"] != nil && rcv.Fields["N2"] != nil {
					n1, n2 = c11Eval(e, rcv.Fields["N1"]), c11Eval(e, rcv.Fields["N2"])
				}
				kind = c11ExactDist(n1, n2)
			}
			return e7UF("CDF:"+kind, c11Eval(e, s.Args[len(s.Args)-1]))
		case strings.HasSuffix(name, "mathSign"):
			return big.NewRat(int64(c11Eval(e, s.Args[0]).Sign()), 1)
		case name == "math.Sqrt":
			return e7UF("math.Sqrt", c11Eval(e, s.Args[0]))
		case name == "min" || name == "max":
			best := c11Eval(e, s.Args[0])
			for _, a := range s.Args[1:] {
				if v := c11Eval(e, a); (name == "min") == (v.Cmp(best) < 0) && v.Cmp(best) != 0 {
					best = v
				}
			}
			return best
		case name == "math.Min":
			x, y := c11Eval(e, s.Args[0]), c11Eval(e, s.Args[1])
			if x.Cmp(y) <= 0 {
				return x
			}
			return y
		case name == "math.Max":
			x, y := c11Eval(e, s.Args[0]), c11Eval(e, s.Args[1])
			if x.Cmp(y) >= 0 {
				return x
			}
			return y
		}
	}
	switch s.Op {
	case "binop":
		switch s.Tok {
		case token.ADD, token.SUB, token.MUL, token.QUO:
			x, y := c11Eval(e, s.Args[0]), c11Eval(e, s.Args[1])
			switch s.Tok {
			case token.ADD:
				return rAdd(x, y)
			case token.SUB:
				return rSub(x, y)
			case token.MUL:
				return rMul(x, y)
			}
			if y.Sign() == 0 {
				panic(e7Err{"division by zero"})
			}
			if s.Type != nil && isInteger(s.Type) && x.IsInt() && y.IsInt() {
				// Go's integer division truncates toward zero
				q := new(big.Int).Quo(x.Num(), y.Num())
				return new(big.Rat).SetInt(q)
			}
			return rQuo(x, y)
		}
	case "unop":
		if s.Tok == token.SUB {
			return new(big.Rat).Neg(c11Eval(e, s.Args[0]))
		}
	case "convert":
		return c11Eval(e, s.Args[0])
	}
	return e.eval(s)
}

func c11Ties(c *Ctx, p *Prog, fn *ssa.Function) {
	const R = "C11/R4"
	site := p.pos(fn.Pos())
	// (a) exact iff within the applicable limit: evaluate the dispatch condition's table
	start := c11AfterRanking(fn)
	if start != nil {
		stop := map[*ssa.BasicBlock]bool{}
		for _, b := range fn.Blocks {
			if !start.Dominates(b) {
				stop[b] = true
			}
		}
		hypT := p.Named("internal/stats", "LocationHypothesis")
		var altParam *ssa.Parameter
		for _, prm := range fn.Params {
			if hypT != nil && types.Identical(prm.Type(), hypT) {
				altParam = prm
			}
		}
		less, _ := p.Obj("internal/stats", "LocationLess").(*types.Const)
		init := map[ssa.Value]*Sym{}
		eachInstr(fn, func(b *ssa.BasicBlock, in ssa.Instruction) {
			if call, ok := in.(*ssa.Call); ok && b == fn.Blocks[0] {
				if bi, ok := call.Call.Value.(*ssa.Builtin); ok && bi.Name() == "len" {
					if call.Call.Args[0] == fn.Params[0] {
						init[call] = &Sym{Op: "opaque", Name: "N1", Type: call.Type()}
					}
					if call.Call.Args[0] == fn.Params[1] {
						init[call] = &Sym{Op: "opaque", Name: "N2", Type: call.Type()}
					}
				}
			}
		})
		if altParam != nil && less != nil {
			init[altParam] = symConst(less.Val(), altParam.Type())
		}
		outs, why := e6Enumerate(func() *e6Interp {
			return &e6Interp{Init: init, PureCall: func(f *types.Func) bool { return true }}
		}, start, nil, stop, 4096)
		if why != "" {
			c.Undecided(R, "dispatch:table", site, why)
		} else {
			n := 0
			for _, o := range outs {
				var ties *bool
				within := map[string]*bool{}
				for _, k := range o.AtomKeys() {
					v := o.Assign[k]
					_ = v
					s := o.AtomSyms[k]
					vv := v
					str := s.String()
					switch {
					case s.Op == "opaque" || (s.Op == "phi-unknown"):
						if isBoolT(s.Type) {
							ties = &vv
						}
					case s.Op == "extract" && isBoolT(s.Type) && len(s.Args) == 1 && s.Args[0].Op == "call" && c11RankHelper(fn) != nil && strings.Contains(s.Args[0].Name, "."+c11RankHelper(fn).Name()):
						// the tie flag returned by the ranking helper
						ties = &vv
					case s.Op == "binop" && s.Tok == token.LEQ && strings.Contains(str, "Limit"):
						// n <= limit
						side := "1"
						if strings.Contains(s.Args[0].String(), "N2") || strings.Contains(s.Args[0].String(), "x2") {
							side = "2"
						}
						lim := "plain"
						if strings.Contains(str, "TiesExactLimit") {
							lim = "ties"
						}
						within[lim+side] = &vv
					}
				}
				if os.Getenv("PERFCHECK_DEBUG") != "" {
					fmt.Fprintln(os.Stderr, "DISPATCH", o.Term, o.AssignStr())
				}
				if ties == nil {
					continue
				}
				usesExact := false
				for _, a := range o.Actions {
					_ = a
				}
				if o.Term == "return" && len(o.Results) == 2 {
					if o.Results[1].isConst() && o.Results[1].IsNil {
						pS := o.Mem[(&Sym{Op: "fieldaddr", Args: []*Sym{o.Results[0]}, Name: "P"}).String()]
						usesExact = pS != nil && strings.Contains(pS.String(), "UDist")
					} else {
						// error returns: ErrSamplesEqual from the exact branch mentions len(T)==1 atom
						usesExact = strings.Contains(o.AssignStr(), "len(") && strings.Contains(o.AssignStr(), "== 1")
					}
				}
				lim := "plain"
				if *ties {
					lim = "ties"
				}
				w1, w2 := within[lim+"1"], within[lim+"2"]
				want := w1 != nil && *w1 && w2 != nil && *w2
				// short-circuit: an unconsulted side means the first already failed
				if w1 != nil && !*w1 {
					want = false
				}
				n++
				key := fmt.Sprintf("dispatch[ties=%v n1<=limit=%s n2<=limit=%s]", *ties, boolPtrStr(w1), boolPtrStr(w2))
				c.Check(usesExact == want, R, key, site, fmt.Sprintf("exact=%v", usesExact), fmt.Sprintf("the exact distribution is used=%v where the rule (both sizes within the %s limit) says %v: an unbalanced or large sample takes the wrong method", usesExact, lim, want))
			}
			c.Floor(R, "dispatch cases", n, 4)
		}
	}
	// (b) tie flag: the assignment hasTies = true is controlled only by the group size test, and T always reaches UDist
	nFlag := 0
	flagFn := fn
	if h := c11RankHelper(fn); h != nil {
		flagFn = h
	}
	for _, b := range flagFn.Blocks {
		for _, in := range b.Instrs {
			phi, ok := in.(*ssa.Phi)
			if !ok || !isBoolT(phi.Type()) || phi.Comment != "hasTies" {
				continue
			}
			for i, e := range phi.Edges {
				k, ok := e.(*ssa.Const)
				if !ok || k.Value == nil || !constant.BoolVal(k.Value) {
					continue
				}
				nFlag++
				pred := b.Preds[i]
				// facts at pred: must contain only the (i > rank1) test from this outer iteration
				var conds []string
				clean := true
				for _, f := range factsAt(pred) {
					bo, ok := f.Cond.(*ssa.BinOp)
					if !ok {
						continue
					}
					if !pred.Parent().Blocks[0].Dominates(f.If.Block()) {
						continue
					}
					// facts from inside the same outer iteration: those whose If block is dominated by the outer loop body
					if k, isK := constInt(bo.Y); isK && k == 0 && bo.Op == token.NEQ {
						// nx1 != 0
						clean = false
						conds = append(conds, "nx1 != 0")
					}
				}
				c.Check(clean, R, fmt.Sprintf("ties:flag-set#%d", nFlag), site, "ties are flagged for any rank group with more than one member", fmt.Sprintf("ties are only flagged under %v: a tie confined to the second sample is ignored and the tie-free distribution is used", conds))
			}
		}
	}
	c.Floor(R, "assignments of the tie flag", nFlag, 1)
	// T stored into UDist unconditionally w.r.t. hasTies
	tF := p.Field("internal/stats", "UDist", "T")
	okT := false
	for _, st := range storesToField(fn, tF) {
		guarded := false
		for _, f := range factsAt(st.Block()) {
			if ph, ok := f.Cond.(*ssa.Phi); ok && ph.Comment == "hasTies" {
				// the dispatch itself tests hasTies on one arm; a store guarded *only* on the hasTies=true arm loses T otherwise.
				_ = ph
			}
		}
		_ = guarded
		okT = true
	}
	nStores := len(storesToField(fn, tF))
	c.Check(okT && nStores == 1, R, "ties:vector-reaches-distribution", site, "the tie vector is passed to the exact distribution in its single construction", fmt.Sprintf("the exact distribution is constructed %d times / without the tie vector on some path", nStores))
}

func c11Wrappers(c *Ctx, p *Prog) {
	const R = "C11/R6"
	n := 0
	for _, name := range []string{"UTest", "TTest"} {
		fn := p.Fn("benchstat", name)
		if fn == nil {
			c.Undecided(R, "anchor:benchstat."+name, "", "not found")
			continue
		}
		n++
		site := p.pos(fn.Pos())
		var test *ssa.Call
		eachInstr(fn, func(_ *ssa.BasicBlock, in ssa.Instruction) {
			if call, ok := in.(*ssa.Call); ok {
				if co := calleeObj(&call.Call); co != nil && co.Pkg() != nil && co.Pkg().Path() == istatsPkg && strings.HasSuffix(co.Name(), "Test") {
					test = call
				}
			}
		})
		if test == nil {
			c.Undecided(R, name+":test", site, "no statistical test called")
			continue
		}
		ev, used := errorUse(test)
		okErr, okP := false, false
		for _, b := range fn.Blocks {
			ret, ok := b.Instrs[len(b.Instrs)-1].(*ssa.Return)
			if !ok {
				continue
			}
			r0, r1 := retVal(ret, 0), retVal(ret, 1)
			if errEdgeOf(test, b) {
				// (-1, convertErr(err))
				if k, ok := r0.(*ssa.Const); ok && k.Value != nil && constant.Sign(constant.ToFloat(k.Value)) < 0 {
					if call, ok := r1.(*ssa.Call); ok && len(call.Call.Args) == 1 && call.Call.Args[0] == ev {
						okErr = true
					}
					if r1 == ev {
						okErr = true
					}
				}
			} else if k, ok := r1.(*ssa.Const); ok && k.IsNil() {
				if f, _ := loadOfField(r0); f != nil && f.Name() == "P" {
					okP = true
				}
			}
		}
		c.Check(used && okErr && okP, R, name, site, "errors are returned (converted) with p=-1; otherwise the test's P", fmt.Sprintf("the wrapper does not pass the test's outcome through (error returned with -1: %v, P returned on success: %v)", okErr, okP))
		// argument order old, new
		a0, a1 := test.Call.Args[0], test.Call.Args[1]
		from := func(v ssa.Value, prm *ssa.Parameter) bool {
			for _, r := range rootsOf(v) {
				if r.Kind == rkParam && r.Val == prm {
					return true
				}
			}
			// struct literal holding a slice loaded from the parameter
			if la := loadAddr(v); la != nil {
				if al, ok := la.(*ssa.Alloc); ok {
					for _, st := range storesInto(al) {
						for _, r := range rootsOf(st.Val) {
							if r.Kind == rkParam && r.Val == prm {
								return true
							}
						}
					}
				}
			}
			return false
		}
		c.Check(from(a0, fn.Params[0]) && from(a1, fn.Params[1]), R, name+":argument-order", site, "the test receives (old, new)", "the test does not receive the old sample first and the new sample second")
	}
	c.Floor(R, "legacy test wrappers", n, 2)
}

// symInterval bounds a float expression: CDF values are in [0,1]; min(x, 1-x) <= 1/2.
func symInterval(s *Sym) (lo, hi *big.Rat, ok bool) {
	name := s.Name
	if i := strings.Index(name, "@"); i >= 0 {
		name = name[:i]
	}
	switch s.Op {
	case "const":
		if s.Const != nil {
			r := new(big.Rat)
			if _, ok := r.SetString(constant.ToFloat(s.Const).ExactString()); ok {
				return r, r, true
			}
		}
	case "convert":
		return symInterval(s.Args[0])
	case "call":
		switch {
		case strings.HasSuffix(name, ".CDF"):
			return rat(0, 1), rat(1, 1), true
		case name == "math.Min" || name == "math.Max":
			a, b := s.Args[0], s.Args[1]
			// min(x, 1-x)
			comp := func(x, y *Sym) bool {
				return y.Op == "binop" && y.Tok == token.SUB && y.Args[0].isConst() && y.Args[0].Const != nil && y.Args[0].Const.String() == "1" && y.Args[1].String() == x.String()
			}
			if comp(a, b) || comp(b, a) {
				l, h, ok := symInterval(a)
				if ok && l.Sign() >= 0 && h.Cmp(rat(1, 1)) <= 0 {
					if name == "math.Min" {
						return rat(0, 1), rat(1, 2), true
					}
					return rat(1, 2), rat(1, 1), true
				}
			}
			l1, h1, ok1 := symInterval(a)
			l2, h2, ok2 := symInterval(b)
			if !ok1 || !ok2 {
				return nil, nil, false
			}
			pick := func(x, y *big.Rat, min bool) *big.Rat {
				if (x.Cmp(y) <= 0) == min {
					return x
				}
				return y
			}
			if name == "math.Min" {
				return pick(l1, l2, true), pick(h1, h2, true), true
			}
			return pick(l1, l2, false), pick(h1, h2, false), true
		}
	case "binop":
		l1, h1, ok1 := symInterval(s.Args[0])
		l2, h2, ok2 := symInterval(s.Args[1])
		if !ok1 || !ok2 {
			return nil, nil, false
		}
		switch s.Tok {
		case token.ADD:
			return rAdd(l1, l2), rAdd(h1, h2), true
		case token.SUB:
			return rSub(l1, h2), rSub(h1, l2), true
		case token.MUL:
			c := []*big.Rat{rMul(l1, l2), rMul(l1, h2), rMul(h1, l2), rMul(h1, h2)}
			lo, hi := c[0], c[0]
			for _, x := range c {
				if x.Cmp(lo) < 0 {
					lo = x
				}
				if x.Cmp(hi) > 0 {
					hi = x
				}
			}
			return lo, hi, true
		}
	}
	return nil, nil, false
}

// c11Dist checks the exact distribution's counting code (C11/R7).
func c11Dist(c *Ctx, p *Prog) {
	const R = "C11/R7"
	// (a) integer quotients: Go's integer division truncates toward zero, so a quotient used as an upper bound is the
	// floor only for a non-negative dividend; every integer division in the memo-table code must have its dividend
	// proven non-negative by a dominating comparison (or be a division of two lengths/constants).
	nDiv := 0
	var distFns []*ssa.Function
	for _, name := range []string{"makeUmemo", "twoUmin", "twoUmax"} {
		fn := p.Fn("internal/stats", name)
		if fn == nil {
			c.Undecided(R, "anchor:"+name, "", "function not found")
			continue
		}
		distFns = append(distFns, fn)
	}
	// helpers that exist only for these functions (every caller is already in the set) belong to the counting code
	for changed := true; changed; {
		changed = false
		inSet := map[*ssa.Function]bool{}
		for _, f := range distFns {
			inSet[f] = true
		}
		callers := map[*ssa.Function][]*ssa.Function{}
		for _, g := range p.Funcs("internal/stats") {
			eachInstr(g, func(_ *ssa.BasicBlock, in ssa.Instruction) {
				if ci, ok := in.(ssa.CallInstruction); ok {
					if sc := ci.Common().StaticCallee(); sc != nil && sc.Pkg == g.Pkg && sc.Blocks != nil {
						callers[sc] = append(callers[sc], g)
					}
				}
			})
		}
		for f, cs := range callers {
			if inSet[f] {
				continue
			}
			all := len(cs) > 0
			for _, g := range cs {
				if !inSet[g] {
					all = false
				}
			}
			if all {
				distFns = append(distFns, f)
				changed = true
			}
		}
	}
	sort.Slice(distFns, func(i, j int) bool { return distFns[i].Name() < distFns[j].Name() })
	for _, fn := range distFns {
		name := fn.Name()
		eachInstr(fn, func(b *ssa.BasicBlock, in ssa.Instruction) {
			bo, ok := in.(*ssa.BinOp)
			if !ok || bo.Op != token.QUO || !isInteger(bo.Type()) {
				return
			}
			nDiv++
			site := p.pos(bo.Pos())
			guarded := false
			for _, f := range factsAt(b) {
				cmp, ok := f.Cond.(*ssa.BinOp)
				if !ok {
					continue
				}
				zeroR := func(v ssa.Value) bool { k, ok := constInt(v); return ok && k == 0 }
				switch {
				case cmp.Op == token.LSS && sameValue(cmp.X, bo.X) && zeroR(cmp.Y) && !f.True, // !(x < 0)
					cmp.Op == token.GEQ && sameValue(cmp.X, bo.X) && zeroR(cmp.Y) && f.True,  // x >= 0
					cmp.Op == token.LEQ && zeroR(cmp.X) && sameValue(cmp.Y, bo.X) && f.True,  // 0 <= x
					cmp.Op == token.GTR && zeroR(cmp.X) && sameValue(cmp.Y, bo.X) && !f.True: // !(0 > x)
					guarded = true
				}
			}
			c.Check(guarded, R, fmt.Sprintf("quotient:%s#%d", name, nDiv), site,
				"the dividend is tested non-negative on every path to the division",
				"integer division of a dividend that can be negative: Go truncates toward zero, so for a U below the smallest attainable value the bound becomes 0 instead of -1 and assignments are counted below the support (CDF positive below the minimum)")
		})
	}
	c.Floor(R, "integer divisions in the tie-aware counting code", nDiv, 1)
	c11PMF(c, p)
	c11Choose(c, p)
}

// c11PMF: the untied mass function is p(k)[k] with k = floor(U) or, by the symmetry of the untied distribution, its
// mirror image n1n2 - floor(U) (the CDF's mirroring n1n2 - floor(U) - 1 belongs to a cumulative sum and is off by one here).
func c11PMF(c *Ctx, p *Prog) {
	const R = "C11/R7"
	fn := p.Method("internal/stats", "UDist", "PMF")
	if fn == nil {
		c.Undecided(R, "anchor:UDist.PMF", "", "not found")
		return
	}
	site := p.pos(fn.Pos())
	mk := func() *e6Interp { return &e6Interp{PureCall: func(f *types.Func) bool { return true }} }
	outs, why := e6Enumerate(mk, fn.Blocks[0], nil, nil, 256)
	if why != "" {
		c.Undecided(R, "PMF:untied-index", site, why)
		return
	}
	leaf := func(s *Sym) string {
		str := s.String()
		switch {
		case strings.Contains(str, "math.Floor") && (s.Op == "convert" || s.Op == "call"):
			return "ui"
		case s.Op == "field" && s.Name == "N1":
			return "n1"
		case s.Op == "field" && s.Name == "N2":
			return "n2"
		}
		return ""
	}
	pts := []map[string]*big.Rat{{"ui": rat(3, 1), "n1": rat(4, 1), "n2": rat(5, 1)}, {"ui": rat(17, 1), "n1": rat(4, 1), "n2": rat(5, 1)}, {"ui": rat(10, 1), "n1": rat(3, 1), "n2": rat(7, 1)}}
	n := 0
	for _, o := range outs {
		if o.Term != "return" || len(o.Results) != 1 {
			continue
		}
		res := o.Results[0]
		// index(call p(d, A), B) in either representation
		var call, idx *Sym
		res.Walk(func(s *Sym) {
			if call != nil {
				return
			}
			if (s.Op == "index" || s.Op == "load") && strings.Contains(s.String(), "UDist).p(") {
				var arr *Sym
				switch {
				case s.Op == "index" && len(s.Args) == 2:
					arr, idx = s.Args[0], s.Args[1]
				case s.Op == "load" && s.Args[0].Op == "indexaddr":
					arr, idx = s.Args[0].Args[0], s.Args[0].Args[1]
				}
				if arr != nil && arr.Op == "call" {
					call = arr
				}
			}
		})
		if call == nil || idx == nil {
			continue
		}
		n++
		arg := call.Args[len(call.Args)-1]
		key := fmt.Sprintf("PMF:untied-index#%d", n)
		same := arg.String() == idx.String()
		okDirect, _ := e7Equal(idx, func(g func(string) *big.Rat) *big.Rat { return g("ui") }, pts, leaf)
		okMirror, _ := e7Equal(idx, func(g func(string) *big.Rat) *big.Rat { return rSub(rMul(g("n1"), g("n2")), g("ui")) }, pts, leaf)
		c.Check(same && (okDirect || okMirror), R, key, site, "the mass at floor(U) is read from the table built up to that index",
			fmt.Sprintf("the untied mass function reads entry %s of the table p(%s), which is neither floor(U) nor its mirror image n1n2 - floor(U): the masses are shifted by one in part of the support, no longer sum to 1 and no longer accumulate to the CDF (%s)", truncate(idx.String(), 120), truncate(arg.String(), 120), truncate(o.AssignStr(), 200)))
	}
	c.Floor(R, "untied mass-function returns", n, 1)
}

// c11Choose: the exact integer product in the binomial coefficient needs n itself bounded: n(n-1)...(n-k+1) <= n! fits
// int64 only for n <= 20, whatever k is.
func c11Choose(c *Ctx, p *Prog) {
	const R = "C11/R8"
	fn := p.Fn("internal/stats", "mathChoose")
	if fn == nil {
		c.Undecided(R, "anchor:mathChoose", "", "not found")
		return
	}
	nParam := fn.Params[0]
	n := 0
	// the product may sit in a helper that mathChoose calls with its own n: then the bound must hold at the call
	eachInstr(fn, func(b *ssa.BasicBlock, in ssa.Instruction) {
		call, ok := in.(*ssa.Call)
		if !ok {
			return
		}
		h := call.Call.StaticCallee()
		if h == nil || h.Pkg != fn.Pkg || h.Blocks == nil || len(call.Call.Args) == 0 || call.Call.Args[0] != ssa.Value(nParam) {
			return
		}
		hasProd := false
		for _, lp := range naturalLoops(h) {
			for hb := range lp.Blocks {
				for _, hin := range hb.Instrs {
					if bo, ok := hin.(*ssa.BinOp); ok && bo.Op == token.MUL && isInteger(bo.Type()) {
						hasProd = true
					}
				}
			}
		}
		if !hasProd {
			return
		}
		n++
		bounded := false
		for _, f := range factsAt(b) {
			cmp, ok := f.Cond.(*ssa.BinOp)
			if !ok {
				continue
			}
			x, y := stripConvInt(cmp.X), stripConvInt(cmp.Y)
			ky, oky := constInt(y)
			kx, okx := constInt(x)
			switch {
			case x == ssa.Value(nParam) && oky && ((cmp.Op == token.LEQ && f.True && ky <= 20) || (cmp.Op == token.LSS && f.True && ky <= 21) || (cmp.Op == token.GTR && !f.True && ky <= 20) || (cmp.Op == token.GEQ && !f.True && ky <= 21)):
				bounded = true
			case y == ssa.Value(nParam) && okx && ((cmp.Op == token.GEQ && f.True && kx <= 20) || (cmp.Op == token.GTR && f.True && kx <= 21) || (cmp.Op == token.LSS && !f.True && kx <= 20) || (cmp.Op == token.LEQ && !f.True && kx <= 21)):
				bounded = true
			}
		}
		c.Check(bounded, R, fmt.Sprintf("mathChoose:product#%d", n), p.pos(call.Pos()), "the integer product (in "+h.Name()+") runs only for n <= 20",
			"the exact integer product n(n-1)...(n-k+1) is not guarded by n <= 20 (20! is the largest factorial below 2^63): for pooled sizes above 20 the product overflows int64 and the tie-aware counts, hence exact p-values, are garbage (even negative)")
	})
	for _, lp := range naturalLoops(fn) {
		for b := range lp.Blocks {
			for _, in := range b.Instrs {
				bo, ok := in.(*ssa.BinOp)
				if !ok || bo.Op != token.MUL || !isInteger(bo.Type()) {
					continue
				}
				n++
				bounded := false
				for _, f := range factsAt(lp.Header) {
					cmp, ok := f.Cond.(*ssa.BinOp)
					if !ok {
						continue
					}
					x, y := stripConvInt(cmp.X), stripConvInt(cmp.Y)
					ky, oky := constInt(y)
					kx, okx := constInt(x)
					switch {
					case x == nParam && oky && ((cmp.Op == token.LEQ && f.True && ky <= 20) || (cmp.Op == token.LSS && f.True && ky <= 21) || (cmp.Op == token.GTR && !f.True && ky <= 20) || (cmp.Op == token.GEQ && !f.True && ky <= 21)):
						bounded = true
					case y == nParam && okx && ((cmp.Op == token.GEQ && f.True && kx <= 20) || (cmp.Op == token.GTR && f.True && kx <= 21) || (cmp.Op == token.LSS && !f.True && kx <= 20) || (cmp.Op == token.LEQ && !f.True && kx <= 21)):
						bounded = true
					}
				}
				c.Check(bounded, R, fmt.Sprintf("mathChoose:product#%d", n), p.pos(bo.Pos()), "the integer product runs only for n <= 20",
					"the exact integer product n(n-1)...(n-k+1) is not guarded by n <= 20 (20! is the largest factorial below 2^63): for pooled sizes above 20 the product overflows int64 and the tie-aware counts, hence exact p-values, are garbage (even negative)")
			}
		}
	}
	c.Floor(R, "integer products in mathChoose", n, 1)
	// boundary values, evaluated on constant arguments: C(n,k) = 0 outside 0 <= k <= n and 1 at both ends. The tie-aware
	// counting sums products of coefficients over index ranges that step outside the triangle and relies on the zeros.
	nb := 0
	for _, tc := range []struct{ n, k, want int64 }{{5, -1, 0}, {3, 5, 0}, {0, 1, 0}, {0, -1, 0}, {5, 0, 1}, {5, 5, 1}, {0, 0, 1}, {30, -2, 0}, {30, 31, 0}, {30, 0, 1}, {30, 30, 1}} {
		init := map[ssa.Value]*Sym{
			fn.Params[0]: symConst(constant.MakeInt64(tc.n), fn.Params[0].Type()),
			fn.Params[1]: symConst(constant.MakeInt64(tc.k), fn.Params[1].Type()),
		}
		outs, why := e6Enumerate(func() *e6Interp {
			return &e6Interp{Init: init, PureCall: func(f *types.Func) bool { return true }}
		}, fn.Blocks[0], nil, nil, 64)
		key := fmt.Sprintf("mathChoose(%d,%d)", tc.n, tc.k)
		site := p.pos(fn.Pos())
		if why != "" || len(outs) != 1 {
			c.Undecided(R, key, site, fmt.Sprintf("boundary value not decided by constant evaluation (%s, %d paths)", why, len(outs)))
			continue
		}
		o := outs[0]
		nb++
		if o.Term != "return" || len(o.Results) != 1 || !o.Results[0].isConst() || o.Results[0].Const == nil {
			c.Bad(R, key, site, fmt.Sprintf("C(%d,%d) is not returned as a constant on the boundary path (documented value %d)", tc.n, tc.k, tc.want))
			continue
		}
		got, _ := constant.Float64Val(o.Results[0].Const)
		c.Check(got == float64(tc.want), R, key, site, fmt.Sprintf("= %d", tc.want), fmt.Sprintf("C(%d,%d) is returned as %g, the binomial coefficient is %d: the tie-aware counting sums coefficients over ranges that leave the triangle and relies on them being zero, so exact tied p-values change", tc.n, tc.k, got, tc.want))
	}
	c.Floor(R, "boundary values of mathChoose", nb, 11)
}

func stripConvInt(v ssa.Value) ssa.Value {
	for {
		switch x := v.(type) {
		case *ssa.Convert:
			v = x.X
			continue
		case *ssa.ChangeType:
			v = x.X
			continue
		}
		return v
	}
}

// c11Hygiene (C11/R9).
func c11Hygiene(c *Ctx, p *Prog) {
	const R = "C11/R9"
	var fns []*ssa.Function
	for _, fn := range p.Funcs("internal/stats") {
		pos := p.Fset.Position(fn.Pos()).Filename
		if strings.HasSuffix(pos, "udist.go") || strings.HasSuffix(pos, "utest.go") {
			fns = append(fns, fn)
		}
	}
	nMM, nTab := 0, 0
	for _, fn := range fns {
		k := 0
		eachInstr(fn, func(_ *ssa.BasicBlock, in ssa.Instruction) {
			switch x := in.(type) {
			case *ssa.Call:
				bi, ok := x.Call.Value.(*ssa.Builtin)
				if !ok || (bi.Name() != "min" && bi.Name() != "max") || len(x.Call.Args) < 2 {
					return
				}
				nMM++
				k++
				allSame := true
				for _, a := range x.Call.Args[1:] {
					if !sameValue(a, x.Call.Args[0]) {
						allSame = false
					}
				}
				c.Check(!allSame, R, fmt.Sprintf("%s:%s#%d", fnName(fn), bi.Name(), k), p.pos(x.Pos()), "operands differ", bi.Name()+" is taken over one and the same operand: where the two sample sizes are normalised into (smaller, larger) one of them is lost, so for n1 > n2 the distribution is computed for the wrong sizes")
			case *ssa.BinOp:
				if x.Op != token.ADD && x.Op != token.MUL {
					return
				}
				if !isInteger(x.Type()) {
					return
				}
				// both operands (or one) loaded from an element of an integer table that this function also writes
				fromTable := func(v ssa.Value) ssa.Value {
					ld, ok := v.(*ssa.UnOp)
					if !ok || ld.Op != token.MUL {
						return nil
					}
					ia, ok := ld.X.(*ssa.IndexAddr)
					if !ok {
						return nil
					}
					if sl, ok := ia.X.Type().Underlying().(*types.Slice); !ok || !isInteger(sl.Elem()) {
						return nil
					}
					return ia.X
				}
				// through a phi that merges a table entry with a constant (l := 0; if ... { l = lp[i] })
				viaPhi := func(v ssa.Value) ssa.Value {
					if t := fromTable(v); t != nil {
						return t
					}
					if ph, ok := v.(*ssa.Phi); ok {
						for _, e := range ph.Edges {
							if t := fromTable(e); t != nil {
								return t
							}
						}
					}
					return nil
				}
				// a table made in this function (possibly a row of a table of tables made here)
				var local func(v ssa.Value, d int) bool
				local = func(v ssa.Value, d int) bool {
					if v == nil || d > 6 {
						return false
					}
					switch y := v.(type) {
					case *ssa.MakeSlice:
						return true
					case *ssa.Slice:
						return local(y.X, d+1)
					case *ssa.UnOp:
						if ia, ok := y.X.(*ssa.IndexAddr); ok && y.Op == token.MUL {
							return local(ia.X, d+1)
						}
					case *ssa.Phi:
						for _, e := range y.Edges {
							if e != v && local(e, d+1) {
								return true
							}
						}
					}
					return false
				}
				tx, ty := viaPhi(x.X), viaPhi(x.Y)
				if !(local(tx, 0) && local(ty, 0)) {
					return
				}
				// is the sum stored back into an integer table element?
				stored := false
				for _, r := range *x.Referrers() {
					if st, ok := r.(*ssa.Store); ok {
						if ia, ok := st.Addr.(*ssa.IndexAddr); ok {
							if sl, ok := ia.X.Type().Underlying().(*types.Slice); ok && isInteger(sl.Elem()) {
								stored = true
							}
						}
					}
				}
				if !stored {
					return
				}
				nTab++
				c.Bad(R, fmt.Sprintf("%s:integer-recurrence#%d", fnName(fn), nTab), p.pos(x.Pos()), "a table of integers is filled by adding or multiplying its own entries: arrangement counts grow like C(n1+n2, n1), which passes 2^64 for two untied samples of about 35 values each — well inside the exact limit — so the counts wrap and p-values near the centre come out wrong by orders of magnitude")
			}
		})
	}
	c.OK(R, "hygiene:scan", "", fmt.Sprintf("%d functions of the exact test, %d min/max calls, %d integer table recurrences", len(fns), nMM, nTab))
	c.Floor(R, "functions of the exact test scanned", len(fns), 8)
}

// c11AfterRanking: the first block after the ranking loops that every successful return of the test passes.
func c11AfterRanking(fn *ssa.Function) *ssa.BasicBlock {
	var start *ssa.BasicBlock
	{
		loops := naturalLoops(fn)
		inLoop := func(b *ssa.BasicBlock) bool {
			for _, l := range loops {
				if l.Blocks[b] {
					return true
				}
			}
			return false
		}
		var okRets []*ssa.BasicBlock
		for _, b := range fn.Blocks {
			if ret, ok := b.Instrs[len(b.Instrs)-1].(*ssa.Return); ok && len(ret.Results) == 2 {
				if k, ok := ret.Results[1].(*ssa.Const); ok && k.IsNil() {
					okRets = append(okRets, b)
				}
			}
		}
		var cands []*ssa.BasicBlock
		for _, b := range fn.Blocks {
			if inLoop(b) {
				continue
			}
			all := len(okRets) > 0
			for _, r := range okRets {
				if !(b == r || b.Dominates(r)) {
					all = false
				}
			}
			// after the loops: every loop header reaches it
			for _, l := range loops {
				if !reachFrom(l.Header, nil)[b] {
					all = false
				}
			}
			if all {
				cands = append(cands, b)
			}
		}
		for _, b := range cands {
			first := true
			for _, o := range cands {
				if o != b && o.Dominates(b) {
					first = false
				}
			}
			if first {
				start = b
			}
		}
	}
	return start
}

// c11RankHelper: when the ranking loop was moved out of the test into a function of the package, that function: it is
// called by fn and returns the rank sum (a float64), the tie vector and the tie flag (a bool).
func c11RankHelper(fn *ssa.Function) *ssa.Function {
	var h *ssa.Function
	eachInstr(fn, func(_ *ssa.BasicBlock, in ssa.Instruction) {
		call, ok := in.(*ssa.Call)
		if !ok {
			return
		}
		sc := call.Call.StaticCallee()
		if sc == nil || sc.Blocks == nil || sc.Pkg != fn.Pkg || sc.Signature.Results().Len() < 2 || len(naturalLoops(sc)) == 0 {
			return
		}
		hasF, hasB := false, false
		for i := 0; i < sc.Signature.Results().Len(); i++ {
			t := sc.Signature.Results().At(i).Type()
			hasF = hasF || isFloat(t)
			hasB = hasB || isBoolean(t)
		}
		if hasF && hasB {
			h = sc
		}
	})
	return h
}
