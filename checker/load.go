// load.go: E1 — loading /repo's current working tree, building SSA, lookups.
package main

import (
	"fmt"
	"go/ast"
	"go/token"
	"go/types"
	"os"
	"sort"
	"strings"

	"golang.org/x/tools/go/callgraph"
	"golang.org/x/tools/go/callgraph/cha"
	"golang.org/x/tools/go/callgraph/vta"
	"golang.org/x/tools/go/packages"
	"golang.org/x/tools/go/ssa"
	"golang.org/x/tools/go/ssa/ssautil"
)

type Prog struct {
	c     *Ctx
	Fset  *token.FileSet
	Pkgs  []*packages.Package          // initial packages
	byRel map[string]*packages.Package // "benchfmt" -> package
	all   map[string]*packages.Package // by import path, including deps when loaded with allSyntax
	SSA   *ssa.Program
	deep  bool
	dyn   map[ssa.CallInstruction][]*ssa.Function // VTA-resolved callees of dynamic call sites (deep loads only)
}

// DynCallees resolves a dynamic call site (interface method or function value) with the VTA call graph
// (CHA refined by variable-type analysis). Only available for deep loads; ok=false otherwise.
func (p *Prog) DynCallees(site ssa.CallInstruction) ([]*ssa.Function, bool) {
	if !p.deep {
		return nil, false
	}
	if p.dyn == nil {
		p.dyn = map[ssa.CallInstruction][]*ssa.Function{}
		cg := vta.CallGraph(ssautil.AllFunctions(p.SSA), cha.CallGraph(p.SSA))
		callgraph.GraphVisitEdges(cg, func(e *callgraph.Edge) error {
			if e.Site != nil && e.Site.Common().StaticCallee() == nil {
				p.dyn[e.Site] = append(p.dyn[e.Site], e.Callee.Func)
			}
			return nil
		})
		for k, v := range p.dyn {
			sort.Slice(v, func(i, j int) bool { return v[i].String() < v[j].String() })
			p.dyn[k] = v
		}
	}
	return p.dyn[site], true
}

type loadOpts struct {
	deep bool     // LoadAllSyntax: dependencies from source (needed for call graphs through the standard library)
	tags string   // -tags value
	env  []string // extra environment (GOOS=..., GOARCH=...)
	dir  string   // load from this directory instead of the repository (checker's own positive controls)
}

// load type-checks patterns (relative to the module, e.g. "./benchfmt") in
// c.RepoDir and builds SSA. Any load or type error is fatal for the check.
func load(c *Ctx, o loadOpts, patterns ...string) (*Prog, error) {
	mode := packages.NeedName | packages.NeedFiles | packages.NeedCompiledGoFiles | packages.NeedImports |
		packages.NeedTypes | packages.NeedTypesSizes | packages.NeedSyntax | packages.NeedTypesInfo | packages.NeedDeps | packages.NeedModule
	env := append(os.Environ(), "GOFLAGS=-mod=mod", "GOPROXY=off", "GOSUMDB=off", "GOTOOLCHAIN=local", "GOWORK=off")
	env = append(env, o.env...)
	dir := c.RepoDir
	if o.dir != "" {
		dir = o.dir
	}
	cfg := &packages.Config{Mode: mode, Dir: dir, Env: env, Tests: false, Fset: token.NewFileSet()}
	if o.tags != "" {
		cfg.BuildFlags = []string{"-tags=" + o.tags}
	}
	if !o.deep {
		// Dependencies come from export data: only the named packages get syntax.
		cfg.Mode &^= packages.NeedDeps
	}
	pkgs, err := packages.Load(cfg, patterns...)
	if err != nil {
		return nil, fmt.Errorf("packages.Load: %v", err)
	}
	if len(pkgs) == 0 {
		return nil, fmt.Errorf("no packages matched %v in %s", patterns, dir)
	}
	p := &Prog{c: c, Fset: cfg.Fset, Pkgs: pkgs, byRel: map[string]*packages.Package{}, all: map[string]*packages.Package{}, deep: o.deep}
	nerr := 0
	packages.Visit(pkgs, nil, func(pk *packages.Package) {
		p.all[pk.PkgPath] = pk
		if strings.HasPrefix(pk.PkgPath, modPath) {
			for _, e := range pk.Errors {
				fmt.Fprintf(os.Stderr, "load error: %s: %v\n", pk.PkgPath, e)
				nerr++
			}
		}
	})
	if nerr > 0 {
		return nil, fmt.Errorf("%d load/type errors in %s packages", nerr, modPath)
	}
	for _, pk := range pkgs {
		if pk.IllTyped {
			return nil, fmt.Errorf("package %s is ill-typed in this configuration (a dependency did not load)", pk.PkgPath)
		}
		if pk.Types == nil || len(pk.Syntax) == 0 {
			return nil, fmt.Errorf("package %s has no syntax (build constraints exclude all files?)", pk.PkgPath)
		}
		rel := strings.TrimPrefix(strings.TrimPrefix(pk.PkgPath, modPath), "/")
		p.byRel[rel] = pk
		if o.dir == "" {
			c.loaded[pk.PkgPath] = true
		}
		for _, e := range pk.Errors {
			return nil, fmt.Errorf("%s: %v", pk.PkgPath, e)
		}
	}
	if o.dir != "" {
		prog, _ := ssautil.Packages(pkgs, 0)
		prog.Build()
		p.SSA = prog
		return p, nil
	}
	cfgName := "default"
	if o.tags != "" || len(o.env) > 0 {
		cfgName = strings.TrimSpace("tags=" + o.tags + " " + strings.Join(o.env, " "))
	}
	dup := false
	for _, s := range c.configs {
		dup = dup || s == cfgName
	}
	if !dup {
		c.configs = append(c.configs, cfgName)
	}
	var prog *ssa.Program
	bmode := ssa.BuilderMode(0)
	if o.deep {
		prog, _ = ssautil.AllPackages(pkgs, bmode)
	} else {
		prog, _ = ssautil.Packages(pkgs, bmode)
	}
	prog.Build()
	p.SSA = prog
	return p, nil
}

type loadSkip string

func mustLoad(c *Ctx, o loadOpts, patterns ...string) *Prog {
	if c.override != nil && o.dir == "" {
		if len(o.env) > 0 || o.tags != "" {
			// the check iterates build configurations itself; do not multiply them
			panic(loadSkip("check-specific configuration"))
		}
		o.env = append(o.env, c.override.env...)
		o.tags = c.override.tags
		p, err := load(c, o, patterns...)
		if err != nil {
			panic(loadSkip(err.Error()))
		}
		return p
	}
	p, err := load(c, o, patterns...)
	if err != nil {
		fmt.Fprintf(os.Stderr, "perfcheck: %s: cannot load %v: %v\n", c.Prop, patterns, err)
		os.Exit(2)
	}
	return p
}

func (p *Prog) Pkg(rel string) *packages.Package {
	if pk, ok := p.byRel[rel]; ok {
		return pk
	}
	if pk, ok := p.all[modPath+"/"+rel]; ok {
		return pk
	}
	if pk, ok := p.all[rel]; ok {
		return pk
	}
	fmt.Fprintf(os.Stderr, "perfcheck: package %q not loaded\n", rel)
	os.Exit(2)
	return nil
}

func (p *Prog) SSAPkg(rel string) *ssa.Package {
	if pk, ok := p.all[rel]; ok && p.byRel[rel] == nil && p.all[modPath+"/"+rel] == nil {
		return p.SSA.Package(pk.Types)
	}
	return p.SSA.Package(p.Pkg(rel).Types)
}

// HasPkg reports whether a package (by relative or full path) was loaded.
func (p *Prog) HasPkg(rel string) bool {
	_, a := p.byRel[rel]
	_, b := p.all[modPath+"/"+rel]
	_, c := p.all[rel]
	return a || b || c
}

// Obj looks up a package-level object; nil if absent.
func (p *Prog) Obj(rel, name string) types.Object {
	return p.Pkg(rel).Types.Scope().Lookup(name)
}

// Named returns the named type rel.name, or nil.
func (p *Prog) Named(rel, name string) *types.Named {
	o := p.Obj(rel, name)
	if o == nil {
		return nil
	}
	n, _ := o.Type().(*types.Named)
	return n
}

// Field returns the field object of struct type rel.typ, or nil.
func (p *Prog) Field(rel, typ, field string) *types.Var {
	n := p.Named(rel, typ)
	if n == nil {
		return nil
	}
	st, ok := n.Underlying().(*types.Struct)
	if !ok {
		return nil
	}
	for i := 0; i < st.NumFields(); i++ {
		if st.Field(i).Name() == field {
			return st.Field(i)
		}
	}
	return nil
}

// Fn returns the SSA function for a package-level function rel.name.
func (p *Prog) Fn(rel, name string) *ssa.Function {
	sp := p.SSAPkg(rel)
	if sp == nil {
		return nil
	}
	return sp.Func(name)
}

// Method returns the SSA function for method name on rel.typ (pointer or value receiver).
func (p *Prog) Method(rel, typ, name string) *ssa.Function {
	n := p.Named(rel, typ)
	if n == nil {
		return nil
	}
	for _, t := range []types.Type{n, types.NewPointer(n)} {
		ms := p.SSA.MethodSets.MethodSet(t)
		for i := 0; i < ms.Len(); i++ {
			if ms.At(i).Obj().Name() == name {
				fn := p.SSA.MethodValue(ms.At(i))
				if fn != nil && fn.Synthetic == "" {
					return fn
				}
				// wrapper: find the declared method
				if f, ok := ms.At(i).Obj().(*types.Func); ok {
					if d := p.SSA.FuncValue(f); d != nil {
						return d
					}
				}
			}
		}
	}
	return nil
}

// Body returns the function with a body that f denotes. In a shallow load a callee in another package of the module is an
// export-data stub; when that package is also loaded from source its declaration is found by package, receiver and name.
func (p *Prog) Body(f *ssa.Function) *ssa.Function {
	if f == nil || f.Blocks != nil {
		return f
	}
	obj, ok := f.Object().(*types.Func)
	if !ok || obj.Pkg() == nil || !strings.HasPrefix(obj.Pkg().Path(), modPath) {
		return f
	}
	rel := strings.TrimPrefix(strings.TrimPrefix(obj.Pkg().Path(), modPath), "/")
	if p.byRel[rel] == nil {
		return f
	}
	sig := obj.Type().(*types.Signature)
	var g *ssa.Function
	if sig.Recv() == nil {
		g = p.Fn(rel, obj.Name())
	} else {
		g = p.Method(rel, recvName(sig.Recv().Type()), obj.Name())
	}
	if g != nil && g.Blocks != nil {
		return g
	}
	return f
}

// CrossReach is staticReach that follows calls into other source-loaded packages of the module (see Body).
func (p *Prog) CrossReach(roots []*ssa.Function, pkgPrefixes ...string) []*ssa.Function {
	seen := map[*ssa.Function]bool{}
	var out []*ssa.Function
	work := append([]*ssa.Function(nil), roots...)
	for len(work) > 0 {
		var next []*ssa.Function
		for _, f := range staticReach(work, pkgPrefixes...) {
			if seen[f] {
				continue
			}
			seen[f] = true
			out = append(out, f)
			eachInstr(f, func(_ *ssa.BasicBlock, in ssa.Instruction) {
				if call, ok := in.(ssa.CallInstruction); ok {
					if sc := call.Common().StaticCallee(); sc != nil && sc.Blocks == nil {
						if g := p.Body(sc); g != sc && !seen[g] {
							next = append(next, g)
						}
					}
				}
			})
		}
		work = next
	}
	return out
}

// Funcs returns every source function (package functions, methods, closures) of
// the given packages, in a deterministic order.
func (p *Prog) Funcs(rels ...string) []*ssa.Function {
	var out []*ssa.Function
	var addAnon func(f *ssa.Function)
	addAnon = func(f *ssa.Function) {
		out = append(out, f)
		for _, a := range f.AnonFuncs {
			addAnon(a)
		}
	}
	for _, rel := range rels {
		sp := p.SSAPkg(rel)
		if sp == nil {
			continue
		}
		var names []string
		for n := range sp.Members {
			names = append(names, n)
		}
		sort.Strings(names)
		for _, n := range names {
			switch m := sp.Members[n].(type) {
			case *ssa.Function:
				if m.Synthetic == "" || m.Name() == "init" {
					addAnon(m)
				}
			case *ssa.Type:
				nt, ok := m.Type().(*types.Named)
				if !ok {
					continue
				}
				for i := 0; i < nt.NumMethods(); i++ {
					if f := p.SSA.FuncValue(nt.Method(i)); f != nil && f.Blocks != nil {
						addAnon(f)
					}
				}
			}
		}
	}
	for _, f := range out {
		p.c.Func(f.String())
	}
	return out
}

func (p *Prog) pos(pos token.Pos) string { return p.c.posStr(p.Fset, pos) }

// fnName gives a readable, position-free label for a function (closures are
// labelled parent$N as go/ssa names them).
func fnName(f *ssa.Function) string {
	if f == nil {
		return "<nil>"
	}
	s := f.String()
	s = strings.ReplaceAll(s, modPath+"/", "")
	return s
}

// instrPos finds a usable position for an instruction (some have NoPos).
func instrPos(in ssa.Instruction) token.Pos {
	if in.Pos().IsValid() {
		return in.Pos()
	}
	if v, ok := in.(ssa.Value); ok {
		if r := v.Referrers(); r != nil {
			for _, u := range *r {
				if u.Pos().IsValid() {
					return u.Pos()
				}
			}
		}
	}
	var ops []*ssa.Value
	for _, o := range in.Operands(ops) {
		if *o != nil && (*o).Pos().IsValid() {
			return (*o).Pos()
		}
	}
	if in.Parent() != nil {
		return in.Parent().Pos()
	}
	return token.NoPos
}

// declOf returns the *ast.FuncDecl / *ast.FuncLit node of fn.
func declOf(fn *ssa.Function) ast.Node { return fn.Syntax() }

// fileOf returns the syntax file containing pos in package pk.
func fileOf(pk *packages.Package, pos token.Pos) *ast.File {
	for _, f := range pk.Syntax {
		if f.Pos() <= pos && pos <= f.End() {
			return f
		}
	}
	return nil
}
