// effects.go: E4 (lite) — memory roots and per-function write summaries.
//
// rootsOf walks an address / pointer-like value back to where the object it
// denotes comes from: a parameter, a captured variable, a global, a fresh local
// allocation, an element delivered by a range statement, or a call result.
// summarize computes, bottom-up over static calls to a fixpoint, through which
// parameters / captured variables a function may write, whether it writes
// globals, and whether it produces output. Standard-library callees are
// covered by a small reviewed table; unknown dynamic callees are assumed to
// write every pointer-like argument and are recorded by name.
package main

import (
	"fmt"
	"go/token"
	"go/types"
	"sort"
	"strings"

	"golang.org/x/tools/go/ssa"
)

type rootKind int

const (
	rkParam rootKind = iota
	rkFree
	rkGlobal
	rkLocal // fresh allocation in this function
	rkRange // element produced by a range (Next)
	rkCall  // result of a call
	rkConst
	rkUnknown
)

type memRoot struct {
	Kind rootKind
	Idx  int       // parameter / free variable index
	Val  ssa.Value // the root value (Alloc, Next, Call, Global...)
}

func (r memRoot) String() string {
	switch r.Kind {
	case rkParam:
		return fmt.Sprintf("param#%d", r.Idx)
	case rkFree:
		return fmt.Sprintf("captured#%d(%s)", r.Idx, r.Val.Name())
	case rkGlobal:
		return "global " + r.Val.Name()
	case rkLocal:
		return "local " + r.Val.Name()
	case rkRange:
		return "range element"
	case rkCall:
		if c, ok := r.Val.(*ssa.Call); ok {
			return "result of " + calleeName(&c.Call)
		}
		return "call result"
	case rkConst:
		return "constant"
	}
	return "unknown"
}

// rootsOf returns the set of roots of v (an address or a pointer/map/slice value).
func rootsOf(v ssa.Value) []memRoot {
	seen := map[ssa.Value]bool{}
	var out []memRoot
	add := func(r memRoot) {
		for _, o := range out {
			if o.Kind == r.Kind && o.Idx == r.Idx && o.Val == r.Val {
				return
			}
		}
		out = append(out, r)
	}
	var walk func(v ssa.Value)
	walk = func(v ssa.Value) {
		if v == nil || seen[v] {
			return
		}
		seen[v] = true
		switch x := v.(type) {
		case *ssa.FieldAddr:
			walk(x.X)
		case *ssa.IndexAddr:
			walk(x.X)
		case *ssa.Field:
			walk(x.X)
		case *ssa.Index:
			walk(x.X)
		case *ssa.Lookup:
			walk(x.X)
		case *ssa.Slice:
			walk(x.X)
		case *ssa.ChangeType:
			walk(x.X)
		case *ssa.Convert:
			walk(x.X)
		case *ssa.MakeInterface:
			walk(x.X)
		case *ssa.ChangeInterface:
			walk(x.X)
		case *ssa.TypeAssert:
			walk(x.X)
		case *ssa.UnOp:
			if x.Op == token.MUL {
				// pointer loaded from memory: if the memory is a local slot, follow what was stored there
				if al, ok := x.X.(*ssa.Alloc); ok && !allocIsObject(al) {
					stored := false
					for _, r := range *al.Referrers() {
						if st, ok := r.(*ssa.Store); ok && st.Addr == al {
							stored = true
							walk(st.Val)
						}
					}
					if !stored {
						add(memRoot{Kind: rkLocal, Val: al})
					}
					return
				}
				// a pointer-like value loaded out of a local struct/array object: its provenance is whatever was
				// stored into that object (a struct copied from elsewhere carries the other object's pointers)
				if al, fld := allocRootOfAddr(x.X); al != nil && isPointerLike(x.Type()) {
					found := false
					for _, st := range storesInto(al) {
						if st.Addr == al {
							found = true
							walk(st.Val)
							continue
						}
						if f2, _ := fieldOfAddr(st.Addr); fld != nil && f2 != nil && f2 != fld {
							continue
						}
						found = true
						walk(st.Val)
					}
					if !found {
						add(memRoot{Kind: rkLocal, Val: al})
					}
					return
				}
				walk(x.X)
			} else {
				add(memRoot{Kind: rkConst})
			}
		case *ssa.Parameter:
			idx := 0
			for i, p := range x.Parent().Params {
				if p == x {
					idx = i
				}
			}
			add(memRoot{Kind: rkParam, Idx: idx, Val: x})
		case *ssa.FreeVar:
			idx := 0
			for i, p := range x.Parent().FreeVars {
				if p == x {
					idx = i
				}
			}
			add(memRoot{Kind: rkFree, Idx: idx, Val: x})
		case *ssa.Global:
			add(memRoot{Kind: rkGlobal, Val: x})
		case *ssa.Alloc:
			add(memRoot{Kind: rkLocal, Val: x})
		case *ssa.MakeMap, *ssa.MakeSlice, *ssa.MakeChan, *ssa.MakeClosure:
			add(memRoot{Kind: rkLocal, Val: v})
		case *ssa.Const, *ssa.Function, *ssa.Builtin:
			add(memRoot{Kind: rkConst})
		case *ssa.Phi:
			for _, e := range x.Edges {
				walk(e)
			}
		case *ssa.Extract:
			if nx, ok := x.Tuple.(*ssa.Next); ok {
				add(memRoot{Kind: rkRange, Val: nx})
				return
			}
			walk(x.Tuple)
		case *ssa.Next:
			add(memRoot{Kind: rkRange, Val: x})
		case *ssa.Call:
			if b, ok := x.Call.Value.(*ssa.Builtin); ok {
				switch b.Name() {
				case "append":
					walk(x.Call.Args[0])
					return
				case "new", "make":
					add(memRoot{Kind: rkLocal, Val: x})
					return
				}
			}
			if sc := x.Call.StaticCallee(); sc != nil && returnsFreshObj(sc) {
				add(memRoot{Kind: rkLocal, Val: x})
				return
			}
			add(memRoot{Kind: rkCall, Val: x})
		case *ssa.BinOp:
			add(memRoot{Kind: rkConst})
		default:
			add(memRoot{Kind: rkUnknown, Val: v})
		}
	}
	walk(v)
	return out
}

// allocIsObject: the alloc is itself a data object (struct/array storage), not merely a pointer-holding slot.
func allocIsObject(al *ssa.Alloc) bool {
	elem := al.Type().(*types.Pointer).Elem()
	switch elem.Underlying().(type) {
	case *types.Pointer, *types.Map, *types.Slice, *types.Interface, *types.Chan, *types.Signature:
		return false
	}
	return true
}

func isPointerLike(t types.Type) bool {
	switch t.Underlying().(type) {
	case *types.Pointer, *types.Map, *types.Slice, *types.Interface, *types.Chan, *types.Signature:
		return true
	case *types.Struct:
		return true // may contain pointers
	}
	return false
}

type fnSummary struct {
	WritesParam  []bool
	WritesFree   []bool
	ParamFields  []map[string]bool // fields written through each parameter ("pkg.Type.field")
	FreeFields   []map[string]bool // fields written through each captured variable
	LooseFields  map[string]bool   // fields written on objects of unknown provenance (call results, copied pointers)
	WritesGlobal []string
	Outputs      []string
	Unknown      []string // dynamic callees treated conservatively
	Nondet       []string // ambient nondeterminism sources called
}

func (s *fnSummary) writesAnyParam() bool {
	for _, w := range s.WritesParam {
		if w {
			return true
		}
	}
	return false
}

type effects struct {
	p    *Prog
	sums map[*ssa.Function]*fnSummary
}

// stdEffect is the reviewed table for callees without bodies: which argument indices (receiver first) they write,
// and whether they are output.
func stdEffect(co *types.Func, cc *ssa.CallCommon) (writes []int, output bool, known bool) {
	if co == nil || co.Pkg() == nil {
		return nil, false, false
	}
	pkg, name := co.Pkg().Path(), co.Name()
	recv := ""
	if sig := co.Type().(*types.Signature); sig.Recv() != nil {
		recv = recvName(sig.Recv().Type())
	}
	switch pkg {
	case "strings", "strconv", "unicode", "unicode/utf8", "math", "math/bits", "regexp", "regexp/syntax", "path", "path/filepath", "errors", "html", "net/url", "hash/maphash", "time", "reflect", "math/big", "hash/fnv", "hash/crc32":
		if pkg == "strings" && recv == "Builder" {
			return []int{0}, false, true
		}
		if pkg == "hash/maphash" && recv == "Hash" {
			return []int{0}, false, true
		}
		return nil, false, true
	case "bytes":
		if recv == "Buffer" && !strings.HasPrefix(name, "Len") && name != "String" && name != "Bytes" {
			return []int{0}, false, true
		}
		return nil, false, true
	case "sort":
		return []int{0}, false, true
	case "slices":
		if strings.HasPrefix(name, "Sort") || name == "Reverse" {
			return []int{0}, false, true
		}
		return nil, false, true
	case "fmt":
		switch {
		case strings.HasPrefix(name, "Sprint"), name == "Errorf", strings.HasPrefix(name, "Sscan"):
			return nil, false, true
		case strings.HasPrefix(name, "Fprint"):
			return []int{0}, true, true
		case strings.HasPrefix(name, "Print"):
			return nil, true, true
		}
	case "sync":
		switch recv {
		case "Map", "Once", "WaitGroup", "Mutex", "RWMutex":
			return nil, false, true
		}
	case "sync/atomic":
		return []int{0}, false, true
	case "io":
		if name == "WriteString" || name == "Copy" {
			return []int{0}, true, true
		}
		return nil, false, true
	case "os":
		if recv == "File" && strings.HasPrefix(name, "Write") {
			return nil, true, true
		}
		if name == "Exit" || name == "Getenv" {
			return nil, false, true
		}
	case "log":
		return nil, true, true
	case "encoding/csv":
		if recv == "Writer" {
			return []int{0}, true, true
		}
	case "text/tabwriter":
		return []int{0}, true, true
	case "flag":
		return []int{0}, false, true
	case "encoding/json":
		return nil, false, true
	case "math/rand":
		return []int{0}, false, true
	}
	return nil, false, false
}

var nondetCallees = map[string]bool{
	"time.Now": true, "time.Since": true, "os.Getpid": true, "os.Hostname": true,
	"math/rand.Int": true, "math/rand.Intn": true, "math/rand.Float64": true, "math/rand.Perm": true, "math/rand.Shuffle": true, "math/rand.Int63": true, "math/rand.Int31n": true, "math/rand.Seed": true,
	"crypto/rand.Read": true, "crypto/rand.Int": true, "hash/maphash.MakeSeed": true, "runtime.NumGoroutine": true,
}

func newEffects(p *Prog, fns []*ssa.Function) *effects {
	e := &effects{p: p, sums: map[*ssa.Function]*fnSummary{}}
	for _, f := range fns {
		sm := &fnSummary{WritesParam: make([]bool, len(f.Params)), WritesFree: make([]bool, len(f.FreeVars)), LooseFields: map[string]bool{}}
		for range f.Params {
			sm.ParamFields = append(sm.ParamFields, map[string]bool{})
		}
		for range f.FreeVars {
			sm.FreeFields = append(sm.FreeFields, map[string]bool{})
		}
		e.sums[f] = sm
	}
	changed := true
	for iter := 0; changed && iter < 20; iter++ {
		changed = false
		for _, f := range fns {
			if e.update(f) {
				changed = true
			}
		}
	}
	return e
}

func addStr(xs *[]string, s string) bool {
	for _, x := range *xs {
		if x == s {
			return false
		}
	}
	*xs = append(*xs, s)
	sort.Strings(*xs)
	return true
}

// writeLabel names what is written at address addr: the innermost field on the address chain, or the element type.
func writeLabel(addr ssa.Value) string {
	a := addr
	for i := 0; i < 8; i++ {
		switch x := a.(type) {
		case *ssa.FieldAddr:
			// a field of a by-value struct nested in an object belongs to that object: name the outermost field
			// of the chain that hangs directly off a pointer
			outer := x
			for {
				if in, ok := outer.X.(*ssa.FieldAddr); ok {
					outer = in
					continue
				}
				break
			}
			f, _ := fieldOfAddr(outer)
			if o := fieldOwner(f); o != nil {
				return o.Pkg().Name() + "." + o.Name() + "." + f.Name()
			}
			return "." + f.Name()
		case *ssa.IndexAddr:
			a = x.X
			continue
		case *ssa.UnOp:
			if x.Op == token.MUL {
				a = x.X
				continue
			}
		case *ssa.MakeInterface:
			a = x.X
			continue
		case *ssa.Slice:
			a = x.X
			continue
		}
		break
	}
	return "<" + strings.ReplaceAll(addr.Type().String(), modPath+"/", "") + ">"
}

// markWrite records a write through address/pointer v in f's summary.
func (e *effects) markWrite(f *ssa.Function, v ssa.Value, why string) bool {
	return e.markWriteFields(f, v, map[string]bool{writeLabel(v): true})
}

func (e *effects) markWriteFields(f *ssa.Function, v ssa.Value, labels map[string]bool) bool {
	s := e.sums[f]
	ch := false
	addAll := func(dst map[string]bool) {
		for l := range labels {
			if !dst[l] {
				dst[l] = true
				ch = true
			}
		}
	}
	for _, r := range rootsOf(v) {
		switch r.Kind {
		case rkParam:
			if !s.WritesParam[r.Idx] {
				s.WritesParam[r.Idx] = true
				ch = true
			}
			addAll(s.ParamFields[r.Idx])
		case rkFree:
			if !s.WritesFree[r.Idx] {
				s.WritesFree[r.Idx] = true
				ch = true
			}
			addAll(s.FreeFields[r.Idx])
		case rkGlobal:
			if addStr(&s.WritesGlobal, r.Val.Name()) {
				ch = true
			}
		case rkCall, rkUnknown:
			addAll(s.LooseFields)
		case rkRange:
			if nx, ok := r.Val.(*ssa.Next); ok {
				if rg, ok := nx.Iter.(*ssa.Range); ok {
					if e.markWriteFields(f, rg.X, labels) {
						ch = true
					}
				}
			}
			// pointers copied out of a container: provenance of the pointee is not tracked
			addAll(s.LooseFields)
		}
	}
	return ch
}

func (e *effects) update(f *ssa.Function) bool {
	s := e.sums[f]
	ch := false
	eachInstr(f, func(_ *ssa.BasicBlock, in ssa.Instruction) {
		switch x := in.(type) {
		case *ssa.Store:
			if al, ok := x.Addr.(*ssa.Alloc); ok && !al.Heap {
				return
			}
			if e.markWrite(f, x.Addr, "store") {
				ch = true
			}
		case *ssa.MapUpdate:
			if e.markWrite(f, x.Map, "map update") {
				ch = true
			}
		case *ssa.Send:
			if e.markWrite(f, x.Chan, "send") {
				ch = true
			}
		case ssa.CallInstruction:
			cc := x.Common()
			if b, ok := cc.Value.(*ssa.Builtin); ok {
				switch b.Name() {
				case "delete", "clear":
					if e.markWrite(f, cc.Args[0], "delete") {
						ch = true
					}
				case "copy":
					if e.markWrite(f, cc.Args[0], "copy") {
						ch = true
					}
				case "print", "println":
					if addStr(&s.Outputs, "builtin print") {
						ch = true
					}
				}
				return
			}
			args := callArgs(cc)
			var callees []*ssa.Function
			if sc := cc.StaticCallee(); sc != nil {
				callees = append(callees, sc)
			} else if mc, ok := cc.Value.(*ssa.MakeClosure); ok {
				callees = append(callees, mc.Fn.(*ssa.Function))
			}
			co := calleeObj(cc)
			if co != nil && co.Pkg() != nil && nondetCallees[co.Pkg().Path()+"."+co.Name()] {
				if addStr(&s.Nondet, co.Pkg().Path()+"."+co.Name()) {
					ch = true
				}
			}
			handled := false
			for _, callee := range callees {
				cs, ok := e.sums[callee]
				if !ok {
					continue
				}
				handled = true
				for i, w := range cs.WritesParam {
					if w && i < len(args) {
						if e.markWriteFields(f, args[i], cs.ParamFields[i]) {
							ch = true
						}
					}
				}
				if mc, ok := cc.Value.(*ssa.MakeClosure); ok {
					for i, w := range cs.WritesFree {
						if w && i < len(mc.Bindings) {
							if e.markWriteFields(f, mc.Bindings[i], cs.FreeFields[i]) {
								ch = true
							}
						}
					}
				}
				for l := range cs.LooseFields {
					if !s.LooseFields[l] {
						s.LooseFields[l] = true
						ch = true
					}
				}
				for _, g := range cs.WritesGlobal {
					if addStr(&s.WritesGlobal, g) {
						ch = true
					}
				}
				for _, o := range cs.Outputs {
					if addStr(&s.Outputs, o) {
						ch = true
					}
				}
				for _, o := range cs.Unknown {
					if addStr(&s.Unknown, o) {
						ch = true
					}
				}
				for _, o := range cs.Nondet {
					if addStr(&s.Nondet, o) {
						ch = true
					}
				}
			}
			if handled {
				return
			}
			// sort.Sort / sort.Stable over a sorter object built here: what gets written is the slice the object holds
			if co != nil && co.Pkg() != nil && co.Pkg().Path() == "sort" && (co.Name() == "Sort" || co.Name() == "Stable") && len(args) > 0 {
				v := stripIface(args[0])
				if ld, ok := v.(*ssa.UnOp); ok && ld.Op == token.MUL {
					v = ld.X
				}
				if al, ok := v.(*ssa.Alloc); ok {
					// the fields whose elements the object's Swap exchanges
					swapped := map[*types.Var]bool{}
					if pt, ok := al.Type().(*types.Pointer); ok {
						ms := f.Prog.MethodSets.MethodSet(types.NewPointer(pt.Elem()))
						for i := 0; i < ms.Len(); i++ {
							if ms.At(i).Obj().Name() != "Swap" {
								continue
							}
							if mo, ok := ms.At(i).Obj().(*types.Func); ok {
								if sw := f.Prog.FuncValue(mo); sw != nil && sw.Blocks != nil {
									eachInstr(sw, func(_ *ssa.BasicBlock, in2 ssa.Instruction) {
										if st, ok := in2.(*ssa.Store); ok {
											if ia, ok := st.Addr.(*ssa.IndexAddr); ok {
												if fld, _ := loadOfField(ia.X); fld != nil {
													swapped[fld] = true
												}
												if fv, ok := ia.X.(*ssa.Field); ok {
													if fld, _ := fieldOfVal(fv); fld != nil {
														swapped[fld] = true
													}
												}
											}
										}
									})
								}
							}
						}
					}
					marked := false
					for _, r := range *al.Referrers() {
						fa, ok := r.(*ssa.FieldAddr)
						if !ok {
							continue
						}
						if fld, _ := fieldOfAddr(fa); len(swapped) > 0 && !swapped[fld] {
							continue
						}
						for _, r2 := range *fa.Referrers() {
							if st, ok := r2.(*ssa.Store); ok && st.Addr == ssa.Value(fa) {
								if _, isSl := st.Val.Type().Underlying().(*types.Slice); isSl {
									marked = true
									if e.markWrite(f, st.Val, "sorted through a sorter object") {
										ch = true
									}
								}
							}
						}
					}
					if marked {
						return
					}
				}
			}
			if w, out, known := stdEffect(co, cc); known {
				for _, i := range w {
					if i < len(args) && e.markWrite(f, args[i], "library writes") {
						ch = true
					}
				}
				if out {
					if addStr(&s.Outputs, calleeName(cc)) {
						ch = true
					}
				}
				return
			}
			// interface method with implementations in the loaded program
			if cc.IsInvoke() {
				impls := e.implsAt(x)
				if len(impls) > 0 {
					for _, callee := range impls {
						cs := e.sums[callee]
						for i, w := range cs.WritesParam {
							if w && i < len(args) && e.markWriteFields(f, args[i], cs.ParamFields[i]) {
								ch = true
							}
						}
						for l := range cs.LooseFields {
							if !s.LooseFields[l] {
								s.LooseFields[l] = true
								ch = true
							}
						}
						for _, g := range cs.WritesGlobal {
							if addStr(&s.WritesGlobal, g) {
								ch = true
							}
						}
						for _, o := range cs.Outputs {
							if addStr(&s.Outputs, o) {
								ch = true
							}
						}
					}
					return
				}
			}
			// closures stored in variables / fields: call through function value
			if !cc.IsInvoke() {
				if cands := e.fnTargetsAt(x); len(cands) > 0 {
					for _, callee := range cands {
						cs, ok := e.sums[callee]
						if !ok {
							continue
						}
						for i, w := range cs.WritesParam {
							if w && i < len(args) && e.markWriteFields(f, args[i], cs.ParamFields[i]) {
								ch = true
							}
						}
						for l := range cs.LooseFields {
							if !s.LooseFields[l] {
								s.LooseFields[l] = true
								ch = true
							}
						}
						// a closure called through a variable: what it writes through its captured variables
						// cannot be mapped back to the caller's roots here
						for _, ff := range cs.FreeFields {
							for l := range ff {
								if !s.LooseFields[l] {
									s.LooseFields[l] = true
									ch = true
								}
							}
						}
						for _, g := range cs.WritesGlobal {
							if addStr(&s.WritesGlobal, g) {
								ch = true
							}
						}
						for _, o := range cs.Outputs {
							if addStr(&s.Outputs, o) {
								ch = true
							}
						}
					}
					return
				}
			}
			// unknown: assume it writes every pointer-like argument
			if addStr(&s.Unknown, calleeName(cc)) {
				ch = true
			}
			for _, a := range args {
				if isPointerLike(a.Type()) {
					if _, isString := a.Type().Underlying().(*types.Basic); isString {
						continue
					}
					if e.markWrite(f, a, "unknown callee") {
						ch = true
					}
				}
			}
		}
	})
	return ch
}

// implementations returns the loaded functions implementing the invoked interface method.
func (e *effects) implementations(cc *ssa.CallCommon) []*ssa.Function {
	var out []*ssa.Function
	iface, ok := cc.Value.Type().Underlying().(*types.Interface)
	if !ok {
		return nil
	}
	for f := range e.sums {
		if f.Signature.Recv() == nil || f.Name() != cc.Method.Name() {
			continue
		}
		rt := f.Signature.Recv().Type()
		if types.Implements(rt, iface) || types.Implements(types.NewPointer(rt), iface) {
			out = append(out, f)
		}
	}
	sort.Slice(out, func(i, j int) bool { return out[i].String() < out[j].String() })
	return out
}

// funcValueTargets: functions of matching signature whose address is taken somewhere in the loaded program
// (a CHA-style resolution for calls through function values).
func (e *effects) funcValueTargets(v ssa.Value) []*ssa.Function {
	sig, ok := v.Type().Underlying().(*types.Signature)
	if !ok {
		return nil
	}
	var out []*ssa.Function
	for f := range e.sums {
		if f.Signature.Recv() != nil && f.Parent() == nil {
			continue
		}
		if types.Identical(f.Signature.Params(), sig.Params()) && types.Identical(f.Signature.Results(), sig.Results()) && e.addressTaken(f) {
			out = append(out, f)
		}
	}
	sort.Slice(out, func(i, j int) bool { return out[i].String() < out[j].String() })
	return out
}

var addrTakenCache = map[*ssa.Function]bool{}

func (e *effects) addressTaken(f *ssa.Function) bool {
	if v, ok := addrTakenCache[f]; ok {
		return v
	}
	taken := false
	if f.Parent() != nil {
		taken = true // closures are values by construction
	} else if refs := f.Referrers(); refs != nil {
		for _, r := range *refs {
			if ci, ok := r.(ssa.CallInstruction); ok && ci.Common().Value == f {
				continue
			}
			taken = true
		}
	} else {
		// package-level functions: scan uses
		for g := range e.sums {
			eachInstr(g, func(_ *ssa.BasicBlock, in ssa.Instruction) {
				var ops []*ssa.Value
				for _, o := range in.Operands(ops) {
					if *o == f {
						if ci, ok := in.(ssa.CallInstruction); ok && ci.Common().Value == f {
							continue
						}
						taken = true
					}
				}
			})
		}
	}
	addrTakenCache[f] = taken
	return taken
}

var freshCache = map[*ssa.Function]int{} // 0 unknown, 1 computing, 2 yes, 3 no

// returnsFreshObj: every return of fn yields (as first result) an object allocated in fn (or by such a function).
func returnsFreshObj(fn *ssa.Function) bool {
	switch freshCache[fn] {
	case 1, 3:
		return false
	case 2:
		return true
	}
	freshCache[fn] = 1
	ok := fn.Blocks != nil
	n := 0
	if ok {
		for _, b := range fn.Blocks {
			ret, isRet := b.Instrs[len(b.Instrs)-1].(*ssa.Return)
			if !isRet {
				continue
			}
			if len(ret.Results) == 0 {
				ok = false
				break
			}
			n++
			for _, r := range rootsOf(retVal(ret, 0)) {
				if r.Kind != rkLocal && r.Kind != rkConst {
					ok = false
				}
			}
		}
	}
	if n == 0 {
		ok = false
	}
	if ok {
		freshCache[fn] = 2
	} else {
		freshCache[fn] = 3
	}
	return ok
}

// implsAt / fnTargetsAt resolve a dynamic call site: with the VTA call graph when the program was loaded
// deep, otherwise by signature/implements matching over the loaded functions.
func (e *effects) implsAt(site ssa.CallInstruction) []*ssa.Function {
	if cs, ok := e.p.DynCallees(site); ok {
		var out []*ssa.Function
		for _, c := range cs {
			if e.sums[c] != nil {
				out = append(out, c)
			}
		}
		return out
	}
	return e.implementations(site.Common())
}

func (e *effects) fnTargetsAt(site ssa.CallInstruction) []*ssa.Function {
	if cs, ok := e.p.DynCallees(site); ok {
		var out []*ssa.Function
		for _, c := range cs {
			if e.sums[c] != nil {
				out = append(out, c)
			}
		}
		return out
	}
	return e.funcValueTargets(site.Common().Value)
}

// allocRootOfAddr: the local object an address chain (fields/elements, no loads) is rooted at, and the outermost field.
func allocRootOfAddr(a ssa.Value) (*ssa.Alloc, *types.Var) {
	var fld *types.Var
	for i := 0; i < 8; i++ {
		switch x := a.(type) {
		case *ssa.FieldAddr:
			f, _ := fieldOfAddr(x)
			fld = f
			a = x.X
			continue
		case *ssa.IndexAddr:
			a = x.X
			continue
		case *ssa.Alloc:
			if allocIsObject(x) {
				return x, fld
			}
			return nil, nil
		}
		break
	}
	return nil, nil
}

// storesInto: stores whose address lies within the local object al (the object itself, its fields or elements).
func storesInto(al *ssa.Alloc) []*ssa.Store {
	var out []*ssa.Store
	var visit func(v ssa.Value, d int)
	visit = func(v ssa.Value, d int) {
		if d > 4 {
			return
		}
		refs := v.Referrers()
		if refs == nil {
			return
		}
		for _, r := range *refs {
			switch x := r.(type) {
			case *ssa.Store:
				if x.Addr == v {
					out = append(out, x)
				}
			case *ssa.FieldAddr:
				visit(x, d+1)
			case *ssa.IndexAddr:
				visit(x, d+1)
			}
		}
	}
	visit(al, 0)
	return out
}
