// e6.go: E6 — decision-table extraction.
//
// A small abstract interpreter over go/ssa for acyclic regions (a function
// body, or one loop iteration). Values are either constants or symbolic
// expressions (Sym). Whenever control flow or a boolean operator needs the
// truth value of a symbolic boolean (an "atom"), the interpreter looks it up
// in the current valuation; if it is not assigned the run is abandoned and
// restarted twice, with the atom true and false. The result is the complete
// finite table: for every consistent valuation of the atoms the region
// actually consults, the sequence of actions (calls, stores, map updates) and
// the terminal (return values, or the block through which the region is
// left). Order comparisons between symbols that the rule has ranked are
// computed from the ranks, so a rule can enumerate weak orderings instead of
// independent comparison atoms.
//
// Nothing from /repo is executed: the interpreter walks the SSA of the source.
package main

import (
	"fmt"
	"go/constant"
	"go/token"
	"go/types"
	"sort"
	"strings"

	"golang.org/x/tools/go/ssa"
)

type Sym struct {
	Op     string // const, param, free, global, alloc, fieldaddr, indexaddr, load, field, call, binop, unop, extract, lookup, convert, phi-unknown, zero, struct, next, fn, opaque
	Args   []*Sym
	Const  constant.Value // Op == const (nil Const + IsNil: nil)
	IsNil  bool
	Tok    token.Token  // binop / unop
	Obj    types.Object // field var, callee func, param var, global
	Idx    int          // extract index
	Name   string       // printable leaf name
	Type   types.Type
	Ver    int // map version for lookups
	str    string
	Fields map[string]*Sym // Op == struct
}

func (s *Sym) String() string {
	if s == nil {
		return "<nil>"
	}
	if s.str != "" {
		return s.str
	}
	var b strings.Builder
	switch s.Op {
	case "const":
		if s.IsNil {
			b.WriteString("nil")
		} else if s.Const == nil {
			b.WriteString("zero")
		} else {
			b.WriteString(s.Const.ExactString())
		}
	case "param", "free", "global", "alloc", "fn", "opaque", "zero":
		b.WriteString(s.Op + ":" + s.Name)
	case "fieldaddr":
		fmt.Fprintf(&b, "&%s.%s", s.Args[0], s.Name)
	case "field":
		fmt.Fprintf(&b, "%s.%s", s.Args[0], s.Name)
	case "load":
		fmt.Fprintf(&b, "*(%s)", s.Args[0])
	case "extract":
		fmt.Fprintf(&b, "%s#%d", s.Args[0], s.Idx)
	case "binop":
		fmt.Fprintf(&b, "(%s %s %s)", s.Args[0], s.Tok, s.Args[1])
	case "unop":
		fmt.Fprintf(&b, "%s(%s)", s.Tok, s.Args[0])
	case "lookup":
		fmt.Fprintf(&b, "%s@%d[%s]", s.Args[0], s.Ver, s.Args[1])
	case "struct":
		var ks []string
		for k := range s.Fields {
			ks = append(ks, k)
		}
		sort.Strings(ks)
		b.WriteString("{")
		for i, k := range ks {
			if i > 0 {
				b.WriteString(",")
			}
			fmt.Fprintf(&b, "%s:%s", k, s.Fields[k])
		}
		b.WriteString("}")
	default:
		b.WriteString(s.Op)
		if s.Name != "" {
			b.WriteString(":" + s.Name)
		}
		b.WriteString("(")
		for i, a := range s.Args {
			if i > 0 {
				b.WriteString(",")
			}
			b.WriteString(a.String())
		}
		b.WriteString(")")
	}
	s.str = b.String()
	return s.str
}

func symConst(v constant.Value, t types.Type) *Sym { return &Sym{Op: "const", Const: v, Type: t} }
func symBool(x bool) *Sym                          { return symConst(constant.MakeBool(x), types.Typ[types.Bool]) }

func (s *Sym) isConst() bool { return s != nil && s.Op == "const" }
func (s *Sym) boolConst() (bool, bool) {
	if s.isConst() && s.Const != nil && s.Const.Kind() == constant.Bool {
		return constant.BoolVal(s.Const), true
	}
	return false, false
}

// Walk visits s and all sub-expressions.
func (s *Sym) Walk(f func(*Sym)) {
	if s == nil {
		return
	}
	f(s)
	for _, a := range s.Args {
		a.Walk(f)
	}
	for _, a := range s.Fields {
		a.Walk(f)
	}
}

// Mentions reports whether s contains a load of / reference to the given field.
func (s *Sym) MentionsField(f *types.Var) bool {
	found := false
	s.Walk(func(x *Sym) {
		if (x.Op == "fieldaddr" || x.Op == "field") && x.Obj == f {
			found = true
		}
	})
	return found
}

// IsFieldLoad: s is a load of field f (through an address) or a value field selection of f.
func (s *Sym) IsFieldLoad(f *types.Var) bool {
	if s == nil {
		return false
	}
	if s.Op == "load" && s.Args[0].Op == "fieldaddr" && s.Args[0].Obj == f {
		return true
	}
	return s.Op == "field" && s.Obj == f
}

// CallTo: s is the result (or extract of the result) of a call to the given function.
func (s *Sym) CallTo(pkgPath, recv, name string) *Sym {
	if s == nil {
		return nil
	}
	if s.Op == "extract" {
		s = s.Args[0]
	}
	if s.Op == "call" {
		if f, ok := s.Obj.(*types.Func); ok && objIs(f, pkgPath, recv, name) {
			return s
		}
	}
	return nil
}

type e6Action struct {
	Kind   string // call, store, mapupdate, mapdelete, go, defer, send
	Callee *types.Func
	Fn     *Sym   // callee value for dynamic calls
	Args   []*Sym // call args (receiver first) / [addr,val] / [map,key,val]
	Instr  ssa.Instruction
	Res    *Sym
}

func (a e6Action) String() string {
	var as []string
	for _, x := range a.Args {
		as = append(as, x.String())
	}
	n := a.Kind
	if a.Callee != nil {
		n += ":" + a.Callee.FullName()
	}
	return n + "(" + strings.Join(as, ", ") + ")"
}

type e6Outcome struct {
	Assign   map[string]bool
	AtomSyms map[string]*Sym
	Order    []string // atoms in the order they were consulted
	Actions  []e6Action
	Term     string // return, panic, exit, loop
	Exit     *ssa.BasicBlock
	ExitFrom *ssa.BasicBlock
	Results  []*Sym
	Mem      map[string]*Sym
	Env      map[ssa.Value]*Sym
	Blocks   []*ssa.BasicBlock
	interp   *e6Interp
}

// AtomKeys lists the atoms of the path condition in a fixed (sorted) order: rules classify atoms one by one and must not
// depend on Go's map iteration order when two atoms fall into the same class.
func (o *e6Outcome) AtomKeys() []string {
	ks := make([]string, 0, len(o.Assign))
	for k := range o.Assign {
		ks = append(ks, k)
	}
	sort.Strings(ks)
	return ks
}

// Val evaluates an SSA value in the final state of the run (for phi edges at the region's exit).
func (o *e6Outcome) Val(v ssa.Value) *Sym { return o.interp.val(v) }

// VarArgs returns the elements of the variadic slice passed as the last argument of a call action.
func (o *e6Outcome) VarArgs(a e6Action) []*Sym {
	if len(a.Args) == 0 {
		return nil
	}
	last := a.Args[len(a.Args)-1]
	if last.Op != "slice" {
		return nil
	}
	arr := last.Args[0]
	var out []*Sym
	for i := 0; ; i++ {
		k := (&Sym{Op: "indexaddr", Args: []*Sym{arr, symConst(constant.MakeInt64(int64(i)), types.Typ[types.Int])}}).String()
		v, ok := o.Mem[k]
		if !ok {
			break
		}
		if v.Op == "iface" {
			v = v.Args[0]
		}
		out = append(out, v)
	}
	return out
}

func (o *e6Outcome) AssignStr() string {
	var parts []string
	for _, k := range o.Order {
		parts = append(parts, fmt.Sprintf("%s=%v", k, o.Assign[k]))
	}
	return strings.Join(parts, " ∧ ")
}

type e6NeedAtom struct {
	key string
	sym *Sym
}

type e6Undecided struct{ why string }

type e6Interp struct {
	fn     *ssa.Function
	assign map[string]bool
	syms   map[string]*Sym
	order  []string
	// Rank gives a concrete rank to ordered symbols (strings compared with < > ==); ok=false means unranked.
	Rank func(s *Sym) (int, bool)
	// Init pre-binds SSA values (parameters, free variables) to symbols.
	Init map[ssa.Value]*Sym
	// PureCall reports calls that are not actions (their result is still symbolic).
	PureCall func(f *types.Func) bool
	// Inline lets the interpreter evaluate a callee's body instead of treating the call as opaque.
	Inline func(f *ssa.Function) bool
	// HoistedLoads: a value defined outside the region that is a pure expression of parameters, constants and loads of
	// fields the function never stores to (and the function makes no calls that could) is evaluated in place, like
	// pureOfParams values. Used where two functions are compared and one of them has hoisted an invariant.
	HoistedLoads bool
	// CanonCmp: ordered comparisons of integers are decided in one canonical form (a < b): a > b is b < a, a <= b is
	// !(b < a), a >= b is !(a < b) — two siblings that write the same test differently then consult the same atom.
	CanonCmp bool
	// OuterName, when set, names values defined outside the region (default: outerName, which uses SSA registers).
	OuterName func(v ssa.Value) string
	// MaxAtoms bounds the atoms of one region (default 14).
	MaxAtoms int
	// Decide, when set, answers branch atoms from an abstract valuation (signs, ranks) instead of enumerating them.
	Decide func(s *Sym) (val bool, ok bool)

	env     map[ssa.Value]*Sym
	mem     map[string]*Sym
	mapver  map[string]int
	actions []e6Action
	allocN  int
	depth   int
}

func (e *e6Interp) need(s *Sym) bool {
	if v, ok := s.boolConst(); ok {
		return v
	}
	// structural simplification: !x, x==y on booleans
	switch s.Op {
	case "unop":
		if s.Tok == token.NOT {
			return !e.need(s.Args[0])
		}
	case "binop":
		if isBoolT(s.Args[0].Type) && (s.Tok == token.EQL || s.Tok == token.NEQ) {
			a, b := e.need(s.Args[0]), e.need(s.Args[1])
			return (a == b) == (s.Tok == token.EQL)
		}
		if e.CanonCmp && len(s.Args) == 2 && isInteger2(s.Args[0].Type) && isInteger2(s.Args[1].Type) {
			switch s.Tok {
			case token.GTR:
				return e.need(e.binop(token.LSS, s.Args[1], s.Args[0], s.Type))
			case token.LEQ:
				return !e.need(e.binop(token.LSS, s.Args[1], s.Args[0], s.Type))
			case token.GEQ:
				return !e.need(e.binop(token.LSS, s.Args[0], s.Args[1], s.Type))
			}
		}
		// x < min(a, b) is x < a && x < b (likewise <=), x > max(a, b) is x > a && x > b (likewise >=): decided
		// conjunct by conjunct, left to right, like the short-circuit form
		if len(s.Args) == 2 {
			x, m := s.Args[0], s.Args[1]
			isMM := func(t *Sym, name string) bool { return t.Op == "call" && t.Name == name && len(t.Args) == 2 }
			if ((s.Tok == token.LSS || s.Tok == token.LEQ) && isMM(m, "min")) || ((s.Tok == token.GTR || s.Tok == token.GEQ) && isMM(m, "max")) {
				for _, a := range m.Args {
					if !e.need(e.binop(s.Tok, x, a, s.Type)) {
						return false
					}
				}
				return true
			}
		}
	}
	if e.Decide != nil {
		if v, ok := e.Decide(s); ok {
			return v
		}
	}
	k := s.String()
	if v, ok := e.assign[k]; ok {
		return v
	}
	panic(e6NeedAtom{k, s})
}

func isBoolT(t types.Type) bool {
	if t == nil {
		return false
	}
	b, ok := t.Underlying().(*types.Basic)
	return ok && b.Info()&types.IsBoolean != 0
}

func (e *e6Interp) val(v ssa.Value) *Sym {
	if s, ok := e.env[v]; ok {
		return s
	}
	if s, ok := e.Init[v]; ok {
		return s
	}
	switch x := v.(type) {
	case *ssa.Const:
		if x.Value == nil {
			// nil or zero value
			switch x.Type().Underlying().(type) {
			case *types.Pointer, *types.Slice, *types.Map, *types.Interface, *types.Signature, *types.Chan:
				return &Sym{Op: "const", IsNil: true, Type: x.Type()}
			}
			return zeroSym(x.Type())
		}
		return symConst(x.Value, x.Type())
	case *ssa.Parameter:
		return &Sym{Op: "param", Name: x.Name(), Obj: x.Object(), Type: x.Type()}
	case *ssa.FreeVar:
		return &Sym{Op: "free", Name: x.Name(), Type: x.Type()}
	case *ssa.Global:
		return &Sym{Op: "global", Name: x.String(), Obj: x.Object(), Type: x.Type()}
	case *ssa.Function:
		return &Sym{Op: "fn", Name: x.String(), Obj: x.Object(), Type: x.Type()}
	case *ssa.Builtin:
		return &Sym{Op: "fn", Name: "builtin." + x.Name(), Type: x.Type()}
	}
	// A value defined outside the region that is a pure expression of the function's parameters and constants (a length
	// taken once before a loop, a bound hoisted out of it) has the same value wherever it is used: evaluate it in place,
	// as if it had been written where it is used.
	if in, ok := v.(ssa.Instruction); ok && (pureOfParams(v, 0) || (e.HoistedLoads && pureOfInvariants(v, in.Parent(), 0))) {
		e.step(in)
		if s, ok := e.env[v]; ok {
			return s
		}
	}
	// A value defined outside the region (e.g. before the loop): opaque, named by its SSA register.
	name := ""
	if e.OuterName != nil {
		name = e.OuterName(v)
	} else {
		name = e.outerName(v)
	}
	s := &Sym{Op: "opaque", Name: name, Type: v.Type()}
	e.env[v] = s
	return s
}

// outerName gives values defined outside the region a canonical, structure-based name where possible.
func (e *e6Interp) outerName(v ssa.Value) string {
	switch x := v.(type) {
	case *ssa.UnOp:
		if x.Op == token.MUL {
			return "*(" + e.outerAddr(x.X) + ")"
		}
	case *ssa.Extract:
		return e.outerName(x.Tuple) + fmt.Sprintf("#%d", x.Index)
	case *ssa.Call:
		if f := calleeObj(&x.Call); f != nil {
			return "call:" + f.FullName() + "@" + x.Name()
		}
	case *ssa.Parameter:
		return "param:" + x.Name()
	case *ssa.FreeVar:
		return "free:" + x.Name()
	case *ssa.Phi:
		if x.Comment != "" {
			return "phi:" + x.Comment + ":" + x.Name()
		}
	}
	return v.Name()
}

func (e *e6Interp) outerAddr(v ssa.Value) string {
	switch x := v.(type) {
	case *ssa.FieldAddr:
		f, _ := fieldOfAddr(x)
		return "&" + e.outerAddr2(x.X) + "." + f.Name()
	}
	return e.outerName(v)
}
func (e *e6Interp) outerAddr2(v ssa.Value) string {
	switch x := v.(type) {
	case *ssa.Parameter:
		return "param:" + x.Name()
	case *ssa.FreeVar:
		return "free:" + x.Name()
	case *ssa.FieldAddr:
		return e.outerAddr(x)
	}
	return e.outerName(v)
}

func zeroSym(t types.Type) *Sym {
	switch u := t.Underlying().(type) {
	case *types.Basic:
		switch {
		case u.Info()&types.IsBoolean != 0:
			return symConst(constant.MakeBool(false), t)
		case u.Info()&types.IsString != 0:
			return symConst(constant.MakeString(""), t)
		case u.Info()&types.IsInteger != 0:
			return symConst(constant.MakeInt64(0), t)
		case u.Info()&types.IsFloat != 0:
			return symConst(constant.MakeFloat64(0), t)
		}
	case *types.Pointer, *types.Slice, *types.Map, *types.Interface, *types.Signature, *types.Chan:
		return &Sym{Op: "const", IsNil: true, Type: t}
	case *types.Struct:
		s := &Sym{Op: "struct", Type: t, Fields: map[string]*Sym{}}
		for i := 0; i < u.NumFields(); i++ {
			s.Fields[u.Field(i).Name()] = zeroSym(u.Field(i).Type())
		}
		return s
	}
	return &Sym{Op: "zero", Name: t.String(), Type: t}
}

func (e *e6Interp) load(addr *Sym, t types.Type) *Sym {
	k := addr.String()
	if v, ok := e.mem[k]; ok {
		return v
	}
	// field of a struct stored whole
	if addr.Op == "fieldaddr" {
		base := addr.Args[0]
		if whole, ok := e.mem[base.String()]; ok {
			return fieldOfSym(whole, addr.Name, addr.Obj, t)
		}
	}
	// struct whose fields were stored one by one
	if st, ok := t.Underlying().(*types.Struct); ok {
		s := &Sym{Op: "struct", Type: t, Fields: map[string]*Sym{}}
		any := false
		for i := 0; i < st.NumFields(); i++ {
			f := st.Field(i)
			fa := &Sym{Op: "fieldaddr", Args: []*Sym{addr}, Name: f.Name(), Obj: f, Type: types.NewPointer(f.Type())}
			if _, ok := e.mem[fa.String()]; ok {
				any = true
			}
			s.Fields[f.Name()] = e.load(fa, f.Type())
		}
		if any || addr.Op == "alloc" {
			return s
		}
	}
	if addr.Op == "alloc" || rootIsAlloc(addr) {
		return zeroSym(t)
	}
	return &Sym{Op: "load", Args: []*Sym{addr}, Type: t}
}

// rootIsAlloc: addr is a field (of a field ...) of a fresh local allocation.
func rootIsAlloc(a *Sym) bool {
	for a != nil && a.Op == "fieldaddr" {
		a = a.Args[0]
	}
	return a != nil && a.Op == "alloc" && !strings.HasPrefix(a.Name, "makemap") && !strings.HasPrefix(a.Name, "makechan")
}

func fieldOfSym(whole *Sym, name string, obj types.Object, t types.Type) *Sym {
	if whole.Op == "struct" {
		if f, ok := whole.Fields[name]; ok {
			return f
		}
	}
	return &Sym{Op: "field", Args: []*Sym{whole}, Name: name, Obj: obj, Type: t}
}

func (e *e6Interp) store(addr, val *Sym) {
	k := addr.String()
	// invalidate field entries below addr and whole entries above
	for mk := range e.mem {
		if strings.HasPrefix(mk, "&"+k+".") {
			delete(e.mem, mk)
		}
	}
	if val.Op == "struct" {
		// explode
		for name, fv := range val.Fields {
			var fobj types.Object
			if st, ok := val.Type.Underlying().(*types.Struct); ok {
				for i := 0; i < st.NumFields(); i++ {
					if st.Field(i).Name() == name {
						fobj = st.Field(i)
					}
				}
			}
			fa := &Sym{Op: "fieldaddr", Args: []*Sym{addr}, Name: name, Obj: fobj}
			e.store(fa, fv)
		}
		delete(e.mem, k)
		return
	}
	e.mem[k] = val
	if addr.Op == "fieldaddr" {
		// a whole-struct entry for the base is now stale for this field: rewrite it as struct sym if present
		bk := addr.Args[0].String()
		if whole, ok := e.mem[bk]; ok {
			delete(e.mem, bk)
			if st, ok2 := whole.Type.Underlying().(*types.Struct); ok2 && whole.Type != nil {
				for i := 0; i < st.NumFields(); i++ {
					f := st.Field(i)
					fa := &Sym{Op: "fieldaddr", Args: []*Sym{addr.Args[0]}, Name: f.Name(), Obj: f}
					if f.Name() != addr.Name {
						if _, has := e.mem[fa.String()]; !has {
							e.mem[fa.String()] = fieldOfSym(whole, f.Name(), f, f.Type())
						}
					}
				}
			}
		}
	}
}

func (e *e6Interp) binop(op token.Token, x, y *Sym, t types.Type) *Sym {
	if x.isConst() && y.isConst() && !x.IsNil && !y.IsNil && x.Const != nil && y.Const != nil {
		switch op {
		case token.EQL, token.NEQ, token.LSS, token.LEQ, token.GTR, token.GEQ:
			if x.Const.Kind() == y.Const.Kind() || (x.Const.Kind() != constant.Bool && x.Const.Kind() != constant.String && y.Const.Kind() != constant.Bool && y.Const.Kind() != constant.String) {
				return symBool(constant.Compare(x.Const, op, y.Const))
			}
		case token.SHL, token.SHR:
			if n, ok := constant.Uint64Val(y.Const); ok {
				return symConst(constant.Shift(x.Const, op, uint(n)), t)
			}
		case token.LAND, token.LOR:
		default:
			if x.Const.Kind() == constant.Int && y.Const.Kind() == constant.Int && op == token.QUO {
				if constant.Sign(y.Const) != 0 {
					return symConst(constant.BinaryOp(x.Const, token.QUO_ASSIGN, y.Const), t)
				}
			} else if op != token.QUO || constant.Sign(y.Const) != 0 {
				func() {
					defer func() { recover() }()
					r := constant.BinaryOp(x.Const, op, y.Const)
					x = symConst(r, t)
					y = nil
				}()
				if y == nil {
					return x
				}
			}
		}
	}
	// parity of an unsigned value: x % 2 is x & 1, and (x & 1) != 0 is (x & 1) == 1 (likewise == 0 / != 1)
	if op == token.REM && t != nil && y.isConst() && y.Const != nil && y.Const.Kind() == constant.Int {
		if b, ok := t.Underlying().(*types.Basic); ok && b.Info()&types.IsUnsigned != 0 {
			if v, ok := constant.Int64Val(y.Const); ok && v == 2 {
				return &Sym{Op: "binop", Tok: token.AND, Args: []*Sym{x, symConst(constant.MakeInt64(1), t)}, Type: t}
			}
		}
	}
	if (op == token.NEQ || op == token.EQL) && x.Op == "binop" && x.Tok == token.AND && len(x.Args) == 2 && x.Args[1].isConst() && x.Args[1].Const != nil && x.Args[1].Const.String() == "1" && y.isConst() && y.Const != nil && y.Const.Kind() == constant.Int {
		if v, ok := constant.Int64Val(y.Const); ok && (v == 0 || v == 1) {
			// canonical form: == 1 or == 0
			if op == token.NEQ {
				op = token.EQL
				v = 1 - v
			}
			return &Sym{Op: "binop", Tok: token.EQL, Args: []*Sym{x, symConst(constant.MakeInt64(v), x.Type)}, Type: t}
		}
	}
	// linear folding: (b + c1) ± c2 -> b + (c1 ± c2)
	if (op == token.ADD || op == token.SUB) && t != nil && isInteger(t) {
		bx, ox, okx := linDecomp(x)
		by, oy, oky := linDecomp(y)
		if okx && oky {
			switch {
			case by == nil && op == token.ADD:
				return linBuild(bx, ox+oy, t)
			case by == nil && op == token.SUB:
				return linBuild(bx, ox-oy, t)
			case bx == nil && op == token.ADD:
				return linBuild(by, ox+oy, t)
			}
		}
	}
	// nil comparisons
	if (op == token.EQL || op == token.NEQ) && x.isConst() && y.isConst() && (x.IsNil || y.IsNil) {
		return symBool((x.IsNil == y.IsNil) == (op == token.EQL))
	}
	switch op {
	case token.EQL, token.NEQ, token.LSS, token.LEQ, token.GTR, token.GEQ:
		if e.Rank != nil {
			rx, okx := e.rankOf(x)
			ry, oky := e.rankOf(y)
			if okx && oky {
				var r bool
				switch op {
				case token.EQL:
					r = rx == ry
				case token.NEQ:
					r = rx != ry
				case token.LSS:
					r = rx < ry
				case token.LEQ:
					r = rx <= ry
				case token.GTR:
					r = rx > ry
				case token.GEQ:
					r = rx >= ry
				}
				return symBool(r)
			}
		}
		if x.String() == y.String() && !isFloat2(x.Type) {
			switch op {
			case token.EQL, token.LEQ, token.GEQ:
				return symBool(true)
			default:
				return symBool(false)
			}
		}
		// canonical operand order for == and !=; rewrite > as <, >= as <=
		switch op {
		case token.EQL, token.NEQ:
			if x.isConst() && !y.isConst() {
				x, y = y, x
			} else if !x.isConst() && !y.isConst() && x.String() > y.String() {
				x, y = y, x
			}
		case token.GTR:
			op, x, y = token.LSS, y, x
		case token.GEQ:
			op, x, y = token.LEQ, y, x
		}
		if op == token.NEQ {
			return &Sym{Op: "unop", Tok: token.NOT, Args: []*Sym{{Op: "binop", Tok: token.EQL, Args: []*Sym{x, y}, Type: t}}, Type: t}
		}
	case token.ADD, token.MUL, token.AND, token.OR, token.XOR:
		if !isString2(x.Type) && !isFloat2(x.Type) {
			if x.isConst() && !y.isConst() {
				x, y = y, x
			} else if !y.isConst() && x.String() > y.String() {
				x, y = y, x
			}
		}
	}
	return &Sym{Op: "binop", Tok: op, Args: []*Sym{x, y}, Type: t}
}

// linDecomp splits an integer symbol into base + constant offset (base nil for pure constants).
func linDecomp(s *Sym) (*Sym, int64, bool) {
	if s.isConst() {
		if s.Const != nil && s.Const.Kind() == constant.Int {
			if n, ok := constant.Int64Val(s.Const); ok {
				return nil, n, true
			}
		}
		return nil, 0, false
	}
	if s.Op == "binop" && (s.Tok == token.ADD || s.Tok == token.SUB) {
		for i := 0; i < 2; i++ {
			c, o := s.Args[i], s.Args[1-i]
			if c.isConst() && c.Const != nil && c.Const.Kind() == constant.Int {
				n, ok := constant.Int64Val(c.Const)
				if !ok {
					continue
				}
				if s.Tok == token.SUB {
					if i == 0 {
						continue // c - x is not linear in +x
					}
					n = -n
				}
				b, off, ok2 := linDecomp(o)
				if ok2 && b != nil {
					return b, off + n, true
				}
				return o, n, true
			}
		}
	}
	return s, 0, true
}

func linBuild(base *Sym, off int64, t types.Type) *Sym {
	if base == nil {
		return symConst(constant.MakeInt64(off), t)
	}
	if off == 0 {
		return base
	}
	tok := token.ADD
	if off < 0 {
		tok, off = token.SUB, -off
	}
	return &Sym{Op: "binop", Tok: tok, Args: []*Sym{base, symConst(constant.MakeInt64(off), t)}, Type: t}
}

func isFloat2(t types.Type) bool   { return t != nil && isFloat(t) }
func isString2(t types.Type) bool  { return t != nil && isString(t) }
func isInteger2(t types.Type) bool { return t != nil && isInteger(t) }

func (e *e6Interp) rankOf(s *Sym) (int, bool) {
	if s.isConst() && s.Const != nil && s.Const.Kind() == constant.String && constant.StringVal(s.Const) == "" {
		return 0, true
	}
	return e.Rank(s)
}

// runRegion interprets from block start (entered from pred, which may be nil)
// until a Return/Panic or until control reaches a block in stop.
func (e *e6Interp) runRegion(start, pred *ssa.BasicBlock, stop map[*ssa.BasicBlock]bool) (out *e6Outcome, need *e6NeedAtom, und *e6Undecided) {
	e.env = map[ssa.Value]*Sym{}
	e.mem = map[string]*Sym{}
	e.mapver = map[string]int{}
	e.actions = nil
	defer func() {
		if r := recover(); r != nil {
			switch x := r.(type) {
			case e6NeedAtom:
				need = &x
			case e6Undecided:
				und = &x
			default:
				panic(r)
			}
		}
	}()
	o := &e6Outcome{}
	visited := map[*ssa.BasicBlock]int{}
	b := start
	for {
		visited[b]++
		if visited[b] > 1 {
			o.Term = "loop"
			o.Exit = b
			break
		}
		o.Blocks = append(o.Blocks, b)
		var next *ssa.BasicBlock
		for _, in := range b.Instrs {
			switch x := in.(type) {
			case *ssa.Phi:
				if pred == nil {
					// entering the region at a block with phis: take opaque
					e.env[x] = &Sym{Op: "opaque", Name: "phi:" + x.Name(), Type: x.Type()}
					if c := x.Comment; c != "" {
						e.env[x].Name = "phi:" + c + ":" + x.Name()
					}
					if e.OuterName != nil {
						e.env[x].Name = e.OuterName(x)
					}
					continue
				}
				for i, p := range b.Preds {
					if p == pred {
						e.env[x] = e.val(x.Edges[i])
					}
				}
			case *ssa.If:
				if e.need(e.val(x.Cond)) {
					next = b.Succs[0]
				} else {
					next = b.Succs[1]
				}
			case *ssa.Jump:
				next = b.Succs[0]
			case *ssa.Return:
				o.Term = "return"
				for _, r := range x.Results {
					o.Results = append(o.Results, e.val(r))
				}
			case *ssa.Panic:
				o.Term = "panic"
				o.Results = []*Sym{e.val(x.X)}
			default:
				e.step(in)
			}
		}
		if o.Term != "" {
			break
		}
		if next == nil {
			panic(e6Undecided{"block without terminator"})
		}
		if stop[next] {
			o.Term = "exit"
			o.Exit = next
			o.ExitFrom = b
			break
		}
		pred, b = b, next
	}
	o.Assign = map[string]bool{}
	for k, v := range e.assign {
		o.Assign[k] = v
	}
	o.Order = append([]string(nil), e.order...)
	o.AtomSyms = e.syms
	o.Actions = e.actions
	o.Mem = e.mem
	o.Env = e.env
	o.interp = e
	return o, nil, nil
}

func (e *e6Interp) step(in ssa.Instruction) {
	switch x := in.(type) {
	case *ssa.DebugRef:
	case *ssa.Alloc:
		e.allocN++
		name := x.Comment
		if name == "" {
			name = x.Name()
		}
		e.env[x] = &Sym{Op: "alloc", Name: fmt.Sprintf("%s#%d", name, e.allocN), Type: x.Type()}
	case *ssa.FieldAddr:
		f, _ := fieldOfAddr(x)
		e.env[x] = &Sym{Op: "fieldaddr", Args: []*Sym{e.val(x.X)}, Name: f.Name(), Obj: f, Type: x.Type()}
	case *ssa.Field:
		f, _ := fieldOfVal(x)
		e.env[x] = fieldOfSym(e.val(x.X), f.Name(), f, x.Type())
	case *ssa.IndexAddr:
		e.env[x] = &Sym{Op: "indexaddr", Args: []*Sym{e.val(x.X), e.val(x.Index)}, Type: x.Type()}
	case *ssa.Index:
		xs, is := e.val(x.X), e.val(x.Index)
		if xs.isConst() && is.isConst() && xs.Const != nil && is.Const != nil && xs.Const.Kind() == constant.String {
			s := constant.StringVal(xs.Const)
			if i, ok := constant.Int64Val(is.Const); ok && i >= 0 && int(i) < len(s) {
				e.env[x] = symConst(constant.MakeInt64(int64(s[i])), x.Type())
				return
			}
		}
		e.env[x] = &Sym{Op: "index", Args: []*Sym{xs, is}, Type: x.Type()}
	case *ssa.UnOp:
		a := e.val(x.X)
		switch x.Op {
		case token.MUL:
			e.env[x] = e.load(a, x.Type())
		case token.NOT:
			if v, ok := a.boolConst(); ok {
				e.env[x] = symBool(!v)
			} else if a.Op == "unop" && a.Tok == token.NOT {
				e.env[x] = a.Args[0]
			} else {
				e.env[x] = &Sym{Op: "unop", Tok: token.NOT, Args: []*Sym{a}, Type: x.Type()}
			}
		case token.SUB:
			if a.isConst() && a.Const != nil {
				e.env[x] = symConst(constant.UnaryOp(token.SUB, a.Const, 0), x.Type())
			} else {
				e.env[x] = &Sym{Op: "unop", Tok: x.Op, Args: []*Sym{a}, Type: x.Type()}
			}
		default:
			e.env[x] = &Sym{Op: "unop", Tok: x.Op, Args: []*Sym{a}, Type: x.Type()}
		}
	case *ssa.BinOp:
		e.env[x] = e.binop(x.Op, e.val(x.X), e.val(x.Y), x.Type())
	case *ssa.Store:
		a, v := e.val(x.Addr), e.val(x.Val)
		e.store(a, v)
		e.actions = append(e.actions, e6Action{Kind: "store", Args: []*Sym{a, v}, Instr: in})
	case *ssa.Extract:
		t := e.val(x.Tuple)
		if t.Op == "tuple" && x.Index < len(t.Args) {
			e.env[x] = t.Args[x.Index]
		} else {
			e.env[x] = &Sym{Op: "extract", Args: []*Sym{t}, Idx: x.Index, Type: x.Type()}
		}
	case *ssa.Lookup:
		m, k := e.val(x.X), e.val(x.Index)
		if m.isConst() && k.isConst() && m.Const != nil && m.Const.Kind() == constant.String {
			// string indexing with constants
			s := constant.StringVal(m.Const)
			if i, ok := constant.Int64Val(k.Const); ok && int(i) < len(s) {
				e.env[x] = symConst(constant.MakeInt64(int64(s[i])), x.Type())
				return
			}
		}
		mk := "map:" + m.String() + "[" + k.String() + "]"
		if v, ok := e.mem[mk]; ok {
			if x.CommaOk {
				e.env[x] = &Sym{Op: "tuple", Args: []*Sym{v, symBool(true)}}
			} else {
				e.env[x] = v
			}
			return
		}
		if e.mem["mapdel:"+m.String()+"["+k.String()+"]"] != nil {
			zt := x.Type()
			if x.CommaOk {
				zt = x.Type().(*types.Tuple).At(0).Type()
				e.env[x] = &Sym{Op: "tuple", Args: []*Sym{zeroSym(zt), symBool(false)}}
			} else {
				e.env[x] = zeroSym(zt)
			}
			return
		}
		e.env[x] = &Sym{Op: "lookup", Args: []*Sym{m, k}, Ver: e.mapver[m.String()], Type: x.Type()}
	case *ssa.MapUpdate:
		m, k, v := e.val(x.Map), e.val(x.Key), e.val(x.Value)
		e.mem["map:"+m.String()+"["+k.String()+"]"] = v
		delete(e.mem, "mapdel:"+m.String()+"["+k.String()+"]")
		e.mapver[m.String()]++
		e.actions = append(e.actions, e6Action{Kind: "mapupdate", Args: []*Sym{m, k, v}, Instr: in})
	case *ssa.Call:
		e.call(x, x.Common(), in)
	case *ssa.Defer:
		e.actions = append(e.actions, e6Action{Kind: "defer", Callee: calleeObj(&x.Call), Args: e.vals(callArgs(&x.Call)), Instr: in, Fn: e.val(x.Call.Value)})
	case *ssa.Go:
		e.actions = append(e.actions, e6Action{Kind: "go", Callee: calleeObj(&x.Call), Args: e.vals(callArgs(&x.Call)), Instr: in})
	case *ssa.RunDefers:
	case *ssa.Send:
		e.actions = append(e.actions, e6Action{Kind: "send", Args: []*Sym{e.val(x.Chan), e.val(x.X)}, Instr: in})
	case *ssa.ChangeType:
		e.env[x] = e.val(x.X)
	case *ssa.Convert:
		a := e.val(x.X)
		if a.isConst() && a.Const != nil && !a.IsNil {
			if bt, ok := x.Type().Underlying().(*types.Basic); ok {
				switch {
				case bt.Info()&types.IsInteger != 0 && a.Const.Kind() == constant.Int:
					e.env[x] = symConst(a.Const, x.Type())
					return
				case bt.Info()&types.IsFloat != 0 && (a.Const.Kind() == constant.Int || a.Const.Kind() == constant.Float):
					e.env[x] = symConst(constant.ToFloat(a.Const), x.Type())
					return
				case bt.Info()&types.IsString != 0 && a.Const.Kind() == constant.String:
					e.env[x] = symConst(a.Const, x.Type())
					return
				}
			}
		}
		e.env[x] = &Sym{Op: "convert", Name: x.Type().String(), Args: []*Sym{a}, Type: x.Type()}
	case *ssa.MakeInterface:
		e.env[x] = &Sym{Op: "iface", Args: []*Sym{e.val(x.X)}, Type: x.Type()}
	case *ssa.ChangeInterface:
		e.env[x] = e.val(x.X)
	case *ssa.TypeAssert:
		a := e.val(x.X)
		r := &Sym{Op: "typeassert", Name: x.AssertedType.String(), Args: []*Sym{a}, Type: x.Type()}
		e.env[x] = r
	case *ssa.MakeClosure:
		var bs []*Sym
		for _, b := range x.Bindings {
			bs = append(bs, e.val(b))
		}
		e.env[x] = &Sym{Op: "closure", Name: x.Fn.Name(), Args: bs, Type: x.Type(), Obj: nil}
	case *ssa.MakeMap:
		e.allocN++
		e.env[x] = &Sym{Op: "alloc", Name: fmt.Sprintf("makemap#%d", e.allocN), Type: x.Type()}
	case *ssa.MakeSlice:
		e.allocN++
		e.env[x] = &Sym{Op: "makeslice", Name: fmt.Sprintf("#%d", e.allocN), Args: []*Sym{e.val(x.Len)}, Type: x.Type()}
	case *ssa.MakeChan:
		e.allocN++
		e.env[x] = &Sym{Op: "alloc", Name: fmt.Sprintf("makechan#%d", e.allocN), Type: x.Type()}
	case *ssa.Slice:
		args := []*Sym{e.val(x.X)}
		for _, y := range []ssa.Value{x.Low, x.High, x.Max} {
			if y != nil {
				args = append(args, e.val(y))
			} else {
				args = append(args, &Sym{Op: "const", Name: "_"})
			}
		}
		e.env[x] = &Sym{Op: "slice", Args: args, Type: x.Type()}
	case *ssa.Range:
		e.env[x] = &Sym{Op: "range", Args: []*Sym{e.val(x.X)}, Type: x.Type()}
	case *ssa.Next:
		e.allocN++
		e.env[x] = &Sym{Op: "next", Name: fmt.Sprintf("#%d", e.allocN), Args: []*Sym{e.val(x.Iter)}, Type: x.Type()}
	case *ssa.Select:
		panic(e6Undecided{"select in region"})
	default:
		panic(e6Undecided{fmt.Sprintf("unhandled instruction %T", in)})
	}
}

func (e *e6Interp) vals(vs []ssa.Value) []*Sym {
	out := make([]*Sym, len(vs))
	for i, v := range vs {
		out[i] = e.val(v)
	}
	return out
}

func (e *e6Interp) call(x ssa.Value, cc *ssa.CallCommon, in ssa.Instruction) {
	args := e.vals(callArgs(cc))
	if b, ok := cc.Value.(*ssa.Builtin); ok {
		switch b.Name() {
		case "len", "cap":
			if args[0].isConst() && args[0].Const != nil && args[0].Const.Kind() == constant.String {
				e.env[x] = symConst(constant.MakeInt64(int64(len(constant.StringVal(args[0].Const)))), x.Type())
				return
			}
			if args[0].isConst() && args[0].IsNil {
				e.env[x] = symConst(constant.MakeInt64(0), x.Type())
				return
			}
			e.env[x] = &Sym{Op: "call", Name: b.Name(), Args: args, Type: x.Type()}
			return
		case "delete":
			m, k := args[0], args[1]
			delete(e.mem, "map:"+m.String()+"["+k.String()+"]")
			e.mem["mapdel:"+m.String()+"["+k.String()+"]"] = symBool(true)
			e.mapver[m.String()]++
			e.actions = append(e.actions, e6Action{Kind: "mapdelete", Args: args, Instr: in})
			return
		case "append", "copy", "min", "max":
			if (b.Name() == "min" || b.Name() == "max") && e.Rank != nil && len(args) > 0 {
				// ordered symbols with known ranks: the result is one of the operands
				best, bestRank, all := args[0], 0, true
				for i, a := range args {
					rk, ok := e.rankOf(a)
					if !ok {
						all = false
						break
					}
					if i == 0 || (b.Name() == "min" && rk < bestRank) || (b.Name() == "max" && rk > bestRank) {
						best, bestRank = a, rk
					}
				}
				if all {
					e.env[x] = best
					return
				}
			}
			r := &Sym{Op: "call", Name: b.Name(), Args: args, Type: x.Type()}
			e.env[x] = r
			if b.Name() == "copy" {
				e.actions = append(e.actions, e6Action{Kind: "call", Args: args, Instr: in, Fn: &Sym{Op: "fn", Name: "builtin.copy"}, Res: r})
			}
			return
		}
		e.env[x] = &Sym{Op: "call", Name: b.Name(), Args: args, Type: x.Type()}
		e.actions = append(e.actions, e6Action{Kind: "call", Args: args, Instr: in, Fn: &Sym{Op: "fn", Name: "builtin." + b.Name()}})
		return
	}
	co := calleeObj(cc)
	if sf := cc.StaticCallee(); sf != nil && e.Inline != nil && sf.Blocks != nil && e.depth < 3 && e.Inline(sf) {
		e.env[x] = e.inline(sf, args, x.Type())
		return
	}
	// a straight-line arithmetic helper (numbers in, one number out, one block, no calls) is always evaluated in
	// place: it adds no conditions and has no effects, and a formula moved into such a helper is still the formula
	if sf := cc.StaticCallee(); sf != nil && e.depth < 3 && isStraightArith(sf) {
		e.env[x] = e.inline(sf, args, x.Type())
		return
	}
	r := &Sym{Op: "call", Args: args, Type: x.Type(), Obj: co}
	if co != nil {
		r.Name = co.FullName()
	} else {
		r.Name = "dyn"
		r.Args = append([]*Sym{e.val(cc.Value)}, args...)
	}
	e.allocN++
	pure := co != nil && e.PureCall != nil && e.PureCall(co)
	if !pure {
		// impure calls return distinct results each time
		r.Name += fmt.Sprintf("@%d", e.allocN)
	}
	e.env[x] = r
	if !pure {
		a := e6Action{Kind: "call", Callee: co, Args: args, Instr: in, Res: r}
		if co == nil {
			a.Fn = e.val(cc.Value)
		}
		e.actions = append(e.actions, a)
	}
}

// inline evaluates a callee body in a nested frame sharing memory, valuation and actions.
func (e *e6Interp) inline(f *ssa.Function, args []*Sym, rt types.Type) *Sym {
	saveEnv := e.env
	e.env = map[ssa.Value]*Sym{}
	for i, p := range f.Params {
		if i < len(args) {
			e.env[p] = args[i]
		}
	}
	e.depth++
	defer func() { e.depth--; e.env = saveEnv }()
	visited := map[*ssa.BasicBlock]bool{}
	var pred *ssa.BasicBlock
	b := f.Blocks[0]
	for {
		if visited[b] {
			panic(e6Undecided{"loop in inlined callee " + f.Name()})
		}
		visited[b] = true
		var next *ssa.BasicBlock
		for _, in := range b.Instrs {
			switch x := in.(type) {
			case *ssa.Phi:
				for i, p := range b.Preds {
					if p == pred {
						e.env[x] = e.val(x.Edges[i])
					}
				}
			case *ssa.If:
				if e.need(e.val(x.Cond)) {
					next = b.Succs[0]
				} else {
					next = b.Succs[1]
				}
			case *ssa.Jump:
				next = b.Succs[0]
			case *ssa.Return:
				switch len(x.Results) {
				case 0:
					return &Sym{Op: "tuple"}
				case 1:
					return e.val(x.Results[0])
				}
				return &Sym{Op: "tuple", Args: e.vals(x.Results)}
			case *ssa.Panic:
				panic(e6Undecided{"panic in inlined callee " + f.Name()})
			default:
				e.step(in)
			}
		}
		pred, b = b, next
	}
}

// e6Enumerate runs the region under every consistent valuation of the atoms it consults.
func e6Enumerate(mk func() *e6Interp, start, pred *ssa.BasicBlock, stop map[*ssa.BasicBlock]bool, maxRuns int) ([]*e6Outcome, string) {
	type job struct {
		assign map[string]bool
		order  []string
		syms   map[string]*Sym
	}
	work := []job{{map[string]bool{}, nil, map[string]*Sym{}}}
	var outs []*e6Outcome
	runs := 0
	for len(work) > 0 {
		j := work[len(work)-1]
		work = work[:len(work)-1]
		runs++
		if runs > maxRuns {
			return outs, fmt.Sprintf("more than %d runs", maxRuns)
		}
		e := mk()
		e.assign, e.order, e.syms = j.assign, j.order, j.syms
		o, need, und := e.runRegion(start, pred, stop)
		if und != nil {
			return outs, und.why
		}
		if need != nil {
			maxAtoms := 14
			if e.MaxAtoms > 0 {
				maxAtoms = e.MaxAtoms
			}
			if len(j.assign) >= maxAtoms {
				return outs, fmt.Sprintf("more than %d atoms in one region", maxAtoms)
			}
			for _, v := range []bool{false, true} {
				na := map[string]bool{}
				for k, x := range j.assign {
					na[k] = x
				}
				na[need.key] = v
				ns := map[string]*Sym{}
				for k, x := range j.syms {
					ns[k] = x
				}
				ns[need.key] = need.sym
				work = append(work, job{na, append(append([]string(nil), j.order...), need.key), ns})
			}
			continue
		}
		outs = append(outs, o)
	}
	return outs, ""
}

// ---- loops ----

type loopInfo struct {
	Header *ssa.BasicBlock
	Blocks map[*ssa.BasicBlock]bool
	Latch  []*ssa.BasicBlock
}

// naturalLoops finds the natural loops of fn (one per header).
func naturalLoops(fn *ssa.Function) []*loopInfo {
	byHeader := map[*ssa.BasicBlock]*loopInfo{}
	var order []*ssa.BasicBlock
	for _, b := range fn.Blocks {
		for _, s := range b.Succs {
			if s.Dominates(b) {
				// back edge b -> s
				li := byHeader[s]
				if li == nil {
					li = &loopInfo{Header: s, Blocks: map[*ssa.BasicBlock]bool{s: true}}
					byHeader[s] = li
					order = append(order, s)
				}
				li.Latch = append(li.Latch, b)
				// collect
				stack := []*ssa.BasicBlock{b}
				for len(stack) > 0 {
					n := stack[len(stack)-1]
					stack = stack[:len(stack)-1]
					if li.Blocks[n] {
						continue
					}
					li.Blocks[n] = true
					stack = append(stack, n.Preds...)
				}
			}
		}
	}
	var out []*loopInfo
	for _, h := range order {
		out = append(out, byHeader[h])
	}
	return out
}

// loopExits returns the blocks outside the loop that are successors of loop blocks.
func (l *loopInfo) exits() map[*ssa.BasicBlock]bool {
	out := map[*ssa.BasicBlock]bool{}
	for b := range l.Blocks {
		for _, s := range b.Succs {
			if !l.Blocks[s] {
				out[s] = true
			}
		}
	}
	return out
}

// iterStop returns the stop set for interpreting one iteration of lp starting at
// its body block: the header (back edge) and every block not dominated by the
// body's first block. Blocks that follow a break/return inside the body are
// dominated by it and therefore belong to the iteration.
func iterStop(lp *loopInfo, start *ssa.BasicBlock) map[*ssa.BasicBlock]bool {
	stop := map[*ssa.BasicBlock]bool{lp.Header: true}
	for _, b := range start.Parent().Blocks {
		if !start.Dominates(b) {
			stop[b] = true
		}
	}
	return stop
}

// symInt evaluates an integer-valued symbolic expression given values for its leaves (leaf returns ok=false for "not a
// leaf"); comparisons evaluate to 0/1.
func symInt(s *Sym, leaf func(*Sym) (int64, bool)) (int64, bool) {
	if v, ok := leaf(s); ok {
		return v, true
	}
	switch s.Op {
	case "const":
		if s.Const != nil {
			switch s.Const.Kind() {
			case constant.Int:
				if v, ok := constant.Int64Val(s.Const); ok {
					return v, true
				}
				if u, ok := constant.Uint64Val(s.Const); ok {
					return int64(u), true
				}
			case constant.Bool:
				if constant.BoolVal(s.Const) {
					return 1, true
				}
				return 0, true
			}
		}
	case "convert":
		if len(s.Args) == 1 {
			return symInt(s.Args[0], leaf)
		}
	case "unop":
		if len(s.Args) == 1 {
			v, ok := symInt(s.Args[0], leaf)
			if !ok {
				return 0, false
			}
			switch s.Tok {
			case token.NOT:
				if v == 0 {
					return 1, true
				}
				return 0, true
			case token.SUB:
				return -v, true
			}
		}
	case "binop":
		a, ok1 := symInt(s.Args[0], leaf)
		b, ok2 := symInt(s.Args[1], leaf)
		if !ok1 || !ok2 {
			return 0, false
		}
		bv := func(x bool) (int64, bool) {
			if x {
				return 1, true
			}
			return 0, true
		}
		switch s.Tok {
		case token.ADD:
			return a + b, true
		case token.SUB:
			return a - b, true
		case token.MUL:
			return a * b, true
		case token.AND:
			return a & b, true
		case token.OR:
			return a | b, true
		case token.XOR:
			return a ^ b, true
		case token.SHL:
			if b >= 0 && b < 64 {
				return int64(uint64(a) << uint(b)), true
			}
			return 0, true
		case token.SHR:
			if b >= 0 && b < 64 {
				return int64(uint64(a) >> uint(b)), true
			}
			return 0, true
		case token.LSS:
			return bv(a < b)
		case token.LEQ:
			return bv(a <= b)
		case token.GTR:
			return bv(a > b)
		case token.GEQ:
			return bv(a >= b)
		case token.EQL:
			return bv(a == b)
		case token.NEQ:
			return bv(a != b)
		}
	}
	return 0, false
}

// isStraightArith: a function with a body of one block that only computes with its numeric parameters.
func isStraightArith(f *ssa.Function) bool {
	if f.Blocks == nil || len(f.Blocks) != 1 || f.Signature.Recv() != nil || f.Signature.Results().Len() < 1 || len(f.Params) == 0 || len(f.FreeVars) > 0 {
		return false
	}
	isNum := func(t types.Type) bool {
		b, ok := t.Underlying().(*types.Basic)
		return ok && b.Info()&types.IsNumeric != 0
	}
	for i := 0; i < f.Signature.Results().Len(); i++ {
		if !isNum(f.Signature.Results().At(i).Type()) {
			return false
		}
	}
	for _, p := range f.Params {
		if !isNum(p.Type()) {
			return false
		}
	}
	for _, in := range f.Blocks[0].Instrs {
		switch in.(type) {
		case *ssa.BinOp, *ssa.UnOp, *ssa.Convert, *ssa.ChangeType, *ssa.Return, *ssa.DebugRef:
		default:
			return false
		}
	}
	return true
}

// isPurePredicate: a loop-free function of package pkgPath without receiver that returns one bool and has no effects:
// no stores, no map updates, no calls other than builtins and the comparison functions of bytes and strings.
func isPurePredicate(f *ssa.Function, pkgPath string) bool {
	if f == nil || f.Blocks == nil || f.Pkg == nil || f.Pkg.Pkg.Path() != pkgPath || f.Signature.Recv() != nil || f.Parent() != nil {
		return false
	}
	if f.Signature.Results().Len() != 1 || !isBoolean(f.Signature.Results().At(0).Type()) || len(f.Blocks) > 8 || len(naturalLoops(f)) > 0 {
		return false
	}
	pure := true
	eachInstr(f, func(_ *ssa.BasicBlock, in ssa.Instruction) {
		switch x := in.(type) {
		case *ssa.Store, *ssa.MapUpdate, *ssa.Go, *ssa.Defer, *ssa.Send, *ssa.Panic:
			pure = false
		case ssa.CallInstruction:
			if _, ok := x.Common().Value.(*ssa.Builtin); ok {
				return
			}
			co := calleeObj(x.Common())
			if co == nil || co.Pkg() == nil || (co.Pkg().Path() != "bytes" && co.Pkg().Path() != "strings") {
				pure = false
			}
		}
	})
	return pure
}

// pureOfParams: v is computed from parameters and constants by arithmetic, conversions and the builtins len, cap, min
// and max only (no loads, no calls): its value does not depend on where in the function it is evaluated.
func pureOfParams(v ssa.Value, d int) bool {
	if d > 6 {
		return false
	}
	switch x := v.(type) {
	case *ssa.Const, *ssa.Parameter:
		return true
	case *ssa.BinOp:
		return pureOfParams(x.X, d+1) && pureOfParams(x.Y, d+1)
	case *ssa.Convert:
		return pureOfParams(x.X, d+1)
	case *ssa.ChangeType:
		return pureOfParams(x.X, d+1)
	case *ssa.FieldAddr:
		// the address of a field of what a parameter points to: fixed for the call
		return pureOfParams(x.X, d+1)
	case *ssa.UnOp:
		return (x.Op == token.SUB || x.Op == token.NOT || x.Op == token.XOR) && pureOfParams(x.X, d+1)
	case *ssa.Call:
		bi, ok := x.Call.Value.(*ssa.Builtin)
		if !ok || !(bi.Name() == "len" || bi.Name() == "cap" || bi.Name() == "min" || bi.Name() == "max") {
			return false
		}
		for _, a := range x.Call.Args {
			if !pureOfParams(a, d+1) {
				return false
			}
		}
		return true
	}
	return false
}

// pureOfInvariants: like pureOfParams, and also loads of fields reached from a parameter, provided fn never stores to
// a field of that name and makes no calls other than builtins (so nothing in fn can change what the load yields).
func pureOfInvariants(v ssa.Value, fn *ssa.Function, d int) bool {
	if d > 6 || fn == nil {
		return false
	}
	switch x := v.(type) {
	case *ssa.Const, *ssa.Parameter:
		return true
	case *ssa.BinOp:
		return pureOfInvariants(x.X, fn, d+1) && pureOfInvariants(x.Y, fn, d+1)
	case *ssa.Convert:
		return pureOfInvariants(x.X, fn, d+1)
	case *ssa.ChangeType:
		return pureOfInvariants(x.X, fn, d+1)
	case *ssa.UnOp:
		if x.Op == token.MUL {
			fa, ok := x.X.(*ssa.FieldAddr)
			if !ok {
				return false
			}
			if _, isParam := fa.X.(*ssa.Parameter); !isParam {
				return false
			}
			fld, _ := fieldOfAddr(fa)
			return fld != nil && leavesFieldAlone(fn, fld.Name(), 0)
		}
		return (x.Op == token.SUB || x.Op == token.NOT || x.Op == token.XOR) && pureOfInvariants(x.X, fn, d+1)
	case *ssa.Call:
		bi, ok := x.Call.Value.(*ssa.Builtin)
		if !ok || !(bi.Name() == "len" || bi.Name() == "cap" || bi.Name() == "min" || bi.Name() == "max") {
			return false
		}
		for _, a := range x.Call.Args {
			if !pureOfInvariants(a, fn, d+1) {
				return false
			}
		}
		return true
	}
	return false
}

// leavesFieldAlone: fn stores to no field of the given name and calls only builtins, functions without pointer-like
// arguments, or functions with a body that themselves leave the field alone.
func leavesFieldAlone(fn *ssa.Function, field string, depth int) bool {
	if fn == nil || fn.Blocks == nil || depth > 3 {
		return false
	}
	quiet := true
	eachInstr(fn, func(_ *ssa.BasicBlock, in ssa.Instruction) {
		if !quiet {
			return
		}
		switch y := in.(type) {
		case *ssa.Store:
			if f2, _ := fieldOfAddr(y.Addr); f2 != nil && f2.Name() == field {
				quiet = false
			}
		case ssa.CallInstruction:
			if _, isB := y.Common().Value.(*ssa.Builtin); isB {
				return
			}
			pointerArg := false
			for _, a := range callArgs(y.Common()) {
				if isPointerLike(a.Type()) && !isString(a.Type()) {
					pointerArg = true
				}
			}
			if !pointerArg {
				return
			}
			sc := y.Common().StaticCallee()
			if sc == nil || sc == fn || !leavesFieldAlone(sc, field, depth+1) {
				quiet = false
			}
		}
	})
	return quiet
}
