// c19.go: C19 — stored results come back exactly, and queries mean what they say.
package main

import (
	"fmt"
	"go/constant"
	"go/token"
	"go/types"
	"regexp/syntax"
	"sort"
	"strings"

	"golang.org/x/tools/go/ssa"
)

func init() { register("C19", checkC19) }

const stQueryPkg = modPath + "/storage/query"
const stBfPkg = modPath + "/storage/benchfmt"

func checkC19(c *Ctx) {
	c.Rule("C19/R1", "term merger = interval intersection (DESIGN Appendix A7): for every pair of operators and every weak ordering of the endpoint strings (with the empty string minimal), the merged part denotes exactly the intersection of the two parts' value sets, the 'never matches' error denoting the empty set; decided by evaluating the merger's SSA under a rank oracle")
	c.Rule("C19/R2", "SQL generation covers all four operations for both key kinds; per return the placeholders of the SQL text match the supplied arguments in number, column, comparison and order; the separator characters of the word parser are exactly the keys of the separator->operation table with the documented meaning")
	c.Rule("C19/R3", "quoting agrees with splitting: the characters that make the front end quote a value include every byte the word splitter treats specially outside quotes, and the two bytes escaped inside quotes are the ones the splitter unescapes")
	c.Rule("C19/R4", "printer: removed labels print 'k:', new or changed non-empty labels print 'k: v', keys are sorted before printing, then the line; the model becomes the result's labels only after all writes succeeded")
	c.Rule("C19/R5", "coalescing state: wherever the pending record arguments are cleared, the remembered last result is cleared before a successful return")
	c.Rule("C19/R6", "sibling recognisers: the new and the legacy 'key: value' line recognisers apply the same predicates (lower-case start, no space/upper in key, ':' after position 0, blank/tab separated value)")
	c.Rule("C19/R7", "results are immutable: in the legacy reader every write to the current label map happens after the map was replaced by a copy in the same call; labels added by the server (permanent labels) are never set or removed by file content")

	c.Rule("C19/R15", "a listing row shows its own labels only: where the storage client decodes a JSON row into a field of the iterator, a store resetting that field dominates the decode")
	c.Rule("C19/R14", "the database answers as the in-memory pruning does: the statement that selects record contents returns every matching row (no DISTINCT: two records with the same content are two results), and the schema gives no column a collation (values compare bytewise, as part.merge compares them)")
	c.Rule("C19/R13", "labels derived from names: the gomaxprocs label of a stored benchmark is the text after the name's last dash (strings.LastIndex); an upload's file name is derived by slicing, never through path.Base or filepath.Base")
	c.Rule("C19/R12", "label sets are coalesced only when equal: in Labels.Equal a differing value and (where presence is tested) an absent key both lead to 'return false'")
	c.Rule("C19/R10", "the query splitter undoes addToQuery's quoting: in parseQueryString the test for a backslash alone decides that the next byte is skipped")
	c.Rule("C19/R11", "numbers are read back whole from upload IDs: no regular expression literal in storage/db has a capture group under a repetition operator")
	c.Rule("C19/R8", "newest first and filter before limit in the upload listing: every LIMIT of the listing query applies to rows ordered by (Day, Seq) descending as numbers; wherever the listing query is cut with LIMIT n over a per-upload record count that can be zero (the correlated COUNT(*) of the empty-query path), the text before the LIMIT already contains the rCount > 0 condition, so empty or aborted uploads do not use up the n newest slots")
	c.Rule("C19/R9", "the labels the server adds belong to one file (same rule as the per-file clause of C20/R6): the label map handed on with each uploaded part is made per part, or every key set in the loop is set on every path")
	p := mustLoad(c, loadOpts{}, "./storage/db", "./storage/query", "./storage/benchfmt", "./storage/app", "./storage", "./analysis/app", "./benchfmt")
	c19Merge(c, p)
	c19SQL(c, p)
	c19Quoting(c, p)
	c19Printer(c, p)
	c19Coalesce(c, p)
	c19Siblings(c, p)
	c19Immutable(c, p)
	c19Limit(c, p)
	c19Escapes(c, p)
	c19LabelsEqual(c, p)
	c19NameLabels(c, p)
	c19SQLText(c, p)
	c19FirstEquals(c, p)
	c19DecodeIntoFresh(c, p)
	c19RepeatedCaptures(c, p, "C19/R11")
	c20FreshMetaAll(c, p, "C19/R9")
}

// ---- R1 ----

type c19part struct {
	op    string // equals, lt, gt, ltgt
	v, v2 int    // ranks
	isErr bool
}

func c19denote(pt c19part, x2 int) bool {
	// x2 is twice the position of the test point (so midpoints are integers); ranks are doubled for comparison
	switch pt.op {
	case "equals":
		return x2 == 2*pt.v
	case "lt":
		return x2 < 2*pt.v
	case "gt":
		return x2 > 2*pt.v
	case "ltgt":
		return 2*pt.v2 < x2 && x2 < 2*pt.v
	}
	return false
}

func c19Merge(c *Ctx, p *Prog) {
	const R = "C19/R1"
	partT := p.Named("storage/db", "part")
	fn := p.Method("storage/db", "part", "merge")
	if partT == nil || fn == nil {
		c.Undecided(R, "anchor:part.merge", "", "the term merger was not found")
		return
	}
	site := p.pos(fn.Pos())
	// operator constants by name
	ops := map[string]int64{}
	for _, n := range []string{"equals", "lt", "gt", "ltgt"} {
		if k, ok := p.Obj("storage/db", n).(*types.Const); ok {
			v, _ := constant.Int64Val(k.Val())
			ops[n] = v
		}
	}
	if len(ops) != 4 {
		c.Undecided(R, "anchor:operators", site, "operator constants equals/lt/gt/ltgt not found")
		return
	}
	opName := map[int64]string{}
	for n, v := range ops {
		opName[v] = n
	}
	if len(opName) != 4 {
		c.Bad(R, "operators:distinct", site, "two operations share one constant")
		return
	}
	st := partT.Underlying().(*types.Struct)
	opT := st.Field(1).Type()
	mkPart := func(prefix string, op int64) *Sym {
		s := &Sym{Op: "struct", Type: partT, Fields: map[string]*Sym{}}
		s.Fields["key"] = &Sym{Op: "opaque", Name: "key", Type: types.Typ[types.String]}
		s.Fields["operator"] = symConst(constant.MakeInt64(op), opT)
		s.Fields["value"] = &Sym{Op: "opaque", Name: prefix, Type: types.Typ[types.String]}
		s.Fields["value2"] = &Sym{Op: "opaque", Name: prefix + "2", Type: types.Typ[types.String]}
		return s
	}
	names := []string{"a", "a2", "b", "b2"}
	cases, mismatches, undecided := 0, 0, 0
	distinct := map[string]bool{}
	var firstBad string
	var samples []string
	for _, o1 := range []string{"equals", "lt", "gt", "ltgt"} {
		for _, o2 := range []string{"equals", "lt", "gt", "ltgt"} {
			// free symbols: value always; value2 only for ltgt (representation invariant: one-sided parts have an empty second value)
			free := []string{"a", "b"}
			if o1 == "ltgt" {
				free = append(free, "a2")
			}
			if o2 == "ltgt" {
				free = append(free, "b2")
			}
			n := len(free)
			max := n // ranks 0..n
			total := 1
			for i := 0; i < n; i++ {
				total *= max + 1
			}
			for code := 0; code < total; code++ {
				rk := map[string]int{"a2": 0, "b2": 0}
				x := code
				used := map[int]bool{}
				for _, f := range free {
					rk[f] = x % (max + 1)
					used[rk[f]] = true
					x /= max + 1
				}
				// canonical dense assignment: positive ranks used must be 1..m without gaps
				m := 0
				for r := range used {
					if r > m {
						m = r
					}
				}
				dense := true
				for r := 1; r <= m; r++ {
					if !used[r] {
						dense = false
					}
				}
				if !dense {
					continue
				}
				cases++
				init := map[ssa.Value]*Sym{fn.Params[0]: mkPart("a", ops[o1]), fn.Params[1]: mkPart("b", ops[o2])}
				mk := func() *e6Interp {
					return &e6Interp{Init: init,
						// the tail of the merger may live in another loop-free method of part: evaluated in place
						Inline: func(f *ssa.Function) bool {
							return f != fn && f.Pkg == fn.Pkg && f.Signature.Recv() != nil && recvName(f.Signature.Recv().Type()) == "part" && len(naturalLoops(f)) == 0 && len(f.Blocks) <= 16
						},
						Rank: func(s *Sym) (int, bool) {
							if s.Op == "opaque" {
								for _, nm := range names {
									if s.Name == nm {
										return rk[nm], true
									}
								}
							}
							return 0, false
						}}
				}
				outs, why := e6Enumerate(mk, fn.Blocks[0], nil, nil, 64)
				if why != "" || len(outs) != 1 || outs[0].Term != "return" || len(outs[0].Results) != 2 {
					undecided++
					if firstBad == "" {
						firstBad = fmt.Sprintf("%s x %s ranks %v: cannot evaluate (%s, %d outcomes)", o1, o2, rk, why, len(outs))
					}
					continue
				}
				res, errv := outs[0].Results[0], outs[0].Results[1]
				var got c19part
				if !(errv.isConst() && errv.IsNil) {
					got.isErr = true
				} else {
					opS := fieldOfSym(res, "operator", nil, nil)
					if !opS.isConst() || opS.Const == nil {
						undecided++
						continue
					}
					ov, _ := constant.Int64Val(opS.Const)
					got.op = opName[ov]
					rank := func(s *Sym) (int, bool) {
						if s.isConst() && s.Const != nil && s.Const.Kind() == constant.String && constant.StringVal(s.Const) == "" {
							return 0, true
						}
						if s.Op == "opaque" {
							r, ok := rk[s.Name]
							return r, ok
						}
						return 0, false
					}
					var ok1, ok2 bool
					got.v, ok1 = rank(fieldOfSym(res, "value", nil, nil))
					got.v2, ok2 = rank(fieldOfSym(res, "value2", nil, nil))
					if !ok1 || !ok2 {
						undecided++
						continue
					}
				}
				p1 := c19part{op: o1, v: rk["a"], v2: rk["a2"]}
				p2 := c19part{op: o2, v: rk["b"], v2: rk["b2"]}
				okCase := true
				// test points: non-empty strings, i.e. positions 0.5, 1, 1.5, ..., m+0.5 (doubled: 1..2m+1)
				for x2 := 1; x2 <= 2*m+1; x2++ {
					want := c19denote(p1, x2) && c19denote(p2, x2)
					have := !got.isErr && c19denote(got, x2)
					if want != have {
						okCase = false
					}
				}
				key := fmt.Sprintf("%s(%d,%d) ∩ %s(%d,%d)", o1, rk["a"], rk["a2"], o2, rk["b"], rk["b2"])
				distinct[key] = true
				if len(samples) < 6 {
					samples = append(samples, fmt.Sprintf("%s -> %s", key, c19str(got)))
				}
				if !okCase {
					mismatches++
					if firstBad == "" {
						firstBad = fmt.Sprintf("merging %s with %s (ranks of the endpoint strings, \"\"=0) yields %s, which is not the intersection of the two value sets", c19pstr(p1), c19pstr(p2), c19str(got))
					}
				}
			}
		}
	}
	c.extra["merge_cases"] = cases
	c.extra["merge_samples"] = samples
	if undecided > 0 {
		c.Undecided(R, "merge:evaluation", site, fmt.Sprintf("%d of %d cases could not be evaluated: %s", undecided, cases, firstBad))
		return
	}
	c.Check(mismatches == 0, R, "merge:intersection", site, fmt.Sprintf("%d operator-pair x ordering cases evaluated, all equal to the set intersection", cases),
		fmt.Sprintf("%d of %d cases disagree with interval intersection; first: %s", mismatches, cases, firstBad))
	c.Floor(R, "merge cases", cases, 300)
}

func c19pstr(p c19part) string {
	if p.op == "ltgt" {
		return fmt.Sprintf("ltgt(upper=%d, lower=%d)", p.v, p.v2)
	}
	return fmt.Sprintf("%s(%d)", p.op, p.v)
}
func c19str(p c19part) string {
	if p.isErr {
		return "never-matches"
	}
	return c19pstr(p)
}

// ---- R2 ----

func c19SQL(c *Ctx, p *Prog) {
	const R = "C19/R2"
	fn := p.Method("storage/db", "part", "sql")
	partT := p.Named("storage/db", "part")
	if fn == nil || partT == nil {
		c.Undecided(R, "anchor:part.sql", "", "SQL generator not found")
		return
	}
	site := p.pos(fn.Pos())
	ops := map[string]int64{}
	for _, n := range []string{"equals", "lt", "gt", "ltgt"} {
		if k, ok := p.Obj("storage/db", n).(*types.Const); ok {
			ops[n], _ = constant.Int64Val(k.Val())
		}
	}
	opT := partT.Underlying().(*types.Struct).Field(1).Type()
	n := 0
	for _, keyKind := range []string{"upload", "label"} {
		for _, op := range []string{"equals", "lt", "gt", "ltgt"} {
			for _, empty := range []bool{false, true} {
				if empty && keyKind == "upload" {
					continue
				}
				s := &Sym{Op: "struct", Type: partT, Fields: map[string]*Sym{}}
				if keyKind == "upload" {
					s.Fields["key"] = symConst(constant.MakeString("upload"), types.Typ[types.String])
				} else {
					s.Fields["key"] = &Sym{Op: "opaque", Name: "KEY", Type: types.Typ[types.String]}
				}
				s.Fields["operator"] = symConst(constant.MakeInt64(ops[op]), opT)
				if empty {
					s.Fields["value"] = symConst(constant.MakeString(""), types.Typ[types.String])
				} else {
					s.Fields["value"] = &Sym{Op: "opaque", Name: "VALUE", Type: types.Typ[types.String]}
				}
				s.Fields["value2"] = &Sym{Op: "opaque", Name: "VALUE2", Type: types.Typ[types.String]}
				init := map[ssa.Value]*Sym{fn.Params[0]: s}
				mk := func() *e6Interp {
					return &e6Interp{Init: init, Rank: func(x *Sym) (int, bool) {
						switch {
						case x.Op == "opaque" && x.Name == "KEY":
							return 5, true // some non-empty string different from "upload"
						case x.Op == "opaque" && x.Name == "VALUE":
							return 6, true
						case x.isConst() && x.Const != nil && x.Const.Kind() == constant.String && constant.StringVal(x.Const) == "upload":
							return 4, true
						}
						return 0, false
					}, PureCall: func(f *types.Func) bool { return true }}
				}
				outs, why := e6Enumerate(mk, fn.Blocks[0], nil, nil, 64)
				key := fmt.Sprintf("sql[%s key, %s, empty value=%v]", keyKind, op, empty)
				n++
				if why != "" || len(outs) != 1 {
					c.Undecided(R, key, site, fmt.Sprintf("cannot evaluate (%s; %d outcomes)", why, len(outs)))
					continue
				}
				o := outs[0]
				if o.Term == "panic" {
					c.Bad(R, key, site, "SQL generation panics for this operation: it is not handled")
					continue
				}
				if len(o.Results) != 3 {
					c.Undecided(R, key, site, "unexpected result shape")
					continue
				}
				sqlS, isC := constString2(o.Results[0])
				errS := o.Results[2]
				if !(errS.isConst() && errS.IsNil) {
					// documented: missing value for equality on a label
					c.Check(keyKind == "label" && op == "equals" && empty, R, key, site, "rejected: equality with an empty value", "this query part is rejected with an error")
					continue
				}
				if !isC {
					c.Undecided(R, key, site, "SQL text is not a constant")
					continue
				}
				args := sliceLiteralElems(o, o.Results[1])
				conds := sqlConds(sqlS)
				var errs []string
				if strings.Count(sqlS, "?") != len(args) {
					errs = append(errs, fmt.Sprintf("%d placeholders but %d arguments", strings.Count(sqlS, "?"), len(args)))
				}
				// expected (column op arg) triples
				type cond struct{ col, op, arg string }
				var want []cond
				col := "Value"
				if keyKind == "upload" {
					col = "UploadID"
				} else {
					want = append(want, cond{"Name", "=", "KEY"})
				}
				valArg := "VALUE"
				if empty {
					valArg = `""`
				}
				switch op {
				case "equals":
					want = append(want, cond{col, "=", valArg})
				case "lt":
					want = append(want, cond{col, "<", valArg})
				case "gt":
					if !(empty && keyKind == "label") {
						want = append(want, cond{col, ">", valArg})
					}
				case "ltgt":
					want = append(want, cond{col, "<", valArg}, cond{col, ">", "VALUE2"})
				}
				if len(conds) != len(want) {
					errs = append(errs, fmt.Sprintf("conditions %v, expected %v", conds, want))
				} else {
					for i, w := range want {
						arg := "?"
						if i < len(args) {
							arg = symLeafName(args[i])
						}
						if conds[i][0] != w.col || conds[i][1] != w.op || arg != w.arg {
							errs = append(errs, fmt.Sprintf("condition %d is %s %s %s, expected %s %s %s", i+1, conds[i][0], conds[i][1], arg, w.col, w.op, w.arg))
						}
					}
				}
				wantTable := "RecordLabels"
				if keyKind == "upload" {
					wantTable = "Records"
				}
				if !strings.Contains(sqlS, "FROM "+wantTable) {
					errs = append(errs, "wrong table")
				}
				if len(errs) > 0 {
					c.Bad(R, key, site, "SQL "+fmt.Sprintf("%q", sqlS)+": "+strings.Join(errs, "; "))
				} else {
					c.OK(R, key, site, sqlS)
				}
			}
		}
	}
	c.Floor(R, "SQL generation cases", n, 12)

	// separators
	pw := p.Fn("storage/db", "parseWord")
	if pw == nil {
		c.Undecided(R, "anchor:parseWord", "", "word parser not found")
		return
	}
	seps := map[string]bool{}
	for _, f := range append([]*ssa.Function{pw}, pw.AnonFuncs...) {
		cs, _ := runeConsts(f)
		for k := range cs {
			seps[k] = true
		}
	}
	table := map[string]string{}
	initFn := p.SSAPkg("storage/db").Func("init")
	opNames := map[int64]string{}
	for n, v := range ops {
		opNames[v] = n
	}
	eachInstr(initFn, func(_ *ssa.BasicBlock, in ssa.Instruction) {
		if mu, ok := in.(*ssa.MapUpdate); ok {
			if k, ok := constInt(mu.Key); ok {
				if v, ok := constInt(mu.Value); ok && mu.Map.Type().String() == "map[byte]"+strings.ReplaceAll(partT.Obj().Pkg().Path(), "", "")+".operation" {
					table[string(rune(k))] = opNames[v]
				}
			}
		}
	})
	if len(table) == 0 {
		// no table: the operation is chosen by branching on the separator byte; read the mapping off the constant
		// facts about that byte where each operation constant is selected
		facts := constFacts(pw, func(v ssa.Value) bool {
			switch x := v.(type) {
			case *ssa.Lookup:
				return isString(x.X.Type())
			case *ssa.Index:
				return isString(x.X.Type())
			}
			return false
		})
		eachInstr(pw, func(b *ssa.BasicBlock, in ssa.Instruction) {
			phi, ok := in.(*ssa.Phi)
			if !ok || recvName(phi.Type()) != "operation" {
				return
			}
			for i, e := range phi.Edges {
				v, ok := constInt(e)
				if !ok {
					continue
				}
				st := facts[b.Preds[i]]
				if st.Bot || st.Top || len(st.In) != 1 {
					continue
				}
				for k := range st.In {
					table[k] = opNames[v]
				}
			}
		})
		// or stored straight into the part that is returned
		eachInstr(pw, func(b *ssa.BasicBlock, in ssa.Instruction) {
			st, ok := in.(*ssa.Store)
			if !ok || recvName(st.Val.Type()) != "operation" {
				return
			}
			v, ok := constInt(st.Val)
			if !ok {
				return
			}
			fs := facts[b]
			if fs.Bot || fs.Top || len(fs.In) != 1 {
				return
			}
			for k := range fs.In {
				table[k] = opNames[v]
			}
		})
	}
	var tk []string
	for k := range table {
		tk = append(tk, k)
	}
	sort.Strings(tk)
	want := map[string]string{":": "equals", "<": "lt", ">": "gt"}
	okT := len(table) == 3
	for k, v := range want {
		if table[k] != v {
			okT = false
		}
		if !seps[k] {
			okT = false
		}
	}
	c.Check(okT && len(seps) == 3, R, "separators", p.pos(pw.Pos()), "word separators {: < >} map to equals/lt/gt", fmt.Sprintf("the word parser splits at %v but the operation table is %v (documented: ':' equality, '<' less, '>' greater)", setStr(seps), table))
}

// sliceLiteralElems returns the elements of a []T{...} literal value.
func sliceLiteralElems(o *e6Outcome, s *Sym) []*Sym {
	if s.Op != "slice" {
		return nil
	}
	return o.VarArgs(e6Action{Args: []*Sym{s}})
}

func symLeafName(s *Sym) string {
	if s.Op == "iface" {
		s = s.Args[0]
	}
	if s.Op == "opaque" {
		return s.Name
	}
	if v, ok := constString2(s); ok {
		return fmt.Sprintf("%q", v)
	}
	return s.String()
}

// sqlConds extracts [column, op] for each placeholder in "... WHERE A = ? AND B < ? ...".
func sqlConds(sql string) [][2]string {
	var out [][2]string
	i := strings.Index(sql, "WHERE ")
	if i < 0 {
		return nil
	}
	for _, cnd := range strings.Split(sql[i+6:], " AND ") {
		f := strings.Fields(cnd)
		if len(f) == 3 && f[2] == "?" {
			out = append(out, [2]string{f[0], f[1]})
		}
	}
	return out
}

// ---- R3 ----

func c19Quoting(c *Ctx, p *Prog) {
	const R = "C19/R3"
	split := p.Fn("storage/query", "SplitWords")
	quote := p.Fn("analysis/app", "addToQuery")
	if split == nil || quote == nil {
		c.Undecided(R, "anchor:SplitWords/addToQuery", "", "functions not found")
		return
	}
	special, _ := runeConsts(split)
	// trigger set of the quoting function: ContainsAny constant, or a predicate closure
	trigger := map[string]bool{}
	fns := append([]*ssa.Function{quote}, quote.AnonFuncs...)
	// the quoting may have been moved into a helper of the package
	var helpers []*ssa.Function
	eachInstr(quote, func(_ *ssa.BasicBlock, in ssa.Instruction) {
		if call, ok := in.(*ssa.Call); ok {
			if sc := call.Call.StaticCallee(); sc != nil && sc.Blocks != nil && sc.Pkg == quote.Pkg && sc != quote {
				helpers = append(helpers, sc)
				fns = append(fns, sc)
				fns = append(fns, sc.AnonFuncs...)
			}
		}
	})
	isQuoteFn := func(f *ssa.Function) bool {
		if f == quote {
			return true
		}
		for _, h := range helpers {
			if h == f {
				return true
			}
		}
		return false
	}
	for _, f := range fns {
		eachInstr(f, func(_ *ssa.BasicBlock, in ssa.Instruction) {
			call, ok := in.(*ssa.Call)
			if !ok {
				return
			}
			co := calleeObj(&call.Call)
			if objIs(co, "strings", "", "ContainsAny") || objIs(co, "strings", "", "IndexAny") {
				if s, ok := constString(call.Call.Args[1]); ok {
					for _, r := range s {
						trigger[string(r)] = true
					}
				}
			}
			if objIs(co, "strings", "", "Contains") || objIs(co, "strings", "", "ContainsRune") {
				if s, ok := constString(call.Call.Args[1]); ok && isQuoteFn(f) && len(s) == 1 && !strings.Contains(s, "|") {
					trigger[s] = true
				}
			}
			if objIs(co, "unicode", "", "IsSpace") {
				trigger[" "], trigger["\t"] = true, true
			}
		})
		if !isQuoteFn(f) {
			cs, _ := runeConsts(f)
			for k := range cs {
				trigger[k] = true
			}
		}
	}
	var missing []string
	for k := range special {
		if !trigger[k] {
			missing = append(missing, fmt.Sprintf("%q", k))
		}
	}
	sort.Strings(missing)
	c.Check(len(missing) == 0 && len(special) >= 4, R, "quote-trigger", p.pos(quote.Pos()), fmt.Sprintf("values containing any of %s are quoted; the splitter's special bytes are %s", setStr(trigger), setStr(special)),
		fmt.Sprintf("a value containing %s is emitted unquoted although the word splitter treats it specially (special bytes %s, quoting trigger %s): the splitter eats or splits it and the stored record is not found", strings.Join(missing, ", "), setStr(special), setStr(trigger)))
	// escapes: Replace(`\`, `\\`) before Replace(`"`, `\"`)
	var repl [][2]string
	for _, qf := range append([]*ssa.Function{quote}, helpers...) {
		eachInstr(qf, func(_ *ssa.BasicBlock, in ssa.Instruction) {
			if call, ok := in.(*ssa.Call); ok && (objIs(calleeObj(&call.Call), "strings", "", "Replace") || objIs(calleeObj(&call.Call), "strings", "", "ReplaceAll")) {
				a, ok1 := constString(call.Call.Args[1])
				b, ok2 := constString(call.Call.Args[2])
				if ok1 && ok2 {
					repl = append(repl, [2]string{a, b})
				}
			}
		})
	}
	okEsc := len(repl) == 2 && repl[0] == [2]string{`\`, `\\`} && repl[1] == [2]string{`"`, `\"`}
	c.Check(okEsc, R, "quote-escapes", p.pos(quote.Pos()), "backslash is doubled first, then the quote is escaped", fmt.Sprintf("inside quotes the front end escapes %v; the splitter undoes exactly backslash-escapes, so backslash must be doubled first and then the quote escaped", repl))
}

// ---- R4 ----

func c19Printer(c *Ctx, p *Prog) {
	const R = "C19/R4"
	fn := p.Method("storage/benchfmt", "Printer", "Print")
	if fn == nil {
		c.Undecided(R, "anchor:Printer.Print", "", "method not found")
		return
	}
	site := p.pos(fn.Pos())
	labelsF := p.Field("storage/benchfmt", "Printer", "labels")
	resLabelsF := p.Field("storage/benchfmt", "Result", "Labels")
	fns := p.Funcs("storage/benchfmt")
	eff := newEffects(p, fns)
	// the scans of the two label sets: in Print itself or in a helper of the package called from Print
	mrs := classifyMapRanges(p, eff, fn)
	callOf := map[*ssa.Function]*ssa.Call{}
	eachInstr(fn, func(_ *ssa.BasicBlock, in ssa.Instruction) {
		if call, ok := in.(*ssa.Call); ok {
			if h := call.Call.StaticCallee(); h != nil && h != fn && h.Pkg == fn.Pkg && len(h.Blocks) > 0 {
				if _, dup := callOf[h]; dup {
					callOf[h] = nil // called more than once: not mapped to one site
				} else {
					callOf[h] = call
				}
			}
		}
	})
	var helpers []*ssa.Function
	for h, call := range callOf {
		if call != nil {
			helpers = append(helpers, h)
		}
	}
	sort.Slice(helpers, func(i, j int) bool { return callOf[helpers[i]].Pos() < callOf[helpers[j]].Pos() })
	for _, h := range helpers {
		mrs = append(mrs, classifyMapRanges(p, eff, h)...)
	}
	// the ranged map as Print sees it
	rangedIn := func(mr mapRange) ssa.Value {
		if mr.Fn == fn {
			return mr.Range.X
		}
		call := callOf[mr.Fn]
		for i, prm := range mr.Fn.Params {
			if mr.Range.X == ssa.Value(prm) {
				return call.Call.Args[i]
			}
		}
		if f, base := loadOfField(mr.Range.X); f != nil && len(mr.Fn.Params) > 0 && base == ssa.Value(mr.Fn.Params[0]) && mr.Fn.Signature.Recv() != nil {
			return mr.Range.X // a field of the receiver: the same printer
		}
		return nil
	}
	for _, mr := range mrs {
		if len(mr.Reasons) == 0 {
			c.OK(R, mr.Key, p.pos(mr.Pos), "keys collected then sorted: "+strings.Join(mr.Pattern, ", "))
		} else {
			c.Bad(R, mr.Key, p.pos(mr.Pos), "label lines are printed in map order: "+mr.Reasons[0])
		}
	}
	c.Floor(R, "map ranges in the printer", len(mrs), 2)
	// each scan runs for every result: nothing but the emptiness of the scanned map itself may decide whether the loop runs
	// (two label sets of equal size can still differ, so a size comparison cannot tell that no key was removed)
	for i, mr := range mrs {
		key := fmt.Sprintf("Print:scan#%d:unconditional", i+1)
		bad := ""
		judge := func(facts []fact, at *ssa.BasicBlock, lp *loopInfo, ranged ssa.Value) {
			loops := naturalLoops(at.Parent())
			for _, f := range facts {
				if lp != nil && (f.If.Block() == lp.Header || lp.Blocks[f.If.Block()]) {
					continue
				}
				// an earlier loop that has run to its end
				left := false
				for _, l := range loops {
					if l.Header == f.If.Block() && !l.Blocks[at] {
						left = true
					}
				}
				if left {
					continue
				}
				// an earlier write that failed: the whole print is abandoned with that error
				if bo, ok := f.Cond.(*ssa.BinOp); ok && !f.True && bo.Op == token.NEQ && isErrorType(bo.X.Type()) {
					if k, ok := bo.Y.(*ssa.Const); ok && k.IsNil() {
						then := f.If.Block().Succs[0]
						if ret, ok := then.Instrs[len(then.Instrs)-1].(*ssa.Return); ok && len(ret.Results) > 0 && retLast(ret) == bo.X {
							continue
						}
					}
				}
				okGuard := false
				if bo, ok := f.Cond.(*ssa.BinOp); ok && ranged != nil {
					isLenOfRanged := func(v ssa.Value) bool {
						call, ok := v.(*ssa.Call)
						if !ok {
							return false
						}
						bi, ok := call.Call.Value.(*ssa.Builtin)
						return ok && bi.Name() == "len" && sameValue(call.Call.Args[0], ranged)
					}
					isZero := func(v ssa.Value) bool { k, ok := constInt(v); return ok && k == 0 }
					isNil := func(v ssa.Value) bool { k, ok := v.(*ssa.Const); return ok && k.Value == nil }
					switch {
					case (isLenOfRanged(bo.X) && isZero(bo.Y)) || (isLenOfRanged(bo.Y) && isZero(bo.X)):
						okGuard = true
					case (sameValue(bo.X, ranged) && isNil(bo.Y)) || (sameValue(bo.Y, ranged) && isNil(bo.X)):
						okGuard = true
					}
				}
				if !okGuard {
					bad = p.pos(f.If.Pos())
					if bad == "" {
						bad = p.pos(f.Cond.Pos())
					}
					if bad == "" {
						bad = fnName(at.Parent()) + " block " + fmt.Sprint(f.If.Block().Index)
					}
				}
			}
		}
		judge(factsAt(mr.Loop.Header), mr.Loop.Header, mr.Loop, mr.Range.X)
		if mr.Fn != fn {
			call := callOf[mr.Fn]
			var ranged ssa.Value
			for j, prm := range mr.Fn.Params {
				if mr.Range.X == ssa.Value(prm) {
					ranged = call.Call.Args[j]
				}
			}
			judge(factsAt(call.Block()), call.Block(), nil, ranged)
		}
		c.Check(bad == "", R, key, p.pos(mr.Pos), "the scan runs for every result", "the scan over the labels runs only under a condition (at "+bad+") other than the scanned map being non-empty: a result that drops one label and gains another has as many labels as the model, the removed label is never printed as 'k:', and a reader of the output keeps it on all later results")
	}
	// per range: the condition under which a key is collected
	for i, mr := range mrs {
		start := loopBodyStart(mr.Loop)
		outs, why := e6Enumerate(func() *e6Interp { return &e6Interp{} }, start, mr.Loop.Header, iterStop(mr.Loop, start), 64)
		key := fmt.Sprintf("Print:collect#%d", i+1)
		if why != "" {
			c.Undecided(R, key, site, why)
			continue
		}
		overModel := false
		if rv := rangedIn(mr); rv != nil {
			if f, _ := loadOfField(rv); f == labelsF {
				overModel = true
			}
		}
		for _, o := range outs {
			collected := false
			if o.Term == "exit" && o.Exit == mr.Loop.Header {
				for _, in := range mr.Loop.Header.Instrs {
					if phi, ok := in.(*ssa.Phi); ok {
						for j, pr := range mr.Loop.Header.Preds {
							if pr == o.ExitFrom {
								if v := o.Val(phi.Edges[j]); v.Op == "call" && v.Name == "append" {
									collected = true
								}
							}
						}
					}
				}
			}
			// atoms
			var resEmpty, differs *bool
			for _, k := range o.AtomKeys() {
				v := o.Assign[k]
				_ = v
				s := o.AtomSyms[k]
				vv := v
				if s.Op == "binop" && s.Tok == token.EQL && s.Args[1].isConst() {
					if cs, ok := constString2(s.Args[1]); ok && cs == "" {
						resEmpty = &vv
						continue
					}
				}
				if s.Op == "binop" && s.Tok == token.EQL {
					t := !v
					differs = &t
					continue
				}
			}
			ck := fmt.Sprintf("%s[valueEmpty=%s differs=%s]", key, boolPtrStr(resEmpty), boolPtrStr(differs))
			if overModel {
				want := resEmpty != nil && *resEmpty
				c.Check(collected == want, R, ck, site, "a model key is printed as removed exactly when the result has no value for it", "removed labels: a key of the model is scheduled for 'k:' although the result still has it (or not scheduled although it is gone)")
			} else {
				want := resEmpty != nil && !*resEmpty && differs != nil && *differs
				if resEmpty != nil && *resEmpty {
					want = false
				}
				c.Check(collected == want, R, ck, site, "a result label is printed exactly when it is non-empty and differs from the model", "new/changed labels: a label is (not) scheduled for 'k: v' against the rule non-empty ∧ differs from the model")
			}
		}
	}
	// formats and model update
	var kinds []string
	eachInstr(fn, func(_ *ssa.BasicBlock, in ssa.Instruction) {
		if call, ok := in.(*ssa.Call); ok && objIs(calleeObj(&call.Call), "fmt", "", "Fprintf") {
			if f, ok := constString(call.Call.Args[1]); ok {
				kinds = append(kinds, verbRe.ReplaceAllString(f, "%"))
			}
		}
	})
	c.Check(strings.Join(kinds, "|") == "%:\n|%: %\n|%\n", R, "Print:formats", site, "prints 'k:' lines, then 'k: v' lines, then the content line", fmt.Sprintf("the printer's line formats are %q; expected deletions, assignments, then the line", kinds))
	okModel := false
	for _, st := range storesToField(fn, labelsF) {
		if f, _ := loadOfField(st.Val); f == resLabelsF {
			// on the success path only: the block returns nil
			if ret, ok := st.Block().Instrs[len(st.Block().Instrs)-1].(*ssa.Return); ok {
				if cst, ok := retLast(ret).(*ssa.Const); ok && cst.IsNil() {
					okModel = true
				}
			}
		}
	}
	c.Check(okModel, R, "Print:model-update", site, "the model becomes the result's labels after all lines were written", "the printer's model is not set to the result's labels on (and only on) the success path")
}

// ---- R5 ----

func c19Coalesce(c *Ctx, p *Prog) {
	const R = "C19/R5"
	argsF := p.Field("storage/db", "Upload", "insertRecordArgs")
	lastF := p.Field("storage/db", "Upload", "lastResult")
	if argsF == nil || lastF == nil {
		c.Undecided(R, "anchor:Upload.insertRecordArgs/lastResult", "", "fields not found")
		return
	}
	n := 0
	for _, fn := range p.Funcs("storage/db") {
		for i, st := range storesToField(fn, argsF) {
			cst, ok := st.Val.(*ssa.Const)
			if !ok || !cst.IsNil() {
				continue
			}
			n++
			key := fmt.Sprintf("%s:clears pending records#%d", fnName(fn), i+1)
			// every successful return reachable from here passes a store of nil to lastResult
			var clears []*ssa.BasicBlock
			for _, s2 := range storesToField(fn, lastF) {
				if c2, ok := s2.Val.(*ssa.Const); ok && c2.IsNil() {
					clears = append(clears, s2.Block())
				}
			}
			stop := map[*ssa.BasicBlock]bool{}
			for _, b := range clears {
				stop[b] = true
			}
			okAll := len(clears) > 0
			for b := range reachFrom(st.Block(), stop) {
				if ret, isRet := b.Instrs[len(b.Instrs)-1].(*ssa.Return); isRet {
					last := retLast(ret)
					if cst, ok := last.(*ssa.Const); ok && cst.IsNil() && !stop[b] {
						okAll = false
					}
				}
			}
			c.Check(okAll, R, key, p.pos(st.Pos()), "the remembered last result is cleared before any successful return", "pending record arguments are flushed but the remembered last result survives: the next record with the same labels is appended to an argument list that no longer holds it (index out of range or a record glued to the wrong row)")
		}
	}
	c.Floor(R, "sites clearing the pending record arguments", n, 1)
}

// ---- R6 ----

func c19Siblings(c *Ctx, p *Prog) {
	const R = "C19/R6"
	a := p.Fn("benchfmt", "parseKeyValueLine")
	b := p.Fn("storage/benchfmt", "parseKeyValueLine")
	if a == nil || b == nil {
		c.Undecided(R, "anchor:parseKeyValueLine x2", "", "one of the two recognisers was not found")
		return
	}
	desc := func(fn *ssa.Function) string {
		cs, calls := runeConsts(fn)
		var parts []string
		for k := range cs {
			parts = append(parts, fmt.Sprintf("%q", k))
		}
		for k := range calls {
			if strings.HasPrefix(k, "unicode.Is") {
				parts = append(parts, k)
			}
		}
		// uses of package-level masks / other predicates
		eachInstr(fn, func(_ *ssa.BasicBlock, in ssa.Instruction) {
			if bo, ok := in.(*ssa.BinOp); ok && (bo.Op == token.SHR || bo.Op == token.AND) {
				parts = append(parts, "bitmask-test")
			}
		})
		sort.Strings(parts)
		return strings.Join(uniq(parts), " ")
	}
	da, db := desc(a), desc(b)
	want := `" " ":" "\t" unicode.IsLower unicode.IsSpace unicode.IsUpper`
	c.Check(da == db && da == want, R, "key-value-recognisers", p.pos(a.Pos()), "both recognisers use {"+want+"}", fmt.Sprintf("the two 'key: value' recognisers disagree or deviate from the format: benchfmt uses {%s}, storage/benchfmt uses {%s}, the format prescribes {%s}", da, db, want))
}

func uniq(s []string) []string {
	var out []string
	for i, x := range s {
		if i == 0 || x != s[i-1] {
			out = append(out, x)
		}
	}
	return out
}

// ---- R7 ----

func c19Immutable(c *Ctx, p *Prog) {
	const R = "C19/R7"
	fn := p.Method("storage/benchfmt", "Reader", "Next")
	labelsF := p.Field("storage/benchfmt", "Reader", "labels")
	permF := p.Field("storage/benchfmt", "Reader", "permLabels")
	if fn == nil || labelsF == nil || permF == nil {
		c.Undecided(R, "anchor:Reader.Next/labels/permLabels", "", "legacy reader not found")
		return
	}
	// writes to the current label map
	type write struct {
		in  ssa.Instruction
		key ssa.Value
	}
	var writes []write
	eachInstr(fn, func(_ *ssa.BasicBlock, in ssa.Instruction) {
		switch x := in.(type) {
		case *ssa.MapUpdate:
			if f, _ := loadOfField(x.Map); f == labelsF {
				writes = append(writes, write{in, x.Key})
			}
		case *ssa.Call:
			if b, ok := x.Call.Value.(*ssa.Builtin); ok && b.Name() == "delete" {
				if f, _ := loadOfField(x.Call.Args[0]); f == labelsF {
					writes = append(writes, write{in, x.Call.Args[1]})
				}
			}
		}
	})
	c.Floor(R, "writes to the reader's current labels", len(writes), 2)
	// copy events: stores to labels of a Copy() result
	isCopyStore := func(in ssa.Instruction) bool {
		st, ok := in.(*ssa.Store)
		if !ok {
			return false
		}
		if f, _ := fieldOfAddr(st.Addr); f != labelsF {
			return false
		}
		call, ok := st.Val.(*ssa.Call)
		return ok && call.Call.StaticCallee() != nil && call.Call.StaticCallee().Name() == "Copy"
	}
	must := mustAfterEvent(fn, isCopyStore)
	for i, w := range writes {
		key := fmt.Sprintf("Reader.Next:write#%d", i+1)
		c.Check(must[w.in], R, key+":copied-first", p.pos(w.in.Pos()), "the label map was replaced by a copy earlier in this call on every path",
			"the current label map is modified although, on some path, it has not been copied in this call: results returned earlier (and the upload's remembered last result) share that map and change retroactively")
		// permanent labels
		guarded := false
		for _, f := range factsAt(w.in.Block()) {
			if ex, ok := f.Cond.(*ssa.Extract); ok && ex.Index == 1 && !f.True {
				if lk, ok := ex.Tuple.(*ssa.Lookup); ok {
					if lf, _ := loadOfField(lk.X); lf == permF && (lk.Index == w.key || sameValue(lk.Index, w.key)) {
						guarded = true
					}
				}
			}
		}
		c.Check(guarded, R, key+":not-permanent", p.pos(w.in.Pos()), "only keys that are not server-added labels are modified",
			"a label line in an uploaded file can set or remove a label the server added to the upload (upload, upload-part, by, ...): later records lose or change those labels, so queries on them miss records")
	}
}

// mustAfterEvent: for each instruction, whether on every path from the function entry an event instruction
// has been executed before it. Path-sensitive in boolean flags: the state is a set of valuations of the
// function's boolean phi nodes (flags assigned constants), refined at branches that test them.
func mustAfterEvent(fn *ssa.Function, isEvent func(ssa.Instruction) bool) map[ssa.Instruction]bool {
	// tracked flags: bool-typed phis whose edges are constants or other tracked phis
	tracked := map[*ssa.Phi]int{}
	var phis []*ssa.Phi
	for _, b := range fn.Blocks {
		for _, in := range b.Instrs {
			if phi, ok := in.(*ssa.Phi); ok && isBoolT(phi.Type()) {
				tracked[phi] = len(phis)
				phis = append(phis, phi)
			}
		}
	}
	type state struct {
		flags string // one byte per tracked phi: '0','1','?'
		done  bool
	}
	in := map[*ssa.BasicBlock]map[state]bool{}
	init := state{flags: strings.Repeat("?", len(phis))}
	in[fn.Blocks[0]] = map[state]bool{init: true}
	work := []*ssa.BasicBlock{fn.Blocks[0]}
	evalFlag := func(v ssa.Value, s state) byte {
		neg := false
		for {
			if u, ok := v.(*ssa.UnOp); ok && u.Op == token.NOT {
				v = u.X
				neg = !neg
				continue
			}
			break
		}
		var r byte = '?'
		switch x := v.(type) {
		case *ssa.Const:
			if x.Value != nil && x.Value.Kind() == constant.Bool {
				if constant.BoolVal(x.Value) {
					r = '1'
				} else {
					r = '0'
				}
			}
		case *ssa.Phi:
			if i, ok := tracked[x]; ok {
				r = s.flags[i]
			}
		}
		if neg && r != '?' {
			if r == '1' {
				r = '0'
			} else {
				r = '1'
			}
		}
		return r
	}
	result := map[ssa.Instruction]bool{}
	seenInstr := map[ssa.Instruction]bool{}
	for iter := 0; len(work) > 0 && iter < 10000; iter++ {
		b := work[0]
		work = work[1:]
		outStates := map[state]bool{}
		for s := range in[b] {
			cur := s
			for _, ins := range b.Instrs {
				if _, isPhi := ins.(*ssa.Phi); isPhi {
					continue
				}
				if !seenInstr[ins] {
					seenInstr[ins] = true
					result[ins] = true
				}
				if !cur.done {
					result[ins] = false
				}
				if isEvent(ins) {
					cur.done = true
				}
			}
			outStates[cur] = true
		}
		for si, succ := range b.Succs {
			for s := range outStates {
				ns := s
				// branch refinement
				if ifi, ok := b.Instrs[len(b.Instrs)-1].(*ssa.If); ok {
					v := evalFlag(ifi.Cond, s)
					if v == '1' && si == 1 || v == '0' && si == 0 {
						continue
					}
					// learn the flag's value
					cond := ifi.Cond
					neg := false
					for {
						if u, ok := cond.(*ssa.UnOp); ok && u.Op == token.NOT {
							cond = u.X
							neg = !neg
							continue
						}
						break
					}
					if phi, ok := cond.(*ssa.Phi); ok {
						if i, ok := tracked[phi]; ok && s.flags[i] == '?' {
							val := si == 0
							if neg {
								val = !val
							}
							bts := []byte(ns.flags)
							if val {
								bts[i] = '1'
							} else {
								bts[i] = '0'
							}
							ns.flags = string(bts)
						}
					}
				}
				// phi assignments in succ for edge from b
				bts := []byte(ns.flags)
				for _, ins := range succ.Instrs {
					phi, ok := ins.(*ssa.Phi)
					if !ok {
						break
					}
					i, ok := tracked[phi]
					if !ok {
						continue
					}
					for pi, pr := range succ.Preds {
						if pr == b {
							bts[i] = evalFlag(phi.Edges[pi], ns)
						}
					}
				}
				ns.flags = string(bts)
				if in[succ] == nil {
					in[succ] = map[state]bool{}
				}
				if !in[succ][ns] {
					in[succ][ns] = true
					work = append(work, succ)
				}
			}
		}
	}
	return result
}

func c19Limit(c *Ctx, p *Prog) {
	const R = "C19/R8"
	fn := p.Method("storage/db", "DB", "ListUploads")
	if fn == nil {
		c.Undecided(R, "anchor:DB.ListUploads", "", "not found")
		return
	}
	// every text the listing query can be assembled to, as handed to the database
	n, nZero := 0, 0
	seenText := map[string]bool{}
	eachInstr(fn, func(_ *ssa.BasicBlock, in ssa.Instruction) {
		call, ok := in.(*ssa.Call)
		if !ok {
			return
		}
		co := calleeObj(&call.Call)
		if co == nil || co.Pkg() == nil || co.Pkg().Path() != "database/sql" || !strings.HasPrefix(co.Name(), "Query") {
			return
		}
		for _, a := range call.Call.Args {
			if !isString(a.Type()) {
				continue
			}
			for _, text := range assembledStrings(a, 64) {
				norm := strings.Join(strings.Fields(text), " ")
				li := strings.Index(norm, "LIMIT %d")
				if li < 0 || seenText[norm] {
					continue
				}
				seenText[norm] = true
				n++
				key := fmt.Sprintf("ListUploads:limit#%d", n)
				// the rows the LIMIT keeps are the newest: the ORDER BY it applies to orders by (Day, Seq) as numbers
				oi := strings.LastIndex(norm[:li], "ORDER BY")
				order := ""
				if oi >= 0 {
					order = strings.TrimSpace(norm[oi+len("ORDER BY") : li])
				}
				okOrder := strings.HasPrefix(order, "u.Day DESC, u.Seq DESC") || strings.HasPrefix(order, "Day DESC, Seq DESC")
				c.Check(okOrder, R, key+":newest-first", p.pos(call.Pos()), "the limited rows are ordered by day and sequence number, newest first",
					fmt.Sprintf("the LIMIT cuts rows ordered by %q: upload IDs are day.N compared as text, so with ten or more uploads on one day .9 sorts after .12 and a limited listing returns .9/.8/.7 instead of the newest uploads", order))
				zi := strings.Index(norm, "COUNT(*) FROM Records r WHERE r.UploadID = u.UploadID")
				if zi < 0 || zi > li {
					c.OK(R, key, p.pos(call.Pos()), "the limited rows come from a join that only yields uploads with matching records")
					continue
				}
				nZero++
				fi := strings.Index(norm, "rCount > 0")
				c.Check(fi >= 0 && fi < li, R, key, p.pos(call.Pos()), "rCount > 0 is applied before the LIMIT",
					"the LIMIT is applied to all uploads, including those without records, and the rCount > 0 condition only afterwards: when an empty or aborted upload is among the newest n IDs, an empty query with limit n returns fewer than n uploads, possibly none")
			}
		}
	})
	c.Floor(R, "LIMIT clauses in the upload listing", n, 2)
	c.Floor(R, "LIMIT clauses over counts that can be zero", nZero, 1)
}

// c19Escapes (C19/R10): the front end's query splitter undoes the quoting its own addToQuery applies: in
// parseQueryString a backslash skips the byte after it whatever that byte is — the test `c == '\\'` alone decides the
// extra step (its true edge goes straight to the step, with no further condition on the next byte or on the length).
func c19Escapes(c *Ctx, p *Prog) {
	const R = "C19/R10"
	fn := p.Fn("analysis/app", "parseQueryString")
	if fn == nil {
		c.Undecided(R, "anchor:parseQueryString", "", "not found")
		return
	}
	n := 0
	for _, b := range fn.Blocks {
		ifi, ok := b.Instrs[len(b.Instrs)-1].(*ssa.If)
		if !ok {
			continue
		}
		bo, ok := ifi.Cond.(*ssa.BinOp)
		if !ok || (bo.Op != token.EQL && bo.Op != token.NEQ) {
			continue
		}
		k, isK := constInt(bo.Y)
		if !isK || k != '\\' {
			continue
		}
		n++
		skip := b.Succs[0]
		if bo.Op == token.NEQ {
			skip = b.Succs[1]
		}
		_, furtherTest := skip.Instrs[len(skip.Instrs)-1].(*ssa.If)
		c.Check(!furtherTest, R, fmt.Sprintf("parseQueryString:backslash#%d", n), p.pos(bo.Pos()), "a backslash skips the next byte unconditionally",
			"after a backslash the next byte is skipped only under a further condition (what the byte is, how much text is left): the quoting applied by addToQuery doubles backslashes, so a value ending in a backslash arrives as \\\\\" — skipping only before a quote reads the second backslash as escaping the closing quote, the splitter stays in quoting mode, and '|' and 'vs' leak into the storage query")
	}
	c.Floor(R, "backslash tests in the query splitter", n, 2)
}

// c19RepeatedCaptures (C19/R11): an upload's day and sequence number are read back from its ID with a regular
// expression; a capture group under a repetition operator — (\d)+ — keeps only its last iteration, so the number read
// is the last digit. No regular expression literal in storage/db has a capture directly under *, + or {n,m}.
func c19RepeatedCaptures(c *Ctx, p *Prog, R string) {
	n := 0
	for _, fn := range p.Funcs("storage/db") {
		eachInstr(fn, func(_ *ssa.BasicBlock, in ssa.Instruction) {
			call, ok := in.(*ssa.Call)
			if !ok {
				return
			}
			co := calleeObj(&call.Call)
			if co == nil || co.Pkg() == nil || co.Pkg().Path() != "regexp" || !(co.Name() == "MustCompile" || co.Name() == "Compile" || co.Name() == "MatchString") {
				return
			}
			pat, ok := constString(call.Call.Args[0])
			if !ok {
				return
			}
			n++
			key := fmt.Sprintf("%s:regexp %q", fnName(fn), pat)
			re, err := syntax.Parse(pat, syntax.Perl)
			if err != nil {
				c.Bad(R, key, p.pos(call.Pos()), "the regular expression does not parse: "+err.Error())
				return
			}
			bad := false
			var walk func(r *syntax.Regexp, underRepeat bool)
			walk = func(r *syntax.Regexp, underRepeat bool) {
				if r.Op == syntax.OpCapture && underRepeat {
					bad = true
				}
				rep := r.Op == syntax.OpStar || r.Op == syntax.OpPlus || r.Op == syntax.OpRepeat
				for _, s := range r.Sub {
					// only a capture that is the repeated thing itself (possibly inside a concatenation) is affected
					walk(s, rep || (underRepeat && r.Op != syntax.OpCapture))
				}
			}
			walk(re, false)
			c.Check(!bad, R, key, p.pos(call.Pos()), "no capture group is repeated", "a capture group of this expression sits under a repetition operator, so it holds only the last repetition: an upload sequence number read back through it is its last digit, uploads recreated by ID with sequence numbers of 10 and more are then listed out of newest-first order and a limit keeps the wrong ones")
		})
	}
	c.Floor(R, "regular expressions in storage/db", n, 1)
}

// c19LabelsEqual (C19/R12): records are coalesced under one label set only when the label sets are equal. In
// Labels.Equal every comparison of a looked-up value decides "unequal" when it differs, and where a lookup also reports
// presence, absence decides "unequal" too: the not-present edge leads to `return false`, never on to the next key.
func c19LabelsEqual(c *Ctx, p *Prog) {
	const R = "C19/R12"
	fn := p.Method("storage/benchfmt", "Labels", "Equal")
	if fn == nil {
		c.Undecided(R, "anchor:Labels.Equal", "", "not found")
		return
	}
	site := p.pos(fn.Pos())
	returnsFalse := func(b *ssa.BasicBlock) bool {
		for i := 0; i < 4; i++ {
			if ret, ok := b.Instrs[len(b.Instrs)-1].(*ssa.Return); ok && len(ret.Results) == 1 {
				k, ok := retVal(ret, 0).(*ssa.Const)
				return ok && k.Value != nil && !constant.BoolVal(k.Value)
			}
			if _, ok := b.Instrs[len(b.Instrs)-1].(*ssa.Jump); ok && len(b.Instrs) == 1 {
				b = b.Succs[0]
				continue
			}
			return false
		}
		return false
	}
	n := 0
	for _, b := range fn.Blocks {
		ifi, ok := b.Instrs[len(b.Instrs)-1].(*ssa.If)
		if !ok {
			continue
		}
		switch x := ifi.Cond.(type) {
		case *ssa.Extract:
			// presence of a key
			if lk, ok := x.Tuple.(*ssa.Lookup); ok && lk.CommaOk && x.Index == 1 {
				n++
				c.Check(returnsFalse(b.Succs[1]), R, fmt.Sprintf("Equal:absent-key#%d", n), site, "a key absent from the other set makes the sets unequal",
					"where a key of one label set is absent from the other, Equal goes on to the next key instead of answering false: two sets of the same size with different keys compare equal, so consecutive results whose labels changed are stored as one record and a query on the new key misses the later ones")
			}
		case *ssa.BinOp:
			isLookup := func(v ssa.Value) bool {
				if _, ok := v.(*ssa.Lookup); ok {
					return true
				}
				if ex, ok := v.(*ssa.Extract); ok {
					_, isL := ex.Tuple.(*ssa.Lookup)
					return isL
				}
				return false
			}
			if (x.Op == token.NEQ || x.Op == token.EQL) && (isLookup(x.X) || isLookup(x.Y)) && isString(x.X.Type()) {
				n++
				differ := b.Succs[0]
				if x.Op == token.EQL {
					differ = b.Succs[1]
				}
				c.Check(returnsFalse(differ), R, fmt.Sprintf("Equal:different-value#%d", n), site, "a differing value makes the sets unequal", "where the two values of a key differ, Equal does not answer false")
			}
		}
	}
	c.Floor(R, "decisions in Labels.Equal", n, 1)
}

// c19NameLabels (C19/R13): (a) the processor count of a stored benchmark name is what follows its LAST dash: in
// storage/benchfmt the value stored under the gomaxprocs label is a suffix of the name cut at strings.LastIndex(name,
// "-") — a name such as Encode/gzip-best-8 has dashes of its own; (b) the file name an upload is labelled with is a
// suffix of what the client sent: storage/app derives it by slicing, never through path.Base / filepath.Base, which turn
// the empty name into "." (and records then match upload-file:. ).
func c19NameLabels(c *Ctx, p *Prog) {
	const R = "C19/R13"
	n := 0
	for _, fn := range p.Funcs("storage/benchfmt") {
		eachInstr(fn, func(_ *ssa.BasicBlock, in ssa.Instruction) {
			mu, ok := in.(*ssa.MapUpdate)
			if !ok {
				return
			}
			if s, ok := constString(mu.Key); !ok || s != "gomaxprocs" {
				return
			}
			n++
			okCut := false
			if sl, ok := mu.Value.(*ssa.Slice); ok && sl.Low != nil {
				if add, ok := sl.Low.(*ssa.BinOp); ok && add.Op == token.ADD {
					for _, side := range []ssa.Value{add.X, add.Y} {
						if call, ok := side.(*ssa.Call); ok {
							if co := calleeObj(&call.Call); co != nil && co.Pkg() != nil && co.Pkg().Path() == "strings" && strings.HasPrefix(co.Name(), "LastIndex") {
								okCut = true
							}
						}
					}
				}
			}
			c.Check(okCut, R, fmt.Sprintf("%s:gomaxprocs-at-last-dash#%d", fnName(fn), n), p.pos(mu.Pos()), "the gomaxprocs label is the text after the name's last dash",
				"the gomaxprocs label is not cut at the last dash of the name (strings.LastIndex): a benchmark whose name has a dash of its own (Encode/gzip-best-8) loses its gomaxprocs label and is indexed under the whole tail, so gomaxprocs:8 no longer returns it")
		})
	}
	c.Floor(R, "gomaxprocs labels derived from names", n, 1)
	// an unnamed part is numbered by its position among all parts: the number printed into "sub%d" advances with every
	// part of the name (a loop index), not only with the unnamed ones
	ns := 0
	for _, fn := range p.Funcs("storage/benchfmt") {
		eachInstr(fn, func(_ *ssa.BasicBlock, in ssa.Instruction) {
			var operand ssa.Value
			var call ssa.Instruction
			switch x := in.(type) {
			case *ssa.Call:
				// fmt.Sprintf("sub%d", n)
				if !objIs(calleeObj(&x.Call), "fmt", "", "Sprintf") {
					return
				}
				if f, ok := constString(x.Call.Args[0]); !ok || !strings.Contains(f, "sub%d") {
					return
				}
				if sl, ok := x.Call.Args[1].(*ssa.Slice); ok {
					if al, ok := sl.X.(*ssa.Alloc); ok {
						for _, st := range storesInto(al) {
							if mi, ok := st.Val.(*ssa.MakeInterface); ok {
								operand = mi.X
							}
						}
					}
				}
				call = x
			case *ssa.BinOp:
				// "sub" + strconv.Itoa(n)
				if x.Op != token.ADD {
					return
				}
				if k, ok := constString(x.X); !ok || k != "sub" {
					return
				}
				cv, ok := x.Y.(*ssa.Call)
				if !ok {
					return
				}
				co := calleeObj(&cv.Call)
				if co == nil || co.Pkg() == nil || co.Pkg().Path() != "strconv" || len(cv.Call.Args) == 0 {
					return
				}
				operand = cv.Call.Args[0]
				if cvt, ok := operand.(*ssa.Convert); ok {
					operand = cvt.X
				}
				call = x
			default:
				return
			}
			ns++
			// strip constant offsets, then expect a loop-header phi all of whose in-loop edges are phi+constant computed
			// once per iteration (in the header itself or in a block every iteration passes: a latch)
			v := operand
			for i := 0; i < 3; i++ {
				if bo, ok := v.(*ssa.BinOp); ok && bo.Op == token.ADD {
					if _, isK := constInt(bo.Y); isK {
						if _, isPhi := bo.X.(*ssa.Phi); isPhi {
							// phi+1 may itself be the per-iteration step: look at the phi
							v = bo.X
							break
						}
						v = bo.X
						continue
					}
				}
				break
			}
			positional := false
			if phi, ok := v.(*ssa.Phi); ok {
				for _, lp := range naturalLoops(fn) {
					if lp.Header != phi.Block() {
						continue
					}
					positional = true
					var step ssa.Value
					for i, e := range phi.Edges {
						if !lp.Blocks[lp.Header.Preds[i]] {
							continue
						}
						bo, ok := e.(*ssa.BinOp)
						if !ok || bo.Op != token.ADD || bo.X != ssa.Value(phi) {
							positional = false
							continue
						}
						if step != nil && step != e {
							positional = false
						}
						step = e
					}
					if step == nil {
						positional = false
					}
				}
			}
			c.Check(positional, R, fmt.Sprintf("%s:unnamed parts numbered by position#%d", fnName(fn), ns), p.pos(call.Pos()), "the number of an unnamed part advances with every part of the name",
				"the number printed into an unnamed part's label (sub%d) does not advance with every part of the name: in BenchmarkEncode/size=1024/gzip the part gzip is the second part and must be sub2, a counter of unnamed parts makes it sub1, so stored records and queries disagree on the label")
		})
	}
	c.Floor(R, "unnamed-part labels", ns, 1)
	nb := 0
	for _, fn := range p.Funcs("storage/app") {
		eachInstr(fn, func(_ *ssa.BasicBlock, in ssa.Instruction) {
			call, ok := in.(*ssa.Call)
			if !ok {
				return
			}
			co := calleeObj(&call.Call)
			if co == nil || co.Pkg() == nil || co.Name() != "Base" || (co.Pkg().Path() != "path" && co.Pkg().Path() != "path/filepath") {
				return
			}
			nb++
			c.Bad(R, fmt.Sprintf("%s:file-name-through-Base#%d", fnName(fn), nb), p.pos(call.Pos()), "the uploaded file's name is passed through "+co.FullName()+", which turns an empty name into \".\": a part sent without a file name is then labelled upload-file: . and is returned by queries on that label")
		})
	}
	c.OK(R, "file-names:sliced", "", "no upload file name goes through a Base function")
}

// c19SQLText (C19/R14): two facts about SQL text that the Go side relies on. The search streams one result per stored
// record, so the statement selecting r.Content has no DISTINCT; and part.merge prunes ranges with Go's bytewise string
// comparison, so no column of the schema is given a collation that compares differently.
func c19SQLText(c *Ctx, p *Prog) {
	const R = "C19/R14"
	nSel, nCreate := 0, 0
	for _, fn := range p.Funcs("storage/db") {
		// every string constant of the package: statements are assembled by concatenation, builders or templates
		eachInstr(fn, func(_ *ssa.BasicBlock, in ssa.Instruction) {
			for _, op := range in.Operands(nil) {
				s, ok := constString(*op)
				if !ok {
					continue
				}
				up := strings.ToUpper(strings.Join(strings.Fields(s), " "))
				if strings.Contains(up, "SELECT") && strings.Contains(up, "R.CONTENT") {
					nSel++
					c.Check(!strings.Contains(up, "DISTINCT"), R, fmt.Sprintf("%s:content-select#%d", fnName(fn), nSel), p.pos(in.Pos()), "record contents are selected row by row",
						fmt.Sprintf("the statement selecting record contents is %q: with DISTINCT two stored records whose content is the same bytes come back as one result, while the listing still counts two", truncate(s, 80)))
				}
				if strings.Contains(up, "CREATE TABLE") {
					nCreate++
					c.Check(!strings.Contains(up, "COLLATE"), R, fmt.Sprintf("%s:schema#%d", fnName(fn), nCreate), p.pos(in.Pos()), "no column of the schema has a collation",
						"the schema declares a COLLATE clause: label values then compare in the database by that collation and in part.merge bytewise, so a query the merger proved empty (or pruned to a range) matches rows, or matching rows are missed")
				}
			}
		})
	}
	c.Floor(R, "statements selecting record contents", nSel, 1)
	c.Floor(R, "schema texts", nCreate, 1)
}
