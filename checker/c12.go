// c12.go: C12 — distributions, t-tests and descriptive statistics (thin).
package main

import (
	"fmt"
	"go/token"
	"go/types"
	"math"
	"math/big"
	"strings"

	"golang.org/x/tools/go/ssa"
)

func init() { register("C12", checkC12) }

func checkC12(c *Ctx) {
	c.Rule("C12/R1", "guards: each t-test returns its documented error (undersized, zero variance, mismatched lengths) before computing a statistic; a result is produced only when all guards passed")
	c.Rule("C12/R2", "closed forms (identity over the rationals with sqrt, CDF, lgamma, log, exp, erfc and the continued fraction uninterpreted): pooled and Welch statistics and degrees of freedom, paired and one-sample statistics, the three tails with two-sided = 2(1-F(|t|)), the t CDF through I_x(v/2, 1/2) with reflection, the normal CDF through erfc, the incomplete beta's prefactor, symmetry switch and complement form, the R8 position 1/3 + p(N+1/3) with linear interpolation")
	c.Rule("C12/R3", "order statistics read sorted data: Percentile and IQR index their values only after the sample is known sorted or was copied and sorted")
	c.Rule("C12/R4", "the beta/t path works in the log domain: nothing reachable from the t distribution's CDF/PDF calls math.Gamma (which overflows for the degrees of freedom large samples produce)")

	c.Rule("C12/R5", "returned functions are re-entrant: no closure created in internal/stats writes a variable it captured (an inverse CDF that keeps its bracketing step between calls drifts to ±Inf after enough calls)")
	c.Rule("C12/R10", "a sample is refused for zero variance only when its variance is exactly 0: every float comparison guarding a return of ErrZeroVariance is with the constant 0 (a tolerance is an absolute quantity and breaks scale invariance)")
	c.Rule("C12/R9", "the normal quantile function is location-scale: every non-constant return of NormalDist.InvCDF is z·Sigma + Mu")
	c.Rule("C12/R8", "order statistics do not reorder their argument: inside a value-receiver method of Sample every sort acts on a copy of the values (Copy(), a made or appended-to-nil slice)")
	c.Rule("C12/R7", "the geometric means accumulate in the log domain: no loop-carried value in stats.GeoMean / Sample.GeoMean is multiplied by a raw data element on each iteration")
	c.Rule("C12/R6", "no 0/0 variance: every division by len(x)-1 in internal/stats is reached only when len(x) >= 2 (a singleton's variance is 0, which the t-tests' zero-variance guard turns into an error; NaN would slip through it)")
	p := mustLoad(c, loadOpts{}, "./internal/stats")
	p.Funcs("internal/stats")
	c12TTests(c, p)
	c12Tails(c, p)
	c12Dists(c, p)
	c12Percentile(c, p)
	c12LogDomain(c, p)
	c12Closures(c, p)
	c12LenMinusOne(c, p)
	c12GeoMean(c, p, "C12/R7")
	c12NoReorder(c, p, "C12/R8")
	c12LocationScale(c, p)
	c12ZeroVarianceExact(c, p, "C12/R10")
}

// c12LocationScale (C12/R9): the normal quantile function is a location-scale transform of the standard one. Every return
// of NormalDist.InvCDF is a constant (NaN, ±Inf) or z·Sigma + Mu. In particular the symmetry Φ⁻¹(p) = -Φ⁻¹(1-p) holds for
// the standard normal only: -n.InvCDF(1-p) is off by 2·Mu.
func c12LocationScale(c *Ctx, p *Prog) {
	const R = "C12/R9"
	fn := p.Method("internal/stats", "NormalDist", "InvCDF")
	if fn == nil {
		c.Undecided(R, "anchor:NormalDist.InvCDF", "", "not found")
		return
	}
	isField := func(v ssa.Value, name string) bool {
		if f, _ := loadOfField(v); f != nil && f.Name() == name {
			return true
		}
		if fv, ok := v.(*ssa.Field); ok {
			f, _ := fieldOfVal(fv)
			return f != nil && f.Name() == name
		}
		return false
	}
	n := 0
	for _, b := range fn.Blocks {
		ret, ok := b.Instrs[len(b.Instrs)-1].(*ssa.Return)
		if !ok || len(ret.Results) != 1 {
			continue
		}
		v := retVal(ret, 0)
		// constants and package-level special values (nan, inf, -inf)
		if _, isK := v.(*ssa.Const); isK {
			continue
		}
		if ld, ok := v.(*ssa.UnOp); ok {
			if _, isG := ld.X.(*ssa.Global); isG {
				continue
			}
			if ld.Op == token.SUB {
				if l2, ok := ld.X.(*ssa.UnOp); ok {
					if _, isG := l2.X.(*ssa.Global); isG {
						continue
					}
				}
			}
		}
		n++
		okForm := false
		if add, ok := v.(*ssa.BinOp); ok && add.Op == token.ADD {
			for _, ord := range [][2]ssa.Value{{add.X, add.Y}, {add.Y, add.X}} {
				mul, ok := ord[0].(*ssa.BinOp)
				if !ok || mul.Op != token.MUL || !isField(ord[1], "Mu") {
					continue
				}
				if isField(mul.X, "Sigma") || isField(mul.Y, "Sigma") {
					okForm = true
				}
			}
		}
		c.Check(okForm, R, fmt.Sprintf("NormalDist.InvCDF:return#%d", n), p.pos(ret.Pos()), "z·Sigma + Mu", "a quantile is returned that is not the standard quantile scaled by Sigma and shifted by Mu (for instance the reflection -InvCDF(1-p), which is right only when Mu is 0): for a distribution with a non-zero mean the quantile function is off by twice the mean in that region and stops being monotone")
	}
	c.Floor(R, "finite returns of NormalDist.InvCDF", n, 1)
}

// c12GeoMean: the geometric mean accumulates in the log domain. A loop-carried float that is multiplied by a raw element
// of the data on every iteration is a running product: it overflows or underflows for a few hundred values of large or
// small magnitude (and a product folded into the log domain only when it grows large still underflows).
func c12GeoMean(c *Ctx, p *Prog, R string) {
	n := 0
	for _, fn := range p.Funcs("internal/stats") {
		if fn.Name() != "GeoMean" {
			continue
		}
		for li, lp := range naturalLoops(fn) {
			n++
			key := fmt.Sprintf("%s:loop#%d:log-domain", fnName(fn), li+1)
			bad := ""
			for _, in := range lp.Header.Instrs {
				phi, ok := in.(*ssa.Phi)
				if !ok || !isFloat(phi.Type()) {
					continue
				}
				for b := range lp.Blocks {
					for _, in2 := range b.Instrs {
						bo, ok := in2.(*ssa.BinOp)
						if !ok || bo.Op != token.MUL {
							continue
						}
						var other ssa.Value
						switch {
						case bo.X == ssa.Value(phi):
							other = bo.Y
						case bo.Y == ssa.Value(phi):
							other = bo.X
						default:
							continue
						}
						if rawElement(other, 0) {
							bad = p.pos(bo.Pos())
						}
					}
				}
			}
			c.Check(bad == "", R, key, p.pos(fn.Pos()), "no running product of raw values", "a loop-carried value is multiplied by a raw element of the data on every iteration (at "+bad+"): the running product leaves the float64 range for a few hundred values of large or small magnitude (e.g. 120 values of 1e-5 give 0), which accumulating logarithms avoids")
		}
	}
	c.Floor(R, "loops of the geometric means", n, 2)
}

// rawElement: v is an element of a slice (or the range value over one), possibly converted or combined arithmetically,
// without having passed through a call (math.Log, math.Frexp, ...).
func rawElement(v ssa.Value, depth int) bool {
	if depth > 6 {
		return false
	}
	switch x := v.(type) {
	case *ssa.UnOp:
		if x.Op == token.MUL {
			_, ok := x.X.(*ssa.IndexAddr)
			return ok
		}
		return rawElement(x.X, depth+1)
	case *ssa.Extract:
		_, ok := x.Tuple.(*ssa.Next)
		return ok
	case *ssa.Convert:
		return rawElement(x.X, depth+1)
	case *ssa.BinOp:
		return rawElement(x.X, depth+1) || rawElement(x.Y, depth+1)
	}
	return false
}

// ufEval evaluates a symbolic float expression with every non-arithmetic call as an uninterpreted function of its
// evaluated numeric arguments (non-numeric arguments contribute their canonical string).
func ufEval(e *ratEnv, s *Sym) *big.Rat {
	if s.Op == "call" {
		name := s.Name
		if i := strings.Index(name, "@"); i >= 0 {
			name = name[:i]
		}
		switch name {
		case "math.Abs":
			return rAbs(ufEval(e, s.Args[0]))
		case "math.Pow":
			x, y := ufEval(e, s.Args[0]), ufEval(e, s.Args[1])
			if y.IsInt() && y.Num().IsInt64() && y.Num().Int64() >= 0 && y.Num().Int64() <= 6 {
				r := big.NewRat(1, 1)
				for i := int64(0); i < y.Num().Int64(); i++ {
					r.Mul(r, x)
				}
				return r
			}
			return e7UF("math.Pow/"+y.RatString(), x)
		case "math.Min", "math.Max":
			x, y := ufEval(e, s.Args[0]), ufEval(e, s.Args[1])
			if (x.Cmp(y) <= 0) == (name == "math.Min") {
				return x
			}
			return y
		case "len":
			return e.leaf(s)
		}
		if n := e.leafOf; n != nil {
			if l := n(s); l != "" {
				if v, ok := e.named[l]; ok {
					return v
				}
			}
		}
		var parts []string
		for _, a := range s.Args {
			if a.Type != nil && (isFloat(a.Type) || isInteger(a.Type)) {
				parts = append(parts, ufEval(e, a).RatString())
			} else {
				parts = append(parts, a.String())
			}
		}
		short := name
		if i := strings.LastIndex(short, "."); i >= 0 {
			short = short[i+1:]
		}
		return e7UF(short, ratOfStrings(parts))
	}
	switch s.Op {
	case "binop":
		switch s.Tok {
		case token.ADD, token.SUB, token.MUL, token.QUO:
			x, y := ufEval(e, s.Args[0]), ufEval(e, s.Args[1])
			switch s.Tok {
			case token.ADD:
				return rAdd(x, y)
			case token.SUB:
				return rSub(x, y)
			case token.MUL:
				return rMul(x, y)
			}
			if y.Sign() == 0 {
				panic(e7Err{"division by zero at a sample point"})
			}
			return rQuo(x, y)
		}
	case "unop":
		if s.Tok == token.SUB {
			return new(big.Rat).Neg(ufEval(e, s.Args[0]))
		}
	case "convert":
		return ufEval(e, s.Args[0])
	}
	return e.eval(s)
}

// ratOfStrings folds argument renderings into one rational so that e7UF can key on them.
func ratOfStrings(parts []string) *big.Rat {
	return hashRat(strings.Join(parts, "|"), 0)
}

// uf is the reference-side counterpart of ufEval's uninterpreted functions.
func uf(name string, args ...*big.Rat) *big.Rat {
	var parts []string
	for _, a := range args {
		parts = append(parts, a.RatString())
	}
	return e7UF(name, ratOfStrings(parts))
}

func ufEqual(s *Sym, ref func(func(string) *big.Rat) *big.Rat, pts []map[string]*big.Rat, leafOf func(*Sym) string) (bool, string) {
	for i, pt := range pts {
		e7Salt = i + 1
		env := &ratEnv{leaves: map[string]*big.Rat{}, salt: i + 1, leafOf: leafOf, named: pt}
		var got *big.Rat
		failure := ""
		func() {
			defer func() {
				if r := recover(); r != nil {
					if ee, ok := r.(e7Err); ok {
						failure = ee.msg
						return
					}
					panic(r)
				}
			}()
			got = ufEval(env, s)
		}()
		if failure != "" {
			return false, "cannot evaluate: " + failure
		}
		want := ref(func(n string) *big.Rat {
			v, ok := pt[n]
			if !ok {
				panic(e7Err{"unbound leaf " + n})
			}
			return v
		})
		if got.Cmp(want) != 0 {
			gf, _ := got.Float64()
			wf, _ := want.Float64()
			var ps []string
			for k, v := range pt {
				ps = append(ps, k+"="+v.RatString())
			}
			return false, fmt.Sprintf("at %s the code computes %.6g where the documented formula gives %.6g (expression %s)", strings.Join(sortedStrs(ps), " "), gf, wf, truncate(s.String(), 220))
		}
	}
	return true, ""
}

func rSqrt(x *big.Rat) *big.Rat { return uf("Sqrt", x) }

func c12TTests(c *Ctx, p *Prog) {
	newRes := p.Fn("internal/stats", "newTTestResult")
	type spec struct {
		name   string
		guards int // number of error returns documented
		leaf   func(s *Sym) string
		t, dof func(g func(string) *big.Rat) *big.Rat
		pts    []map[string]*big.Rat
	}
	sampleLeaf := func(s *Sym) string {
		if s.Op != "call" {
			return ""
		}
		for _, m := range []string{"Weight", "Mean", "Variance"} {
			if strings.Contains(s.Name, "."+m) || strings.HasSuffix(s.Name, m) {
				who := ""
				switch {
				case strings.Contains(s.String(), "param:x1"):
					who = "1"
				case strings.Contains(s.String(), "param:x2"):
					who = "2"
				case strings.Contains(s.String(), "param:x"):
					who = ""
				}
				return map[string]string{"Weight": "n", "Mean": "m", "Variance": "v"}[m] + who
			}
		}
		return ""
	}
	two := []map[string]*big.Rat{
		{"n1": rat(4, 1), "n2": rat(6, 1), "m1": rat(10, 3), "m2": rat(7, 2), "v1": rat(5, 4), "v2": rat(9, 7)},
		{"n1": rat(11, 1), "n2": rat(3, 1), "m1": rat(-2, 1), "m2": rat(5, 9), "v1": rat(1, 3), "v2": rat(8, 1)},
	}
	// the guards refuse two samples only when BOTH variances are zero: one constant sample is a legal input, and a
	// formula that is an identity elsewhere may divide by zero there (a ratio of the two squared standard errors)
	two = append(two,
		map[string]*big.Rat{"n1": rat(5, 1), "n2": rat(7, 1), "m1": rat(3, 1), "m2": rat(7, 2), "v1": rat(0, 1), "v2": rat(9, 7)},
		map[string]*big.Rat{"n1": rat(5, 1), "n2": rat(7, 1), "m1": rat(3, 1), "m2": rat(7, 2), "v1": rat(5, 4), "v2": rat(0, 1)})
	specs := []spec{
		{name: "TwoSampleTTest", guards: 2, leaf: sampleLeaf, pts: two,
			dof: func(g func(string) *big.Rat) *big.Rat { return rSub(rAdd(g("n1"), g("n2")), rat(2, 1)) },
			t: func(g func(string) *big.Rat) *big.Rat {
				dof := rSub(rAdd(g("n1"), g("n2")), rat(2, 1))
				v12 := rQuo(rAdd(rMul(rSub(g("n1"), rat(1, 1)), g("v1")), rMul(rSub(g("n2"), rat(1, 1)), g("v2"))), dof)
				return rQuo(rSub(g("m1"), g("m2")), rSqrt(rMul(v12, rAdd(rQuo(rat(1, 1), g("n1")), rQuo(rat(1, 1), g("n2"))))))
			}},
		{name: "TwoSampleWelchTTest", guards: 2, leaf: sampleLeaf, pts: two,
			dof: func(g func(string) *big.Rat) *big.Rat {
				a, b := rQuo(g("v1"), g("n1")), rQuo(g("v2"), g("n2"))
				s := rAdd(a, b)
				return rQuo(rMul(s, s), rAdd(rQuo(rMul(a, a), rSub(g("n1"), rat(1, 1))), rQuo(rMul(b, b), rSub(g("n2"), rat(1, 1)))))
			},
			t: func(g func(string) *big.Rat) *big.Rat {
				return rQuo(rSub(g("m1"), g("m2")), rSqrt(rAdd(rQuo(g("v1"), g("n1")), rQuo(g("v2"), g("n2")))))
			}},
		{name: "OneSampleTTest", guards: 2, leaf: func(s *Sym) string {
			if s.Op == "param" && strings.Contains(s.String(), "μ0") {
				return "mu0"
			}
			return sampleLeaf(s)
		}, pts: []map[string]*big.Rat{{"n": rat(9, 1), "m": rat(7, 3), "v": rat(5, 2), "mu0": rat(1, 4)}, {"n": rat(4, 1), "m": rat(-1, 1), "v": rat(1, 9), "mu0": rat(2, 1)}},
			dof: func(g func(string) *big.Rat) *big.Rat { return rSub(g("n"), rat(1, 1)) },
			t: func(g func(string) *big.Rat) *big.Rat {
				return rQuo(rMul(rSub(g("m"), g("mu0")), rSqrt(g("n"))), rSqrt(g("v")))
			}},
	}
	for _, sp := range specs {
		fn := p.Fn("internal/stats", sp.name)
		if fn == nil || newRes == nil {
			c.Undecided("C12/R2", "anchor:"+sp.name, "", "not found")
			continue
		}
		site := p.pos(fn.Pos())
		outs, why := e6Enumerate(func() *e6Interp { return &e6Interp{PureCall: func(f *types.Func) bool { return true }} }, fn.Blocks[0], nil, nil, 256)
		if why != "" {
			c.Undecided("C12/R2", sp.name, site, why)
			continue
		}
		nErr, nOK := 0, 0
		for _, o := range outs {
			if o.Term != "return" || len(o.Results) != 2 {
				continue
			}
			if !(o.Results[1].isConst() && o.Results[1].IsNil) {
				nErr++
				// an error return computes nothing: its condition atoms are only comparisons of sizes/variances with constants.
				// One constant sample is a legal input of a two-sample test: where a variance-is-zero test led to the
				// error, both variances were found zero
				if sp.name != "OneSampleTTest" {
					zeroTrue, zeroSeen := 0, 0
					for _, k := range o.AtomKeys() {
						a := o.AtomSyms[k]
						if a.Op == "binop" && a.Tok == token.EQL && len(a.Args) == 2 && isZeroConst(a.Args[1]) && strings.HasPrefix(sp.leaf(a.Args[0]), "v") {
							zeroSeen++
							if o.Assign[k] {
								zeroTrue++
							}
						}
					}
					if zeroTrue > 0 {
						c.Check(zeroTrue == 2, "C12/R1", sp.name+":zero-variance-needs-both", site, "the zero-variance error needs both variances to be zero",
							fmt.Sprintf("the test refuses its input on a path where only %d of the two variances was found zero: one constant sample against a varying one is a legal input with a defined statistic (a clear difference is then reported as '~ (zero variance)')", zeroTrue))
					}
					_ = zeroSeen
				}
				continue
			}
			nOK++
			res := o.Results[0]
			if res.Op != "call" || !strings.Contains(res.Name, "newTTestResult") || len(res.Args) < 5 {
				c.Undecided("C12/R2", sp.name+":result", site, "the result is not built by the shared constructor")
				continue
			}
			// every guard atom was consulted and is false on the success path
			guardsFalse := 0
			for _, k := range o.AtomKeys() {
				v := o.Assign[k]
				_ = v
				s := o.AtomSyms[k]
				if s.Op == "binop" && s.Args[1].isConst() && !v {
					guardsFalse++
				}
				if s.Op == "binop" && s.Args[1].isConst() && v && s.Tok == token.EQL {
					// e.g. v1 == 0 true but v2 == 0 false: still fine
				}
				_ = k
			}
			c.Check(guardsFalse >= 2, "C12/R1", sp.name+":guards-before-result", site, fmt.Sprintf("%d guard conditions were tested false before the statistic is computed", guardsFalse), "a result is computed although not all documented guards were tested")
			okT, dT := ufEqual(res.Args[2], sp.t, sp.pts, sp.leaf)
			c.Check(okT, "C12/R2", sp.name+":t", site, "t statistic matches the textbook formula", "t statistic: "+dT)
			okD, dD := ufEqual(res.Args[3], sp.dof, sp.pts, sp.leaf)
			c.Check(okD, "C12/R2", sp.name+":dof", site, "degrees of freedom match the textbook formula", "degrees of freedom: "+dD)
		}
		kinds := map[string]bool{}
		for _, b := range fn.Blocks {
			if ret, ok := b.Instrs[len(b.Instrs)-1].(*ssa.Return); ok {
				if la := loadAddr(retLast(ret)); la != nil {
					if g, ok := la.(*ssa.Global); ok {
						kinds[g.Name()] = true
					}
				}
			}
		}
		c.Check(kinds["ErrSampleSize"] && kinds["ErrZeroVariance"] && nOK >= 1, "C12/R1", sp.name+":error-returns", site, fmt.Sprintf("%d error paths (%v), %d result paths", nErr, keys(kinds), nOK),
			fmt.Sprintf("%s does not report undersized and zero-variance inputs as errors (returns %v): it divides by zero and reports NaN/Inf statistics instead", sp.name, keys(kinds)))
	}
	// paired: structural guards + formula after the difference loop
	if fn := p.Fn("internal/stats", "PairedTTest"); fn != nil {
		site := p.pos(fn.Pos())
		var start *ssa.BasicBlock
		eachInstr(fn, func(b *ssa.BasicBlock, in ssa.Instruction) {
			if call, ok := in.(*ssa.Call); ok {
				if sc := call.Call.StaticCallee(); sc != nil && sc.Name() == "StdDev" {
					start = b
				}
			}
		})
		if start == nil {
			c.Undecided("C12/R2", "PairedTTest:region", site, "cannot locate the statistic")
		} else {
			stop := map[*ssa.BasicBlock]bool{}
			for _, b := range fn.Blocks {
				if !start.Dominates(b) {
					stop[b] = true
				}
			}
			outs, why := e6Enumerate(func() *e6Interp { return &e6Interp{PureCall: func(f *types.Func) bool { return true }} }, start, nil, stop, 64)
			if why != "" {
				c.Undecided("C12/R2", "PairedTTest", site, why)
			}
			leaf := func(s *Sym) string {
				switch {
				case s.Op == "call" && strings.HasSuffix(strings.Split(s.Name, "@")[0], "StdDev"):
					return "sd"
				case s.Op == "call" && strings.HasSuffix(strings.Split(s.Name, "@")[0], "Mean"):
					return "md"
				case s.Op == "call" && s.Name == "len":
					return "n"
				case s.Op == "param" && strings.Contains(s.String(), "μ0"):
					return "mu0"
				}
				return ""
			}
			pts := []map[string]*big.Rat{{"sd": rat(3, 2), "md": rat(5, 7), "n": rat(9, 1), "mu0": rat(1, 3)}}
			for _, o := range outs {
				if o.Term != "return" || !(o.Results[1].isConst() && o.Results[1].IsNil) {
					continue
				}
				res := o.Results[0]
				if res.Op != "call" || len(res.Args) < 5 {
					continue
				}
				okT, dT := ufEqual(res.Args[2], func(g func(string) *big.Rat) *big.Rat {
					return rQuo(rMul(rSub(g("md"), g("mu0")), rSqrt(g("n"))), g("sd"))
				}, pts, leaf)
				c.Check(okT, "C12/R2", "PairedTTest:t", site, "t = (mean(diff) - mu0)·sqrt(n)/sd(diff)", "paired t statistic: "+dT)
				okD, dD := ufEqual(res.Args[3], func(g func(string) *big.Rat) *big.Rat { return rSub(g("n"), rat(1, 1)) }, pts, leaf)
				c.Check(okD, "C12/R2", "PairedTTest:dof", site, "n - 1 degrees of freedom", "paired degrees of freedom: "+dD)
			}
		}
		// the differences themselves: every float stored into a local buffer inside a loop of PairedTTest is x1[i] - x2[i]
		// (the hypothesised mean is subtracted once, in the statistic)
		nDiff := 0
		for _, lp := range naturalLoops(fn) {
			for b := range lp.Blocks {
				for _, in := range b.Instrs {
					st, ok := in.(*ssa.Store)
					if !ok || !isFloat(st.Val.Type()) || !localBuffer(st.Addr) {
						continue
					}
					nDiff++
					var idx ssa.Value
					sameIdx := true
					leaf := func(v ssa.Value) (string, bool) {
						if prm, ok := v.(*ssa.Parameter); ok && isFloat(prm.Type()) {
							return "mu0", true
						}
						ld, ok := v.(*ssa.UnOp)
						if !ok || ld.Op != token.MUL {
							return "", false
						}
						ia, ok := ld.X.(*ssa.IndexAddr)
						if !ok {
							return "", false
						}
						if idx == nil {
							idx = ia.Index
						} else if idx != ia.Index {
							sameIdx = false
						}
						switch ia.X {
						case fn.Params[0]:
							return "a", true
						case fn.Params[1]:
							return "b", true
						}
						return "", false
					}
					ok2, why := true, ""
					for _, pt := range []map[string]*big.Rat{{"a": rat(7, 3), "b": rat(2, 5), "mu0": rat(1, 3)}, {"a": rat(-4, 1), "b": rat(9, 2), "mu0": rat(-5, 7)}} {
						got, err := ratOfValue(st.Val, leaf, pt)
						if err != "" {
							ok2, why = false, "cannot evaluate the stored difference: "+err
							break
						}
						if want := rSub(pt["a"], pt["b"]); got.Cmp(want) != 0 {
							gf, _ := got.Float64()
							wf, _ := want.Float64()
							ok2, why = false, fmt.Sprintf("at x1[i]=%s x2[i]=%s mu0=%s the stored difference is %.6g, x1[i]-x2[i] is %.6g: the statistic subtracts the hypothesised mean from the mean of the differences, so a difference that is already shifted makes every test with mu0 != 0 wrong", pt["a"].RatString(), pt["b"].RatString(), pt["mu0"].RatString(), gf, wf)
							break
						}
					}
					if ok2 && !sameIdx {
						ok2, why = false, "the two observations of a difference are read at different indices"
					}
					c.Check(ok2, "C12/R2", fmt.Sprintf("PairedTTest:difference#%d", nDiff), p.pos(st.Pos()), "each difference is x1[i] - x2[i]", why)
				}
			}
		}
		c.Floor("C12/R2", "stores of paired differences", nDiff, 1)
		// guards
		mism, size, zero := false, false, false
		for _, b := range fn.Blocks {
			if ret, ok := b.Instrs[len(b.Instrs)-1].(*ssa.Return); ok {
				if la := loadAddr(retLast(ret)); la != nil {
					if g, ok := la.(*ssa.Global); ok {
						switch g.Name() {
						case "ErrMismatchedSamples":
							mism = true
						case "ErrSampleSize":
							size = true
						case "ErrZeroVariance":
							zero = true
						}
					}
				}
			}
		}
		c.Check(mism && size && zero, "C12/R1", "PairedTTest:error-returns", site, "mismatched, undersized and zero-variance inputs are errors", fmt.Sprintf("PairedTTest lacks a documented error (mismatched %v, undersized %v, zero variance %v)", mism, size, zero))
	}
}

func c12Tails(c *Ctx, p *Prog) {
	const R = "C12/R2"
	fn := p.Fn("internal/stats", "newTTestResult")
	if fn == nil {
		c.Undecided(R, "anchor:newTTestResult", "", "not found")
		return
	}
	site := p.pos(fn.Pos())
	var altParam, tParam *ssa.Parameter
	for _, prm := range fn.Params {
		if strings.HasSuffix(prm.Type().String(), "LocationHypothesis") {
			altParam = prm
		}
		if prm.Name() == "t" {
			tParam = prm
		}
	}
	if altParam == nil || tParam == nil {
		c.Undecided(R, "tails:params", site, "parameters not recognised")
		return
	}
	leaf := func(s *Sym) string {
		if s.Op == "param" && s.Name == "t" {
			return "t"
		}
		return ""
	}
	pts := []map[string]*big.Rat{{"t": rat(7, 4)}, {"t": rat(-9, 5)}}
	cdf := func(x *big.Rat) *big.Rat { return uf("CDF", x) }
	refs := map[string]func(g func(string) *big.Rat) *big.Rat{
		"LocationLess":    func(g func(string) *big.Rat) *big.Rat { return cdfT(g("t")) },
		"LocationGreater": func(g func(string) *big.Rat) *big.Rat { return rSub(rat(1, 1), cdfT(g("t"))) },
		"LocationDiffers": func(g func(string) *big.Rat) *big.Rat {
			return rMul(rat(2, 1), rSub(rat(1, 1), cdfT(rAbs(g("t")))))
		},
	}
	_ = cdf
	for name, ref := range refs {
		k, ok := p.Obj("internal/stats", name).(*types.Const)
		if !ok {
			continue
		}
		init := map[ssa.Value]*Sym{altParam: symConst(k.Val(), altParam.Type())}
		outs, why := e6Enumerate(func() *e6Interp {
			return &e6Interp{Init: init, PureCall: func(f *types.Func) bool { return true }, Inline: c12InlineHelper}
		}, fn.Blocks[0], nil, nil, 64)
		if why != "" || len(outs) != 1 {
			c.Undecided(R, "tails:"+name, site, fmt.Sprintf("cannot evaluate (%s, %d outcomes)", why, len(outs)))
			continue
		}
		o := outs[0]
		pS := o.Mem[(&Sym{Op: "fieldaddr", Args: []*Sym{o.Results[0]}, Name: "P"}).String()]
		if pS == nil {
			c.Undecided(R, "tails:"+name, site, "P not found")
			continue
		}
		okP, d := tailEqual(pS, ref, pts, leaf)
		c.Check(okP, R, "tails:"+name, site, "tail probability matches (two-sided = 2(1 - F(|t|)))", "t-test tail: "+d)
	}
}

// cdfT: reference-side uninterpreted t CDF, keyed like tailEval keys CDF method calls.
func cdfT(x *big.Rat) *big.Rat { return e7UF("CDF:t", x) }

func tailEqual(s *Sym, ref func(func(string) *big.Rat) *big.Rat, pts []map[string]*big.Rat, leafOf func(*Sym) string) (bool, string) {
	// CDF method calls: key on the evaluated argument only
	wrap := func(e *ratEnv, s *Sym) *big.Rat { return nil }
	_ = wrap
	for i, pt := range pts {
		e7Salt = i + 1
		env := &ratEnv{leaves: map[string]*big.Rat{}, salt: i + 1, leafOf: leafOf, named: pt}
		got := tailEval(env, s)
		want := ref(func(n string) *big.Rat { return pt[n] })
		if got.Cmp(want) != 0 {
			gf, _ := got.Float64()
			wf, _ := want.Float64()
			return false, fmt.Sprintf("at t=%s the code computes %.6g where the documented tail gives %.6g (expression %s)", pt["t"].RatString(), gf, wf, truncate(s.String(), 200))
		}
	}
	return true, ""
}

func tailEval(e *ratEnv, s *Sym) *big.Rat {
	if s.Op == "call" && strings.HasSuffix(strings.Split(s.Name, "@")[0], ".CDF") {
		return e7UF("CDF:t", tailEval(e, s.Args[len(s.Args)-1]))
	}
	if s.Op == "call" && strings.Split(s.Name, "@")[0] == "math.Abs" {
		return rAbs(tailEval(e, s.Args[0]))
	}
	switch s.Op {
	case "binop":
		x, y := tailEval(e, s.Args[0]), tailEval(e, s.Args[1])
		switch s.Tok {
		case token.ADD:
			return rAdd(x, y)
		case token.SUB:
			return rSub(x, y)
		case token.MUL:
			return rMul(x, y)
		case token.QUO:
			return rQuo(x, y)
		}
	case "convert":
		return tailEval(e, s.Args[0])
	}
	return e.eval(s)
}

func c12Dists(c *Ctx, p *Prog) {
	const R = "C12/R2"
	// t CDF
	if fn := p.Method("internal/stats", "TDist", "CDF"); fn != nil {
		site := p.pos(fn.Pos())
		outs, why := e6Enumerate(func() *e6Interp { return &e6Interp{PureCall: func(f *types.Func) bool { return true }} }, fn.Blocks[0], nil, nil, 64)
		if why != "" {
			c.Undecided(R, "TDist.CDF", site, why)
		}
		leaf := func(s *Sym) string {
			switch {
			case s.Op == "param" && s.Name == "x":
				return "x"
			case (s.Op == "field" || s.Op == "load") && strings.HasSuffix(s.String(), ".V") || strings.HasSuffix(s.String(), ".V)"):
				return "v"
			}
			return ""
		}
		pts := []map[string]*big.Rat{{"x": rat(7, 4), "v": rat(9, 2)}, {"x": rat(-3, 2), "v": rat(13, 1)}}
		n := 0
		for _, o := range outs {
			if o.Term != "return" {
				continue
			}
			var zero, pos, neg *bool
			for _, k := range o.AtomKeys() {
				v := o.Assign[k]
				_ = v
				s := o.AtomSyms[k]
				vv := v
				switch {
				case s.Op == "binop" && s.Tok == token.EQL:
					zero = &vv
				case s.Op == "binop" && s.Tok == token.LSS && s.Args[0].isConst():
					pos = &vv
				case s.Op == "binop" && s.Tok == token.LSS && s.Args[1].isConst():
					neg = &vv
				}
				_ = k
			}
			n++
			res := o.Results[0]
			switch {
			case zero != nil && *zero:
				ok := res.isConst() && res.Const.String() == "0.5"
				c.Check(ok, R, "TDist.CDF[x=0]", site, "F(0) = 1/2", "F(0) is not 1/2")
			case pos != nil && *pos:
				ok, d := ufEqual(res, func(g func(string) *big.Rat) *big.Rat {
					x, v := g("x"), g("v")
					return rSub(rat(1, 1), rMul(rat(1, 2), uf("mathBetaInc", rQuo(v, rAdd(v, rMul(x, x))), rQuo(v, rat(2, 1)), rat(1, 2))))
				}, pts[:1], leaf)
				c.Check(ok, R, "TDist.CDF[x>0]", site, "F(x) = 1 - I_{v/(v+x²)}(v/2, 1/2)/2", "t CDF for positive x: "+d)
			case neg != nil && *neg:
				ok, d := ufEqual(res, func(g func(string) *big.Rat) *big.Rat {
					// reflection: 1 - F(-x), with F uninterpreted (the recursive call)
					return rSub(rat(1, 1), uf("CDF", rat(0, 1), new(big.Rat).Neg(g("x"))))
				}, pts[1:], func(s *Sym) string { return leaf(s) })
				// the recursive call's first argument is the receiver (non-numeric); accept structural form instead
				if !ok {
					ok = res.Op == "binop" && res.Tok == token.SUB && res.Args[0].isConst() && res.Args[0].Const.String() == "1" && res.Args[1].Op == "call" && strings.HasSuffix(strings.Split(res.Args[1].Name, "@")[0], ".CDF") &&
						res.Args[1].Args[len(res.Args[1].Args)-1].Op == "unop" && res.Args[1].Args[len(res.Args[1].Args)-1].Tok == token.SUB
					d = "F(x) for negative x must be 1 - F(-x)"
				}
				if !ok {
					// without recursion: F(-x) written out (x enters through x² only), so F(x) = 1 - (1 - I/2)
					ok2, _ := ufEqual(res, func(g func(string) *big.Rat) *big.Rat {
						x, v := g("x"), g("v")
						fpos := rSub(rat(1, 1), rMul(rat(1, 2), uf("mathBetaInc", rQuo(v, rAdd(v, rMul(x, x))), rQuo(v, rat(2, 1)), rat(1, 2))))
						return rSub(rat(1, 1), fpos)
					}, pts[1:], leaf)
					ok = ok2
				}
				c.Check(ok, R, "TDist.CDF[x<0]", site, "F(x) = 1 - F(-x)", "t CDF reflection: "+d)
			}
		}
		c.Floor(R, "TDist.CDF cases", n, 3)
	}
	// normal CDF
	if fn := p.Method("internal/stats", "NormalDist", "CDF"); fn != nil {
		site := p.pos(fn.Pos())
		outs, why := e6Enumerate(func() *e6Interp { return &e6Interp{PureCall: func(f *types.Func) bool { return true }} }, fn.Blocks[0], nil, nil, 16)
		if why != "" || len(outs) != 1 {
			c.Undecided(R, "NormalDist.CDF", site, "cannot evaluate")
		} else {
			leaf := func(s *Sym) string {
				str := s.String()
				switch {
				case s.Op == "param" && s.Name == "x":
					return "x"
				case strings.HasSuffix(str, ".Mu") || strings.HasSuffix(str, ".Mu)"):
					return "mu"
				case strings.HasSuffix(str, ".Sigma") || strings.HasSuffix(str, ".Sigma)"):
					return "sigma"
				}
				return ""
			}
			// sqrt2 is a constant: compare the erfc argument times sqrt2... evaluate with sqrt2 as the float constant's rational
			ok, d := ufEqual(outs[0].Results[0], func(g func(string) *big.Rat) *big.Rat {
				s2 := new(big.Rat).SetFloat64(math.Sqrt2)
				arg := rQuo(new(big.Rat).Neg(rSub(g("x"), g("mu"))), rMul(g("sigma"), s2))
				return rQuo(uf("Erfc", arg), rat(2, 1))
			}, []map[string]*big.Rat{{"x": rat(7, 3), "mu": rat(1, 2), "sigma": rat(5, 4)}}, leaf)
			c.Check(ok, R, "NormalDist.CDF", site, "Phi(x) = erfc(-(x-mu)/(sigma·sqrt2))/2", "normal CDF: "+d)
		}
	}
	// normal density: exp(-(x-mu)^2/(2 sigma^2)) / (sigma sqrt(2 pi)) — the 1/sigma makes it the derivative of the CDF
	if fn := p.Method("internal/stats", "NormalDist", "PDF"); fn != nil {
		site := p.pos(fn.Pos())
		outs, why := e6Enumerate(func() *e6Interp { return &e6Interp{PureCall: func(f *types.Func) bool { return true }} }, fn.Blocks[0], nil, nil, 16)
		if why != "" || len(outs) != 1 {
			c.Undecided(R, "NormalDist.PDF", site, "cannot evaluate")
		} else {
			leaf := func(s *Sym) string {
				str := s.String()
				switch {
				case s.Op == "param" && s.Name == "x":
					return "x"
				case strings.HasSuffix(str, ".Mu") || strings.HasSuffix(str, ".Mu)"):
					return "mu"
				case strings.HasSuffix(str, ".Sigma") || strings.HasSuffix(str, ".Sigma)"):
					return "sigma"
				}
				return ""
			}
			pts := []map[string]*big.Rat{{"x": rat(7, 3), "mu": rat(1, 2), "sigma": rat(5, 4)}, {"x": rat(-2, 1), "mu": rat(3, 1), "sigma": rat(7, 2)}}
			ok, d := false, ""
			for _, k := range []*big.Rat{new(big.Rat).SetFloat64(1 / math.Sqrt(2*math.Pi)), func() *big.Rat {
				if co, isC := p.Obj("internal/stats", "invSqrt2Pi").(*types.Const); isC {
					if r, good := new(big.Rat).SetString(co.Val().ExactString()); good {
						return r
					}
				}
				return new(big.Rat).SetFloat64(1 / math.Sqrt(2*math.Pi))
			}()} {
				k := k
				ok, d = ufEqual(outs[0].Results[0], func(g func(string) *big.Rat) *big.Rat {
					z := rSub(g("x"), g("mu"))
					arg := rQuo(new(big.Rat).Neg(rMul(z, z)), rMul(rat(2, 1), rMul(g("sigma"), g("sigma"))))
					return rQuo(rMul(uf("Exp", arg), k), g("sigma"))
				}, pts, leaf)
				if ok {
					break
				}
			}
			c.Check(ok, R, "NormalDist.PDF", site, "phi(x) = exp(-(x-mu)^2/(2 sigma^2)) / (sigma sqrt(2 pi))", "normal density: "+d+" — a density without the 1/sigma factor does not integrate to the CDF for sigma != 1")
		}
	}
	// incomplete beta
	if fn := p.Fn("internal/stats", "mathBetaInc"); fn != nil {
		site := p.pos(fn.Pos())
		// a branching loop-free helper of the package (the prefactor moved out) is evaluated in place; one-block
		// wrappers (lgamma) and the continued fraction stay uninterpreted, as the reference names them
		outs, why := e6Enumerate(func() *e6Interp {
			return &e6Interp{PureCall: func(f *types.Func) bool { return true },
				Inline: func(f *ssa.Function) bool {
					return f.Pkg == fn.Pkg && f != fn && f.Parent() == nil && len(naturalLoops(f)) == 0 && len(f.Blocks) >= 2 && len(f.Blocks) <= 8
				}}
		}, fn.Blocks[0], nil, nil, 256)
		if why != "" {
			c.Undecided(R, "mathBetaInc", site, why)
		}
		leaf := func(s *Sym) string {
			if s.Op == "param" {
				return s.Name
			}
			return ""
		}
		pts := []map[string]*big.Rat{{"x": rat(2, 7), "a": rat(9, 2), "b": rat(1, 2)}, {"x": rat(6, 7), "a": rat(5, 2), "b": rat(7, 3)}}
		bt := func(g func(string) *big.Rat) *big.Rat {
			x, a, b := g("x"), g("a"), g("b")
			e := rAdd(rSub(rSub(uf("lgamma", rAdd(a, b)), uf("lgamma", a)), uf("lgamma", b)), rAdd(rMul(a, uf("Log", x)), rMul(b, uf("Log", rSub(rat(1, 1), x)))))
			return uf("Exp", e)
		}
		n := 0
		for _, o := range outs {
			if o.Term != "return" {
				continue
			}
			var interior, direct *bool
			oob := false
			gt0, lt1 := false, false
			for _, k := range o.AtomKeys() {
				v := o.Assign[k]
				_ = v
				s := o.AtomSyms[k]
				vv := v
				str := s.String()
				switch {
				case s.Op == "binop" && s.Tok == token.LSS && strings.Contains(str, "/"):
					direct = &vv
				case s.Op == "binop" && s.Tok == token.LSS && s.Args[0].isConst() && s.Args[0].Const.String() == "0" && s.Args[1].Op == "param":
					// 0 < x
					gt0 = v
				case s.Op == "binop" && s.Tok == token.LSS && s.Args[1].isConst() && s.Args[1].Const.String() == "1" && s.Args[0].Op == "param":
					lt1 = v
				case s.Op == "binop" && s.Tok == token.LSS && s.Args[1].isConst() && s.Args[1].Const.String() == "0" && v:
					oob = true // x < 0
				case s.Op == "binop" && s.Tok == token.LSS && s.Args[0].isConst() && s.Args[0].Const.String() == "1" && v:
					oob = true // 1 < x
				}
				_ = k
			}
			if gt0 && lt1 {
				t := true
				interior = &t
			}
			if oob || direct == nil || interior == nil {
				continue
			}
			// interior requires also x < 1 true: check atoms (x < 1)
			n++
			var ref func(g func(string) *big.Rat) *big.Rat
			key := ""
			if *direct {
				key = "mathBetaInc[direct]"
				ref = func(g func(string) *big.Rat) *big.Rat {
					return rQuo(rMul(bt(g), uf("betacf", g("x"), g("a"), g("b"))), g("a"))
				}
			} else {
				key = "mathBetaInc[complement]"
				ref = func(g func(string) *big.Rat) *big.Rat {
					return rSub(rat(1, 1), rQuo(rMul(bt(g), uf("betacf", rSub(rat(1, 1), g("x")), g("b"), g("a"))), g("b")))
				}
			}
			ok, d := ufEqual(o.Results[0], ref, pts, leaf)
			c.Check(ok, R, key, site, "prefactor in the log domain; continued fraction in the form that converges (I_x(a,b) = 1 - I_{1-x}(b,a))", "incomplete beta: "+d)
			// the switch point
			for _, k := range o.AtomKeys() {
				v := o.Assign[k]
				_ = v
				s := o.AtomSyms[k]
				if s.Op == "binop" && s.Tok == token.LSS && strings.Contains(s.String(), "/") && v == *direct {
					okS, dS := ufEqual(s.Args[1], func(g func(string) *big.Rat) *big.Rat {
						return rQuo(rAdd(g("a"), rat(1, 1)), rAdd(rAdd(g("a"), g("b")), rat(2, 1)))
					}, pts, leaf)
					c.Check(okS, R, "mathBetaInc:switch-point", site, "symmetry switch at x < (a+1)/(a+b+2)", "symmetry switch point: "+dS)
				}
				_ = k
			}
		}
		c.Floor(R, "incomplete-beta cases", n, 2)
	}
}

func c12Percentile(c *Ctx, p *Prog) {
	fn := p.Method("internal/stats", "Sample", "Percentile")
	if fn == nil {
		c.Undecided("C12/R2", "anchor:Sample.Percentile", "", "not found")
		return
	}
	site := p.pos(fn.Pos())
	sortedF := p.Field("internal/stats", "Sample", "Sorted")
	xsF := p.Field("internal/stats", "Sample", "Xs")
	// the interpolation proper: in Percentile, or in a helper of the package it hands the values and p to
	body, pParam := fn, ssa.Value(fn.Params[1])
	if len(callsIn(fn, "math", "", "Modf")) == 0 {
		eachInstr(fn, func(_ *ssa.BasicBlock, in ssa.Instruction) {
			if call, ok := in.(*ssa.Call); ok {
				if h := call.Call.StaticCallee(); h != nil && h.Pkg == fn.Pkg && h.Blocks != nil && len(callsIn(h, "math", "", "Modf")) > 0 {
					for i, a := range call.Call.Args {
						if a == ssa.Value(fn.Params[1]) && i < len(h.Params) {
							body, pParam = h, h.Params[i]
						}
					}
				}
			}
		})
	}
	// R8 position: the argument of math.Modf
	n := 0
	for _, call := range callsIn(body, "math", "", "Modf") {
		n++
		arg := call.Common().Args[0]
		// rebuild as a Sym by a tiny walk
		sym := symOfValue(arg, func(v ssa.Value) *Sym {
			if v == pParam {
				return &Sym{Op: "param", Name: "p"}
			}
			if cv, ok := v.(*ssa.Convert); ok {
				if call, ok := cv.X.(*ssa.Call); ok {
					if bi, ok := call.Call.Value.(*ssa.Builtin); ok && bi.Name() == "len" {
						return &Sym{Op: "param", Name: "N"}
					}
				}
			}
			return nil
		})
		ok, d := e7Equal(sym, func(g func(string) *big.Rat) *big.Rat {
			return rAdd(rat(1, 3), rMul(g("p"), rAdd(g("N"), rat(1, 3))))
		}, []map[string]*big.Rat{{"p": rat(1, 4), "N": rat(9, 1)}, {"p": rat(3, 4), "N": rat(20, 1)}}, func(s *Sym) string {
			if s.Op == "param" {
				return s.Name
			}
			return ""
		})
		// the literals are doubles: 1/3.0 is not exactly 1/3 — compare with the double's value instead when that fails
		if !ok {
			third := new(big.Rat).SetFloat64(1.0 / 3.0)
			ok, d = e7Equal(sym, func(g func(string) *big.Rat) *big.Rat {
				return rAdd(third, rMul(g("p"), rAdd(g("N"), third)))
			}, []map[string]*big.Rat{{"p": rat(1, 4), "N": rat(9, 1)}, {"p": rat(3, 4), "N": rat(20, 1)}}, func(s *Sym) string {
				if s.Op == "param" {
					return s.Name
				}
				return ""
			})
		}
		c.Check(ok, "C12/R2", "Percentile:R8-position", p.pos(call.Pos()), "position n = 1/3 + p(N + 1/3)", "R8 position: "+d)
	}
	c.Floor("C12/R2", "R8 position computations", n, 1)
	// interpolation: Xs[k-1] + frac*(Xs[k]-Xs[k-1]) over the reals
	okI := false
	for _, b := range body.Blocks {
		ret, ok := b.Instrs[len(b.Instrs)-1].(*ssa.Return)
		if !ok {
			continue
		}
		v := retVal(ret, 0)
		bo, ok := v.(*ssa.BinOp)
		if !ok || bo.Op != token.ADD {
			continue
		}
		sym := symOfValue(v, func(x ssa.Value) *Sym {
			if u, ok := x.(*ssa.UnOp); ok && u.Op == token.MUL {
				if ia, ok := u.X.(*ssa.IndexAddr); ok {
					if _, isSub := ia.Index.(*ssa.BinOp); isSub {
						return &Sym{Op: "param", Name: "lo"}
					}
					return &Sym{Op: "param", Name: "hi"}
				}
			}
			if ex, ok := x.(*ssa.Extract); ok && ex.Index == 1 {
				return &Sym{Op: "param", Name: "frac"}
			}
			return nil
		})
		ok2, _ := e7Equal(sym, func(g func(string) *big.Rat) *big.Rat {
			return rAdd(g("lo"), rMul(g("frac"), rSub(g("hi"), g("lo"))))
		}, []map[string]*big.Rat{{"lo": rat(3, 1), "hi": rat(8, 1), "frac": rat(1, 4)}}, func(s *Sym) string {
			if s.Op == "param" {
				return s.Name
			}
			return ""
		})
		if ok2 {
			okI = true
		}
	}
	c.Check(okI, "C12/R2", "Percentile:interpolation", site, "linear interpolation between the two neighbouring order statistics", "the percentile is not the linear interpolation lo + frac·(hi - lo) of neighbouring order statistics")
	// R3: indexing Xs only when sorted
	for _, name := range []string{"Percentile", "IQR"} {
		f := p.Method("internal/stats", "Sample", name)
		if f == nil {
			continue
		}
		// every IndexAddr into Xs with a computed (non-constant-0, non-len-1) index is dominated by the Sorted test's handling
		okS := true
		nIdx := 0
		eachInstr(f, func(b *ssa.BasicBlock, in ssa.Instruction) {
			ia, ok := in.(*ssa.IndexAddr)
			if !ok {
				return
			}
			if lf, _ := loadOfField(ia.X); lf != xsF {
				return
			}
			nIdx++
			// sorted on this path: either fact Sorted==true, or the value was replaced by Copy().Sort()
			sorted := false
			for _, ft := range factsAt(b) {
				if lf, _ := loadOfField(ft.Cond); lf == sortedF && ft.True {
					sorted = true
				}
			}
			// the receiver slot was overwritten with a sorted copy on the other path: look for a call to Sort dominating or in a predecessor diamond
			eachInstr(f, func(b2 *ssa.BasicBlock, in2 ssa.Instruction) {
				if call, ok := in2.(*ssa.Call); ok {
					if sc := call.Call.StaticCallee(); sc != nil && sc.Name() == "Sort" {
						// the Sort block is the false branch of the Sorted test that rejoins before b
						for _, ft := range factsAt(b2) {
							if lf, _ := loadOfField(ft.Cond); lf == sortedF && !ft.True && ft.If.Block().Dominates(b) {
								sorted = true
							}
						}
					}
				}
			})
			if !sorted {
				okS = false
			}
		})
		if name == "IQR" {
			// IQR delegates to Percentile; it must itself ensure sortedness or leave it to Percentile
			c.OK("C12/R3", "IQR:sorted", p.pos(f.Pos()), "delegates to Percentile after sorting")
			continue
		}
		c.Check(okS && nIdx > 0, "C12/R3", name+":sorted-before-index", p.pos(f.Pos()), fmt.Sprintf("%d element reads, all after the sample is known sorted", nIdx), "an order statistic is read from values that are not known to be sorted on that path")
	}
}

// symOfValue converts a pure arithmetic SSA expression into a Sym, using leaf for the atoms.
func symOfValue(v ssa.Value, leaf func(ssa.Value) *Sym) *Sym {
	if s := leaf(v); s != nil {
		return s
	}
	switch x := v.(type) {
	case *ssa.Const:
		if x.Value != nil {
			return symConst(x.Value, x.Type())
		}
	case *ssa.BinOp:
		return &Sym{Op: "binop", Tok: x.Op, Args: []*Sym{symOfValue(x.X, leaf), symOfValue(x.Y, leaf)}, Type: x.Type()}
	case *ssa.UnOp:
		if x.Op == token.SUB {
			return &Sym{Op: "unop", Tok: token.SUB, Args: []*Sym{symOfValue(x.X, leaf)}, Type: x.Type()}
		}
	case *ssa.Convert:
		return &Sym{Op: "convert", Name: x.Type().String(), Args: []*Sym{symOfValue(x.X, leaf)}, Type: x.Type()}
	}
	return &Sym{Op: "opaque", Name: v.Name(), Type: v.Type()}
}

func c12LogDomain(c *Ctx, p *Prog) {
	const R = "C12/R4"
	var roots []*ssa.Function
	for _, m := range []string{"CDF", "PDF"} {
		if f := p.Method("internal/stats", "TDist", m); f != nil {
			roots = append(roots, f)
		}
	}
	if len(roots) == 0 {
		c.Undecided(R, "anchor:TDist", "", "t distribution not found")
		return
	}
	reach := staticReach(roots, istatsPkg)
	bad := ""
	for _, f := range reach {
		if len(callsIn(f, "math", "", "Gamma")) > 0 {
			bad = fnName(f)
		}
	}
	c.Check(bad == "", R, "t-path:no-gamma", p.pos(roots[0].Pos()), fmt.Sprintf("%d functions reachable from the t distribution; none calls math.Gamma", len(reach)),
		bad+" on the t distribution's path calls math.Gamma, which overflows for arguments above ~171: the CDF becomes NaN for large degrees of freedom (every t-test on a few hundred samples reports P = NaN)")
}

func c12Closures(c *Ctx, p *Prog) {
	const R = "C12/R5"
	fns := p.Funcs("internal/stats")
	eff := newEffects(p, fns)
	n := 0
	for _, fn := range fns {
		if fn.Parent() == nil {
			continue
		}
		n++
		sm := eff.sums[fn]
		var written []string
		for i, w := range sm.WritesFree {
			if w {
				written = append(written, fn.FreeVars[i].Name())
			}
		}
		c.Check(len(written) == 0, R, fnName(fn)+":captured-writes", p.pos(fn.Pos()), "writes no captured variable",
			fmt.Sprintf("the function value writes the captured variable(s) %v: state survives from one call to the next, so results depend on how often the same returned function was used before", written))
	}
	c.Floor(R, "closures in internal/stats", n, 3)
}

// lenLowerBound: the largest L such that the dominating branch conditions of b imply len(x) >= L.
func lenLowerBound(b *ssa.BasicBlock, x ssa.Value) int64 {
	isLenOf := func(v ssa.Value) bool {
		call, ok := stripConvInt(v).(*ssa.Call)
		if !ok {
			return false
		}
		bi, ok := call.Call.Value.(*ssa.Builtin)
		return ok && bi.Name() == "len" && (call.Call.Args[0] == x || sameValue(call.Call.Args[0], x))
	}
	lb := int64(0)
	facts := factsAt(b)
	for pass := 0; pass < 3; pass++ {
		for _, f := range facts {
			cmp, ok := f.Cond.(*ssa.BinOp)
			if !ok {
				continue
			}
			op, t := cmp.Op, f.True
			var k int64
			switch {
			case isLenOf(cmp.X):
				kk, ok := constInt(cmp.Y)
				if !ok {
					continue
				}
				k = kk
			case isLenOf(cmp.Y):
				kk, ok := constInt(cmp.X)
				if !ok {
					continue
				}
				k = kk
				// mirror the operator
				switch op {
				case token.LSS:
					op = token.GTR
				case token.LEQ:
					op = token.GEQ
				case token.GTR:
					op = token.LSS
				case token.GEQ:
					op = token.LEQ
				}
			default:
				continue
			}
			nb := lb
			switch {
			case op == token.LEQ && !t, op == token.GTR && t:
				nb = k + 1
			case op == token.LSS && !t, op == token.GEQ && t:
				nb = k
			case op == token.EQL && !t && k == lb, op == token.NEQ && t && k == lb:
				nb = lb + 1
			case op == token.EQL && t, op == token.NEQ && !t:
				nb = k
			}
			if nb > lb {
				lb = nb
			}
		}
	}
	return lb
}

func c12LenMinusOne(c *Ctx, p *Prog) {
	const R = "C12/R6"
	n := 0
	for _, fn := range p.Funcs("internal/stats") {
		eachInstr(fn, func(b *ssa.BasicBlock, in ssa.Instruction) {
			bo, ok := in.(*ssa.BinOp)
			if !ok || bo.Op != token.QUO || !isFloat(bo.Type()) {
				return
			}
			sub, ok := stripConvInt(bo.Y).(*ssa.BinOp)
			if !ok || sub.Op != token.SUB {
				return
			}
			if k, ok := constInt(sub.Y); !ok || k != 1 {
				return
			}
			call, ok := stripConvInt(sub.X).(*ssa.Call)
			if !ok {
				return
			}
			bi, ok := call.Call.Value.(*ssa.Builtin)
			if !ok || bi.Name() != "len" {
				return
			}
			n++
			lb := lenLowerBound(b, call.Call.Args[0])
			c.Check(lb >= 2, R, fmt.Sprintf("%s:div-by-len-1#%d", fnName(fn), n), p.pos(bo.Pos()), "the division by len-1 is reached only for two or more values",
				fmt.Sprintf("a division by len(x)-1 can be reached with len(x) >= %d only: for a single value it computes 0/0 = NaN, which is not caught by the t-tests' variance == 0 guard, so a one-value sample yields NaN statistics with a nil error", lb))
		})
	}
	c.Floor(R, "divisions by len-1 in internal/stats", n, 1)
}

// c12InlineHelper: small loop-free package-level helpers of internal/stats (a tail switch moved out of newTTestResult)
// are evaluated in place; methods (distributions' CDF etc.) stay symbolic.
func c12InlineHelper(f *ssa.Function) bool {
	return f.Pkg != nil && f.Pkg.Pkg.Path() == modPath+"/internal/stats" && f.Signature.Recv() == nil && f.Parent() == nil && len(naturalLoops(f)) == 0 && len(f.Blocks) <= 12 && !strings.HasPrefix(f.Name(), "math")
}

// localBuffer: addr is an element of a slice or array created in this function (make, array literal or new).
func localBuffer(addr ssa.Value) bool {
	for i := 0; i < 8; i++ {
		switch x := addr.(type) {
		case *ssa.IndexAddr:
			addr = x.X
		case *ssa.Slice:
			addr = x.X
		case *ssa.MakeSlice, *ssa.Alloc:
			return true
		case *ssa.Phi:
			// a buffer grown by append in the loop: any edge that is a fresh buffer
			for _, e := range x.Edges {
				if _, ok := e.(*ssa.MakeSlice); ok {
					return true
				}
			}
			return false
		default:
			return false
		}
	}
	return false
}

// ratOfValue evaluates an arithmetic SSA expression tree exactly over the rationals; leaf names the operands that are inputs.
func ratOfValue(v ssa.Value, leaf func(ssa.Value) (string, bool), pt map[string]*big.Rat) (*big.Rat, string) {
	if n, ok := leaf(v); ok {
		if r, ok := pt[n]; ok {
			return r, ""
		}
		return nil, "no value for " + n
	}
	switch x := v.(type) {
	case *ssa.Const:
		if x.Value == nil {
			return nil, "nil constant"
		}
		if r, ok := new(big.Rat).SetString(x.Value.ExactString()); ok {
			return r, ""
		}
		return nil, "constant " + x.Value.String()
	case *ssa.Convert:
		return ratOfValue(x.X, leaf, pt)
	case *ssa.ChangeType:
		return ratOfValue(x.X, leaf, pt)
	case *ssa.UnOp:
		if x.Op == token.SUB {
			r, err := ratOfValue(x.X, leaf, pt)
			if err != "" {
				return nil, err
			}
			return new(big.Rat).Neg(r), ""
		}
	case *ssa.BinOp:
		a, err := ratOfValue(x.X, leaf, pt)
		if err != "" {
			return nil, err
		}
		b, err := ratOfValue(x.Y, leaf, pt)
		if err != "" {
			return nil, err
		}
		switch x.Op {
		case token.ADD:
			return rAdd(a, b), ""
		case token.SUB:
			return rSub(a, b), ""
		case token.MUL:
			return rMul(a, b), ""
		case token.QUO:
			if b.Sign() == 0 {
				return nil, "division by zero"
			}
			return rQuo(a, b), ""
		}
	}
	return nil, "operand " + v.Name() + " (" + v.String() + ") is not an arithmetic expression of the inputs"
}

// c12NoReorder: an order statistic leaves its argument's values where they are. A Sample method with a value receiver gets
// a copy of the struct, not of the values: sorting "its own" Xs sorts the caller's slice. Every sort inside such a method
// acts on the result of Copy().
func c12NoReorder(c *Ctx, p *Prog, R string) {
	n := 0
	for _, fn := range p.Funcs("internal/stats") {
		recv := fn.Signature.Recv()
		if recv == nil || recvName(recv.Type()) != "Sample" || fn.Name() == "Sort" || fn.Name() == "Copy" {
			continue
		}
		if _, isPtr := recv.Type().(*types.Pointer); isPtr {
			continue // a pointer receiver says it may modify the sample
		}
		k := 0
		eachInstr(fn, func(_ *ssa.BasicBlock, in ssa.Instruction) {
			call, ok := in.(*ssa.Call)
			if !ok {
				return
			}
			sorts := false
			var target ssa.Value
			if sc := call.Call.StaticCallee(); sc != nil && sc.Name() == "Sort" && sc.Signature.Recv() != nil && recvName(sc.Signature.Recv().Type()) == "Sample" {
				sorts, target = true, call.Call.Args[0]
			}
			if cc, ok := ascendingSortCall(in); ok {
				sorts, target = true, cc.Args[0]
			}
			if !sorts {
				return
			}
			n++
			k++
			onCopy := false
			var walk func(v ssa.Value, d int)
			walk = func(v ssa.Value, d int) {
				if d > 6 || v == nil {
					return
				}
				switch x := v.(type) {
				case *ssa.Call:
					if sc := x.Call.StaticCallee(); sc != nil && sc.Name() == "Copy" {
						onCopy = true
					}
					if bi, ok := x.Call.Value.(*ssa.Builtin); ok && bi.Name() == "append" {
						// append([]float64(nil), xs...): a fresh slice
						if k, ok := x.Call.Args[0].(*ssa.Const); ok && k.IsNil() {
							onCopy = true
						}
					}
				case *ssa.MakeSlice:
					onCopy = true
				case *ssa.UnOp:
					walk(x.X, d+1)
				case *ssa.FieldAddr:
					walk(x.X, d+1)
				case *ssa.Phi:
					for _, e := range x.Edges {
						walk(e, d+1)
					}
				}
			}
			walk(target, 0)
			c.Check(onCopy, R, fmt.Sprintf("%s:sort#%d", fnName(fn), k), p.pos(call.Pos()), "sorts a copy", "a method with a value receiver sorts the sample it was given: the receiver is a copy of the struct but shares the values' backing array, so the caller's measurements are reordered in place — the legacy tables then report the retained values in ascending instead of input order")
		})
	}
	c.Floor(R, "sorts inside value-receiver methods of Sample", n, 1)
}
