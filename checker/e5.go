// e5.go: E5 — map-order independence.
//
// Every `range` over a map is classified by the effects of its body. A loop is
// order-independent when all of its effects are: writes to objects reached
// through the range key/value or allocated in the iteration (per-key), inserts
// into other maps under the range key itself, set insertions (constant value),
// deletions, exact commutative reductions (integer +), idempotent constant
// flags, collecting into a slice that is sorted before any other use, and early
// exits that yield only constants. Anything else — assignment under a derived
// key, first-match exits, arg-max with associated data, floating-point
// accumulation, output or appends to shared state in visit order, unknown
// callees — makes the loop order-sensitive and is reported with the reason.
package main

import (
	"fmt"
	"go/token"
	"go/types"
	"strings"

	"golang.org/x/tools/go/ssa"
	"golang.org/x/tools/go/ssa/ssautil"
)

type mapRange struct {
	Fn      *ssa.Function
	Loop    *loopInfo
	Range   *ssa.Range
	Next    *ssa.Next
	Key     string
	Pattern []string // order-independent patterns recognised
	Reasons []string // why it is order-sensitive (empty = independent)
	Pos     token.Pos
}

func isSortCall(cc *ssa.CallCommon, eff *effects) bool {
	co := calleeObj(cc)
	if co == nil || co.Pkg() == nil {
		return false
	}
	switch co.Pkg().Path() {
	case "sort":
		switch co.Name() {
		case "Strings", "Float64s", "Ints", "Slice", "SliceStable", "Sort", "Stable":
			return true
		}
	case "slices":
		return strings.HasPrefix(co.Name(), "Sort")
	}
	if sc := cc.StaticCallee(); sc != nil && sc.Blocks != nil && len(sc.Params) > 0 {
		// a repo function that sorts its first parameter on every path
		var sorts []*ssa.BasicBlock
		eachInstr(sc, func(b *ssa.BasicBlock, in ssa.Instruction) {
			if ci, ok := in.(ssa.CallInstruction); ok && ci.Common().StaticCallee() != sc {
				c2 := ci.Common()
				if len(c2.Args) > 0 && isParamOrSpill(stripIface(c2.Args[0]), sc.Params[0]) && isSortCallShallow(c2) {
					sorts = append(sorts, b)
				}
				// sort.Sort / sort.Stable over a sorter object that holds the parameter in one of its fields and
				// whose Swap exchanges elements of that field
				if len(c2.Args) > 0 && isSortCallShallow(c2) && sorterHolds(stripIface(c2.Args[0]), sc.Params[0]) {
					sorts = append(sorts, b)
				}
			}
		})
		if len(sorts) > 0 {
			all := true
			for _, b := range sc.Blocks {
				if _, ok := b.Instrs[len(b.Instrs)-1].(*ssa.Return); ok {
					cov := false
					for _, s := range sorts {
						if s.Dominates(b) {
							cov = true
						}
					}
					// an early return for empty input is fine: nothing to order
					if !cov && !guardedByEmpty(b, sc.Params[0]) {
						all = false
					}
				}
			}
			return all
		}
	}
	return false
}

func guardedByEmpty(b *ssa.BasicBlock, param ssa.Value) bool {
	for _, f := range factsAt(b) {
		if bo, ok := f.Cond.(*ssa.BinOp); ok && bo.Op == token.EQL && f.True {
			if call, ok := bo.X.(*ssa.Call); ok {
				if bi, ok := call.Call.Value.(*ssa.Builtin); ok && bi.Name() == "len" && (call.Call.Args[0] == param || isParamOrSpillV(call.Call.Args[0], param)) {
					if k, ok := constInt(bo.Y); ok && k == 0 {
						return true
					}
				}
			}
		}
	}
	return false
}

func isSortCallShallow(cc *ssa.CallCommon) bool {
	co := calleeObj(cc)
	if co == nil || co.Pkg() == nil {
		return false
	}
	switch co.Pkg().Path() {
	case "sort":
		switch co.Name() {
		case "Strings", "Float64s", "Ints", "Slice", "SliceStable", "Sort", "Stable":
			return true
		}
	case "slices":
		return strings.HasPrefix(co.Name(), "Sort")
	}
	return false
}

// classifyMapRanges finds and classifies the map ranges of fn.
func classifyMapRanges(p *Prog, eff *effects, fn *ssa.Function) []mapRange {
	var out []mapRange
	n := 0
	for _, lp := range naturalLoops(fn) {
		var nx *ssa.Next
		for _, in := range lp.Header.Instrs {
			if x, ok := in.(*ssa.Next); ok && !x.IsString {
				nx = x
			}
		}
		if nx == nil {
			continue
		}
		rg, ok := nx.Iter.(*ssa.Range)
		if !ok {
			continue
		}
		if _, isMap := rg.X.Type().Underlying().(*types.Map); !isMap {
			continue
		}
		n++
		mr := mapRange{Fn: fn, Loop: lp, Range: rg, Next: nx, Pos: rg.Pos()}
		mr.Key = fmt.Sprintf("%s:range#%d over %s", fnName(fn), n, strings.ReplaceAll(rg.X.Type().String(), modPath+"/", ""))
		classifyOne(p, eff, &mr)
		out = append(out, mr)
	}
	return out
}

func classifyOne(p *Prog, eff *effects, mr *mapRange) {
	lp, nx := mr.Loop, mr.Next
	fn := mr.Fn
	inLoop := func(in ssa.Instruction) bool { return in.Block() != nil && lp.Blocks[in.Block()] }
	reason := func(pos token.Pos, format string, a ...any) {
		mr.Reasons = append(mr.Reasons, fmt.Sprintf("%s (%s)", fmt.Sprintf(format, a...), p.pos(pos)))
	}
	pattern := func(s string) {
		for _, x := range mr.Pattern {
			if x == s {
				return
			}
		}
		mr.Pattern = append(mr.Pattern, s)
	}
	var keyV ssa.Value
	for _, r := range *nx.Referrers() {
		if ex, ok := r.(*ssa.Extract); ok && ex.Index == 1 {
			keyV = ex
		}
	}
	// perKey: v denotes per-iteration data
	var perKey func(v ssa.Value) bool
	var isKeyFn func(v ssa.Value) bool
	perKey = func(v ssa.Value) bool {
		// the element another map holds under the range key (populated with one object per key)
		switch x := v.(type) {
		case *ssa.Lookup:
			if isKeyFn != nil && isKeyFn(x.Index) {
				return true
			}
		case *ssa.Extract:
			if lk, ok := x.Tuple.(*ssa.Lookup); ok && isKeyFn != nil && isKeyFn(lk.Index) {
				return true
			}
		case *ssa.FieldAddr:
			if perKey(x.X) {
				return true
			}
		case *ssa.UnOp:
			if x.Op == token.MUL {
				if al, ok := x.X.(*ssa.Alloc); ok && !allocIsObject(al) {
					all, any := true, false
					for _, r := range *al.Referrers() {
						if st, ok := r.(*ssa.Store); ok && st.Addr == al {
							any = true
							if !perKey(st.Val) {
								all = false
							}
						}
					}
					if any && all {
						return true
					}
				}
			}
		}
		for _, r := range rootsOf(v) {
			switch r.Kind {
			case rkRange:
				if r.Val != nx {
					// element of an inner range over per-key data is still per-key if that range's container is per-key
					if inner, ok := r.Val.(*ssa.Next); ok {
						if rg, ok := inner.Iter.(*ssa.Range); ok && inLoop(inner) && perKey(rg.X) {
							continue
						}
					}
					return false
				}
			case rkLocal:
				if in, ok := r.Val.(ssa.Instruction); ok && inLoop(in) {
					continue
				}
				return false
			case rkConst:
			case rkCall:
				// result of a call made inside the iteration on per-key data: treat as per-key when the callee is a lookup keyed by per-key data
				call, ok := r.Val.(*ssa.Call)
				if !ok || !inLoop(call) {
					return false
				}
				return false
			default:
				return false
			}
		}
		return true
	}
	isKey := func(v ssa.Value) bool {
		v = stripConv(v)
		for {
			switch x := v.(type) {
			case *ssa.MakeInterface:
				v = x.X
				continue
			case *ssa.Convert:
				v = x.X
				continue
			}
			break
		}
		if keyV != nil && v == keyV {
			return true
		}
		// the key copied into a local variable
		if la := loadAddr(v); la != nil && keyV != nil {
			if al, ok := la.(*ssa.Alloc); ok {
				n, okk := 0, false
				for _, r := range *al.Referrers() {
					if st, ok := r.(*ssa.Store); ok && st.Addr == al {
						n++
						if st.Val == keyV {
							okk = true
						}
					}
				}
				return okk && n == 1
			}
		}
		return false
	}
	isKeyFn = isKey
	isConstOrEmpty := func(v ssa.Value) bool {
		if _, ok := v.(*ssa.Const); ok {
			return true
		}
		if st, ok := v.Type().Underlying().(*types.Struct); ok && st.NumFields() == 0 {
			return true
		}
		// load of a zero-size local
		return false
	}

	// accumulation slots / phis that collect
	var collects []ssa.Value

	// accKind classifies how value v derives from accumulator acc within the loop.
	var accKind func(v ssa.Value, acc ssa.Value, depth int) string
	accKind = func(v ssa.Value, acc ssa.Value, depth int) string {
		if depth > 12 {
			return "other"
		}
		if v == acc {
			return "same"
		}
		if la := loadAddr(v); la != nil && la == acc {
			return "same"
		}
		switch x := v.(type) {
		case *ssa.Const:
			return "const"
		case *ssa.Phi:
			if !inLoop(x) {
				return "invariant"
			}
			kinds := map[string]bool{}
			for _, e := range x.Edges {
				kinds[accKind(e, acc, depth+1)] = true
			}
			delete(kinds, "same")
			if len(kinds) == 0 {
				return "same"
			}
			if len(kinds) == 1 {
				for k := range kinds {
					return k
				}
			}
			if len(kinds) == 2 && kinds["const"] && kinds["invariant"] {
				return "const"
			}
			return "other"
		case *ssa.Call:
			if b, ok := x.Call.Value.(*ssa.Builtin); ok && b.Name() == "append" {
				k := accKind(x.Call.Args[0], acc, depth+1)
				if k == "same" || k == "collect" {
					return "collect"
				}
			}
			return "other"
		case *ssa.BinOp:
			if x.Op == token.ADD && isInteger(x.Type()) {
				kx, ky := accKind(x.X, acc, depth+1), accKind(x.Y, acc, depth+1)
				if kx == "same" || kx == "intadd" || ky == "same" || ky == "intadd" {
					return "intadd"
				}
			}
			if (x.Op == token.ADD || x.Op == token.MUL || x.Op == token.SUB || x.Op == token.QUO) && isFloat(x.Type()) {
				kx, ky := accKind(x.X, acc, depth+1), accKind(x.Y, acc, depth+1)
				if kx == "same" || ky == "same" || kx == "floatacc" || ky == "floatacc" {
					return "floatacc"
				}
			}
			return "other"
		}
		if in, ok := v.(ssa.Instruction); ok && !inLoop(in) {
			return "invariant"
		}
		return "other"
	}

	// header phis
	for _, in := range lp.Header.Instrs {
		phi, ok := in.(*ssa.Phi)
		if !ok {
			continue
		}
		for i, pr := range lp.Header.Preds {
			if !lp.Blocks[pr] {
				continue
			}
			switch accKind(phi.Edges[i], phi, 0) {
			case "same", "const", "invariant":
				pattern("flag")
			case "intadd":
				pattern("P5 integer reduction")
			case "collect":
				collects = append(collects, phi)
			case "floatacc":
				reason(phi.Pos(), "floating-point accumulation of %s in visit order (rounding depends on the order)", phi.Comment)
			default:
				reason(phi.Pos(), "loop-carried value %s is updated from the visited element (last-wins / arg-max: ties and associated data depend on visit order)", phi.Comment)
			}
		}
	}

	for b := range lp.Blocks {
		for _, in := range b.Instrs {
			switch x := in.(type) {
			case *ssa.Store:
				if perKey(x.Addr) {
					pattern("P2 per-key write")
					continue
				}
				// the iteration variable itself, spilled to a slot (its address is taken or it predates per-iteration loop variables)
				if al, ok := x.Addr.(*ssa.Alloc); ok {
					if ex, isEx := x.Val.(*ssa.Extract); isEx && ex.Tuple == nx && loadsOnlyIn(al, lp) {
						pattern("iteration variable")
						continue
					}
				}
				// slot accumulators (variables not lifted to registers)
				if al, ok := x.Addr.(*ssa.Alloc); ok {
					switch accKind(x.Val, al, 0) {
					case "same", "const", "invariant":
						pattern("flag")
					case "intadd":
						pattern("P5 integer reduction")
					case "collect":
						collects = append(collects, al)
					case "floatacc":
						reason(x.Pos(), "floating-point accumulation in visit order")
					default:
						reason(x.Pos(), "variable %s is assigned from the visited element (last-wins / arg-max)", al.Comment)
					}
					continue
				}
				if fa, ok := x.Addr.(*ssa.FieldAddr); ok {
					// field accumulators: x.f = append(x.f, ...)
					f, _ := fieldOfAddr(fa)
					if k := fieldAccKind(x.Val, fa); k == "collect" {
						collects = append(collects, fa)
						_ = f
						continue
					}
				}
				if isConstOrEmpty(x.Val) {
					pattern("flag")
					continue
				}
				reason(x.Pos(), "store to shared memory (%s) of a value taken from the visited element: the last visited element wins", rootsStr(x.Addr))
			case *ssa.MapUpdate:
				switch {
				case perKey(x.Map):
					pattern("P2 per-key write")
				case isConstOrEmpty(x.Value) || isEmptyStructLoad(x.Value):
					pattern("P4 set insertion")
				case isKey(x.Key):
					pattern("P2 insert under the range key")
				case mapOfSlicesSorted(fn, x):
					pattern("P1 collect into per-key slices, each sorted before use")
				default:
					reason(x.Pos(), "map assignment under a key derived from the visited element: when two elements map to the same key, which one is kept depends on visit order")
				}
			case *ssa.Send:
				if !isConstOrEmpty(x.X) && !isEmptyStructLoad(x.X) {
					reason(x.Pos(), "channel send of per-element data in visit order")
				}
			case ssa.CallInstruction:
				cc := x.Common()
				if bi, ok := cc.Value.(*ssa.Builtin); ok {
					switch bi.Name() {
					case "delete":
						if hasEarlyExit(lp) && len(cc.Args) > 0 && cc.Args[0] == mr.Range.X {
							reason(in.Pos(), "removes whichever element is visited first and then leaves the loop: which element goes depends on map order")
						} else {
							pattern("P3 delete")
						}
					case "copy":
						if !perKey(cc.Args[0]) {
							reason(in.Pos(), "copy into shared memory in visit order")
						}
					case "print", "println":
						reason(in.Pos(), "output in visit order")
					}
					continue
				}
				args := callArgs(cc)
				var sum *fnSummary
				var bindings []ssa.Value
				if sc := cc.StaticCallee(); sc != nil {
					sum = eff.sums[sc]
				}
				if mc, ok := cc.Value.(*ssa.MakeClosure); ok {
					sum = eff.sums[mc.Fn.(*ssa.Function)]
					bindings = mc.Bindings
				}
				// a call of a spawning wrapper is a go statement of the function value passed to it: judge that body
				// (the wrapper's own synchronisation — WaitGroup.Add, limiter send — is order-insensitive)
				if w := c15Wrappers[cc.StaticCallee()]; w != nil && w.paramIdx < len(cc.Args) {
					if mcB, ok := stripConv(cc.Args[w.paramIdx]).(*ssa.MakeClosure); ok {
						sum = eff.sums[mcB.Fn.(*ssa.Function)]
						bindings = mcB.Bindings
						args = nil
					}
				}
				if sum == nil {
					co := calleeObj(cc)
					if w, outp, known := stdEffect(co, cc); known {
						for _, i := range w {
							if i < len(args) && !perKey(args[i]) {
								reason(in.Pos(), "%s modifies shared state in visit order", calleeName(cc))
							}
						}
						if outp {
							reason(in.Pos(), "%s produces output in visit order", calleeName(cc))
						}
						continue
					}
					if cc.IsInvoke() {
						impls := eff.implsAt(x)
						if len(impls) > 0 {
							okAll := true
							for _, im := range impls {
								s := eff.sums[im]
								for i, w := range s.WritesParam {
									if w && i < len(args) && !perKey(args[i]) {
										okAll = false
									}
								}
								if len(s.WritesGlobal) > 0 || len(s.Outputs) > 0 {
									okAll = false
								}
							}
							if !okAll {
								reason(in.Pos(), "interface call %s may modify shared state or produce output in visit order", calleeName(cc))
							} else {
								pattern("P2 per-key call")
							}
							continue
						}
					}
					if !cc.IsInvoke() {
						if cands := eff.fnTargetsAt(x); len(cands) > 0 {
							okAll := true
							for _, im := range cands {
								s := eff.sums[im]
								for i, w := range s.WritesParam {
									if w && i < len(args) && !perKey(args[i]) {
										okAll = false
									}
								}
								if len(s.WritesGlobal) > 0 || len(s.Outputs) > 0 {
									okAll = false
								}
							}
							if okAll {
								pattern("P2 per-key call")
								continue
							}
						}
					}
					// pure-looking: no pointer-like argument that is shared
					shared := false
					for _, a := range args {
						if isPointerLike(a.Type()) && !isString(a.Type()) && !perKey(a) {
							shared = true
						}
					}
					if shared {
						reason(in.Pos(), "call of %s, whose effects are unknown, with shared arguments", calleeName(cc))
					}
					continue
				}
				for i, w := range sum.WritesParam {
					if w && i < len(args) && !perKey(args[i]) {
						reason(in.Pos(), "%s modifies its argument #%d (%s), which is shared between iterations", calleeName(cc), i, rootsStr(args[i]))
					}
				}
				for i, w := range sum.WritesFree {
					if w && i < len(bindings) && !perKey(bindings[i]) {
						reason(in.Pos(), "the closure modifies captured variable %s, which is shared between iterations", bindings[i].Name())
					}
				}
				if len(sum.WritesGlobal) > 0 {
					reason(in.Pos(), "%s writes package-level state %v in visit order", calleeName(cc), sum.WritesGlobal)
				}
				if len(sum.Outputs) > 0 {
					reason(in.Pos(), "%s produces output (%v) in visit order", calleeName(cc), sum.Outputs)
				}
				if len(sum.Unknown) > 0 {
					// unknown callees inside: only a problem when shared arguments are passed
					shared := false
					for _, a := range args {
						if isPointerLike(a.Type()) && !isString(a.Type()) && !perKey(a) {
							shared = true
						}
					}
					if shared {
						reason(in.Pos(), "%s reaches callees with unknown effects (%v) while holding shared arguments", calleeName(cc), sum.Unknown)
					}
				}
				pattern("P2 per-key call")
			}
		}
	}

	// collected slices must be sorted before any other use after the loop
	for _, cv := range collects {
		if !sortedAfterLoop(fn, lp, cv, eff) {
			reason(instrPosOf(cv), "elements are appended to %s in visit order and it is not sorted before use", cv.Name())
		} else {
			pattern("P1 collect-then-sort")
		}
	}

	// early exits
	for b := range lp.Blocks {
		if b == lp.Header {
			continue
		}
		for _, s := range b.Succs {
			if lp.Blocks[s] {
				continue
			}
			// values that leave the loop through this edge
			checkExitValues(p, mr, b, s, reason, pattern)
		}
		if ret, ok := b.Instrs[len(b.Instrs)-1].(*ssa.Return); ok {
			for i := range ret.Results {
				v := retVal(ret, i)
				if in, ok := v.(ssa.Instruction); ok && lp.Blocks[in.Block()] {
					if !isOrderFreeValue(v, lp) {
						reason(ret.Pos(), "returns a value taken from the first visited element that matches (first-match pick)")
					}
				}
			}
			pattern("P8 early exit")
		}
	}
}

func isEmptyStructLoad(v ssa.Value) bool {
	st, ok := v.Type().Underlying().(*types.Struct)
	return ok && st.NumFields() == 0
}

func rootsStr(v ssa.Value) string {
	var s []string
	for _, r := range rootsOf(v) {
		s = append(s, r.String())
	}
	return strings.Join(s, ", ")
}

func instrPosOf(v ssa.Value) token.Pos {
	if in, ok := v.(ssa.Instruction); ok {
		return instrPos(in)
	}
	return v.Pos()
}

// fieldAccKind: val is append(load(sameField), ...).
func fieldAccKind(val ssa.Value, fa *ssa.FieldAddr) string {
	call, ok := val.(*ssa.Call)
	if !ok {
		return ""
	}
	if b, ok := call.Call.Value.(*ssa.Builtin); !ok || b.Name() != "append" {
		return ""
	}
	if la := loadAddr(call.Call.Args[0]); la != nil && sameAddr(la, fa) {
		return "collect"
	}
	return ""
}

// isOrderFreeValue: v (defined in the loop) does not depend on which element is visited: constants and phis of constants.
func isOrderFreeValue(v ssa.Value, lp *loopInfo) bool {
	switch x := v.(type) {
	case *ssa.Const:
		return true
	case *ssa.Phi:
		for _, e := range x.Edges {
			if !isOrderFreeValue(e, lp) {
				return false
			}
		}
		return true
	case *ssa.MakeInterface:
		return isOrderFreeValue(x.X, lp)
	}
	if in, ok := v.(ssa.Instruction); ok && !lp.Blocks[in.Block()] {
		return true
	}
	return false
}

// checkExitValues: phis in the exit target that merge loop-defined values through this edge.
func checkExitValues(p *Prog, mr *mapRange, from, to *ssa.BasicBlock, reason func(token.Pos, string, ...any), pattern func(string)) {
	for _, in := range to.Instrs {
		phi, ok := in.(*ssa.Phi)
		if !ok {
			break
		}
		for i, pr := range to.Preds {
			if pr != from {
				continue
			}
			if !isOrderFreeValue(phi.Edges[i], mr.Loop) {
				reason(phi.Pos(), "leaves the loop early carrying %s taken from the visited element (first-match pick)", phi.Comment)
			}
		}
	}
	pattern("P8 early exit")
}

// sortedAfterLoop: the collected value (header phi, slot or field address) is passed to a sort call that dominates every other use after the loop.
func sortedAfterLoop(fn *ssa.Function, lp *loopInfo, cv ssa.Value, eff *effects) bool {
	return sortedBeforeUse(fn, lp, cv, eff, 0)
}

// collectorCallers: the call sites, in fn's package, of fn or of an instance of the generic fn.
func collectorCallers(fn *ssa.Function) (calls []*ssa.Call, exported bool) {
	if o, ok := fn.Object().(*types.Func); ok && o.Exported() {
		exported = true
	}
	for g := range allFunctionsOf(fn.Prog) {
		root := g
		for root.Parent() != nil {
			root = root.Parent()
		}
		if root.Pkg != fn.Pkg && !(root.Origin() != nil && root.Origin().Pkg == fn.Pkg) {
			continue
		}
		eachInstr(g, func(_ *ssa.BasicBlock, in ssa.Instruction) {
			ci, ok := in.(ssa.CallInstruction)
			if !ok {
				return
			}
			sc := ci.Common().StaticCallee()
			if sc == nil || !(sc == fn || sc.Origin() == fn) {
				// the function used as a value: callers unknown
				var ops []*ssa.Value
				for _, o := range in.Operands(ops) {
					if f, ok := (*o).(*ssa.Function); ok && (f == fn || f.Origin() == fn) {
						exported = true
					}
				}
				return
			}
			if call, ok := in.(*ssa.Call); ok {
				calls = append(calls, call)
			} else {
				exported = true // go / defer: result dropped, but keep it simple
			}
		})
	}
	return
}

var allFuncsCache = map[*ssa.Program]map[*ssa.Function]bool{}

func allFunctionsOf(prog *ssa.Program) map[*ssa.Function]bool {
	if m, ok := allFuncsCache[prog]; ok {
		return m
	}
	m := ssautil.AllFunctions(prog)
	allFuncsCache[prog] = m
	return m
}

// sortedBeforeUse: every use of the collected slice cv outside the loop (lp may be nil: cv is then a value the
// function obtained from a collecting helper) comes after a sort of it. A function that only returns what it collected
// is a collecting helper: the obligation passes to each of its callers in the package.
func sortedBeforeUse(fn *ssa.Function, lp *loopInfo, cv ssa.Value, eff *effects, depth int) bool {
	inLoop := func(b *ssa.BasicBlock) bool { return lp != nil && lp.Blocks[b] }
	type use struct {
		in   ssa.Instruction
		sort bool
	}
	var uses []use
	var isCV func(v ssa.Value) bool
	isCV = func(v ssa.Value) bool {
		if v == cv {
			return true
		}
		if mi, ok := v.(*ssa.MakeInterface); ok {
			return isCV(mi.X)
		}
		if ct, ok := v.(*ssa.ChangeType); ok {
			return isCV(ct.X)
		}
		if la := loadAddr(v); la != nil {
			if la == cv {
				return true
			}
			if fa, ok := cv.(*ssa.FieldAddr); ok && sameAddr(la, fa) {
				return true
			}
		}
		// exit phis merging cv with its initial value
		if phi, ok := v.(*ssa.Phi); ok && !inLoop(phi.Block()) {
			for _, e := range phi.Edges {
				if e == cv {
					return true
				}
			}
		}
		return false
	}
	eachInstr(fn, func(b *ssa.BasicBlock, in ssa.Instruction) {
		if inLoop(b) {
			return
		}
		var ops []*ssa.Value
		for _, o := range in.Operands(ops) {
			if *o == nil || !isCV(*o) {
				continue
			}
			if _, isPhi := in.(*ssa.Phi); isPhi {
				continue
			}
			if _, isLoad := in.(*ssa.UnOp); isLoad {
				continue
			}
			if _, isDbg := in.(*ssa.DebugRef); isDbg {
				continue
			}
			if _, isMI := in.(*ssa.MakeInterface); isMI {
				continue
			}
			if _, isCT := in.(*ssa.ChangeType); isCT {
				continue
			}
			if st, isSt := in.(*ssa.Store); isSt && st.Addr == cv && !isCV(st.Val) {
				continue // (re)initialisation of the accumulator, not a use of what was collected
			}
			u := use{in: in}
			if mc, ok := in.(*ssa.MakeClosure); ok && closureFeedsSort(mc) {
				continue
			}
			if ci, ok := in.(ssa.CallInstruction); ok {
				cc := ci.Common()
				if len(cc.Args) > 0 && isCV(cc.Args[0]) && isSortCall(cc, eff) {
					u.sort = true
				}
			}
			uses = append(uses, u)
		}
	})
	if len(uses) == 0 {
		return true // never used afterwards
	}
	var sorts []ssa.Instruction
	for _, u := range uses {
		if u.sort {
			sorts = append(sorts, u.in)
		}
	}
	if len(sorts) == 0 {
		// returned as collected and nothing else: a collecting helper; each caller in the package must sort first
		onlyReturned := depth < 3
		for _, u := range uses {
			if _, isRet := u.in.(*ssa.Return); !isRet {
				onlyReturned = false
			}
		}
		if !onlyReturned || fn.Signature.Results().Len() != 1 {
			return false
		}
		calls, open := collectorCallers(fn)
		if open {
			return false
		}
		for _, call := range calls {
			g := call.Parent()
			var got ssa.Value = call
			// a result kept in a captured local: the slot stands for it
			if refs := call.Referrers(); refs != nil && len(*refs) == 1 {
				if st, ok := (*refs)[0].(*ssa.Store); ok {
					if al, ok := st.Addr.(*ssa.Alloc); ok && st.Val == ssa.Value(call) {
						got = al
					}
				}
			}
			if !sortedBeforeUse(g, nil, got, eff, depth+1) {
				return false
			}
		}
		return true
	}
	for _, u := range uses {
		if u.sort {
			continue
		}
		cov := false
		for _, s := range sorts {
			if instrDominates(s, u.in) {
				cov = true
			}
		}
		if !cov {
			return false
		}
	}
	return true
}

// closureFeedsSort: the closure is only used as the comparison argument of a sort call.
func closureFeedsSort(mc *ssa.MakeClosure) bool {
	refs := mc.Referrers()
	if refs == nil || len(*refs) == 0 {
		return false
	}
	for _, r := range *refs {
		ci, ok := r.(ssa.CallInstruction)
		if !ok || !isSortCallShallow(ci.Common()) {
			return false
		}
	}
	return true
}

// mapOfSlicesSorted: M[k2] = append(M[k2], x) into a function-local map M whose every other use is a range
// in which the element slice is sorted before any other use (P1, map-of-slices variant).
func mapOfSlicesSorted(fn *ssa.Function, mu *ssa.MapUpdate) bool {
	call, ok := mu.Value.(*ssa.Call)
	if !ok {
		return false
	}
	if b, ok := call.Call.Value.(*ssa.Builtin); !ok || b.Name() != "append" {
		return false
	}
	lk, ok := call.Call.Args[0].(*ssa.Lookup)
	if !ok || lk.X != mu.Map || !(lk.Index == mu.Key || sameValue(lk.Index, mu.Key)) {
		return false
	}
	mm, ok := mu.Map.(*ssa.MakeMap)
	if !ok {
		return false
	}
	okAll := true
	nRange := 0
	for _, r := range *mm.Referrers() {
		switch x := r.(type) {
		case *ssa.MapUpdate, *ssa.Lookup, *ssa.DebugRef:
		case *ssa.Range:
			nRange++
			// the value extracted in that loop must be sorted first
			for _, r2 := range *x.Referrers() {
				nx, ok := r2.(*ssa.Next)
				if !ok {
					continue
				}
				for _, r3 := range *nx.Referrers() {
					ex, ok := r3.(*ssa.Extract)
					if !ok || ex.Index != 2 {
						continue
					}
					var sortIn ssa.Instruction
					for _, u := range *ex.Referrers() {
						if ci, ok := u.(ssa.CallInstruction); ok && isSortCallShallow(ci.Common()) && ci.Common().Args[0] == ex {
							sortIn = u
						}
					}
					if sortIn == nil {
						okAll = false
						continue
					}
					for _, u := range *ex.Referrers() {
						if u == sortIn {
							continue
						}
						if _, isDbg := u.(*ssa.DebugRef); isDbg {
							continue
						}
						if !instrDominates(sortIn, u) {
							okAll = false
						}
					}
				}
			}
		default:
			okAll = false
		}
	}
	return okAll && nRange > 0
}

func hasEarlyExit(lp *loopInfo) bool {
	for b := range lp.Blocks {
		if b == lp.Header {
			continue
		}
		for _, s := range b.Succs {
			if !lp.Blocks[s] {
				return true
			}
		}
		if _, ok := b.Instrs[len(b.Instrs)-1].(*ssa.Return); ok {
			return true
		}
	}
	return false
}

func stripIface(v ssa.Value) ssa.Value {
	for {
		if mi, ok := v.(*ssa.MakeInterface); ok {
			v = mi.X
			continue
		}
		return v
	}
}

func isParamOrSpillV(v ssa.Value, param ssa.Value) bool {
	if p, ok := param.(*ssa.Parameter); ok {
		return isParamOrSpill(v, p)
	}
	return false
}

// loadsOnlyIn: every read of the slot happens inside the loop.
func loadsOnlyIn(al *ssa.Alloc, lp *loopInfo) bool {
	for _, r := range *al.Referrers() {
		switch r.(type) {
		case *ssa.Store, *ssa.DebugRef:
			continue
		}
		if !lp.Blocks[r.Block()] {
			return false
		}
	}
	return true
}

// sorterHolds: v is (a pointer to) a freshly built struct one of whose fields was assigned the parameter prm, and the
// struct's Swap method stores into elements of that field: sorting the object sorts the parameter's elements in place.
func sorterHolds(v ssa.Value, prm *ssa.Parameter) bool {
	// the sorter object, by pointer or (a composite literal) by value
	if ld, isLoad := v.(*ssa.UnOp); isLoad && ld.Op == token.MUL {
		v = ld.X
	}
	al, ok := v.(*ssa.Alloc)
	if !ok {
		return false
	}
	var held *types.Var
	for _, r := range *al.Referrers() {
		fa, ok := r.(*ssa.FieldAddr)
		if !ok {
			continue
		}
		for _, r2 := range *fa.Referrers() {
			if st, ok := r2.(*ssa.Store); ok && st.Addr == ssa.Value(fa) && isParamOrSpill(st.Val, prm) {
				held, _ = fieldOfAddr(fa)
			}
		}
	}
	if held == nil {
		return false
	}
	// the Swap method of the struct's type
	pt, ok := al.Type().(*types.Pointer)
	if !ok {
		return false
	}
	prog := al.Parent().Prog
	ms := prog.MethodSets.MethodSet(types.NewPointer(pt.Elem()))
	for i := 0; i < ms.Len(); i++ {
		if ms.At(i).Obj().Name() != "Swap" {
			continue
		}
		f, ok := ms.At(i).Obj().(*types.Func)
		if !ok {
			continue
		}
		sw := prog.FuncValue(f)
		if sw == nil || sw.Blocks == nil {
			continue
		}
		swaps := false
		eachInstr(sw, func(_ *ssa.BasicBlock, in ssa.Instruction) {
			if st, ok := in.(*ssa.Store); ok {
				if ia, ok := st.Addr.(*ssa.IndexAddr); ok {
					if fld, _ := loadOfField(ia.X); fld == held {
						swaps = true
					}
					// value receiver: the field is read from the receiver value
					if fv, ok := ia.X.(*ssa.Field); ok {
						if fld, _ := fieldOfVal(fv); fld == held {
							swaps = true
						}
					}
				}
			}
		})
		return swaps
	}
	return false
}
