// c18.go: C18 — comparison series depend only on the result set; bootstrap summaries are sane.
package main

import (
	"fmt"
	"go/constant"
	"go/token"
	"go/types"
	"os"
	"path/filepath"
	"regexp/syntax"
	"sort"
	"strings"

	"golang.org/x/tools/go/ssa"
)

func init() { register("C18", checkC18) }

const bseriesPkg = modPath + "/benchseries"

func checkC18(c *Ctx) {
	c.Rule("C18/R1", "map order: every range over a map in benchseries.go / csv.go / cmd/benchseries is order-independent by the E5 classification (per-key effects, set insertion, collect-then-sort, constant early exit)")
	c.Rule("C18/R2", "sorted before order statistics: every slice handed to the median/percentile helpers is sorted on all paths (directly or by a callee that sorts that parameter on every exit); the sort of a cell's values before exposure is not skipped on the strength of a flag that mutations fail to clear")
	c.Rule("C18/R3", "seeded randomness only: the only random source in the summary computation is rand.New(rand.NewSource(seed)) with the seed computed from the two cells' hash(); no package-level math/rand function and no clock")
	c.Rule("C18/R4", "date normalisation: the compact form's slice bounds partition exactly the bytes its regular expression admits; every successful return is t.UTC().Format(layout) with a layout that has a numeric zone offset and no 'Z'")
	c.Rule("C18/R5", "duplicate policy table (DESIGN Appendix A6): REPLACE installs the new trial iff none exists or the existing date is strictly older, taking numerator, denominator and date from the new trial; COMBINE concatenates both samples and keeps the later date")
	c.Rule("C18/R6", "combined samples are fresh slices: the helper that concatenates two samples never appends into the backing array of one of its arguments")

	c.Rule("C18/R8", "collected keys are sorted by a total order on the keys themselves: every slice of map keys gathered in a map range is sorted by a standard value sort, or by a comparator whose every comparison is between the elements' own components or their String/StringValues renderings (nothing lossy such as a normalised date, nothing stateful such as a projection's observation order) and which, for struct keys, compares every field")
	c.Rule("C18/R9", "a summary is a function of its point's samples: every table in benchseries that remembers computed results is keyed by every input of the remembered computation, verbatim (a product of hashes is not the pair of samples)")
	c.Rule("C18/R15", "a remembered trial is the right trial: every one-slot cache in benchseries is reused only when every input of the cached computation takes part in the hit test")
	c.Rule("C18/R14", "a sort comparison compares element i with element j: no comparison in a func(i, j int) bool closure of benchseries has both operands computed from the same index")
	c.Rule("C18/R13", "no order statistic reads past its sample: where benchseries tests a position against a length, every later read at that base stays within what was tested (same matcher as C07/R14)")
	c.Rule("C18/R12", "per-table collections are per table: no local map made before a loop is filled inside the loop and consumed whole (ranged, measured, handed on) inside the same loop")
	c.Rule("C18/R11", "Builder.Add files each fact under its own role: it ranges over the very slice ProjectValues returned, indexes result.Values with that loop's counter, nothing writes through the slice of unit keys; and a trial's baseline hash is stored only where the result's compare value equals the builder's denominator value")
	c.Rule("C18/R10", "a point's place on the series axis is that of its own numerator hash: in the loop over a trial's numerator hashes the series stamp that is normalised is looked up under that hash (not taken once per trial or per builder)")
	c.Rule("C18/R7", "no 0/0 in the bootstrap: every division by a resampled median in benchseries is reached only after that median was tested non-zero (dividing first and repairing infinities leaves NaN for 0/0, which then sorts anywhere and breaks low <= centre <= high)")
	p := mustLoad(c, loadOpts{}, "./benchseries", "./cmd/benchseries", "./benchproc", "./benchfmt", "./benchmath", "./benchunit", "./benchproc/internal/parse")
	fns := p.Funcs("benchseries", "cmd/benchseries", "benchproc", "benchfmt", "benchmath", "benchunit", "benchproc/internal/parse")
	eff := newEffects(p, fns)
	inScope := func(fn *ssa.Function) bool {
		pos := p.Fset.Position(fn.Pos()).Filename
		f := filepath.Base(pos)
		dir := filepath.Base(filepath.Dir(pos))
		return dir == "benchseries" && (f == "benchseries.go" || f == "csv.go" || f == "main.go")
	}
	// R1
	n := 0
	for _, fn := range fns {
		if !inScope(fn) {
			continue
		}
		for _, mr := range classifyMapRanges(p, eff, fn) {
			n++
			if len(mr.Reasons) == 0 {
				c.OK("C18/R1", mr.Key, p.pos(mr.Pos), "order-independent: "+strings.Join(mr.Pattern, ", "))
			} else {
				c.Bad("C18/R1", mr.Key, p.pos(mr.Pos), "the result depends on map iteration order: "+mr.Reasons[0], mr.Reasons...)
			}
		}
	}
	c.Floor("C18/R1", "map ranges in scope", n, 8)
	c18TotalOrder(c, p, fns, inScope)
	c18SeriesPerHash(c, p)
	// R9: summaries are functions of the point's own samples: any table that remembers results in benchseries is keyed by
	// every input of what it remembers (the rule of C13/R4; its matcher is exercised there on the median cache)
	nm := checkMemoSites(c, p, "C18/R9", findMemoSites(p.Funcs("benchseries")), nil)
	c.OK("C18/R9", "memo:sites", "", fmt.Sprintf("%d stores into remembering tables in benchseries", nm))
	c18Sorted(c, p, fns, inScope)
	c18Random(c, p, fns, inScope)
	c18Dates(c, p)
	c18Fresh(c, p)
	c18Policy(c, p)
	c18ZeroDen(c, p)
	c18Aligned(c, p)
	c18PerTable(c, p)
	c18Bounds(c, p)
	c18LessComparesTwo(c, p, "C18/R14", "benchseries", "cmd/benchseries")
	slotMemoRule(c, p, "C18/R15", true, "benchseries")
}

// sortsParam: callee sorts parameter k on every return, with no element store afterwards.
func sortsParam(fn *ssa.Function, k int) bool {
	if fn == nil || fn.Blocks == nil || k >= len(fn.Params) {
		return false
	}
	var sorts []ssa.Instruction
	eachInstr(fn, func(_ *ssa.BasicBlock, in ssa.Instruction) {
		if cc, ok := ascendingSortCall(in); ok && cc.Args[0] == fn.Params[k] {
			sorts = append(sorts, in)
		}
	})
	if len(sorts) == 0 {
		return false
	}
	for _, b := range fn.Blocks {
		if _, ok := b.Instrs[len(b.Instrs)-1].(*ssa.Return); ok {
			cov := false
			for _, s := range sorts {
				if s.Block().Dominates(b) && !storeToElemsAfter(fn, s, fn.Params[k]) {
					cov = true
				}
			}
			if !cov {
				return false
			}
		}
	}
	return true
}

// storeToElemsAfter: an element store into slice v is reachable after instruction s.
func storeToElemsAfter(fn *ssa.Function, s ssa.Instruction, v ssa.Value) bool {
	found := false
	after := reachFrom(s.Block(), nil)
	eachInstr(fn, func(b *ssa.BasicBlock, in ssa.Instruction) {
		st, ok := in.(*ssa.Store)
		if !ok {
			return
		}
		ia, ok := st.Addr.(*ssa.IndexAddr)
		if !ok || !(ia.X == v || sameValue(ia.X, v)) {
			return
		}
		if b == s.Block() {
			if instrIndex(in) > instrIndex(s) {
				found = true
			}
			// a loop through s's block
			for _, succ := range b.Succs {
				if reachFrom(succ, nil)[b] {
					found = true
				}
			}
			return
		}
		if after[b] {
			found = true
		}
	})
	return found
}

func c18Sorted(c *Ctx, p *Prog, fns []*ssa.Function, inScope func(*ssa.Function) bool) {
	const R = "C18/R2"
	// order-statistic helpers: functions of ([]float64 ...) float64 that index their slice by a computed index and do not sort it
	isHelper := func(fn *ssa.Function) bool {
		if fn == nil || fn.Signature.Recv() != nil || fn.Signature.Params().Len() == 0 || fn.Signature.Results().Len() != 1 {
			return false
		}
		st, ok := fn.Signature.Params().At(0).Type().Underlying().(*types.Slice)
		if !ok || !isFloat(st.Elem()) || !isFloat(fn.Signature.Results().At(0).Type()) {
			return false
		}
		name := strings.ToLower(fn.Name())
		return name == "median" || name == "percentile"
	}
	n := 0
	for _, fn := range fns {
		if !inScope(fn) {
			continue
		}
		i := 0
		eachInstr(fn, func(_ *ssa.BasicBlock, in ssa.Instruction) {
			call, ok := in.(*ssa.Call)
			if !ok || !isHelper(call.Call.StaticCallee()) {
				return
			}
			n++
			i++
			arg := call.Call.Args[0]
			k := fmt.Sprintf("%s:%s#%d", fnName(fn), call.Call.StaticCallee().Name(), i)
			ok2 := false
			eachInstr(fn, func(_ *ssa.BasicBlock, in2 ssa.Instruction) {
				c2, isCall := in2.(*ssa.Call)
				if !isCall || !instrDominates(in2, in) {
					return
				}
				sorted := false
				if cc, ok := ascendingSortCall(in2); ok && (cc.Args[0] == arg || sameValue(cc.Args[0], arg)) {
					sorted = true
				}
				if sc := c2.Call.StaticCallee(); sc != nil {
					for ai, a := range c2.Call.Args {
						if (a == arg || sameValue(a, arg)) && sortsParam(sc, ai) {
							sorted = true
						}
					}
				}
				if sorted && !storeBetween(fn, in2, in, arg) {
					ok2 = true
				}
			})
			c.Check(ok2, R, k, p.pos(call.Pos()), "argument sorted on every path to this call", "an order statistic is taken from a slice that is not sorted on every path to this call")
		})
	}
	c.Floor(R, "order-statistic call sites", n, 4)

	// exposure: the sorts of Cell.Values in the series builder are not guarded by mutable per-cell flags
	valuesF := p.Field("benchseries", "Cell", "Values")
	ns := 0
	for _, fn := range fns {
		if !inScope(fn) {
			continue
		}
		eachInstr(fn, func(b *ssa.BasicBlock, in ssa.Instruction) {
			cc, ok := ascendingSortCall(in)
			if !ok {
				return
			}
			f, _ := loadOfField(cc.Args[0])
			if f != valuesF {
				return
			}
			ns++
			k := fmt.Sprintf("%s:sort Cell.Values#%d", fnName(fn), ns)
			var flagGuards []*types.Var
			for _, ft := range factsAt(b) {
				if gf, _ := loadOfField(ft.Cond); gf != nil && isBoolT(gf.Type()) && fieldOwnerName(gf) == "Cell" {
					flagGuards = append(flagGuards, gf)
				}
			}
			if len(flagGuards) == 0 {
				c.OK(R, k, p.pos(in.Pos()), "cell values sorted unconditionally before exposure")
				return
			}
			// every function appending to Cell.Values must clear the flag
			for _, g := range flagGuards {
				bad := ""
				for _, f2 := range fns {
					for _, st := range storesToField(f2, valuesF) {
						if call, ok := st.Val.(*ssa.Call); ok {
							if bi, ok := call.Call.Value.(*ssa.Builtin); ok && bi.Name() == "append" {
								cleared := false
								for _, s2 := range storesToField(f2, g) {
									if cst, ok := s2.Val.(*ssa.Const); ok && cst.Value != nil && !constant.BoolVal(cst.Value) && s2.Block() == st.Block() {
										cleared = true
									}
								}
								if !cleared {
									bad = fnName(f2)
								}
							}
						}
					}
				}
				c.Check(bad == "", R, k, p.pos(in.Pos()), "flag-guarded sort; every append clears the flag",
					"the sort of a cell's values is skipped when "+g.Name()+" is set, but "+bad+" appends to Values without clearing it: a later build returns unsorted samples, so medians and bootstrap seeds differ from a fresh build")
			}
		})
	}
	c.Floor(R, "sorts of Cell.Values before exposure", ns, 2)
	// what is exposed is what is sorted: the samples of a comparison are reached through Comparison.Numerator and
	// Comparison.Denominator, and the duplicate policy may have replaced those cells by freshly concatenated ones — so
	// the sort has to go through these two fields too (sorting the builder's own cells beforehand leaves a combined
	// sample unsorted)
	for _, side := range []string{"Numerator", "Denominator"} {
		sideF := p.Field("benchseries", "Comparison", side)
		found := false
		for _, fn := range fns {
			if !inScope(fn) {
				continue
			}
			eachInstr(fn, func(_ *ssa.BasicBlock, in ssa.Instruction) {
				cc, ok := ascendingSortCall(in)
				if !ok {
					return
				}
				f, base := loadOfField(cc.Args[0])
				if f != valuesF || base == nil {
					return
				}
				if f2, _ := loadOfField(base); f2 == sideF && sideF != nil {
					found = true
				}
			})
		}
		c.Check(found, R, "exposed:"+side+" sorted", "", "the "+strings.ToLower(side)+"'s values are sorted through the comparison that exposes them",
			"no sort reaches the samples through Comparison."+side+": the cells a series exposes are the ones the duplicate policy installed — under the combine policy freshly concatenated slices — so sorting the builder's cells up front leaves them unsorted, and low/centre/high then depend on how the same measurements were split over experiments")
	}
}

func fieldOwnerName(f *types.Var) string {
	if o := fieldOwner(f); o != nil {
		return o.Name()
	}
	return ""
}

// storeBetween: an element store into v can occur after a and before b.
func storeBetween(fn *ssa.Function, a, b ssa.Instruction, v ssa.Value) bool {
	found := false
	eachInstr(fn, func(blk *ssa.BasicBlock, in ssa.Instruction) {
		st, ok := in.(*ssa.Store)
		if !ok {
			return
		}
		ia, ok := st.Addr.(*ssa.IndexAddr)
		if !ok || !(ia.X == v || sameValue(ia.X, v)) {
			return
		}
		// position: after a and before b on some path
		afterA := (blk == a.Block() && instrIndex(in) > instrIndex(a)) || (blk != a.Block() && reachFrom(a.Block(), map[*ssa.BasicBlock]bool{b.Block(): true})[blk] && blk != a.Block())
		beforeB := (blk == b.Block() && instrIndex(in) < instrIndex(b)) || (blk != b.Block() && reachFrom(blk, nil)[b.Block()])
		if blk == a.Block() && blk == b.Block() {
			afterA = instrIndex(in) > instrIndex(a)
			beforeB = instrIndex(in) < instrIndex(b)
		}
		if afterA && beforeB {
			found = true
		}
	})
	return found
}

func c18Random(c *Ctx, p *Prog, fns []*ssa.Function, inScope func(*ssa.Function) bool) {
	const R = "C18/R3"
	nSrc := 0
	for _, fn := range fns {
		if !inScope(fn) || strings.HasPrefix(fnName(fn), "cmd/") {
			continue
		}
		i := 0
		eachInstr(fn, func(_ *ssa.BasicBlock, in ssa.Instruction) {
			ci, ok := in.(ssa.CallInstruction)
			if !ok {
				return
			}
			co := calleeObj(ci.Common())
			if co == nil || co.Pkg() == nil {
				return
			}
			full := co.Pkg().Path() + "." + co.Name()
			sig := co.Type().(*types.Signature)
			switch {
			case (co.Pkg().Path() == "math/rand" || co.Pkg().Path() == "math/rand/v2") && sig.Recv() == nil && co.Name() != "New" && co.Name() != "NewSource":
				i++
				c.Bad(R, fmt.Sprintf("%s:global random %s#%d", fnName(fn), co.Name(), i), p.pos(in.Pos()), "package-level "+full+" draws from the process-wide source: bootstrap summaries are not reproducible for given samples")
			case co.Pkg().Path() == "crypto/rand":
				i++
				c.Bad(R, fmt.Sprintf("%s:crypto random#%d", fnName(fn), i), p.pos(in.Pos()), "cryptographic randomness in the summary computation")
			case full == "time.Now" || full == "time.Since":
				i++
				c.Bad(R, fmt.Sprintf("%s:clock#%d", fnName(fn), i), p.pos(in.Pos()), "the clock is read in the series/summary computation")
			case full == "math/rand.NewSource":
				nSrc++
				seed := ci.Common().Args[0]
				callees := map[string]bool{}
				okSeed := true
				var walk func(v ssa.Value, d int)
				seen := map[ssa.Value]bool{}
				walk = func(v ssa.Value, d int) {
					if seen[v] || d > 10 {
						return
					}
					seen[v] = true
					switch x := v.(type) {
					case *ssa.BinOp:
						walk(x.X, d+1)
						walk(x.Y, d+1)
					case *ssa.Convert:
						walk(x.X, d+1)
					case *ssa.Call:
						cn := calleeName(&x.Call)
						callees[cn] = true
						if !(x.Call.StaticCallee() != nil && x.Call.StaticCallee().Name() == "hash" && x.Call.StaticCallee().Signature.Recv() != nil && recvName(x.Call.StaticCallee().Signature.Recv().Type()) == "Cell") {
							okSeed = false
						}
					case *ssa.Const:
					default:
						okSeed = false
					}
				}
				walk(seed, 0)
				var cs []string
				for k := range callees {
					cs = append(cs, k)
				}
				sort.Strings(cs)
				c.Check(okSeed && len(callees) > 0, R, fmt.Sprintf("%s:seed#%d", fnName(fn), nSrc), p.pos(in.Pos()), "seed is computed from "+strings.Join(cs, ", "),
					"the bootstrap's random source is not seeded purely from the two cells' hash(): summaries are not a function of the samples")
			}
		})
	}
	// a generator kept in a package-level variable is shared by every comparison (and by concurrent AddSummaries calls):
	// its stream then depends on who else is drawing from it
	for _, fn := range p.Funcs("benchseries") {
		eachInstr(fn, func(_ *ssa.BasicBlock, in ssa.Instruction) {
			st, ok := in.(*ssa.Store)
			if !ok {
				return
			}
			g, ok := st.Addr.(*ssa.Global)
			if !ok {
				return
			}
			ts := g.Type().(*types.Pointer).Elem().String()
			if strings.HasPrefix(ts, "*math/rand") || strings.HasPrefix(ts, "math/rand") {
				nSrc++
				c.Bad(R, "shared generator:"+g.Name(), p.pos(g.Pos()), "the random generator "+g.Name()+" lives in a package-level variable and is reseeded per comparison instead of being created per comparison: summaries computed concurrently (or re-entrantly) interleave their draws, so low/centre/high are no longer a function of the point's samples")
			}
		})
	}
	c.Floor(R, "seeded random sources", nSrc, 1)
	// the hash covers every value: loop over Values folding each element
	if fn := p.Method("benchseries", "Cell", "hash"); fn != nil {
		valuesF := p.Field("benchseries", "Cell", "Values")
		reads := false
		eachInstr(fn, func(_ *ssa.BasicBlock, in ssa.Instruction) {
			if fa, ok := in.(*ssa.FieldAddr); ok {
				if f, _ := fieldOfAddr(fa); f == valuesF {
					reads = true
				}
			}
		})
		c.Check(reads && len(naturalLoops(fn)) == 1, R, "Cell.hash:covers-values", p.pos(fn.Pos()), "the seed hash folds every sample value", "the seed hash does not iterate over the cell's values")
	}
}

func c18Dates(c *Ctx, p *Prog) {
	const R = "C18/R4"
	fn := p.Fn("benchseries", "NormalizeDateString")
	if fn == nil {
		c.Undecided(R, "anchor:NormalizeDateString", "", "function not found")
		return
	}
	site := p.pos(fn.Pos())
	// the regexp used as guard: a package-level var initialised by regexp.MustCompile(const) whose MatchString guards the slicing
	var pattern string
	initFn := p.SSAPkg("benchseries").Func("init")
	var guardGlobal *ssa.Global
	eachInstr(fn, func(_ *ssa.BasicBlock, in ssa.Instruction) {
		if call, ok := in.(*ssa.Call); ok && objIs(calleeObj(&call.Call), "regexp", "Regexp", "MatchString") {
			if la := loadAddr(call.Call.Args[0]); la != nil {
				if g, ok := la.(*ssa.Global); ok {
					guardGlobal = g
				}
			}
		}
	})
	if initFn != nil && guardGlobal != nil {
		eachInstr(initFn, func(_ *ssa.BasicBlock, in ssa.Instruction) {
			if st, ok := in.(*ssa.Store); ok && st.Addr == guardGlobal {
				if call, ok := st.Val.(*ssa.Call); ok && objIs(calleeObj(&call.Call), "regexp", "", "MustCompile") {
					pattern, _ = constString(call.Call.Args[0])
				}
			}
		})
	}
	// or a hand-written recogniser: a predicate of the package over the string that admits exactly one length
	handLen := -1
	if pattern == "" {
		lenEq := func(g *ssa.Function, prm ssa.Value) int {
			k := -1
			eachInstr(g, func(_ *ssa.BasicBlock, in ssa.Instruction) {
				bo, ok := in.(*ssa.BinOp)
				if !ok || (bo.Op != token.EQL && bo.Op != token.NEQ) {
					return
				}
				call, ok := bo.X.(*ssa.Call)
				if !ok {
					return
				}
				if bi, ok := call.Call.Value.(*ssa.Builtin); ok && bi.Name() == "len" && call.Call.Args[0] == prm {
					if kk, ok := constInt(bo.Y); ok {
						k = int(kk)
					}
				}
			})
			return k
		}
		eachInstr(fn, func(_ *ssa.BasicBlock, in ssa.Instruction) {
			call, ok := in.(*ssa.Call)
			if !ok {
				return
			}
			g := call.Call.StaticCallee()
			if g == nil || g.Pkg != fn.Pkg || g.Blocks == nil || len(g.Params) != 1 || !isString(g.Params[0].Type()) || g.Signature.Results().Len() != 1 || !isBoolean(g.Signature.Results().At(0).Type()) {
				return
			}
			if k := lenEq(g, g.Params[0]); k > 0 {
				handLen = k
				pattern = "the hand-written recogniser " + g.Name()
			}
		})
	}
	if pattern == "" {
		c.Undecided(R, "compact-form:pattern", site, "cannot find the regular expression guarding the compact date form")
	} else {
		fixed := -1
		if handLen > 0 {
			fixed = handLen
		} else if re, err := syntax.Parse(pattern, syntax.Perl); err == nil {
			fixed = fixedLen(re.Simplify())
		}
		// slice bounds on the parameter
		type iv struct{ lo, hi int64 }
		var ivs []iv
		eachInstr(fn, func(_ *ssa.BasicBlock, in ssa.Instruction) {
			sl, ok := in.(*ssa.Slice)
			if !ok || !isString(sl.X.Type()) {
				return
			}
			// slices of the parameter (possibly through the reassigned variable's phi)
			lo, hi := int64(0), int64(-1)
			if sl.Low != nil {
				if k, ok := constInt(sl.Low); ok {
					lo = k
				}
			}
			if sl.High != nil {
				if k, ok := constInt(sl.High); ok {
					hi = k
				}
			}
			if hi >= 0 {
				ivs = append(ivs, iv{lo, hi})
			}
		})
		sort.Slice(ivs, func(i, j int) bool { return ivs[i].lo < ivs[j].lo })
		okPart := len(ivs) > 0 && ivs[0].lo == 0
		for i := 1; i < len(ivs); i++ {
			if ivs[i].lo != ivs[i-1].hi {
				okPart = false
			}
		}
		end := int64(-1)
		if len(ivs) > 0 {
			end = ivs[len(ivs)-1].hi
		}
		c.Check(okPart && fixed >= 0 && end == int64(fixed), R, "compact-form:partition", site, fmt.Sprintf("%d slices partition exactly the %d bytes admitted by %q", len(ivs), fixed, pattern),
			fmt.Sprintf("the compact form's slices %v do not partition the %d bytes admitted by %q: digits are dropped, duplicated or shifted", ivs, fixed, pattern))
	}
	// returns
	nOK := 0
	for _, b := range fn.Blocks {
		ret, ok := b.Instrs[len(b.Instrs)-1].(*ssa.Return)
		if !ok {
			continue
		}
		errv := retVal(ret, 1)
		if cst, isC := errv.(*ssa.Const); !isC || !cst.IsNil() {
			continue // error return
		}
		nOK++
		v := retVal(ret, 0)
		k := fmt.Sprintf("NormalizeDateString:success-return#%d", nOK)
		call, isCall := v.(*ssa.Call)
		if !isCall || !objIs(calleeObj(&call.Call), "time", "Time", "Format") {
			c.Bad(R, k, p.pos(ret.Pos()), "a successful return does not pass through t.UTC().Format(layout): inputs already in some accepted spelling are returned unchanged, so equal instants give different strings and do not sort chronologically")
			continue
		}
		utc, isUTC := call.Call.Args[0].(*ssa.Call)
		okUTC := isUTC && objIs(calleeObj(&utc.Call), "time", "Time", "UTC")
		layout, _ := constString(call.Call.Args[1])
		okLayout := layout != "" && !strings.Contains(layout, "Z") && strings.Contains(layout, "-07:00") && strings.HasPrefix(layout, "2006-01-02T15:04:05")
		c.Check(okUTC && okLayout, R, k, p.pos(ret.Pos()), "returns t.UTC().Format("+layout+")",
			fmt.Sprintf("normalised dates are not UTC with a numeric offset (UTC applied: %v, layout %q)", okUTC, layout))
	}
	c.Floor(R, "successful returns of NormalizeDateString", nOK, 1)
}

// fixedLen: the exact length of strings matched by re, or -1.
func fixedLen(re *syntax.Regexp) int {
	switch re.Op {
	case syntax.OpLiteral:
		return len(string(re.Rune))
	case syntax.OpCharClass, syntax.OpAnyCharNotNL, syntax.OpAnyChar:
		return 1
	case syntax.OpBeginLine, syntax.OpEndLine, syntax.OpBeginText, syntax.OpEndText, syntax.OpEmptyMatch:
		return 0
	case syntax.OpCapture:
		return fixedLen(re.Sub[0])
	case syntax.OpConcat:
		n := 0
		for _, s := range re.Sub {
			k := fixedLen(s)
			if k < 0 {
				return -1
			}
			n += k
		}
		return n
	case syntax.OpRepeat:
		if re.Min == re.Max {
			k := fixedLen(re.Sub[0])
			if k < 0 {
				return -1
			}
			return k * re.Min
		}
	}
	return -1
}

func c18Fresh(c *Ctx, p *Prog) {
	const R = "C18/R6"
	valuesF := p.Field("benchseries", "Cell", "Values")
	n := 0
	checked := map[*ssa.Function]bool{}
	for _, fn := range p.Funcs("benchseries") {
		for _, st := range storesToField(fn, valuesF) {
			call, ok := st.Val.(*ssa.Call)
			if !ok {
				continue
			}
			sc := call.Call.StaticCallee()
			if sc == nil || sc.Pkg == nil || sc.Pkg.Pkg.Path() != bseriesPkg || checked[sc] {
				continue
			}
			checked[sc] = true
			n++
			fresh := true
			for _, b := range sc.Blocks {
				if ret, ok := b.Instrs[len(b.Instrs)-1].(*ssa.Return); ok {
					for _, r := range rootsOf(ret.Results[0]) {
						if r.Kind != rkLocal && r.Kind != rkConst {
							fresh = false
						}
					}
				}
			}
			c.Check(fresh, R, fnName(sc)+":fresh-result", p.pos(sc.Pos()), "returns a freshly allocated slice",
				"the combined sample can share (and overwrite) the backing array of one of its arguments: with spare capacity another point's samples are clobbered")
		}
	}
	c.Floor(R, "sample-combining helpers", n, 1)
}

func c18Policy(c *Ctx, p *Prog) {
	const R = "C18/R5"
	fn := p.Method("benchseries", "Builder", "AllComparisonSeries")
	if fn == nil {
		c.Undecided(R, "anchor:AllComparisonSeries", "", "method not found")
		return
	}
	site := p.pos(fn.Pos())
	cellsF := p.Field("benchseries", "ComparisonSeries", "cells")
	dateF := p.Field("benchseries", "Comparison", "Date")
	numF := p.Field("benchseries", "Comparison", "Numerator")
	denF := p.Field("benchseries", "Comparison", "Denominator")
	// the innermost loop that updates cs.cells
	var target *loopInfo
	for _, lp := range naturalLoops(fn) {
		has := false
		for b := range lp.Blocks {
			for _, in := range b.Instrs {
				if mu, ok := in.(*ssa.MapUpdate); ok {
					if f, _ := loadOfField(mu.Map); f == cellsF {
						has = true
					}
				}
			}
		}
		hasDate := false
		for b := range lp.Blocks {
			for _, in := range b.Instrs {
				if bo, ok := in.(*ssa.BinOp); ok && bo.Op == token.LSS {
					if f, _ := loadOfField(bo.X); f == dateF {
						hasDate = true
					}
				}
			}
		}
		if has && hasDate && (target == nil || len(lp.Blocks) < len(target.Blocks)) {
			// must also contain a comparison of dates
			target = lp
		}
	}
	if target == nil {
		c.Undecided(R, "policy:loop", site, "no loop updating the series' comparison cells")
		return
	}
	start := loopBodyStart(target)
	mk := func() *e6Interp {
		return &e6Interp{PureCall: func(f *types.Func) bool {
			n := f.Name()
			return n == "StringValues" || n == "NormalizeDateString" || n == "concat" || n == "union"
		},
			// the combination may live in a loop-free method of the comparison: evaluated in place
			Inline: func(f *ssa.Function) bool {
				return f.Pkg == fn.Pkg && f.Signature.Recv() != nil && recvName(f.Signature.Recv().Type()) == "Comparison" && len(naturalLoops(f)) == 0 && len(f.Blocks) <= 8
			}}
	}
	outs, why := e6Enumerate(mk, start, target.Header, iterStop(target, start), 4096)
	if why != "" {
		c.Undecided(R, "policy:table", site, why)
		return
	}
	n := 0
	if os.Getenv("PERFCHECK_DEBUG") != "" {
		for _, o := range outs {
			fmt.Fprintf(os.Stderr, "OUTCOME term=%s: %s\n   actions=%d\n", o.Term, o.AssignStr(), len(o.Actions))
		}
	}
	for _, o := range outs {
		var haveNone, replace, older *bool
		for _, k := range o.AtomKeys() {
			v := o.Assign[k]
			_ = v
			s := o.AtomSyms[k]
			vv := v
			str := s.String()
			switch {
			case s.Op == "binop" && s.Tok == token.EQL && s.Args[1].isConst() && s.Args[1].IsNil && s.Args[0].Op == "lookup" && s.Args[0].Args[0].MentionsField(cellsF):
				haveNone = &vv
			case s.Op == "binop" && s.Tok == token.EQL && strings.Contains(str, "dupeHow"):
				replace = &vv // dupeHow == DUPE_REPLACE(0)
			case s.Op == "binop" && s.Tok == token.LSS && s.Args[0].IsFieldLoad(dateF):
				older = &vv
			}
		}
		if haveNone == nil {
			continue // error exits before the policy
		}
		var upd *e6Action
		var numStore, denStore, dateStore *e6Action
		for i := range o.Actions {
			a := &o.Actions[i]
			switch a.Kind {
			case "mapupdate":
				if a.Args[0].MentionsField(cellsF) {
					upd = a
				}
			case "store":
				if a.Args[0].Op == "fieldaddr" && a.Args[0].Args[0].Op == "lookup" {
					switch a.Args[0].Obj {
					case numF:
						numStore = a
					case denF:
						denStore = a
					case dateF:
						dateStore = a
					}
				}
			}
		}
		n++
		key := fmt.Sprintf("policy[existing=%v replace=%s existingOlder=%s]", !*haveNone, boolPtrStr(replace), boolPtrStr(older))
		var errs []string
		install := *haveNone || (replace != nil && *replace && older != nil && *older)
		keep := !*haveNone && replace != nil && *replace && older != nil && !*older
		combine := !*haveNone && replace != nil && !*replace
		if !*haveNone && replace != nil && *replace && older == nil {
			errs = append(errs, "under the replace policy an existing trial is not tested for being strictly older than the new one (latest experiment must win)")
		}
		switch {
		case install:
			if upd == nil {
				errs = append(errs, "a new (or newer) trial is not installed")
			} else {
				v := upd.Args[2]
				// v is the address of a fresh Comparison; its fields are in memory
				num := o.Mem[(&Sym{Op: "fieldaddr", Args: []*Sym{v}, Name: "Numerator"}).String()]
				den := o.Mem[(&Sym{Op: "fieldaddr", Args: []*Sym{v}, Name: "Denominator"}).String()]
				dat := o.Mem[(&Sym{Op: "fieldaddr", Args: []*Sym{v}, Name: "Date"}).String()]
				if num == nil || den == nil || dat == nil {
					errs = append(errs, "the installed comparison lacks numerator, denominator or date")
				} else {
					if !strings.Contains(num.String(), "next") && !strings.Contains(num.String(), "tests") {
						errs = append(errs, "the numerator is not the visited test cell")
					}
					if !strings.Contains(den.String(), "baseline") {
						errs = append(errs, "the denominator is not the trial's baseline")
					}
					if strings.Contains(num.String(), "baseline") {
						errs = append(errs, "numerator and denominator are exchanged")
					}
					if !strings.Contains(dat.String(), "NormalizeDateString") {
						errs = append(errs, "the date is not the trial's normalised experiment date")
					}
				}
			}
		case keep:
			if upd != nil || numStore != nil || denStore != nil {
				errs = append(errs, "an existing trial that is not older is replaced or modified under the replace policy")
			}
		case combine:
			if numStore == nil || denStore == nil {
				errs = append(errs, "the combine policy does not extend both samples")
			} else {
				ns, ds := numStore.Args[1].String(), denStore.Args[1].String()
				_ = ns
				_ = ds
				if !(strings.Contains(o.memStr(numStore.Args[1], "Values"), "concat") && strings.Contains(o.memStr(denStore.Args[1], "Values"), "concat")) {
					errs = append(errs, "combined samples are not the concatenation of the existing and the new values")
				}
				if strings.Contains(o.memStr(numStore.Args[1], "Values"), "baseline") || !strings.Contains(o.memStr(denStore.Args[1], "Values"), "baseline") {
					errs = append(errs, "numerator and denominator samples are mixed up when combining")
				}
			}
			if older == nil {
				// no comparison of the dates: the date must be set to the later of the two outright
				okMax := false
				if dateStore != nil {
					v := dateStore.Args[1]
					if v.Op == "call" && strings.Split(v.Name, "@")[0] == "max" && len(v.Args) == 2 {
						a, b := v.Args[0], v.Args[1]
						isOld := func(s *Sym) bool { return s.IsFieldLoad(dateF) }
						isNew := func(s *Sym) bool { return strings.Contains(s.String(), "NormalizeDateString") }
						okMax = (isOld(a) && isNew(b)) || (isOld(b) && isNew(a))
					}
				}
				if !okMax {
					errs = append(errs, "combining does not keep the later of the two experiment dates")
				}
			}
			if older != nil {
				if *older && dateStore == nil {
					errs = append(errs, "combining with a later experiment does not advance the date")
				}
				if !*older && dateStore != nil {
					errs = append(errs, "combining with an earlier experiment moves the date backwards")
				}
			}
		}
		if len(errs) > 0 {
			c.Bad(R, key, site, strings.Join(errs, "; "), "valuation: "+o.AssignStr())
		} else {
			c.OK(R, key, site, "conforms")
		}
	}
	c.Floor(R, "duplicate-policy cases", n, 4)
}

// memStr renders field fld of the object at address sym from the outcome's memory.
func (o *e6Outcome) memStr(addr *Sym, fld string) string {
	if v, ok := o.Mem[(&Sym{Op: "fieldaddr", Args: []*Sym{addr}, Name: fld}).String()]; ok {
		return v.String()
	}
	return ""
}

func c18ZeroDen(c *Ctx, p *Prog) {
	const R = "C18/R7"
	n := 0
	for _, fn := range p.Funcs("benchseries") {
		eachInstr(fn, func(b *ssa.BasicBlock, in ssa.Instruction) {
			bo, ok := in.(*ssa.BinOp)
			if !ok || bo.Op != token.QUO || !isFloat(bo.Type()) {
				return
			}
			call, ok := bo.Y.(*ssa.Call)
			if !ok {
				return
			}
			sc := call.Call.StaticCallee()
			if sc == nil || sc.Pkg == nil || sc.Pkg.Pkg.Path() != modPath+"/benchseries" {
				return
			}
			n++
			guarded := false
			for _, f := range factsAt(b) {
				cmp, ok := f.Cond.(*ssa.BinOp)
				if !ok {
					continue
				}
				zero := func(v ssa.Value) bool {
					k, ok := v.(*ssa.Const)
					return ok && k.Value != nil && constant.Sign(k.Value) == 0
				}
				if (cmp.X == bo.Y && zero(cmp.Y)) || (cmp.Y == bo.Y && zero(cmp.X)) {
					if (cmp.Op == token.EQL && !f.True) || (cmp.Op == token.NEQ && f.True) {
						guarded = true
					}
				}
			}
			c.Check(guarded, R, fmt.Sprintf("%s:division#%d", fnName(fn), n), p.pos(bo.Pos()), "the divisor was tested non-zero on the way to the division",
				"a resampled statistic is divided by "+calleeName(&call.Call)+"'s result without that result having been tested non-zero: when both sides are 0 (allocs/op) the quotient is NaN, which an IsInf repair does not catch, so summaries contain NaN and low <= centre <= high fails")
		})
	}
	c.Floor(R, "divisions by resampled statistics in benchseries", n, 1)
}

// c18TotalOrder (C18/R8). Collect-then-sort makes a map range order-independent only if the sort leaves no ties between
// distinct keys and its order is a function of the keys' values.
func c18TotalOrder(c *Ctx, p *Prog, fns []*ssa.Function, inScope func(*ssa.Function) bool) {
	const R = "C18/R8"
	n := 0
	// every ordering call that receives the collected keys cv (outside the collecting loop, if any) is a total order
	checkSorts := func(fn *ssa.Function, cv ssa.Value, keyT types.Type, lp *loopInfo) {
		isCollected := func(v ssa.Value) bool {
			v = stripIface(v)
			if v == cv {
				return true
			}
			if ld, ok := v.(*ssa.UnOp); ok && ld.Op == token.MUL && ld.X == cv {
				return true
			}
			if ph, ok := v.(*ssa.Phi); ok {
				for _, e := range ph.Edges {
					if e == cv {
						return true
					}
				}
			}
			return false
		}
		eachInstr(fn, func(b *ssa.BasicBlock, in2 ssa.Instruction) {
			call, ok := in2.(ssa.CallInstruction)
			if !ok || (lp != nil && lp.Blocks[b]) || len(call.Common().Args) == 0 || !isCollected(call.Common().Args[0]) {
				return
			}
			if bi, ok := call.Common().Value.(*ssa.Builtin); ok && (bi.Name() == "len" || bi.Name() == "append" || bi.Name() == "cap") {
				return
			}
			n++
			key := fmt.Sprintf("%s:sort-of-collected-keys#%d", fnName(fn), n)
			ok2, why := c18SortIsTotal(p, call.Common(), keyT, 0)
			c.Check(ok2, R, key, p.pos(in2.Pos()), "value sort / comparator over the keys' own components", why)
		})
	}
	for _, fn := range fns {
		if !inScope(fn) {
			continue
		}
		for _, lp := range naturalLoops(fn) {
			var rg *ssa.Range
			for _, in := range lp.Header.Instrs {
				if nx, ok := in.(*ssa.Next); ok && !nx.IsString {
					if r, ok := nx.Iter.(*ssa.Range); ok {
						if _, isMap := r.X.Type().Underlying().(*types.Map); isMap {
							rg = r
						}
					}
				}
			}
			if rg == nil {
				continue
			}
			keyT := rg.X.Type().Underlying().(*types.Map).Key()
			// slices collected in the loop: header phis of slice type, or local slots (captured by the comparator) stored in it
			var collected []ssa.Value
			for _, in := range lp.Header.Instrs {
				if phi, ok := in.(*ssa.Phi); ok {
					if sl, ok := phi.Type().Underlying().(*types.Slice); ok && types.Identical(sl.Elem(), keyT) {
						collected = append(collected, phi)
					}
				}
			}
			for b := range lp.Blocks {
				for _, in := range b.Instrs {
					if st, ok := in.(*ssa.Store); ok {
						if al, ok := st.Addr.(*ssa.Alloc); ok {
							if sl, ok := al.Type().(*types.Pointer).Elem().Underlying().(*types.Slice); ok && types.Identical(sl.Elem(), keyT) {
								dup := false
								for _, cv := range collected {
									dup = dup || cv == ssa.Value(al)
								}
								if !dup {
									collected = append(collected, al)
								}
							}
						}
					}
				}
			}
			for _, cv := range collected {
				cv := cv
				checkSorts(fn, cv, keyT, lp)
			}
		}
		// keys obtained from a collecting helper (a function that ranges over a map and returns the keys unsorted)
		eachInstr(fn, func(_ *ssa.BasicBlock, in ssa.Instruction) {
			call, ok := in.(*ssa.Call)
			if !ok || !isKeyCollector(call.Call.StaticCallee()) {
				return
			}
			sl, ok := call.Type().Underlying().(*types.Slice)
			if !ok {
				return
			}
			var got ssa.Value = call
			if refs := call.Referrers(); refs != nil && len(*refs) == 1 {
				if st, ok := (*refs)[0].(*ssa.Store); ok {
					if al, ok := st.Addr.(*ssa.Alloc); ok && st.Val == ssa.Value(call) {
						got = al
					}
				}
			}
			checkSorts(fn, got, sl.Elem(), nil)
		})
	}
	c.Floor(R, "sorts of collected map keys", n, 3)
}

// isKeyCollector: f (or the generic function it instantiates) ranges over a map parameter, appends, returns a slice
// of the map's key type and sorts nothing itself.
func isKeyCollector(f *ssa.Function) bool {
	if f == nil {
		return false
	}
	if f.Origin() != nil {
		f = f.Origin()
	}
	if f.Blocks == nil || f.Signature.Results().Len() != 1 {
		return false
	}
	rs, ok := f.Signature.Results().At(0).Type().Underlying().(*types.Slice)
	if !ok {
		return false
	}
	ranges, appends, sorts := false, false, false
	eachInstr(f, func(_ *ssa.BasicBlock, in ssa.Instruction) {
		switch x := in.(type) {
		case *ssa.Range:
			if mt, ok := x.X.Type().Underlying().(*types.Map); ok && types.Identical(mt.Key(), rs.Elem()) {
				if _, isParam := x.X.(*ssa.Parameter); isParam {
					ranges = true
				}
			}
		case *ssa.Call:
			if bi, ok := x.Call.Value.(*ssa.Builtin); ok && bi.Name() == "append" {
				appends = true
			}
			if isSortCallShallow(&x.Call) {
				sorts = true
			}
		}
	})
	return ranges && appends && !sorts
}

func c18SortIsTotal(p *Prog, cc *ssa.CallCommon, keyT types.Type, depth int) (bool, string) {
	co := calleeObj(cc)
	if co == nil || co.Pkg() == nil {
		return false, "the collected keys are ordered through a dynamic call"
	}
	switch co.Pkg().Path() + "." + co.Name() {
	case "sort.Strings", "sort.Float64s", "sort.Ints", "slices.Sort":
		return true, ""
	case "sort.Slice", "sort.SliceStable", "slices.SortFunc", "slices.SortStableFunc":
		if len(cc.Args) < 2 {
			return false, "sort without a comparator"
		}
		mc, ok := cc.Args[1].(*ssa.MakeClosure)
		var cmp *ssa.Function
		if ok {
			cmp = mc.Fn.(*ssa.Function)
		} else if f, ok := cc.Args[1].(*ssa.Function); ok {
			cmp = f
		}
		if cmp == nil {
			return false, "the comparator is not a function literal or named function"
		}
		return c18ComparatorTotal(cmp, keyT)
	}
	// a function of the module that sorts its first parameter: look at the sorts inside it
	sc := p.Body(cc.StaticCallee())
	if sc == nil || sc.Blocks == nil || depth > 2 {
		return false, "the collected keys are ordered by " + co.FullName() + ", whose comparator cannot be inspected"
	}
	found, okAll, why := false, true, ""
	eachInstr(sc, func(_ *ssa.BasicBlock, in ssa.Instruction) {
		call, ok := in.(ssa.CallInstruction)
		if !ok || len(call.Common().Args) == 0 {
			return
		}
		if !isParamOrSpill(stripIface(call.Common().Args[0]), sc.Params[0]) {
			return
		}
		if bi, ok := call.Common().Value.(*ssa.Builtin); ok && (bi.Name() == "len" || bi.Name() == "cap") {
			return
		}
		found = true
		if ok2, w := c18SortIsTotal(p, call.Common(), keyT, depth+1); !ok2 {
			okAll, why = false, "through "+co.FullName()+": "+w
		}
	})
	if !found {
		return false, co.FullName() + " does not sort the slice it is given with an inspectable comparator"
	}
	return okAll, why
}

// c18ComparatorTotal: every comparison in cmp is between components of the two elements (or their String/StringValues
// renderings); for a struct key type every field is compared.
func c18ComparatorTotal(cmp *ssa.Function, keyT types.Type) (bool, string) {
	// func(i, j int) bool { return lessKey(s[i], s[j]) }: the comparison is the named function's
	if len(cmp.Blocks) == 1 {
		if ret, ok := cmp.Blocks[0].Instrs[len(cmp.Blocks[0].Instrs)-1].(*ssa.Return); ok && len(ret.Results) == 1 {
			if call, ok := ret.Results[0].(*ssa.Call); ok {
				if h := call.Call.StaticCallee(); h != nil && h.Pkg == cmp.Pkg && h.Blocks != nil && len(h.Params) == 2 && len(call.Call.Args) == 2 {
					elem := func(v ssa.Value) bool {
						u, ok := v.(*ssa.UnOp)
						if !ok || u.Op != token.MUL {
							return false
						}
						ia, ok := u.X.(*ssa.IndexAddr)
						if !ok {
							return false
						}
						_, isParam := ia.Index.(*ssa.Parameter)
						return isParam
					}
					if elem(call.Call.Args[0]) && elem(call.Call.Args[1]) && call.Call.Args[0] != call.Call.Args[1] {
						cmp = h
					}
				}
			}
		}
	}
	var fieldsSeen = map[string]bool{}
	var elemDerived func(v ssa.Value, d int, top *string) bool
	elemDerived = func(v ssa.Value, d int, top *string) bool {
		if d > 10 {
			return false
		}
		switch x := v.(type) {
		case *ssa.UnOp:
			if x.Op == token.MUL {
				return elemDerived(x.X, d+1, top)
			}
		case *ssa.FieldAddr:
			if f, _ := fieldOfAddr(x); f != nil {
				*top = f.Name()
			}
			return elemDerived(x.X, d+1, top)
		case *ssa.Field:
			if f, _ := fieldOfVal(x); f != nil {
				*top = f.Name()
			}
			return elemDerived(x.X, d+1, top)
		case *ssa.IndexAddr:
			_, isParam := x.Index.(*ssa.Parameter)
			return isParam
		case *ssa.Index:
			_, isParam := x.Index.(*ssa.Parameter)
			return isParam
		case *ssa.Parameter:
			// slices.SortFunc style comparators receive the elements themselves
			return !isInteger(x.Type())
		case *ssa.Alloc:
			// an element parameter spilled so that its fields can be addressed
			sts := storesInto(x)
			if len(sts) == 1 {
				if prm, ok := sts[0].Val.(*ssa.Parameter); ok {
					return !isInteger(prm.Type())
				}
			}
		case *ssa.Call:
			f := calleeObj(&x.Call)
			if f == nil || (f.Name() != "StringValues" && f.Name() != "String") {
				return false
			}
			if x.Call.IsInvoke() {
				return elemDerived(x.Call.Value, d+1, top)
			}
			if len(x.Call.Args) == 1 {
				return elemDerived(x.Call.Args[0], d+1, top)
			}
		case *ssa.MakeInterface:
			return elemDerived(x.X, d+1, top)
		}
		return false
	}
	bad := ""
	nCmp := 0
	eachInstr(cmp, func(_ *ssa.BasicBlock, in ssa.Instruction) {
		bo, ok := in.(*ssa.BinOp)
		if !ok {
			return
		}
		switch bo.Op {
		case token.LSS, token.GTR, token.LEQ, token.GEQ, token.EQL, token.NEQ:
		default:
			return
		}
		if _, isBool := bo.X.Type().Underlying().(*types.Basic); isBool && bo.X.Type().Underlying().(*types.Basic).Info()&types.IsBoolean != 0 {
			return
		}
		nCmp++
		var tx, ty string
		if !elemDerived(bo.X, 0, &tx) || !elemDerived(bo.Y, 0, &ty) {
			bad = "a comparison in the comparator is not between components of the two keys or their String/StringValues renderings (operands " + bo.X.Name() + " = " + truncate(bo.X.String(), 80) + " and " + bo.Y.Name() + " = " + truncate(bo.Y.String(), 80) + "): two distinct keys can compare equal both ways (e.g. two spellings of one instant after date normalisation) or the order depends on state outside the keys (a projection's first-observation order), so which of them comes first, and with it which duplicate wins or which hash pair is recorded, depends on map iteration or insertion order"
			return
		}
		if tx == ty {
			fieldsSeen[tx] = true
		}
	})
	if bad != "" {
		return false, bad
	}
	if nCmp == 0 {
		return false, "the comparator compares nothing"
	}
	if st, ok := keyT.Underlying().(*types.Struct); ok && st.NumFields() > 1 && !fieldsSeen[""] {
		for i := 0; i < st.NumFields(); i++ {
			if !fieldsSeen[st.Field(i).Name()] {
				return false, "the comparator never compares the key's field " + st.Field(i).Name() + ": keys that differ only there tie, and their relative order is left to map iteration order"
			}
		}
	}
	return true, ""
}

// c18SeriesPerHash (C18/R10).
func c18SeriesPerHash(c *Ctx, p *Prog) {
	const R = "C18/R10"
	fn := p.Method("benchseries", "Builder", "AllComparisonSeries")
	if fn == nil {
		c.Undecided(R, "anchor:Builder.AllComparisonSeries", "", "not found")
		return
	}
	n := 0
	eachInstr(fn, func(b *ssa.BasicBlock, in ssa.Instruction) {
		call, ok := in.(*ssa.Call)
		if !ok || !objIs(calleeObj(&call.Call), bseriesPkg, "", "NormalizeDateString") {
			return
		}
		// only the one inside a loop over numerator hashes: a loop in which a map keyed by benchproc.Key is read with the
		// loop's own element
		var lp *loopInfo
		for _, l := range naturalLoops(fn) {
			if l.Blocks[b] && (lp == nil || len(l.Blocks) < len(lp.Blocks)) {
				lp = l
			}
		}
		if lp == nil {
			return
		}
		// the loop's element: a value loaded from the slice the loop indexes
		elems := map[ssa.Value]bool{}
		for bb := range lp.Blocks {
			for _, i2 := range bb.Instrs {
				if ld, ok := i2.(*ssa.UnOp); ok && ld.Op == token.MUL {
					if ia, ok := ld.X.(*ssa.IndexAddr); ok && recvName(ld.Type()) == "Key" {
						if _, isPhi := ia.Index.(*ssa.Phi); isPhi || true {
							elems[ld] = true
						}
					}
				}
			}
		}
		// is this loop over the tests of a trial? it must look up the tests map with the element
		overTests := false
		for bb := range lp.Blocks {
			for _, i2 := range bb.Instrs {
				if lk, ok := i2.(*ssa.Lookup); ok && elems[lk.Index] {
					if f, _ := loadOfField(lk.X); f != nil && f.Name() == "tests" && (bb == b || bb.Dominates(b)) {
						overTests = true
					}
				}
			}
		}
		if !overTests {
			return
		}
		n++
		// the stamp: NormalizeDateString(S.StringValues()) with S looked up under the element
		perHash := false
		var walk func(v ssa.Value, d int)
		walk = func(v ssa.Value, d int) {
			if d > 6 || v == nil {
				return
			}
			switch x := v.(type) {
			case *ssa.Call:
				for _, a := range x.Call.Args {
					walk(a, d+1)
				}
			case *ssa.Lookup:
				if elems[x.Index] {
					perHash = true
				}
			case *ssa.Extract:
				walk(x.Tuple, d+1)
			case *ssa.UnOp:
				if al, ok := x.X.(*ssa.Alloc); ok {
					for _, st := range storesInto(al) {
						walk(st.Val, d+1)
					}
				}
			case *ssa.Phi:
				for _, e := range x.Edges {
					walk(e, d+1)
				}
			}
		}
		walk(call.Call.Args[0], 0)
		c.Check(perHash, R, fmt.Sprintf("AllComparisonSeries:series-of-hash#%d", n), p.pos(call.Pos()), "the series stamp is looked up under the numerator hash being placed", "inside the loop over a trial's numerator hashes the series stamp does not depend on the hash: when one experiment measured several numerator hashes with different stamps they are all placed at one series point, points and hash pairs go missing and one hash's samples displace another's — which one survives depends on the order results were added")
	})
	c.Floor(R, "series stamps normalised per numerator hash", n, 1)
}

// c18Aligned (C18/R11): a sample value goes into the cell of its own unit. In Builder.Add the unit keys come from
// ProjectValues(result), one per element of result.Values, and the value appended under the i-th key is
// result.Values[i]: the loop ranges over the very slice ProjectValues returned (no reslice, no compaction — nothing
// writes through it), and indexes result.Values with that loop's own counter.
func c18Aligned(c *Ctx, p *Prog) {
	const R = "C18/R11"
	fn := p.Method("benchseries", "Builder", "Add")
	if fn == nil {
		c.Undecided(R, "anchor:Builder.Add", "", "not found")
		return
	}
	site := p.pos(fn.Pos())
	var pv *ssa.Call
	eachInstr(fn, func(_ *ssa.BasicBlock, in ssa.Instruction) {
		if call, ok := in.(*ssa.Call); ok && objIs(calleeObj(&call.Call), bprocPkg, "Projection", "ProjectValues") {
			pv = call
		}
	})
	if pv == nil {
		c.Undecided(R, "Add:unit-keys", site, "Builder.Add does not obtain the per-value unit keys from ProjectValues")
		return
	}
	valuesF := p.Field("benchfmt", "Result", "Values")
	n := 0
	eachInstr(fn, func(_ *ssa.BasicBlock, in ssa.Instruction) {
		ia, ok := in.(*ssa.IndexAddr)
		if !ok {
			return
		}
		if f, _ := loadOfField(ia.X); f != valuesF || valuesF == nil {
			return
		}
		n++
		// the index is the counter of a loop that ranges over pv itself
		okIdx := false
		var hdr *ssa.BasicBlock
		switch x := ia.Index.(type) {
		case *ssa.BinOp:
			if ph, ok := x.X.(*ssa.Phi); ok {
				hdr = ph.Block()
			}
		case *ssa.Phi:
			hdr = x.Block()
		}
		if hdr != nil {
			// the loop's bound is len(pv) and its element reads index pv
			if ifi, ok := hdr.Instrs[len(hdr.Instrs)-1].(*ssa.If); ok {
				if cmp, ok := ifi.Cond.(*ssa.BinOp); ok && cmp.Op == token.LSS && cmp.X == ia.Index {
					if lc, ok := cmp.Y.(*ssa.Call); ok {
						if bi, ok := lc.Call.Value.(*ssa.Builtin); ok && bi.Name() == "len" && lc.Call.Args[0] == ssa.Value(pv) {
							okIdx = true
						}
					}
				}
			}
		}
		c.Check(okIdx, R, fmt.Sprintf("Add:value-index#%d", n), p.pos(ia.Pos()), "result.Values is indexed by the counter of the loop over ProjectValues' own result",
			"the value taken from result.Values is not indexed by the counter of a loop over the slice ProjectValues returned (it was resliced, compacted or replaced): when the unit filter drops an earlier measurement of the line, the remaining unit keys shift against the values and a cell receives another unit's numbers")
	})
	// the trial's baseline commit is taken from a baseline-role result: every store to the trial's baseline hash lies
	// where the result's compare value is known to equal the builder's denominator compare value
	denValF := p.Field("benchseries", "Builder", "denCompareVal")
	nb := 0
	for _, name := range []string{"baselineHash", "baselineHashString"} {
		fld := p.Field("benchseries", "trial", name)
		if fld == nil {
			continue
		}
		for _, st := range storesToField(fn, fld) {
			nb++
			okRole := false
			for _, f := range factsAt(st.Block()) {
				bo, ok := f.Cond.(*ssa.BinOp)
				if !ok || !((bo.Op == token.EQL && f.True) || (bo.Op == token.NEQ && !f.True)) {
					continue
				}
				fx, _ := loadOfField(bo.X)
				fy, _ := loadOfField(bo.Y)
				if denValF != nil && (fx == denValF || fy == denValF) {
					okRole = true
				}
			}
			c.Check(okRole, R, fmt.Sprintf("Add:%s#%d", name, nb), p.pos(st.Pos()), "recorded from a result in the baseline role",
				"the trial's baseline commit is recorded outside the branch that handles a baseline-role result (from whichever result creates the trial): with numerator results that lack or differ in the denominator-hash key the reported hash pair then depends on the order in which results were added")
		}
	}
	c.Floor(R, "stores of a trial's baseline hash", nb, 1)
	ins, what := writesThrough(fn, []ssa.Value{pv})
	for i, in := range ins {
		c.Bad(R, fmt.Sprintf("Add:unit-keys-rewritten#%d", i+1), p.pos(in.Pos()), "Builder.Add "+what[i]+" the slice of per-value unit keys: its i-th element no longer belongs to result.Values[i]")
	}
	c.Floor(R, "reads of result.Values in Builder.Add", n, 1)
}

// c18PerTable (C18/R12): what is collected for one table stays with that table: no function of benchseries fills, inside
// a loop, a local map made before the loop and then consumes it whole inside the same loop (see sharedAccumulators).
func c18PerTable(c *Ctx, p *Prog) {
	const R = "C18/R12"
	n := 0
	for _, fn := range p.Funcs("benchseries") {
		for _, sa := range sharedAccumulators(fn) {
			n++
			c.Bad(R, fmt.Sprintf("%s:shared-accumulator#%d", fnName(fn), n), p.pos(sa.Use.Pos()), "the map made at "+p.pos(sa.Make.Pos())+" is created once, filled inside the loop and consumed as a whole inside the same loop: the series (or benchmarks) collected for one unit's table are still there for the next, so later tables get series points that have no comparison, no hash pair and an empty summary row")
		}
	}
	c.OK(R, "per-table-accumulators", "", "no accumulator is shared between the tables of a build")
	ctl := mustLoad(c, loadOpts{dir: c.HomeDir + "/checker"}, "./testdata/lookbehind")
	nCtl := 0
	for _, fn := range ctl.Funcs("perfcheck/testdata/lookbehind") {
		nCtl += len(sharedAccumulators(fn))
	}
	if nCtl == 0 {
		c.Undecided(R, "positive-control", "", "the shared-accumulator matcher no longer recognises its own positive example")
	} else {
		c.OK(R, "positive-control", "checker/testdata/lookbehind/lb.go", "matcher fires on the stored set hoisted out of its loop")
	}
}

// c18Bounds (C18/R13): no order statistic reads past its sample (same matcher as C07/R14): where benchseries tests a
// position against a length (i+g < len) every later read at that base stays within what was tested.
func c18Bounds(c *Ctx, p *Prog) {
	const R = "C18/R13"
	n := 0
	for _, fn := range p.Funcs("benchseries") {
		sg, k := staleGuards(fn)
		n += k
		for i, g := range sg {
			c.Bad(R, fmt.Sprintf("%s:read-beyond-tested-bound#%d", fnName(fn), i+1), p.pos(g.Read.Pos()), fmt.Sprintf("the sample is read at offset %+d from a position that was only tested up to offset %+d against its length: for a confidence and sample count that put the interpolation point at the last element (N·(1−confidence)/2 < 1) the summary panics with an index out of range instead of giving low ≤ centre ≤ high", g.Offset, g.Guarded))
		}
	}
	c.OK(R, "bounds:reads", "", fmt.Sprintf("%d guarded indexed reads in benchseries, none beyond its tested bound", n))
}
