// c04.go: C04 — measurements are normalised to base units for every value.
package main

import (
	"fmt"
	"go/ast"
	"go/constant"
	"go/token"
	"go/types"
	"math/big"
	"os"
	"sort"
	"strings"
	"unicode"

	"golang.org/x/tools/go/ast/astutil"
	"golang.org/x/tools/go/packages"
	"golang.org/x/tools/go/ssa"
)

func init() { register("C04", checkC04) }

// staticReach returns the functions reachable from roots through static calls
// and closure creation, restricted to packages whose path has one of the given prefixes.
func staticReach(roots []*ssa.Function, pkgPrefixes ...string) []*ssa.Function {
	seen := map[*ssa.Function]bool{}
	var order []*ssa.Function
	inScope := func(f *ssa.Function) bool {
		if f == nil || f.Blocks == nil {
			return false
		}
		pk := f.Package()
		if pk == nil && f.Parent() != nil {
			pk = f.Parent().Package()
		}
		if pk == nil {
			if f.Origin() != nil {
				pk = f.Origin().Package()
			}
		}
		if pk == nil {
			return false
		}
		for _, pre := range pkgPrefixes {
			if strings.HasPrefix(pk.Pkg.Path(), pre) {
				return true
			}
		}
		return false
	}
	var walk func(f *ssa.Function)
	walk = func(f *ssa.Function) {
		if f == nil || seen[f] || !inScope(f) {
			return
		}
		seen[f] = true
		order = append(order, f)
		eachInstr(f, func(_ *ssa.BasicBlock, in ssa.Instruction) {
			switch x := in.(type) {
			case ssa.CallInstruction:
				if c := x.Common().StaticCallee(); c != nil {
					walk(c)
				}
			case *ssa.MakeClosure:
				walk(x.Fn.(*ssa.Function))
			}
			var ops []*ssa.Value
			for _, o := range in.Operands(ops) {
				if fn, ok := (*o).(*ssa.Function); ok {
					walk(fn)
				}
			}
		})
	}
	for _, r := range roots {
		walk(r)
	}
	return order
}

func checkC04(c *Ctx) {
	c.Rule("C04/R1", "every store to benchfmt.Value.Unit in package benchfmt is Tidy's unit, or the raw unit under a string-equality guard with Tidy's unit; no float comparison decides the unit; tidied values keep the raw pair")
	c.Rule("C04/R2", "the general rewrite table equals the property's table {ns->sec x1e-9, MB->B x1e6}; every fast-path row equals what the general rewrite yields; pre-filter literals are exactly the table's keys; replacements are not keys (idempotence); Tidy returns value*factor and the rewritten unit")
	c.Rule("C04/R3", "the rewrite and the Binary classification happen only for numerator tokens; the tokenizer's two loops use the same separator set; '*' clears and '/' sets the denominator flag")
	c.Rule("C04/R4", "every UnitMetadataKey built in package benchfmt takes its unit from Tidy's second result")
	c.Rule("C04/R5", "the .unit filter term is judged against both the base unit and, when present, the written unit, joined by OR")

	c.Rule("C04/R6", "caches on the tidy / unit-match path are keyed by every input of the cached value (tidy cache: the unit string itself; no memo of a unit match may be keyed by one of the two units only)")
	c.Rule("C04/R7", "in the rewrite loop a denominator token is skipped without leaving the loop and without editing")
	c.Rule("C04/R10", "cache entries are published complete: the value handed to the unit cache's Store/LoadOrStore is not written through afterwards")
	c.Rule("C04/R9", "recorded edits stay aligned: the loop that splices replacements into the unit at positions recorded against the original string runs from the last edit to the first, or corrects each position by the accumulated change in length")
	c.Rule("C04/R8", "units are split into words by characters, not bytes: no unicode predicate in benchunit is applied to a lone byte widened to a rune (unless the byte was tested to be ASCII)")
	p := mustLoad(c, loadOpts{}, "./benchfmt", "./benchunit", "./benchproc")
	c04R1(c, p, "C04/R1")
	c04R2(c, p)
	c04R3(c, p)
	c04R4(c, p)
	c04R5(c, p)
	c04R6(c, p)
	c04PublishedEntriesAreComplete(c, p)
	byteRuneRule(c, p, "C04/R8", "benchunit")
	// R9: edits recorded against the original unit are applied back to front, or with an accumulated shift
	nSp := 0
	for _, fn := range p.Funcs("benchunit") {
		for _, sl := range spliceLoops(fn) {
			nSp++
			key := fmt.Sprintf("%s:splice#%d", fnName(fn), nSp)
			switch sl.Verdict {
			case "backwards":
				c.OK("C04/R9", key, p.pos(sl.Pos), "pieces are replaced from the last to the first, so recorded positions stay valid")
			case "shifted":
				c.OK("C04/R9", key, p.pos(sl.Pos), "positions are corrected by the accumulated change in length")
			case "unshifted":
				c.Bad("C04/R9", key, p.pos(sl.Pos), "pieces are replaced front to back at positions recorded against the original unit, without adding up how much the earlier replacements changed its length: from the third rewritten word on the cut lands in the wrong place (MB*MB*MB/s becomes B*B*MBs) while the value is still scaled for the base unit")
			default:
				c.Undecided("C04/R9", key, p.pos(sl.Pos), "cannot tell in which order the recorded edits are applied")
			}
		}
	}
	c.OK("C04/R9", "splice:loops", "", fmt.Sprintf("%d loops rewrite the unit in place at recorded positions (none: the pieces are copied from the original string, whose positions never move)", nSp))
	ctl := mustLoad(c, loadOpts{dir: c.HomeDir + "/checker"}, "./testdata/lookbehind")
	nCtl := 0
	for _, fn := range ctl.Funcs("perfcheck/testdata/lookbehind") {
		for _, sl := range spliceLoops(fn) {
			if sl.Verdict == "unshifted" {
				nCtl++
			}
		}
	}
	if nCtl == 0 {
		c.Undecided("C04/R9", "positive-control", "", "the splice-order matcher no longer recognises its own positive example")
	} else {
		c.OK("C04/R9", "positive-control", "checker/testdata/lookbehind/lb.go", "matcher fires on the stored front-to-back splice")
	}
}

const tidyPkg = modPath + "/benchunit"

func c04R1(c *Ctx, p *Prog, R string) {
	unitF := p.Field("benchfmt", "Value", "Unit")
	origUnitF := p.Field("benchfmt", "Value", "OrigUnit")
	origValF := p.Field("benchfmt", "Value", "OrigValue")
	valF := p.Field("benchfmt", "Value", "Value")
	if unitF == nil || origUnitF == nil || origValF == nil || valF == nil {
		c.Undecided(R, "anchor:benchfmt.Value fields", "", "benchfmt.Value no longer has Value/Unit/OrigValue/OrigUnit fields")
		return
	}
	n := 0
	for _, fn := range p.Funcs("benchfmt") {
		if len(storesToField(fn, unitF)) == 0 {
			continue
		}
		site := p.pos(fn.Pos())
		tidies := callsIn(fn, tidyPkg, "", "Tidy")
		if len(tidies) == 0 {
			n++
			// copying a Value (Unit loaded from another Value) is fine; anything else stores an un-normalised unit
			for i, st := range storesToField(fn, unitF) {
				if f, _ := loadOfField(st.Val); f == unitF {
					c.OK(R, fmt.Sprintf("%s:store Value.Unit#%d", fnName(fn), i), p.pos(instrPos(st)), "copies Unit from another Value")
				} else {
					c.Bad(R, fmt.Sprintf("%s:store Value.Unit#%d", fnName(fn), i), p.pos(instrPos(st)), "Value.Unit is stored in a function that never calls benchunit.Tidy: the unit is not normalised")
				}
			}
			continue
		}
		// Judge what is finally recorded, path by path: evaluate the region around each Tidy call (the loop iteration
		// that contains it, or the whole function) and look at the Value appended to Result.Values at the end of the path.
		for ti, tc := range tidies {
			tcInstr := tc.(ssa.Instruction)
			var start *ssa.BasicBlock
			var pred *ssa.BasicBlock
			var stop map[*ssa.BasicBlock]bool
			for _, lp := range naturalLoops(fn) {
				if lp.Blocks[tcInstr.Block()] {
					if s := loopBodyStart(lp); s != nil {
						start, pred, stop = s, lp.Header, iterStop(lp, s)
					} else {
						// for { ... }: one iteration runs from the header back to the header
						start, pred, stop = lp.Header, nil, map[*ssa.BasicBlock]bool{lp.Header: true}
					}
				}
			}
			if start == nil {
				start = fn.Blocks[0]
			}
			mk := func() *e6Interp { return &e6Interp{PureCall: func(f *types.Func) bool { return true }, MaxAtoms: 18} }
			outs, why := e6Enumerate(mk, start, pred, stop, 4096)
			if why != "" {
				c.Undecided(R, fmt.Sprintf("%s:tidy#%d", fnName(fn), ti+1), site, why)
				continue
			}
			isTidy := func(s *Sym, idx int) (*Sym, bool) {
				if s != nil && s.Op == "extract" && s.Idx == idx && len(s.Args) == 1 && s.Args[0].Op == "call" && strings.HasPrefix(s.Args[0].Name, tidyPkg+".Tidy") {
					return s.Args[0], true
				}
				return nil, false
			}
			nRec := 0
			if os.Getenv("PERFCHECK_DEBUG") != "" {
				fmt.Fprintf(os.Stderr, "DEBUG %s: %d outcomes start=%v\n", fnName(fn), len(outs), start)
				for _, o := range outs {
					fmt.Fprintf(os.Stderr, "  term=%s nacts=%d mem=%s\n", o.Term, len(o.Actions), truncate(memDump(o), 900))
				}
			}
			for _, o := range outs {
				// the element appended to Result.Values on this path (the interpreter keeps struct elements field by field)
				fields := map[string]*Sym{}
				found := false
				for mk, mv := range o.Mem {
					if !strings.HasSuffix(mk, ".Values") || mv.Op != "call" || mv.Name != "append" || len(mv.Args) != 2 || mv.Args[1].Op != "slice" {
						continue
					}
					arr := mv.Args[1].Args[0].String()
					for _, f := range []string{"Unit", "Value", "OrigUnit", "OrigValue"} {
						if v, ok := o.Mem["&indexaddr("+arr+",0)."+f]; ok {
							fields[f] = v
							found = true
						}
					}
					if els := o.VarArgs(e6Action{Args: mv.Args}); len(els) == 1 && els[0].Op == "struct" {
						for f, v := range els[0].Fields {
							fields[f] = v
							found = true
						}
					}
				}
				if !found && o.Term == "return" && len(o.Results) == 1 {
					// a helper that returns the Value it built: judge the returned struct
					r := o.Results[0]
					if r.Op == "struct" {
						for f, v := range r.Fields {
							fields[f] = v
							found = true
						}
					} else if r.Op == "load" {
						base := r.Args[0].String()
						for _, f := range []string{"Unit", "Value", "OrigUnit", "OrigValue"} {
							if v, ok := o.Mem["&"+base+"."+f]; ok {
								fields[f] = v
								found = true
							}
						}
					}
					if _, hasUnit := fields["Unit"]; !hasUnit {
						found = false
					}
				}
				if !found {
					continue
				}
				n++
				nRec++
				key := fmt.Sprintf("%s:recorded[%s]", fnName(fn), truncate(o.AssignStr(), 110))
				el := &Sym{Op: "struct", Fields: fields}
				for _, f := range []string{"Unit", "Value", "OrigUnit", "OrigValue"} {
					if fields[f] == nil {
						fields[f] = &Sym{Op: "zero", Name: f}
					}
				}
				U, Vv, OU, OV := el.Fields["Unit"], el.Fields["Value"], el.Fields["OrigUnit"], el.Fields["OrigValue"]
				if call, ok := isTidy(U, 1); ok {
					rawVal, rawUnit := call.Args[0].String(), call.Args[1].String()
					_, okV := isTidy(Vv, 0)
					c.Check(okV && OU != nil && OU.String() == rawUnit && OV != nil && OV.String() == rawVal, R, key, site,
						"tidied unit recorded with Tidy's value; OrigValue/OrigUnit hold the pair as written",
						fmt.Sprintf("the tidied unit is recorded but its companions are wrong (Value from Tidy: %v, OrigUnit: %s, OrigValue: %s)", okV, truncate(OU.String(), 60), truncate(OV.String(), 60)))
					continue
				}
				// the unit as written: only where it equals Tidy's unit, decided by comparing the strings
				guarded, floatGuard := false, ""
				var call *Sym
				for _, k := range o.AtomKeys() {
					v := o.Assign[k]
					_ = v
					s := o.AtomSyms[k]
					if s.Op != "binop" || len(s.Args) != 2 {
						continue
					}
					for i := 0; i < 2; i++ {
						if tcall, ok := isTidy(s.Args[i], 1); ok && U != nil && s.Args[1-i].String() == U.String() && tcall.Args[1].String() == U.String() {
							call = tcall
							if (s.Tok == token.EQL && v) || (s.Tok == token.NEQ && !v) {
								guarded = true
							}
						}
						if _, ok := isTidy(s.Args[i], 0); ok && (s.Tok == token.EQL || s.Tok == token.NEQ) {
							floatGuard = truncate(k, 80)
						}
					}
				}
				_ = call
				switch {
				case floatGuard != "":
					c.Bad(R, key, site, "the written unit is kept depending on a float comparison ("+floatGuard+"): for 0, ±Inf (and NaN-free factors) the comparison holds although the unit needs rewriting, so one metric is split between two unit names")
				case guarded:
					c.OK(R, key, site, "the unit as written is recorded only where it equals Tidy's unit (string comparison)")
				default:
					c.Bad(R, key, site, "the unit recorded on this path ("+truncate(U.String(), 80)+") is neither Tidy's unit nor the written unit under a string-equality test against Tidy's unit")
				}
			}
			c.Floor(R, fmt.Sprintf("paths recording a measurement around Tidy call #%d in %s", ti+1, fnName(fn)), nRec, 2)
		}
	}
	c.Floor(R, "recorded measurements judged in package benchfmt", n, 1)
}

// ---- R2: tables ----

type tidyRow struct {
	repl   string
	factor *big.Rat
}

// ratEqF64 compares two rationals as the float64 values the program computes
// (typed float64 constants are already rounded by the type checker).
func ratEqF64(a, b *big.Rat) bool {
	if a == nil || b == nil {
		return false
	}
	x, _ := a.Float64()
	y, _ := b.Float64()
	return x == y
}

func ratOfConst(v constant.Value) *big.Rat {
	v = constant.ToFloat(v)
	if v.Kind() != constant.Float {
		return nil
	}
	r := new(big.Rat)
	if _, ok := r.SetString(v.ExactString()); ok {
		return r
	}
	return nil
}

// unitTokens is the checker's own model of the documented unit grammar.
type unitTok struct {
	tok   string
	pos   int
	denom bool
}

func modelTokens(unit string) []unitTok {
	isSep := func(r rune) bool { return r == '*' || r == '/' || r == '-' || unicode.IsSpace(r) }
	var out []unitTok
	denom := false
	i := 0
	rs := []rune(unit)
	bytePos := 0
	for i < len(rs) {
		r := rs[i]
		if isSep(r) {
			if r == '*' {
				denom = false
			} else if r == '/' {
				denom = true
			}
			bytePos += len(string(r))
			i++
			continue
		}
		start := bytePos
		var sb strings.Builder
		for i < len(rs) && !isSep(rs[i]) {
			sb.WriteRune(rs[i])
			bytePos += len(string(rs[i]))
			i++
		}
		out = append(out, unitTok{sb.String(), start, denom})
	}
	return out
}

func modelTidy(unit string, tab map[string]tidyRow) (string, *big.Rat) {
	f := big.NewRat(1, 1)
	toks := modelTokens(unit)
	out := unit
	for i := len(toks) - 1; i >= 0; i-- {
		t := toks[i]
		if t.denom {
			continue
		}
		if row, ok := tab[t.tok]; ok {
			out = out[:t.pos] + row.repl + out[t.pos+len(t.tok):]
			f.Mul(f, row.factor)
		}
	}
	return out, f
}

func c04R2(c *Ctx, p *Prog) {
	const R = "C04/R2"
	pk := p.Pkg("benchunit")
	tidy := p.Fn("benchunit", "Tidy")
	if tidy == nil {
		c.Undecided(R, "anchor:benchunit.Tidy", "", "benchunit.Tidy not found")
		return
	}
	reach := staticReach([]*ssa.Function{tidy}, tidyPkg)
	// Tidy's own formula: (value * factor, newUnit) with (newUnit, factor) from one call on unit.
	{
		ok := false
		detail := "no return found"
		nRet, nGood := 0, 0
		for _, b := range tidy.Blocks {
			ret, isRet := b.Instrs[len(b.Instrs)-1].(*ssa.Return)
			if !isRet || len(ret.Results) != 2 {
				continue
			}
			nRet++
			mul, isMul := ret.Results[0].(*ssa.BinOp)
			if !isMul || mul.Op != token.MUL {
				detail = "first result is not a product"
				continue
			}
			var fac ssa.Value
			if mul.X == tidy.Params[0] {
				fac = mul.Y
			} else if mul.Y == tidy.Params[0] {
				fac = mul.X
			}
			fe, _ := fac.(*ssa.Extract)
			ue, _ := ret.Results[1].(*ssa.Extract)
			if fe == nil || ue == nil || fe.Tuple != ue.Tuple {
				detail = "factor and unit do not come from the same call"
				continue
			}
			call, isCall := fe.Tuple.(*ssa.Call)
			if !isCall || len(call.Call.Args) != 1 || call.Call.Args[0] != tidy.Params[1] {
				detail = "the unit rewriter is not called on Tidy's unit argument"
				continue
			}
			if !isFloat(fe.Type()) || !isString(ue.Type()) {
				detail = "result kinds swapped"
				continue
			}
			ok = true
			nGood++
		}
		if ok && nGood != nRet {
			ok = false
			detail = fmt.Sprintf("%d of %d returns hand back something else (the value as written under the written unit, for some values): one metric is then split between two units depending on the magnitude of the measurement", nRet-nGood, nRet)
		}
		c.Check(ok, R, "Tidy:value*factor", p.pos(tidy.Pos()), "Tidy returns (value*factor, unit') with both from one call on its unit argument", "Tidy's result is not value*factor with the rewritten unit: "+detail)
	}

	general := map[string]tidyRow{}
	type fastRow struct {
		keys   []string
		unit   string // "" means identity
		ident  bool
		factor *big.Rat
		pos    token.Pos
	}
	var fast []fastRow
	var prefilter []string
	var generalPos, prefilterPos token.Pos
	info := pk.TypesInfo
	nGeneralSwitch := 0

	for _, fn := range reach {
		decl, ok := fn.Syntax().(*ast.FuncDecl)
		if !ok || decl.Body == nil {
			continue
		}
		ast.Inspect(decl.Body, func(n ast.Node) bool {
			switch x := n.(type) {
			case *ast.IfStmt:
				// fast path as a table: if e, ok := table[unit]; ok { return e.unit, e.factor }
				rows, why := c04FastTable(pk, fn, x)
				if why != "" {
					c.Undecided(R, "fast:table", p.pos(x.Pos()), why)
				}
				for _, r := range rows {
					fast = append(fast, fastRow{keys: []string{r.key}, unit: r.unit, factor: r.factor, pos: r.pos})
				}
			case *ast.CallExpr:
				// strings.Contains(unit, "lit")
				if se, ok := x.Fun.(*ast.SelectorExpr); ok {
					if fo, ok := info.Uses[se.Sel].(*types.Func); ok && fo.Pkg() != nil && fo.Pkg().Path() == "strings" && (fo.Name() == "Contains" || fo.Name() == "Index") && len(x.Args) == 2 {
						if tv, ok := info.Types[x.Args[1]]; ok && tv.Value != nil && tv.Value.Kind() == constant.String {
							prefilter = append(prefilter, constant.StringVal(tv.Value))
							prefilterPos = x.Pos()
						}
					}
				}
			case *ast.SwitchStmt:
				// a tagless switch whose cases compare one selector with string literals (case p.tok == "ns":) is the
				// same table: its tag is that selector
				tagless := map[*ast.CaseClause][]string{}
				if x.Tag == nil {
					var tag ast.Expr
					for _, cl := range x.Body.List {
						cc := cl.(*ast.CaseClause)
						for _, e := range cc.List {
							be, ok := e.(*ast.BinaryExpr)
							if !ok || be.Op != token.EQL {
								continue
							}
							sel, lit := be.X, be.Y
							if tv := info.Types[sel]; tv.Value != nil {
								sel, lit = be.Y, be.X
							}
							tv := info.Types[lit]
							if tv.Value == nil || tv.Value.Kind() != constant.String {
								continue
							}
							if _, isSel := sel.(*ast.SelectorExpr); !isSel {
								continue
							}
							if tag == nil || types.ExprString(tag) == types.ExprString(sel) {
								tag = sel
								tagless[cc] = append(tagless[cc], constant.StringVal(tv.Value))
							}
						}
					}
					if tag == nil {
						return true
					}
					x = &ast.SwitchStmt{Switch: x.Switch, Tag: tag, Body: x.Body}
				}
				tt, ok := info.Types[x.Tag]
				if !ok || !isString(tt.Type) {
					return true
				}
				// Distinguish: tag is a function parameter (fast path) vs a field of the tokenizer (general).
				isParam := false
				if id, ok := x.Tag.(*ast.Ident); ok {
					if v, ok := info.Uses[id].(*types.Var); ok {
						sig := fn.Signature
						for i := 0; i < sig.Params().Len(); i++ {
							if sig.Params().At(i) == v {
								isParam = true
							}
						}
					}
				}
				_, isSel := x.Tag.(*ast.SelectorExpr)
				for _, cl := range x.Body.List {
					cc := cl.(*ast.CaseClause)
					var ks []string
					for _, e := range cc.List {
						if tv, ok := info.Types[e]; ok && tv.Value != nil && tv.Value.Kind() == constant.String {
							ks = append(ks, constant.StringVal(tv.Value))
						}
					}
					ks = append(ks, tagless[cc]...)
					if len(ks) == 0 {
						continue
					}
					if isParam {
						// expect: return <unit expr>, <const>
						for _, s := range cc.Body {
							rs, ok := s.(*ast.ReturnStmt)
							if !ok || len(rs.Results) != 2 {
								continue
							}
							row := fastRow{keys: ks, pos: cc.Pos()}
							if tv := info.Types[rs.Results[0]]; tv.Value != nil {
								row.unit = constant.StringVal(tv.Value)
							} else if id, ok := rs.Results[0].(*ast.Ident); ok && info.Uses[id] == info.Uses[x.Tag.(*ast.Ident)] {
								row.ident = true
							} else {
								c.Undecided(R, "fast:"+strings.Join(ks, ","), p.pos(cc.Pos()), "fast-path row returns a unit that is neither a constant nor the argument")
								continue
							}
							if tv := info.Types[rs.Results[1]]; tv.Value != nil {
								row.factor = ratOfConst(tv.Value)
							}
							if row.factor == nil {
								c.Undecided(R, "fast:"+strings.Join(ks, ","), p.pos(cc.Pos()), "fast-path row's factor is not a constant")
								continue
							}
							fast = append(fast, row)
						}
					} else if isSel {
						// general rewrite: one composite literal carrying the replacement string, one op-assign on a float with a constant.
						var repl *string
						var fac *big.Rat
						var lenLit *string
						for _, s := range cc.Body {
							ast.Inspect(s, func(m ast.Node) bool {
								switch y := m.(type) {
								case *ast.CompositeLit:
									for _, el := range y.Elts {
										ex := el
										if kv, ok := el.(*ast.KeyValueExpr); ok {
											ex = kv.Value
										}
										if tv := info.Types[ex]; tv.Value != nil && tv.Value.Kind() == constant.String {
											s := constant.StringVal(tv.Value)
											repl = &s
										}
										if ce, ok := ex.(*ast.CallExpr); ok {
											if id, ok := ce.Fun.(*ast.Ident); ok && id.Name == "len" && len(ce.Args) == 1 {
												if tv := info.Types[ce.Args[0]]; tv.Value != nil && tv.Value.Kind() == constant.String {
													s := constant.StringVal(tv.Value)
													lenLit = &s
												}
											}
										} else if tv := info.Types[ex]; tv.Value != nil && tv.Value.Kind() == constant.Int && isInteger(tv.Type) {
											// literal length
											if n, ok := constant.Int64Val(tv.Value); ok {
												s := strings.Repeat("x", int(n))
												_ = s
											}
										}
									}
								case *ast.CallExpr:
									// record(pos, len("ns"), "sec"): the replacement handed to a recording function
									if id, ok := y.Fun.(*ast.Ident); ok && id.Name != "len" && id.Name != "append" {
										for _, a := range y.Args {
											if tv := info.Types[a]; tv.Value != nil && tv.Value.Kind() == constant.String {
												s := constant.StringVal(tv.Value)
												repl = &s
											}
											if ce, ok := a.(*ast.CallExpr); ok {
												if id2, ok := ce.Fun.(*ast.Ident); ok && id2.Name == "len" && len(ce.Args) == 1 {
													if tv := info.Types[ce.Args[0]]; tv.Value != nil && tv.Value.Kind() == constant.String {
														s := constant.StringVal(tv.Value)
														lenLit = &s
													}
												}
											}
										}
									}
								case *ast.AssignStmt:
									// the replacement may be put into a local first and the edit recorded after the switch
									if (y.Tok == token.ASSIGN || y.Tok == token.DEFINE) && len(y.Rhs) == 1 && len(y.Lhs) == 1 {
										if tv := info.Types[y.Rhs[0]]; tv.Value != nil && tv.Value.Kind() == constant.String {
											if lt := info.TypeOf(y.Lhs[0]); lt != nil && isString(lt) {
												s := constant.StringVal(tv.Value)
												repl = &s
											}
										}
									}
									if (y.Tok == token.MUL_ASSIGN || y.Tok == token.QUO_ASSIGN) && len(y.Rhs) == 1 {
										if tv := info.Types[y.Rhs[0]]; tv.Value != nil {
											if r := ratOfConst(tv.Value); r != nil && r.Sign() != 0 {
												if y.Tok == token.QUO_ASSIGN {
													r = new(big.Rat).Inv(r)
												}
												fac = r
											}
										}
									}
								}
								return true
							})
						}
						if repl == nil || fac == nil {
							c.Undecided(R, "general:"+ks[0], p.pos(cc.Pos()), "cannot read replacement and factor from this rewrite case")
							continue
						}
						// a case may list several tokens that share one rewrite
						for _, k := range ks {
							if lenLit != nil && len(*lenLit) != len(k) {
								c.Bad(R, "general:"+k+":len", p.pos(cc.Pos()), fmt.Sprintf("edit length is len(%q) but the token is %q", *lenLit, k))
							}
							general[k] = tidyRow{*repl, fac}
						}
						generalPos = x.Pos()
					}
				}
				if isSel && len(general) > 0 {
					nGeneralSwitch++
				}
			}
			return true
		})
	}
	c.Floor(R, "general rewrite rows", len(general), 1)
	c.Floor(R, "fast-path rows", len(fast), 1)
	if len(general) == 0 {
		return
	}
	// Property's table.
	want := map[string]tidyRow{
		"ns": {"sec", big.NewRat(1, 1000000000)},
		"MB": {"B", big.NewRat(1000000, 1)},
	}
	for k, w := range want {
		g, ok := general[k]
		c.Check(ok && g.repl == w.repl && ratEqF64(g.factor, w.factor), R, "general:"+k, p.pos(generalPos),
			fmt.Sprintf("%s -> %s x %s", k, w.repl, w.factor.RatString()),
			fmt.Sprintf("rewrite of %q is (%q, %v), the property requires (%q, %s)", k, g.repl, g.factor, w.repl, w.factor.RatString()))
	}
	for k, g := range general {
		if _, ok := want[k]; !ok {
			c.Bad(R, "general:"+k, p.pos(generalPos), fmt.Sprintf("rewrite of %q -> %q is not part of the documented normalisation (only ns and MB are rewritten)", k, g.repl))
		}
		// idempotence: the replacement contains no rewritable numerator token
		u2, f2 := modelTidy(g.repl, general)
		c.Check(u2 == g.repl && f2.Cmp(big.NewRat(1, 1)) == 0, R, "idempotent:"+k, p.pos(generalPos),
			"replacement "+g.repl+" is itself in base units", "replacement "+g.repl+" would be rewritten again")
	}
	// Fast rows agree with the general table.
	for _, row := range fast {
		for _, k := range row.keys {
			u, f := modelTidy(k, general)
			got := row.unit
			if row.ident {
				got = k
			}
			c.Check(got == u && ratEqF64(row.factor, f), R, "fast:"+k, p.pos(row.pos),
				fmt.Sprintf("fast path %q -> (%q, %s) agrees with the general rewrite", k, got, row.factor.RatString()),
				fmt.Sprintf("fast path maps %q to (%q, %s) but the general rewrite gives (%q, %s)", k, got, row.factor.RatString(), u, f.RatString()))
		}
	}
	// Pre-filter: exactly the keys.
	sort.Strings(prefilter)
	var gk []string
	for k := range general {
		gk = append(gk, k)
	}
	sort.Strings(gk)
	pfSet := map[string]bool{}
	for _, s := range prefilter {
		pfSet[s] = true
	}
	if len(prefilter) == 0 {
		c.OK(R, "prefilter", "", "no substring pre-filter present")
	} else {
		missing := []string{}
		for _, k := range gk {
			// a pre-filter literal covers key k if it is a substring of k
			cov := false
			for s := range pfSet {
				if strings.Contains(k, s) {
					cov = true
				}
			}
			if !cov {
				missing = append(missing, k)
			}
		}
		c.Check(len(missing) == 0, R, "prefilter", p.pos(prefilterPos),
			fmt.Sprintf("pre-filter literals %v cover every rewrite key %v", prefilter, gk),
			fmt.Sprintf("units containing %v skip the rewrite: pre-filter literals are %v but the rewrite keys are %v", missing, prefilter, gk))
	}
	// Every path that returns the unit unchanged without running the general rewrite must exclude every unit with a
	// rewrite key as a numerator component. Two guards establish that: the unit equals a literal (a fast-path row,
	// verified above) or, for every key, a substring-absence test strings.Contains(unit, s) == false with s inside the
	// key. Helper functions are evaluated in place, so extracting the test into a helper changes nothing; a guard
	// built from anything else (first occurrence only, prefix tests, lengths) does not exclude the keys.
	tu := p.Fn("benchunit", "tidyUnit")
	if tu == nil {
		return
	}
	general2 := map[string]bool{}
	for _, k := range gk {
		general2[k] = true
	}
	mk := func() *e6Interp {
		return &e6Interp{PureCall: func(f *types.Func) bool { return true }, MaxAtoms: 24,
			Inline: func(f *ssa.Function) bool {
				return f.Pkg == tu.Pkg && f != tu && len(naturalLoops(f)) == 0
			}}
	}
	outs, why := e6Enumerate(mk, tu.Blocks[0], nil, nil, 50000)
	if why != "" {
		c.Undecided(R, "identity-returns", p.pos(tu.Pos()), why)
		return
	}
	nIdent := 0
	for _, o := range outs {
		if o.Term != "return" || len(o.Results) != 2 || o.Results[0].Op != "param" || !o.Results[1].isConst() {
			continue
		}
		isRow := false
		var absent []string
		unknown := ""
		for _, k := range o.AtomKeys() {
			v := o.Assign[k]
			_ = v
			s := o.AtomSyms[k]
			switch {
			case s.Op == "binop" && s.Tok == token.EQL && s.Args[0].Op == "param" && s.Args[1].isConst():
				if v {
					isRow = true
				}
			case s.Op == "call" && s.Name == "strings.Contains" && len(s.Args) == 2 && s.Args[0].Op == "param" && s.Args[1].isConst() && s.Args[1].Const != nil && s.Args[1].Const.Kind() == constant.String:
				if !v {
					absent = append(absent, constant.StringVal(s.Args[1].Const))
				} else {
					unknown = k + "=true"
				}
			default:
				unknown = k
			}
		}
		if isRow {
			continue
		}
		nIdent++
		var uncovered []string
		for _, key := range gk {
			cov := false
			for _, a := range absent {
				if a != "" && strings.Contains(key, a) {
					cov = true
				}
			}
			if !cov {
				uncovered = append(uncovered, key)
			}
		}
		sort.Strings(absent)
		ck := fmt.Sprintf("identity-return[absent=%s]#%d", strings.Join(absent, ","), nIdent)
		switch {
		case unknown != "" && len(uncovered) > 0:
			c.Bad(R, ck, p.pos(tu.Pos()), fmt.Sprintf("tidyUnit returns the unit unchanged under the condition %s, which does not exclude units that have %v as a numerator component (e.g. a component later in the unit): such units are left unnormalised, so one metric appears under two unit names", truncate(o.AssignStr(), 300), uncovered))
		case len(uncovered) > 0:
			c.Bad(R, ck, p.pos(tu.Pos()), fmt.Sprintf("tidyUnit returns the unit unchanged although only %v were tested absent; units containing %v skip the rewrite", absent, uncovered))
		default:
			c.OK(R, ck, p.pos(tu.Pos()), fmt.Sprintf("identity return only when %v are absent from the unit, which covers the rewrite keys %v", absent, gk))
		}
	}
}

func c04R3(c *Ctx, p *Prog) {
	const R = "C04/R3"
	denomF := p.Field("benchunit", "parser", "denom")
	tokF := p.Field("benchunit", "parser", "tok")
	if denomF == nil || tokF == nil {
		// role-based fallback: the struct type in benchunit with a bool and string fields used by Tidy; keep simple
		c.Undecided(R, "anchor:tokenizer state", "", "benchunit's tokenizer struct (fields denom, tok) not found")
		return
	}
	nCmp := 0
	for _, fn := range p.Funcs("benchunit") {
		// every comparison of the token with a constant string must be under the fact denom==false,
		// or be conjoined with it before any effect (ClassOf tests tok first and denom second).
		eachInstr(fn, func(b *ssa.BasicBlock, in ssa.Instruction) {
			bo, ok := in.(*ssa.BinOp)
			if !ok || bo.Op != token.EQL || !isString(bo.X.Type()) {
				return
			}
			var lit string
			var other ssa.Value
			if s, ok := constString(bo.Y); ok {
				lit, other = s, bo.X
			} else if s, ok := constString(bo.X); ok {
				lit, other = s, bo.Y
			} else {
				return
			}
			if f, _ := loadOfField(other); f != tokF {
				return
			}
			nCmp++
			key := fmt.Sprintf("%s:tok==%q", fnName(fn), lit)
			// (a) fact denom==false at this block
			for _, f := range factsAt(b) {
				if fl, _ := loadOfField(f.Cond); fl == denomF && !f.True {
					c.OK(R, key, p.pos(bo.Pos()), "token compared only when the denominator flag is false")
					return
				}
			}
			// (b) every path from the true edge of this comparison to an effect (store, call, return of non-default)
			//     passes a test of denom. Find the If using this comparison; follow true edge through blocks that
			//     only compare/jump until an If on denom.
			okb := trueEdgeLeadsToDenomTest(bo, denomF)
			c.Check(okb, R, key, p.pos(bo.Pos()), "token match is conjoined with a test that the denominator flag is false",
				"token "+lit+" is matched without regard to numerator/denominator position")
		})
	}
	c.Floor(R, "token comparisons in the rewrite/class functions", nCmp, 2)

	// Tokenizer loops: separator sets and flag updates.
	sets := map[ssa.Value]map[string]bool{}
	var setPos = map[ssa.Value]token.Pos{}
	flagUpd := map[string]bool{} // rune -> value stored
	var tokFn *ssa.Function
	// the tokenizer: the methods of the tokenizer state that walk the unit (one function, or a skipping helper and a
	// token-end scan in different functions)
	var tokFns []*ssa.Function
	for _, fn := range p.Funcs("benchunit") {
		isMethod := fn.Signature.Recv() != nil && recvName(fn.Signature.Recv().Type()) == "parser"
		if len(storesToField(fn, denomF)) == 0 && !isMethod {
			continue
		}
		// skip constructors that only initialise
		hasNext := false
		eachInstr(fn, func(_ *ssa.BasicBlock, in ssa.Instruction) {
			if _, ok := in.(*ssa.Next); ok {
				hasNext = true
			}
			if call, ok := in.(*ssa.Call); ok {
				if co := calleeObj(&call.Call); co != nil && co.Pkg() != nil && (co.Pkg().Path() == "strings" || co.Pkg().Path() == "bytes") && strings.HasSuffix(co.Name(), "Func") {
					hasNext = true
				}
			}
		})
		if !hasNext {
			continue
		}
		if tokFn == nil || len(storesToField(fn, denomF)) > 0 {
			tokFn = fn
		}
		tokFns = append(tokFns, fn)
		eachInstr(fn, func(b *ssa.BasicBlock, in ssa.Instruction) {
			switch x := in.(type) {
			case *ssa.BinOp:
				if x.Op != token.EQL && x.Op != token.NEQ {
					return
				}
				cv, ok := constInt(x.Y)
				rv := x.X
				if !ok {
					cv, ok = constInt(x.X)
					rv = x.Y
				}
				if !ok {
					return
				}
				if nx := runeOfNext(rv); nx != nil {
					if sets[nx] == nil {
						sets[nx] = map[string]bool{}
						setPos[nx] = nx.Pos()
					}
					sets[nx][string(rune(cv))] = true
				}
			case *ssa.Call:
				if objIs(calleeObj(&x.Call), "unicode", "", "IsSpace") {
					if nx := runeOfNext(x.Call.Args[0]); nx != nil {
						if sets[nx] == nil {
							sets[nx] = map[string]bool{}
						}
						sets[nx]["<space>"] = true
					}
				}
			case *ssa.Store:
				if f, _ := fieldOfAddr(x.Addr); f == denomF {
					cb, ok := x.Val.(*ssa.Const)
					if !ok {
						c.Undecided(R, "flag-update:non-constant", p.pos(x.Pos()), "denominator flag assigned a non-constant")
						return
					}
					val := constant.BoolVal(cb.Value)
					found := false
					for _, f := range factsAt(b) {
						if bo, ok := f.Cond.(*ssa.BinOp); ok && bo.Op == token.EQL && f.True {
							if cv, ok := constInt(bo.Y); ok && runeOfNext(bo.X) != nil {
								flagUpd[string(rune(cv))] = val
								found = true
								break
							}
						}
					}
					if !found {
						c.Undecided(R, "flag-update:unguarded", p.pos(x.Pos()), "denominator flag assigned outside a recognised rune test")
					}
				}
			}
		})
	}
	if tokFn == nil {
		c.Undecided(R, "anchor:tokenizer", "", "no function in benchunit both ranges over the unit and updates the denominator flag")
		return
	}
	// a loop may have been replaced by strings.IndexFunc/TrimLeftFunc with a rune predicate of the package: the
	// predicate's tests on its rune parameter form that loop's separator set
	for _, tf := range tokFns {
		eachInstr(tf, func(_ *ssa.BasicBlock, in ssa.Instruction) {
			call, ok := in.(*ssa.Call)
			if !ok {
				return
			}
			var preds []*ssa.Function
			if sc := call.Call.StaticCallee(); sc != nil && sc.Pkg != nil && sc.Pkg.Pkg.Path() == tidyPkg {
				preds = append(preds, sc)
			}
			for _, a := range call.Call.Args {
				switch x := stripConv(a).(type) {
				case *ssa.Function:
					preds = append(preds, x)
				case *ssa.MakeClosure:
					if f, ok := x.Fn.(*ssa.Function); ok {
						preds = append(preds, f)
					}
				}
			}
			for _, f := range preds {
				if f.Blocks == nil || f.Signature.Params().Len() != 1 || f.Signature.Results().Len() != 1 || !isBoolT(f.Signature.Results().At(0).Type()) {
					continue
				}
				if b, ok := f.Signature.Params().At(0).Type().Underlying().(*types.Basic); !ok || b.Kind() != types.Int32 {
					continue
				}
				prm := f.Params[len(f.Params)-1]
				eachInstr(f, func(_ *ssa.BasicBlock, in2 ssa.Instruction) {
					switch y := in2.(type) {
					case *ssa.BinOp:
						if y.Op != token.EQL && y.Op != token.NEQ {
							return
						}
						if cv, ok := constInt(y.Y); ok && stripConv(y.X) == prm {
							if sets[prm] == nil {
								sets[prm] = map[string]bool{}
							}
							sets[prm][string(rune(cv))] = true
						}
					case *ssa.Call:
						if objIs(calleeObj(&y.Call), "unicode", "", "IsSpace") && stripConv(y.Call.Args[0]) == prm {
							if sets[prm] == nil {
								sets[prm] = map[string]bool{}
							}
							sets[prm]["<space>"] = true
						}
					}
				})
			}
		})
	}
	wantSet := "* - / <space>"
	var all []string
	for nx, s := range sets {
		var ks []string
		for k := range s {
			ks = append(ks, k)
		}
		sort.Strings(ks)
		all = append(all, strings.Join(ks, " "))
		_ = nx
	}
	sort.Strings(all)
	c.Check(len(all) == 2 && all[0] == wantSet && all[1] == wantSet, R, "tokenizer:separator-sets", p.pos(tokFn.Pos()),
		"skip loop and token loop both use separators {* - / space}",
		fmt.Sprintf("the tokenizer's loops use separator sets %q; both must be {%s}", all, wantSet))
	c.Check(len(flagUpd) == 2 && flagUpd["*"] == false && flagUpd["/"] == true && hasKey(flagUpd, "*") && hasKey(flagUpd, "/"), R, "tokenizer:flag-updates", p.pos(tokFn.Pos()),
		"'*' clears and '/' sets the denominator flag", fmt.Sprintf("denominator flag updates are %v; want '*'->false, '/'->true", flagUpd))
}

func hasKey(m map[string]bool, k string) bool { _, ok := m[k]; return ok }

// runeOfNext: v is the rune extracted (#2) from a string-range Next; returns the Next.
func runeOfNext(v ssa.Value) *ssa.Next {
	v = stripConv(v)
	if cv, ok := v.(*ssa.Convert); ok {
		v = cv.X
	}
	e, ok := v.(*ssa.Extract)
	if !ok || e.Index != 2 {
		return nil
	}
	nx, ok := e.Tuple.(*ssa.Next)
	if !ok || !nx.IsString {
		return nil
	}
	return nx
}

// trueEdgeLeadsToDenomTest: the comparison feeds an If (possibly through an
// ||-chain of sibling token comparisons); on the path where it is true, a test
// of the denominator flag is performed before any store, call or return.
func trueEdgeLeadsToDenomTest(bo *ssa.BinOp, denomF *types.Var) bool {
	refs := bo.Referrers()
	if refs == nil {
		return false
	}
	for _, r := range *refs {
		ifi, ok := r.(*ssa.If)
		if !ok {
			continue
		}
		b := ifi.Block().Succs[0]
		for steps := 0; steps < 8; steps++ {
			// scan block b: only loads/compares allowed before terminating If
			pure := true
			for _, in := range b.Instrs[:len(b.Instrs)-1] {
				switch in.(type) {
				case *ssa.UnOp, *ssa.BinOp, *ssa.FieldAddr, *ssa.Phi, *ssa.DebugRef:
				default:
					pure = false
				}
			}
			if !pure {
				return false
			}
			switch t := b.Instrs[len(b.Instrs)-1].(type) {
			case *ssa.If:
				cond := t.Cond
				if u, ok := cond.(*ssa.UnOp); ok && u.Op == token.NOT {
					cond = u.X
				}
				if f, _ := loadOfField(cond); f == denomF {
					return true
				}
				return false
			case *ssa.Jump:
				b = b.Succs[0]
			default:
				return false
			}
		}
	}
	return false
}

func c04R4(c *Ctx, p *Prog) {
	const R = "C04/R4"
	keyUnitF := p.Field("benchfmt", "UnitMetadataKey", "Unit")
	if keyUnitF == nil {
		c.Undecided(R, "anchor:UnitMetadataKey.Unit", "", "field not found")
		return
	}
	n := 0
	for _, fn := range p.Funcs("benchfmt") {
		for i, st := range storesToField(fn, keyUnitF) {
			n++
			key := fmt.Sprintf("%s:store UnitMetadataKey.Unit#%d", fnName(fn), i)
			ok := isTidyUnit(fn, st.Val, 0)
			c.Check(ok, R, key, p.pos(instrPos(st)), "metadata key uses Tidy's unit", "metadata key is built from a unit that did not pass through benchunit.Tidy: "+valStr(st.Val))
		}
	}
	c.Floor(R, "constructions of UnitMetadataKey in package benchfmt", n, 2)
}

func c04R5(c *Ctx, p *Prog) { c04UnitTerm(c, p, "C04/R5") }

func c04UnitTerm(c *Ctx, p *Prog, R string) {
	// The per-measurement decision of the .unit term, as a truth table: with Mu = the term matches the base unit,
	// Mo = it matches the unit as written and G = a written unit is present (OrigUnit != ""), the measurement's bit
	// is set exactly when Mu || (G && Mo). Read from the path conditions of one loop iteration (helpers evaluated in
	// place), so the statement form does not matter.
	n := 0
	inl := func(f *ssa.Function) bool {
		return f.Pkg != nil && f.Pkg.Pkg.Path() == bprocPkg && f.Name() != "set" && len(naturalLoops(f)) == 0 && len(f.Blocks) <= 12
	}
	classify := func(s *Sym) string {
		str := s.String()
		switch {
		case s.Op == "call" && strings.Contains(s.Name, "FilterMatch).Match") && strings.Contains(str, ".OrigUnit"):
			return "Mo"
		case s.Op == "call" && strings.Contains(s.Name, "FilterMatch).Match") && strings.Contains(str, ".Unit"):
			return "Mu"
		case s.Op == "binop" && (s.Tok == token.EQL || s.Tok == token.NEQ) && strings.Contains(s.Args[0].String(), ".OrigUnit") && s.Args[1].isConst() && s.Args[1].String() == "\"\"":
			if s.Tok == token.EQL {
				return "!G"
			}
			return "G"
		}
		return ""
	}
	for _, fn := range p.Funcs("benchproc") {
		for _, lp := range naturalLoops(fn) {
			start := loopBodyStart(lp)
			if start == nil {
				continue
			}
			mk := func() *e6Interp {
				return &e6Interp{PureCall: func(f *types.Func) bool { return f.Name() != "set" }, Inline: inl, MaxAtoms: 16}
			}
			outs, why := e6Enumerate(mk, start, lp.Header, iterStop(lp, start), 512)
			if why != "" {
				continue
			}
			relevant := false
			for _, o := range outs {
				for _, k := range o.AtomKeys() {
					if cl := classify(o.AtomSyms[k]); cl == "Mu" || cl == "Mo" {
						relevant = true
					}
				}
			}
			if !relevant {
				continue
			}
			n++
			site := p.pos(fn.Pos())
			key := fnName(fn) + ":unit-match"
			bad := ""
			for _, o := range outs {
				val := map[string]*bool{}
				for _, k := range o.AtomKeys() {
					v := o.Assign[k]
					_ = v
					vv := v
					switch cl := classify(o.AtomSyms[k]); cl {
					case "Mu", "Mo", "G":
						val[cl] = &vv
					case "!G":
						nv := !v
						val["G"] = &nv
					case "":
						// loop bookkeeping (index < len) is fine; anything about the measurement is not
						if str := o.AtomSyms[k].String(); strings.Contains(str, ".Orig") || strings.Contains(str, ".Unit") || strings.Contains(str, ".Value") {
							bad = "whether the unit as written is consulted depends on " + truncate(k, 100) + " rather than on OrigUnit being non-empty: a zero-valued measurement written in ns/op or MB/s is then not selected by .unit:ns/op (and wrongly kept by its negation)"
						}
					}
				}
				sets := false
				for _, a := range o.Actions {
					if a.Kind == "call" && a.Callee != nil && a.Callee.Name() == "set" {
						sets = true
					}
				}
				// three-valued evaluation of Mu || (G && Mo)
				tv := func(x *bool) int {
					if x == nil {
						return -1
					}
					if *x {
						return 1
					}
					return 0
				}
				and := func(a, b int) int {
					if a == 0 || b == 0 {
						return 0
					}
					if a == 1 && b == 1 {
						return 1
					}
					return -1
				}
				or := func(a, b int) int {
					if a == 1 || b == 1 {
						return 1
					}
					if a == 0 && b == 0 {
						return 0
					}
					return -1
				}
				// every measurement is judged: no step of the loop leaves it
				if bad == "" && !(o.Term == "exit" && o.Exit == lp.Header) {
					bad = fmt.Sprintf("on the path %s the loop over the measurements is left before the last one: a result that carries the same unit twice (ns/op and sec/op, MB/s and B/s after normalisation) has its later measurement neither selected nor dropped by the term", truncate(o.AssignStr(), 160))
				}
				spec := or(tv(val["Mu"]), and(tv(val["G"]), tv(val["Mo"])))
				if bad == "" && (spec == -1 || (spec == 1) != sets) {
					bad = fmt.Sprintf("on the path %s the measurement's bit is set=%v, but 'matches the base unit, or a written unit is present and matches' is %s there: the term must select a measurement by either of its two unit names", truncate(o.AssignStr(), 160), sets, map[int]string{-1: "not determined", 0: "false", 1: "true"}[spec])
				}
			}
			c.Check(bad == "", R, key, site, "the bit is set exactly when the base unit matches or a present written unit matches", bad)
		}
	}
	c.Floor(R, "unit-matching loops", n, 1)
}

// trueTarget follows the true edge of the If testing call's result through jump-only blocks.
func trueTarget(call *ssa.Call) *ssa.BasicBlock {
	refs := call.Referrers()
	if refs == nil {
		return nil
	}
	for _, r := range *refs {
		if ifi, ok := r.(*ssa.If); ok {
			b := ifi.Block().Succs[0]
			for len(b.Instrs) == 1 {
				if _, ok := b.Instrs[0].(*ssa.Jump); !ok {
					break
				}
				b = b.Succs[0]
			}
			return b
		}
	}
	return nil
}

func hasCallOnMask(b *ssa.BasicBlock) bool {
	for _, in := range b.Instrs {
		if call, ok := in.(*ssa.Call); ok {
			if co := calleeObj(&call.Call); co != nil {
				if sig := co.Type().(*types.Signature); sig.Recv() != nil && recvName(sig.Recv().Type()) == "mask" {
					return true
				}
			}
		}
	}
	return false
}

func c04R6(c *Ctx, p *Prog) {
	const R = "C04/R6"
	sites := findMemoSites(p.Funcs("benchunit", "benchfmt", "benchproc"))
	unitF := p.Field("benchfmt", "Value", "Unit")
	origUnitF := p.Field("benchfmt", "Value", "OrigUnit")
	n := checkMemoSites(c, p, R, sites, func(s memoSite) bool {
		if strings.Contains(s.Memo, "benchunit.") {
			return true
		}
		// memos in functions that read a measurement's units
		uses := false
		eachInstr(s.Fn, func(_ *ssa.BasicBlock, in ssa.Instruction) {
			if fa, ok := in.(*ssa.FieldAddr); ok {
				if f, _ := fieldOfAddr(fa); f == unitF || f == origUnitF {
					uses = true
				}
			}
		})
		return uses
	})
	c.Floor(R, "cache stores on the tidy path", n, 1)

	// R7: denominator tokens are skipped, the loop goes on.
	denomF := p.Field("benchunit", "parser", "denom")
	tokF := p.Field("benchunit", "parser", "tok")
	nLoops := 0
	for _, fn := range staticReach([]*ssa.Function{p.Fn("benchunit", "Tidy")}, tidyPkg) {
		for _, lp := range naturalLoops(fn) {
			// loops whose body compares the token with constants
			cmp := false
			for b := range lp.Blocks {
				for _, in := range b.Instrs {
					if bo, ok := in.(*ssa.BinOp); ok && bo.Op == token.EQL && isString(bo.X.Type()) {
						if f, _ := loadOfField(bo.X); f == tokF {
							cmp = true
						}
					}
				}
			}
			if !cmp {
				continue
			}
			nLoops++
			start := loopBodyStart(lp)
			key := fnName(fn) + ":denominator-skip"
			site := p.pos(fn.Pos())
			if start == nil {
				c.Undecided("C04/R7", key, site, "loop shape not recognised")
				continue
			}
			outs, why := e6Enumerate(func() *e6Interp { return &e6Interp{} }, start, lp.Header, iterStop(lp, start), 128)
			if why != "" {
				c.Undecided("C04/R7", key, site, why)
				continue
			}
			seen := false
			ok := true
			detail := ""
			for _, o := range outs {
				for _, k := range o.AtomKeys() {
					v := o.Assign[k]
					_ = v
					if o.AtomSyms[k].IsFieldLoad(denomF) && v {
						seen = true
						if !(o.Term == "exit" && o.Exit == lp.Header) {
							ok = false
							detail = "a denominator token ends the rewrite loop: numerator components after it (a/b*ns) are neither renamed nor scaled"
						}
						// loop-carried values unchanged
						for _, in := range lp.Header.Instrs {
							if phi, isPhi := in.(*ssa.Phi); isPhi && o.ExitFrom != nil {
								for i, pr := range lp.Header.Preds {
									if pr == o.ExitFrom && o.Val(phi.Edges[i]).String() != o.Val(phi).String() {
										ok = false
										detail = "a denominator token changes " + phi.Comment
									}
								}
							}
						}
					}
				}
			}
			if !seen {
				c.Undecided("C04/R7", key, site, "the loop never tests the denominator flag")
				continue
			}
			c.Check(ok, "C04/R7", key, site, "denominator tokens are skipped and the loop continues", detail)
		}
	}
	c.Floor("C04/R7", "rewrite loops", nLoops, 1)
}

func memDump(o *e6Outcome) string {
	var ks []string
	for k, v := range o.Mem {
		ks = append(ks, k+" := "+truncate(v.String(), 100))
	}
	sort.Strings(ks)
	return strings.Join(ks, " ; ")
}

// isTidyUnit: v is the unit result of benchunit.Tidy, directly or as the result of a function of the package every
// return of which yields Tidy's unit (a wrapper such as tidyUnitName).
func isTidyUnit(fn *ssa.Function, v ssa.Value, depth int) bool {
	if depth > 3 {
		return false
	}
	for _, tc := range callsIn(fn, tidyPkg, "", "Tidy") {
		if extractOf(v, tc.Value(), 1) {
			return true
		}
	}
	if call, ok := v.(*ssa.Call); ok {
		if h := call.Call.StaticCallee(); h != nil && h.Blocks != nil && h.Pkg == fn.Pkg && h.Signature.Results().Len() == 1 {
			all := true
			n := 0
			for _, b := range h.Blocks {
				if ret, ok := b.Instrs[len(b.Instrs)-1].(*ssa.Return); ok {
					n++
					if !isTidyUnit(h, retVal(ret, 0), depth+1) {
						all = false
					}
				}
			}
			return all && n > 0
		}
	}
	return false
}

type c04TableRow struct {
	key, unit string
	factor    *big.Rat
	pos       token.Pos
}

// c04FastTable: `if e, ok := table[param]; ok { return e.f1, e.f2 }` with table a package-level map from string to a
// struct of one string and one float, initialised by a composite literal of constants and only ever read by indexing.
// Returns the rows of the literal; why != "" when the statement has this shape but a part cannot be read.
func c04FastTable(pk *packages.Package, fn *ssa.Function, ifs *ast.IfStmt) (rows []c04TableRow, why string) {
	info := pk.TypesInfo
	as, ok := ifs.Init.(*ast.AssignStmt)
	if !ok || len(as.Lhs) != 2 || len(as.Rhs) != 1 {
		return nil, ""
	}
	ix, ok := as.Rhs[0].(*ast.IndexExpr)
	if !ok {
		return nil, ""
	}
	tid, ok := ix.X.(*ast.Ident)
	if !ok {
		return nil, ""
	}
	tv, ok := info.Uses[tid].(*types.Var)
	if !ok || tv.Parent() != pk.Types.Scope() {
		return nil, ""
	}
	mt, ok := tv.Type().Underlying().(*types.Map)
	if !ok || !isString(mt.Key()) {
		return nil, ""
	}
	// indexed by a parameter of the function
	pid, ok := ix.Index.(*ast.Ident)
	if !ok {
		return nil, ""
	}
	isParam := false
	for i := 0; i < fn.Signature.Params().Len(); i++ {
		if info.Uses[pid] == fn.Signature.Params().At(i) {
			isParam = true
		}
	}
	if !isParam {
		return nil, ""
	}
	st, ok := mt.Elem().Underlying().(*types.Struct)
	if !ok {
		return nil, ""
	}
	strF, numF := -1, -1
	for i := 0; i < st.NumFields(); i++ {
		switch {
		case isString(st.Field(i).Type()) && strF < 0:
			strF = i
		case isFloat(st.Field(i).Type()) && numF < 0:
			numF = i
		default:
			return nil, "the fast-path table's rows have more than one text and one factor"
		}
	}
	if strF < 0 || numF < 0 {
		return nil, ""
	}
	// the guarded body returns the row's text and factor, in the order of the function's results
	okID, _ := as.Lhs[1].(*ast.Ident)
	condID, _ := ifs.Cond.(*ast.Ident)
	eID, _ := as.Lhs[0].(*ast.Ident)
	if okID == nil || condID == nil || eID == nil || info.Uses[condID] != info.Defs[okID] {
		return nil, "the fast-path table lookup is not guarded by its own ok result"
	}
	good := false
	for _, s := range ifs.Body.List {
		rs, ok := s.(*ast.ReturnStmt)
		if !ok || len(rs.Results) != 2 {
			continue
		}
		a, ok1 := rs.Results[0].(*ast.SelectorExpr)
		b, ok2 := rs.Results[1].(*ast.SelectorExpr)
		if !ok1 || !ok2 {
			continue
		}
		ax, _ := a.X.(*ast.Ident)
		bx, _ := b.X.(*ast.Ident)
		if ax == nil || bx == nil || info.Uses[ax] != info.Defs[eID] || info.Uses[bx] != info.Defs[eID] {
			continue
		}
		if info.Uses[a.Sel] == st.Field(strF) && info.Uses[b.Sel] == st.Field(numF) {
			good = true
		}
	}
	if !good {
		return nil, "the fast-path table lookup does not return the row's text and factor"
	}
	// every other use of the table in the package is a read by indexing
	for id, obj := range info.Uses {
		if obj != tv || id == tid {
			continue
		}
		readOnly := false
		for _, f := range pk.Syntax {
			if f.Pos() <= id.Pos() && id.Pos() < f.End() {
				path, _ := astutil.PathEnclosingInterval(f, id.Pos(), id.End())
				if len(path) >= 2 {
					if ie, ok := path[1].(*ast.IndexExpr); ok && ie.X == ast.Expr(id) {
						readOnly = true
						if len(path) >= 3 {
							if as2, ok := path[2].(*ast.AssignStmt); ok {
								for _, l := range as2.Lhs {
									if l == ast.Expr(ie) {
										readOnly = false
									}
								}
							}
							if _, ok := path[2].(*ast.IncDecStmt); ok {
								readOnly = false
							}
						}
					}
				}
			}
		}
		if !readOnly {
			return nil, "the fast-path table " + tv.Name() + " is used other than by reading an entry: its rows cannot be taken from its initialiser"
		}
	}
	// the initialiser
	var lit *ast.CompositeLit
	for _, f := range pk.Syntax {
		for _, d := range f.Decls {
			gd, ok := d.(*ast.GenDecl)
			if !ok {
				continue
			}
			for _, sp := range gd.Specs {
				vs, ok := sp.(*ast.ValueSpec)
				if !ok {
					continue
				}
				for i, nm := range vs.Names {
					if info.Defs[nm] == tv && i < len(vs.Values) {
						lit, _ = vs.Values[i].(*ast.CompositeLit)
					}
				}
			}
		}
	}
	if lit == nil {
		return nil, "the fast-path table " + tv.Name() + " is not initialised by a literal"
	}
	for _, el := range lit.Elts {
		kv, ok := el.(*ast.KeyValueExpr)
		if !ok {
			return nil, "unreadable row in " + tv.Name()
		}
		ktv := info.Types[kv.Key]
		rl, ok := kv.Value.(*ast.CompositeLit)
		if ktv.Value == nil || !ok {
			return nil, "unreadable row in " + tv.Name()
		}
		row := c04TableRow{key: constant.StringVal(ktv.Value), pos: kv.Pos()}
		for i, fe := range rl.Elts {
			fi := i
			val := fe
			if fkv, ok := fe.(*ast.KeyValueExpr); ok {
				val = fkv.Value
				fi = -1
				if id, ok := fkv.Key.(*ast.Ident); ok {
					for j := 0; j < st.NumFields(); j++ {
						if info.Uses[id] == st.Field(j) {
							fi = j
						}
					}
				}
			}
			vtv := info.Types[val]
			if vtv.Value == nil {
				return nil, "row " + row.key + " of " + tv.Name() + " is not constant"
			}
			switch fi {
			case strF:
				row.unit = constant.StringVal(vtv.Value)
			case numF:
				row.factor = ratOfConst(vtv.Value)
			}
		}
		if row.factor == nil {
			return nil, "row " + row.key + " of " + tv.Name() + " has no factor"
		}
		rows = append(rows, row)
	}
	return rows, ""
}
