// c15.go: C15 — benchstat output depends only on its inputs, under every schedule.
package main

import (
	"fmt"
	"go/token"
	"go/types"
	"sort"
	"strings"

	"golang.org/x/tools/go/ssa"
)

func init() { register("C15", checkC15) }

var c15Pkgs = []string{"cmd/benchstat", "cmd/benchstat/internal/benchtab", "cmd/benchstat/internal/texttab", "benchproc", "benchproc/internal/parse", "benchfmt", "benchmath", "benchunit", "benchfmt/internal/bytesconv"}

// external (non-standard-library) packages whose bodies are analysed too: the statistics library the goroutines call into
var c15Ext = []string{"github.com/aclements/go-moremath/stats", "github.com/aclements/go-moremath/mathx", "github.com/aclements/go-moremath/vec"}

func checkC15(c *Ctx) {
	c.Rule("C15/R1", "map order: every range over a map reachable from the benchstat command is order-independent by the E5 classification; the one reviewed order-sensitive loop (intern-table eviction) carries a side obligation that makes its result independent of the choice")
	c.Rule("C15/R2", "join discipline: for every go statement the WaitGroup is incremented before it, the body calls Done and releases the limiter on every path, and a Wait lies on every path from the go statement to the function's return and to any later go statement")
	c.Rule("C15/R3", "disjoint writes: inside goroutine bodies every write to non-local memory targets a field of an object owned by that iteration (the cell created fresh per key, its fresh Sample, the per-column summary); no field written by the bodies is read through a link to another iteration's object (Baseline); shared lazily-built state is written only under sync.Once / sync.Map")
	c.Rule("C15/R4", "no ambient nondeterminism: nothing reachable from the command reads the clock, process identity or an unseeded random source; the hash seed of key interning only feeds a map that is never ranged")
	c.Rule("C15/R5", "order-insensitive consumption: a cell's collected values are read only by the sample constructor, which sorts them")
	c.Rule("C15/R6", "the key comparison is total (same decision table as C09/R2), so the unstable sort is deterministic")

	var pats []string
	for _, r := range c15Pkgs {
		pats = append(pats, "./"+r)
	}
	c.Rule("C15/R7", "where a measurement lands does not depend on the lines before it: in Builder.Add every value is appended to the cell looked up (or created) under that measurement's own table key and the result's (row, column) key — no shortcut through cells remembered from an earlier call (same rule as C14/R2)")
	c.Rule("C15/R8", "sorted key order cannot silently degrade to map order: flattened-field cache invariant (same rule as C09/R10)")
	c.Rule("C15/R10", "key identity (shared with C08/R1 and C14/R6): interning hashes, compares and stores one trimmed row, so equal value tuples give one key — two keys with identical values would make tables and rows appear twice, in hash-map order")
	c.Rule("C15/R16", "a cell's warning is computed from all of its residues: NonSingularFields is handed the collected key list itself, not a selection of it")
	c.Rule("C15/R17", "comparing does not change the order (same rule as C09/R14): no comparator stored into Field.cmp writes state it captured — the per-cell goroutines sort with the same comparators")
	c.Rule("C15/R15", "what a cell warns about does not depend on arrival order: every measurement's residue is recorded (same rule as C14/R14), so the set the footnote is computed from is the same for every permutation of the input")
	c.Rule("C15/R14", "the value comparators are orders (same rule as C09/R3): numbers before non-numbers, NaN placed consistently, so the sorted key order does not depend on the arrangement the map iteration happened to produce")
	c.Rule("C15/R13", "the concurrency limiter always admits someone: the capacity of every channel the table builder makes, evaluated with GOMAXPROCS = 1, 2 and 64, is at least 1 (a token is put in before the goroutine that takes it out exists, so capacity 0 blocks for ever)")
	c.Rule("C15/R12", "a goroutine started in a loop sees its own iteration's values: no closure started as a goroutine inside a loop (directly or through the spawn helper) captures a variable that is declared outside that loop and assigned inside it")
	c.Rule("C15/R11", "runs do not talk to each other through package-level variables: nothing reachable from the command writes a package-level variable of the module after package initialisation (direct stores, and stores through a pointer taken to one), apart from the reviewed list")
	c.Rule("C15/R9", "process-wide caches are keyed by every input of the memoised call, verbatim (same rule as C13/R4, over every function reachable from the command): otherwise what an earlier in-process run asked for leaks into a later run's output")
	p := mustLoad(c, loadOpts{deep: true}, pats...)
	fns := p.Funcs(append(append([]string{}, c15Pkgs...), c15Ext...)...)
	eff := newEffects(p, fns)
	reach := c15Reach(p, eff, fns)
	c.extra["functions_reachable_from_benchstat"] = len(reach)

	c15Wrappers = findWrappers(p.Funcs(c15Pkgs...))
	c15Maps(c, p, eff, reach)
	c15Goroutines(c, p, eff)
	c15Ambient(c, p, eff, reach)
	c15Consumption(c, p)
	// R6
	fieldT := p.Named("benchproc", "Field")
	idxF := p.Field("benchproc", "Field", "idx")
	for _, fn := range p.Funcs("benchproc") {
		sig := fn.Signature
		if sig.Recv() == nil && sig.Params().Len() == 3 && sig.Results().Len() == 1 && isSliceOfPtr(sig.Params().At(0).Type(), fieldT) && isStringSlice(sig.Params().At(1).Type()) {
			c09LessTable(c, p, fn, idxF, "C15/R6")
		}
	}
	c14Add(c, p, "C15/R7")
	c09FlatInvariant(c, p, "C15/R8")
	c08InternAs(c, p, "C15/R10")
	// R11: a run leaves no mark on package-level state that a later run in the same process reads
	c15Globals(c, p, eff, reach)
	c15LoopCaptures(c, p, "C15/R12")
	c15Limiter(c, p)
	c.Under("C09/R3", "C15/R14", func() { c09Comparators(c, p) })
	c.Under("C14/R14", "C15/R15", func() { c14ResidueRecorded(c, p) })
	c15WholeResidue(c, p, "C15/R16")
	c09ComparatorsReadOnly(c, p, "C15/R17")
	// R9: process-wide caches on the command's path cannot carry one run's arguments into the next
	var memoFns []*ssa.Function
	for _, fn := range p.Funcs(c15Pkgs...) {
		if reach[fn] {
			memoFns = append(memoFns, fn)
		}
	}
	nm := checkMemoSites(c, p, "C15/R9", findMemoSites(memoFns), func(s memoSite) bool {
		// process-wide tables only: a map captured by a closure lives and dies with one call
		return s.Kind == "global-map" || s.Kind == "sync.Map"
	})
	c.Floor("C15/R9", "memo stores reachable from the command", nm, 1)
}

// c15Reach: functions reachable from the benchstat command (static calls, closures, interface implementations, function values).
func c15Reach(p *Prog, eff *effects, fns []*ssa.Function) map[*ssa.Function]bool {
	reach := map[*ssa.Function]bool{}
	var work []*ssa.Function
	add := func(f *ssa.Function) {
		if f != nil && !reach[f] && eff.sums[f] != nil {
			reach[f] = true
			work = append(work, f)
		}
	}
	for _, f := range p.Funcs("cmd/benchstat") {
		add(f)
	}
	// package initialisers of everything linked in
	for _, f := range fns {
		if f.Name() == "init" && f.Parent() == nil {
			add(f)
		}
	}
	for len(work) > 0 {
		f := work[len(work)-1]
		work = work[:len(work)-1]
		eachInstr(f, func(_ *ssa.BasicBlock, in ssa.Instruction) {
			switch x := in.(type) {
			case ssa.CallInstruction:
				cc := x.Common()
				if sc := cc.StaticCallee(); sc != nil {
					add(sc)
				} else if cc.IsInvoke() {
					for _, im := range eff.implsAt(x) {
						add(im)
					}
				} else {
					for _, im := range eff.fnTargetsAt(x) {
						add(im)
					}
				}
			case *ssa.MakeClosure:
				add(x.Fn.(*ssa.Function))
			}
			var ops []*ssa.Value
			for _, o := range in.Operands(ops) {
				if fn, ok := (*o).(*ssa.Function); ok {
					add(fn)
				}
			}
		})
	}
	return reach
}

func c15Maps(c *Ctx, p *Prog, eff *effects, reach map[*ssa.Function]bool) {
	const R = "C15/R1"
	var fl []*ssa.Function
	for f := range reach {
		fl = append(fl, f)
	}
	sort.Slice(fl, func(i, j int) bool { return fl[i].String() < fl[j].String() })
	n := 0
	for _, fn := range fl {
		for _, mr := range classifyMapRanges(p, eff, fn) {
			n++
			if len(mr.Reasons) == 0 {
				c.OK(R, mr.Key, p.pos(mr.Pos), "order-independent: "+strings.Join(mr.Pattern, ", "))
				continue
			}
			// reviewed allow-list: keyed by function (role: the reader's intern table eviction)
			if fnName(fn) == "(*benchfmt.Reader).intern" {
				if ok, why := internSideObligation(p, fn); ok {
					c.Allow(R, fnName(fn), "evicts an arbitrary entry of the intern table; side obligation: every return is a string equal to the argument and the only insertion maps a string to itself")
					c.OK(R, mr.Key, p.pos(mr.Pos), "order-sensitive eviction, allow-listed: the function returns a string equal to its argument whichever entry is evicted")
				} else {
					c.Bad(R, mr.Key, p.pos(mr.Pos), "the intern-table eviction is order-sensitive and its side obligation no longer holds: "+why)
				}
				continue
			}
			c.Bad(R, mr.Key, p.pos(mr.Pos), "benchstat's result depends on map iteration order: "+mr.Reasons[0], mr.Reasons...)
		}
	}
	c.Floor(R, "map ranges reachable from the command", n, 5)
}

// internSideObligation: every return of fn is either the value found in the table under string(arg) or string(arg) itself,
// and the only insertion into the table stores a string under itself.
func internSideObligation(p *Prog, fn *ssa.Function) (bool, string) {
	if len(fn.Params) < 2 {
		return false, "unexpected signature"
	}
	arg := fn.Params[1]
	isConvOfArg := func(v ssa.Value) bool {
		cv, ok := v.(*ssa.Convert)
		return ok && cv.X == arg
	}
	for _, b := range fn.Blocks {
		ret, ok := b.Instrs[len(b.Instrs)-1].(*ssa.Return)
		if !ok {
			continue
		}
		v := retVal(ret, 0)
		if isConvOfArg(v) {
			continue
		}
		if ex, ok := v.(*ssa.Extract); ok && ex.Index == 0 {
			if lk, ok := ex.Tuple.(*ssa.Lookup); ok && isConvOfArg(lk.Index) {
				continue
			}
		}
		return false, "a return value is neither the interned string for the argument nor a copy of the argument"
	}
	okIns := true
	eachInstr(fn, func(_ *ssa.BasicBlock, in ssa.Instruction) {
		if mu, ok := in.(*ssa.MapUpdate); ok {
			if mu.Key != mu.Value || !isConvOfArg(mu.Key) {
				okIns = false
			}
		}
	})
	if !okIns {
		return false, "the table is filled with something other than string(arg) -> string(arg)"
	}
	return true, ""
}

// ---- goroutines ----

type goSite struct {
	fn      *ssa.Function   // where the fan-out site is (for a wrapper: the wrapper's caller)
	goInstr ssa.Instruction // the go statement, or the call of the spawning wrapper
	closure *ssa.Function   // the body that runs concurrently
	mc      *ssa.MakeClosure
	wrap    *wrapInfo // non-nil when the go statement itself sits in a wrapper that runs a function value it is given
}

// wrapInfo describes a spawning wrapper: a function S with a func() parameter whose only go statement runs a closure
// that calls that parameter (spawn := func(f func()) { limit <- ...; wg.Add(1); go func() { f(); <-limit; wg.Done() }() }).
type wrapInfo struct {
	fn       *ssa.Function
	goInstr  *ssa.Go
	inner    *ssa.Function
	innerMC  *ssa.MakeClosure
	paramIdx int
}

// c15Wrappers is filled by c15Goroutines and consulted by the map-range classification (a call of a wrapper in a
// loop body is a go statement of the function value passed to it).
var c15Wrappers = map[*ssa.Function]*wrapInfo{}

func findWrappers(fns []*ssa.Function) map[*ssa.Function]*wrapInfo {
	out := map[*ssa.Function]*wrapInfo{}
	for _, S := range fns {
		var gos []*ssa.Go
		eachInstr(S, func(_ *ssa.BasicBlock, in ssa.Instruction) {
			if g, ok := in.(*ssa.Go); ok {
				gos = append(gos, g)
			}
		})
		if len(gos) != 1 {
			continue
		}
		mc, ok := gos[0].Call.Value.(*ssa.MakeClosure)
		if !ok {
			continue
		}
		G := mc.Fn.(*ssa.Function)
		idx := -1
		eachInstr(G, func(_ *ssa.BasicBlock, in ssa.Instruction) {
			call, ok := in.(*ssa.Call)
			if !ok || call.Call.IsInvoke() || call.Call.StaticCallee() != nil {
				return
			}
			if _, isB := call.Call.Value.(*ssa.Builtin); isB {
				return
			}
			// the callee value: a load of a captured slot that holds one of S's parameters
			la := loadAddr(call.Call.Value)
			fv, ok := la.(*ssa.FreeVar)
			if !ok {
				return
			}
			for i, f := range G.FreeVars {
				if f != fv {
					continue
				}
				al, ok := mc.Bindings[i].(*ssa.Alloc)
				if !ok {
					continue
				}
				for _, r := range *al.Referrers() {
					if st, ok := r.(*ssa.Store); ok && st.Addr == al {
						for k, prm := range S.Params {
							if st.Val == prm {
								idx = k
							}
						}
					}
				}
			}
		})
		if idx >= 0 {
			out[S] = &wrapInfo{fn: S, goInstr: gos[0], inner: G, innerMC: mc, paramIdx: idx}
		}
	}
	return out
}

func c15Goroutines(c *Ctx, p *Prog, eff *effects) {
	var sites []goSite
	fns := p.Funcs(c15Pkgs...)
	wrappers := findWrappers(fns)
	c15Wrappers = wrappers
	for _, fn := range fns {
		eachInstr(fn, func(_ *ssa.BasicBlock, in ssa.Instruction) {
			switch g := in.(type) {
			case *ssa.Go:
				if wrappers[fn] != nil && wrappers[fn].goInstr == g {
					return // judged at each call of the wrapper
				}
				gs := goSite{fn: fn, goInstr: g}
				if mc, ok := g.Call.Value.(*ssa.MakeClosure); ok {
					gs.mc = mc
					gs.closure = mc.Fn.(*ssa.Function)
				} else if sc := g.Call.StaticCallee(); sc != nil {
					gs.closure = sc
				}
				sites = append(sites, gs)
			case *ssa.Call:
				w := wrappers[g.Call.StaticCallee()]
				if w == nil {
					return
				}
				gs := goSite{fn: fn, goInstr: g, wrap: w}
				args := g.Call.Args
				if w.paramIdx < len(args) {
					if mc, ok := stripConv(args[w.paramIdx]).(*ssa.MakeClosure); ok {
						gs.mc = mc
						gs.closure = mc.Fn.(*ssa.Function)
					} else if f, ok := stripConv(args[w.paramIdx]).(*ssa.Function); ok {
						gs.closure = f
					}
				}
				sites = append(sites, gs)
			}
		})
	}
	c.Floor("C15/R2", "go statements in scope", len(sites), 2)
	for i, gs := range sites {
		key := fmt.Sprintf("%s:go#%d", fnName(gs.fn), i+1)
		site := p.pos(gs.goInstr.Pos())
		if gs.closure == nil {
			c.Undecided("C15/R2", key, site, "go statement with a dynamic callee")
			continue
		}
		c15Join(c, p, gs, key, site, sites)
		c15Disjoint(c, p, eff, gs, key, site)
	}
}

func isWaitGroupCall(in ssa.Instruction, name string) (ssa.Value, bool) {
	ci, ok := in.(ssa.CallInstruction)
	if !ok {
		return nil, false
	}
	cc := ci.Common()
	if objIs(calleeObj(cc), "sync", "WaitGroup", name) {
		return cc.Args[0], true
	}
	return nil, false
}

// slotOf: the variable slot a value was loaded from (captured variables are loaded through their slot).
func slotOf(v ssa.Value) ssa.Value {
	if la := loadAddr(v); la != nil {
		return la
	}
	return v
}

// closureCtx: a closure function together with the MakeClosure that created it (to map captured variables outward).
type closureCtx struct {
	fn *ssa.Function
	mc *ssa.MakeClosure
}

// resolveOut maps a captured variable outward through the given closure creations (innermost first) to the slot in
// the outermost function.
func resolveOut(v ssa.Value, ctx []closureCtx) ssa.Value {
	for _, cx := range ctx {
		fv, ok := v.(*ssa.FreeVar)
		if !ok || cx.mc == nil {
			break
		}
		found := false
		for i, f := range cx.fn.FreeVars {
			if f == fv {
				v = cx.mc.Bindings[i]
				found = true
			}
		}
		if !found {
			break
		}
	}
	return v
}

// wgRoot identifies the WaitGroup object: an Alloc in the spawning function, possibly reached through a closure binding.
func wgRoot(v ssa.Value, gs *goSite) ssa.Value {
	if gs == nil {
		return v
	}
	return resolveOut(v, []closureCtx{{gs.closure, gs.mc}})
}

func c15Join(c *Ctx, p *Prog, gs goSite, key, site string, all []goSite) {
	const R = "C15/R2"
	// where the go statement is, which function must call Done, and how their captured variables map outward
	spawnFn, doneFn := gs.fn, gs.closure
	var spawnGo ssa.Instruction = gs.goInstr
	ctxDone := []closureCtx{{gs.closure, gs.mc}}
	var ctxSpawn []closureCtx
	if gs.wrap != nil {
		spawnFn, doneFn, spawnGo = gs.wrap.fn, gs.wrap.inner, gs.wrap.goInstr
		var wmc *ssa.MakeClosure
		if call, ok := gs.goInstr.(*ssa.Call); ok {
			wmc, _ = call.Call.Value.(*ssa.MakeClosure)
		}
		ctxDone = []closureCtx{{gs.wrap.inner, gs.wrap.innerMC}, {gs.wrap.fn, wmc}}
		ctxSpawn = []closureCtx{{gs.wrap.fn, wmc}}
	}
	// Done in the body on every path
	var wg ssa.Value
	doneOK := false
	var doneBlocks []*ssa.BasicBlock
	eachInstr(doneFn, func(b *ssa.BasicBlock, in ssa.Instruction) {
		if recv, ok := isWaitGroupCall(in, "Done"); ok {
			wg = resolveOut(recv, ctxDone)
			doneBlocks = append(doneBlocks, b)
			if _, isDefer := in.(*ssa.Defer); isDefer {
				doneOK = true
			}
		}
	})
	if wg == nil {
		c.Bad(R, key+":done", site, "the goroutine never calls WaitGroup.Done: nothing can wait for its writes")
		return
	}
	if !doneOK {
		doneOK = true
		for _, b := range doneFn.Blocks {
			if _, ok := b.Instrs[len(b.Instrs)-1].(*ssa.Return); ok {
				cov := false
				for _, d := range doneBlocks {
					if d.Dominates(b) {
						cov = true
					}
				}
				if !cov {
					doneOK = false
				}
			}
		}
	}
	c.Check(doneOK, R, key+":done", site, "Done is called on every path of the body", "some path through the goroutine body returns without calling Done: Wait would block forever or, worse, be satisfied by another goroutine's Done")
	// Add before go
	addOK := false
	eachInstr(spawnFn, func(_ *ssa.BasicBlock, in ssa.Instruction) {
		if recv, ok := isWaitGroupCall(in, "Add"); ok && resolveOut(recv, ctxSpawn) == wg && instrDominates(in, spawnGo) {
			addOK = true
		}
	})
	c.Check(addOK, R, key+":add", site, "WaitGroup.Add dominates the go statement", "the WaitGroup is not incremented before the goroutine starts: Wait can return before the goroutine has run")
	// limiter: a send on a channel before go, a receive from the same channel on every path of the body
	var sendCh ssa.Value
	eachInstr(spawnFn, func(_ *ssa.BasicBlock, in ssa.Instruction) {
		if sd, ok := in.(*ssa.Send); ok && instrDominates(in, spawnGo) && sd.Block() == spawnGo.Block() {
			sendCh = resolveOut(slotOf(sd.Chan), ctxSpawn)
		}
	})
	if sendCh != nil {
		recvOK := false
		var recvBlocks []*ssa.BasicBlock
		eachInstr(doneFn, func(b *ssa.BasicBlock, in ssa.Instruction) {
			if u, ok := in.(*ssa.UnOp); ok && u.Op == token.ARROW && resolveOut(slotOf(u.X), ctxDone) == sendCh {
				recvBlocks = append(recvBlocks, b)
			}
		})
		recvOK = len(recvBlocks) > 0
		for _, b := range doneFn.Blocks {
			if _, ok := b.Instrs[len(b.Instrs)-1].(*ssa.Return); ok {
				cov := false
				for _, d := range recvBlocks {
					if d.Dominates(b) {
						cov = true
					}
				}
				if !cov {
					recvOK = false
				}
			}
		}
		c.Check(recvOK, R, key+":limiter", site, "the body releases the limiter slot it was given on every path", "the goroutine does not release the concurrency limiter on every path: the fan-out deadlocks once the limit is reached")
	}
	// Wait on every path from go to return, and to any later go statement of another site
	var waits []*ssa.BasicBlock
	eachInstr(gs.fn, func(b *ssa.BasicBlock, in ssa.Instruction) {
		if recv, ok := isWaitGroupCall(in, "Wait"); ok && recv == wg {
			waits = append(waits, b)
		}
	})
	stop := map[*ssa.BasicBlock]bool{}
	for _, w := range waits {
		stop[w] = true
	}
	unjoined := reachFrom(gs.goInstr.Block(), stop)
	retOK := len(waits) > 0
	for b := range unjoined {
		if _, ok := b.Instrs[len(b.Instrs)-1].(*ssa.Return); ok {
			retOK = false
		}
	}
	c.Check(retOK, R, key+":wait-before-return", site, "every path from the go statement to the return passes Wait", "the function can return (and its caller read the tables) without waiting for this goroutine")
	// phases: a later go statement (a different body) must not be reachable from this one without passing Wait,
	// because its goroutines read what this phase's goroutines write
	for j, other := range all {
		if other.fn != gs.fn || other.goInstr == gs.goInstr || other.closure == gs.closure {
			continue
		}
		later := reachFrom(gs.goInstr.Block(), nil)[other.goInstr.Block()] && !reachFrom(other.goInstr.Block(), nil)[gs.goInstr.Block()]
		if !later {
			continue
		}
		c.Check(!unjoined[other.goInstr.Block()], R, fmt.Sprintf("%s:phase-barrier->go#%d", key, j+1), site, "a Wait separates this phase from the later go statement",
			"a later go statement is reachable from this one without an intervening Wait: its goroutines read results (cell summaries) that this phase may still be writing")
	}
}

// goReach: functions the goroutine body can execute, excluding closures passed to sync.Once.Do and what only they call.
func goReach(eff *effects, root *ssa.Function) map[*ssa.Function]bool {
	reach := map[*ssa.Function]bool{}
	var walk func(f *ssa.Function)
	walk = func(f *ssa.Function) {
		if f == nil || reach[f] || eff.sums[f] == nil {
			return
		}
		reach[f] = true
		eachInstr(f, func(_ *ssa.BasicBlock, in ssa.Instruction) {
			ci, ok := in.(ssa.CallInstruction)
			if !ok {
				if mc, ok := in.(*ssa.MakeClosure); ok {
					// closures handed to Once.Do are synchronised initialisers: skip them
					onceOnly := true
					for _, r := range *mc.Referrers() {
						if cc, ok := callIs(r, "sync", "Once", "Do"); !ok || cc == nil {
							onceOnly = false
						}
					}
					if !onceOnly {
						walk(mc.Fn.(*ssa.Function))
					}
				}
				return
			}
			cc := ci.Common()
			if sc := cc.StaticCallee(); sc != nil {
				walk(sc)
			} else if cc.IsInvoke() {
				for _, im := range eff.implsAt(ci) {
					walk(im)
				}
			} else if _, isMC := cc.Value.(*ssa.MakeClosure); !isMC {
				for _, im := range eff.fnTargetsAt(ci) {
					walk(im)
				}
			}
		})
	}
	walk(root)
	return reach
}

type fieldAccess struct {
	owner string // named struct type
	field string
	pos   token.Pos
	fn    *ssa.Function
}

func (a fieldAccess) String() string { return a.owner + "." + a.field }

// ownerOfField names the struct type declaring field f ("" for anonymous).
func ownerOfField(f *types.Var) string {
	if o := fieldOwner(f); o != nil {
		return o.Pkg().Name() + "." + o.Name()
	}
	return ""
}

// writesIn collects the fields written on non-fresh memory in the given functions.
func writesIn(fns map[*ssa.Function]bool) []fieldAccess {
	var out []fieldAccess
	add := func(fn *ssa.Function, addr ssa.Value, pos token.Pos) {
		fresh := true
		for _, r := range rootsOf(addr) {
			if r.Kind != rkLocal && r.Kind != rkConst {
				fresh = false
			}
		}
		if fresh {
			return
		}
		// innermost field on the address chain
		a := addr
		for {
			switch x := a.(type) {
			case *ssa.FieldAddr:
				f, _ := fieldOfAddr(x)
				out = append(out, fieldAccess{ownerOfField(f), f.Name(), pos, fn})
				return
			case *ssa.IndexAddr:
				a = x.X
				continue
			case *ssa.UnOp:
				if x.Op == token.MUL {
					a = x.X
					continue
				}
			}
			break
		}
		out = append(out, fieldAccess{"", "<" + strings.ReplaceAll(addr.Type().String(), modPath+"/", "") + ">", pos, fn})
	}
	for fn := range fns {
		eachInstr(fn, func(_ *ssa.BasicBlock, in ssa.Instruction) {
			switch x := in.(type) {
			case *ssa.Store:
				if al, ok := x.Addr.(*ssa.Alloc); ok && !al.Heap {
					return
				}
				add(fn, x.Addr, x.Pos())
			case *ssa.MapUpdate:
				add(fn, x.Map, x.Pos())
			case *ssa.Call:
				if b, ok := x.Call.Value.(*ssa.Builtin); ok && (b.Name() == "delete" || b.Name() == "copy") {
					add(fn, x.Call.Args[0], x.Pos())
				}
				if co := calleeObj(&x.Call); co != nil {
					if w, _, known := stdEffect(co, &x.Call); known {
						args := callArgs(&x.Call)
						for _, i := range w {
							if i < len(args) {
								add(fn, args[i], x.Pos())
							}
						}
					}
				}
			}
		})
	}
	return out
}

func c15Disjoint(c *Ctx, p *Prog, eff *effects, gs goSite, key, site string) {
	const R = "C15/R3"
	reach := goReach(eff, gs.closure)
	// owned types: pointees of per-iteration bindings (fresh per iteration or looked up under the range key),
	// plus pointer fields of those initialised from fresh constructors at the population site.
	owned := map[string]bool{}
	if gs.mc != nil {
		for i, b := range gs.mc.Bindings {
			t := gs.closure.FreeVars[i].Type()
			// bindings are slots (*T); the captured variable has type T
			if pt, ok := t.(*types.Pointer); ok {
				t = pt.Elem()
			}
			if pt, ok := t.(*types.Pointer); ok {
				if nt, ok := pt.Elem().(*types.Named); ok {
					if perIterationBinding(b, gs) {
						owned[nt.Obj().Pkg().Name()+"."+nt.Obj().Name()] = true
					}
				}
			}
			if nt, ok := t.(*types.Named); ok { // captured struct variable declared inside the loop (var s TableSummary)
				if perIterationBinding(b, gs) {
					owned[nt.Obj().Pkg().Name()+"."+nt.Obj().Name()] = true
				}
			}
		}
	}
	// ownership through fields: TableCell.Sample is a fresh Sample per cell when the population site says so
	for _, ext := range ownedThroughFreshFields(p, owned) {
		owned[ext] = true
	}
	var ow []string
	for k := range owned {
		ow = append(ow, k)
	}
	sort.Strings(ow)
	sum := eff.sums[gs.closure]
	wset := map[string]bool{}
	bad := 0
	ownedField := func(label string) bool {
		i := strings.LastIndex(label, ".")
		return i > 0 && owned[label[:i]]
	}
	if gs.mc != nil && sum != nil {
		for j, b := range gs.mc.Bindings {
			var labels []string
			for l := range sum.FreeFields[j] {
				labels = append(labels, l)
			}
			sort.Strings(labels)
			for _, l := range labels {
				wset[l] = true
				if perIterationBinding(b, gs) && (ownedField(l) || strings.HasPrefix(l, "<")) {
					continue
				}
				bad++
				c.Bad(R, fmt.Sprintf("%s:writes %s via %s", key, l, gs.closure.FreeVars[j].Name()), site,
					fmt.Sprintf("the goroutine body writes %s through captured variable %s, which is not an object owned by this iteration (owned types: %v): concurrent goroutines reach the same object, so this is a data race and the result depends on the schedule", l, gs.closure.FreeVars[j].Name(), ow))
			}
		}
		var loose []string
		for l := range sum.LooseFields {
			loose = append(loose, l)
		}
		sort.Strings(loose)
		for _, l := range loose {
			wset[l] = true
			if ownedField(l) {
				continue
			}
			bad++
			c.Bad(R, fmt.Sprintf("%s:writes %s", key, l), site,
				fmt.Sprintf("the goroutine body writes %s on an object reached through copied pointers (not owned by this iteration; owned types: %v): the same object is reachable from other goroutines, so unless the write is inside sync.Once.Do or goes through a sync.Map it is a data race", l, ow))
		}
	}
	var wl []string
	for k := range wset {
		wl = append(wl, k)
	}
	sort.Strings(wl)
	if bad == 0 {
		c.OK(R, key+":writes-owned", site, fmt.Sprintf("%d functions reachable; writes %v all on objects owned by the iteration %v", len(reach), wl, ow))
	}
	// reads through links to other iterations' objects: loads of pointer fields of owned types that point to owned types
	shared := sharedReads(reach, owned)
	var conflicts []string
	for _, r := range shared {
		if wset[r.String()] {
			conflicts = append(conflicts, fmt.Sprintf("%s (read at %s through another iteration's object)", r, p.pos(r.pos)))
		}
	}
	sort.Strings(conflicts)
	c.Check(len(conflicts) == 0, R, key+":no-cross-reads", site, fmt.Sprintf("%d field reads through links to other iterations' objects; none of those fields is written by the bodies", len(shared)),
		"a field that the goroutine bodies write is also read through a link to another iteration's object: "+strings.Join(conflicts, "; ")+": the value seen depends on the interleaving")
	// package-level state
	if s := eff.sums[gs.closure]; s != nil && len(s.WritesGlobal) > 0 {
		c.Bad(R, key+":globals", site, fmt.Sprintf("the goroutine body writes package-level state %v without sync.Map / sync.Once", s.WritesGlobal))
	} else {
		c.OK(R, key+":globals", site, "no unsynchronised write to package-level state")
	}
}

// perIterationBinding: the captured variable is declared inside the loop that contains the go statement
// (a fresh slot per iteration), holding either a fresh object or the element looked up under the range key/index.
func perIterationBinding(b ssa.Value, gs goSite) bool {
	al, ok := b.(*ssa.Alloc)
	if !ok {
		return false
	}
	// the innermost loop containing the go statement
	var inner *loopInfo
	for _, lp := range naturalLoops(gs.fn) {
		if lp.Blocks[gs.goInstr.Block()] && (inner == nil || len(lp.Blocks) < len(inner.Blocks)) {
			inner = lp
		}
	}
	return inner != nil && inner.Blocks[al.Block()]
}

// ownedThroughFreshFields: for each owned type T, pointer fields f of T such that every composite literal
// of T in the program initialises f from a constructor call / fresh allocation give ownership of the pointee type.
func ownedThroughFreshFields(p *Prog, owned map[string]bool) []string {
	var out []string
	for _, fn := range p.Funcs(c15Pkgs...) {
		eachInstr(fn, func(_ *ssa.BasicBlock, in ssa.Instruction) {
			st, ok := in.(*ssa.Store)
			if !ok {
				return
			}
			f, base := fieldOfAddr(st.Addr)
			if f == nil || !owned[ownerOfField(f)] {
				return
			}
			if _, isAlloc := base.(*ssa.Alloc); !isAlloc {
				return
			}
			pt, ok := f.Type().(*types.Pointer)
			if !ok {
				return
			}
			nt, ok := pt.Elem().(*types.Named)
			if !ok {
				return
			}
			// value is a constructor call returning a fresh object
			if call, ok := st.Val.(*ssa.Call); ok {
				if sc := call.Call.StaticCallee(); sc != nil && returnsFresh(sc) {
					out = append(out, nt.Obj().Pkg().Name()+"."+nt.Obj().Name())
				}
			}
		})
	}
	return out
}

func returnsFresh(fn *ssa.Function) bool {
	if fn.Blocks == nil {
		return false
	}
	for _, b := range fn.Blocks {
		if ret, ok := b.Instrs[len(b.Instrs)-1].(*ssa.Return); ok {
			if len(ret.Results) == 0 {
				return false
			}
			if _, ok := ret.Results[0].(*ssa.Alloc); !ok {
				return false
			}
		}
	}
	return true
}

// sharedReads: field reads whose base pointer was obtained by loading a pointer field (of an owned type) that
// points to an owned type — i.e. a link from this iteration's object to another iteration's object — followed
// through calls (context-insensitively).
func sharedReads(reach map[*ssa.Function]bool, owned map[string]bool) []fieldAccess {
	tainted := map[ssa.Value]bool{}
	var out []fieldAccess
	seenOut := map[string]bool{}
	isLink := func(f *types.Var) bool {
		if !owned[ownerOfField(f)] {
			return false
		}
		pt, ok := f.Type().(*types.Pointer)
		if !ok {
			return false
		}
		nt, ok := pt.Elem().(*types.Named)
		return ok && owned[nt.Obj().Pkg().Name()+"."+nt.Obj().Name()] && ownerOfField(f) == nt.Obj().Pkg().Name()+"."+nt.Obj().Name()
	}
	changed := true
	for iter := 0; changed && iter < 12; iter++ {
		changed = false
		mark := func(v ssa.Value) {
			if !tainted[v] {
				tainted[v] = true
				changed = true
			}
		}
		for fn := range reach {
			eachInstr(fn, func(_ *ssa.BasicBlock, in ssa.Instruction) {
				switch x := in.(type) {
				case *ssa.UnOp:
					if x.Op != token.MUL {
						return
					}
					if fa, ok := x.X.(*ssa.FieldAddr); ok {
						f, base := fieldOfAddr(fa)
						if isLink(f) {
							mark(x)
						}
						if tainted[base] || tainted[fa] {
							// name the field as writes are named: the outermost field of a by-value chain
							k := writeLabel(fa)
							if !seenOut[k] {
								seenOut[k] = true
								i := strings.LastIndex(k, ".")
								if i < 0 {
									i = 0
								}
								out = append(out, fieldAccess{k[:i], strings.TrimPrefix(k[i:], "."), x.Pos(), fn})
							}
							if isPointerLike(x.Type()) {
								mark(x)
							}
						}
					} else if tainted[x.X] && isPointerLike(x.Type()) {
						mark(x)
					}
				case *ssa.FieldAddr:
					if tainted[x.X] {
						mark(x)
					}
				case *ssa.IndexAddr:
					if tainted[x.X] {
						mark(x)
					}
				case *ssa.Field:
					if tainted[x.X] {
						f, _ := fieldOfVal(x)
						k := ownerOfField(f) + "." + f.Name()
						if !seenOut[k] {
							seenOut[k] = true
							out = append(out, fieldAccess{ownerOfField(f), f.Name(), x.Pos(), fn})
						}
						mark(x)
					}
				case *ssa.Phi:
					for _, e := range x.Edges {
						if tainted[e] {
							mark(x)
						}
					}
				case *ssa.MakeInterface:
					if tainted[x.X] {
						mark(x)
					}
				case ssa.CallInstruction:
					cc := x.Common()
					args := callArgs(cc)
					var callees []*ssa.Function
					if sc := cc.StaticCallee(); sc != nil {
						callees = append(callees, sc)
					}
					if cc.IsInvoke() {
						for fn2 := range reach {
							if fn2.Signature.Recv() != nil && fn2.Name() == cc.Method.Name() {
								callees = append(callees, fn2)
							}
						}
					}
					for _, callee := range callees {
						if !reach[callee] {
							continue
						}
						for i, a := range args {
							if tainted[a] && i < len(callee.Params) {
								mark(callee.Params[i])
							}
						}
					}
				}
			})
		}
	}
	return out
}

func c15Ambient(c *Ctx, p *Prog, eff *effects, reach map[*ssa.Function]bool) {
	const R = "C15/R4"
	n := 0
	var fl []*ssa.Function
	for f := range reach {
		fl = append(fl, f)
	}
	sort.Slice(fl, func(i, j int) bool { return fl[i].String() < fl[j].String() })
	found := map[string]string{}
	for _, fn := range fl {
		eachInstr(fn, func(_ *ssa.BasicBlock, in ssa.Instruction) {
			ci, ok := in.(ssa.CallInstruction)
			if !ok {
				if sel, ok := in.(*ssa.Select); ok && len(sel.States) > 1 {
					found[fnName(fn)+":select"] = p.pos(sel.Pos())
				}
				return
			}
			n++
			co := calleeObj(ci.Common())
			if co == nil || co.Pkg() == nil {
				return
			}
			full := co.Pkg().Path() + "." + co.Name()
			if nondetCallees[full] {
				found[fnName(fn)+":"+full] = p.pos(in.Pos())
			}
		})
	}
	var ks []string
	for k := range found {
		ks = append(ks, k)
	}
	sort.Strings(ks)
	for _, k := range ks {
		if strings.HasSuffix(k, "hash/maphash.MakeSeed") {
			// allowed only as the seed of key interning: the hashed map must never be ranged
			keysF := p.Field("benchproc", "Projection", "keys")
			ranged := false
			for _, fn := range fl {
				eachInstr(fn, func(_ *ssa.BasicBlock, in ssa.Instruction) {
					if rg, ok := in.(*ssa.Range); ok {
						if f, _ := loadOfField(rg.X); f == keysF && f != nil {
							ranged = true
						}
					}
				})
			}
			c.Check(keysF != nil && !ranged, R, k, found[k], "per-process hash seed; it only keys the interning table, which is never ranged", "the randomly seeded interning table is iterated: key order leaks the per-process seed")
			c.Allow(R, "hash/maphash.MakeSeed in benchproc init", "bucket key of Projection.keys, which is looked up but never ranged")
			continue
		}
		c.Bad(R, k, found[k], "reads an ambient source of nondeterminism ("+k[strings.LastIndex(k, ":")+1:]+") on a path reachable from the benchstat command")
	}
	c.OK(R, "ambient:summary", "", fmt.Sprintf("%d call sites in %d reachable functions inspected", n, len(fl)))
	c.Floor(R, "call sites inspected", n, 200)
}

func c15Consumption(c *Ctx, p *Prog) {
	const R = "C15/R5"
	valuesF := p.Field("cmd/benchstat/internal/benchtab", "builderCell", "values")
	if valuesF == nil {
		c.Undecided(R, "anchor:builderCell.values", "", "field not found")
		return
	}
	n := 0
	for _, fn := range p.Funcs("cmd/benchstat/internal/benchtab") {
		i := 0
		eachInstr(fn, func(_ *ssa.BasicBlock, in ssa.Instruction) {
			u, ok := in.(*ssa.UnOp)
			if !ok || u.Op != token.MUL {
				return
			}
			if f, _ := fieldOfAddr(u.X); f != valuesF {
				return
			}
			for _, r := range *u.Referrers() {
				if _, ok := r.(*ssa.DebugRef); ok {
					continue
				}
				n++
				i++
				k := fmt.Sprintf("%s:use of builderCell.values#%d", fnName(fn), i)
				okUse := false
				why := ""
				switch x := r.(type) {
				case *ssa.Call:
					if b, ok := x.Call.Value.(*ssa.Builtin); ok && b.Name() == "append" && x.Call.Args[0] == u {
						okUse = true // growing the collection
						why = "append"
					}
					if sc := x.Call.StaticCallee(); sc != nil && len(x.Call.Args) > 0 && x.Call.Args[0] == u && sortsOwnParam(sc) {
						okUse = true
						why = "passed to " + fnName(sc) + ", which sorts it"
					}
				}
				c.Check(okUse, R, k, p.pos(r.Pos()), "order-insensitive use: "+why, "a cell's values are consumed in collection order (not through the sorting sample constructor): permuting input lines would change the cell")
			}
		})
	}
	c.Floor(R, "uses of builderCell.values", n, 2)
}

// sortsOwnParam: fn sorts its first parameter before using it otherwise.
func sortsOwnParam(fn *ssa.Function) bool {
	if fn.Blocks == nil || len(fn.Params) == 0 {
		return false
	}
	var sortIn ssa.Instruction
	eachInstr(fn, func(_ *ssa.BasicBlock, in ssa.Instruction) {
		if cc, ok := ascendingSortCall(in); ok && cc.Args[0] == fn.Params[0] {
			sortIn = in
		}
	})
	if sortIn == nil {
		return false
	}
	for _, r := range *fn.Params[0].Referrers() {
		if r == sortIn {
			continue
		}
		if _, ok := r.(*ssa.DebugRef); ok {
			continue
		}
		if !instrDominates(sortIn, r) {
			return false
		}
	}
	return true
}

// c15Globals (C15/R11).
func c15Globals(c *Ctx, p *Prog, eff *effects, reach map[*ssa.Function]bool) {
	globalsRule(c, p, "C15/R11", reach, 100)
}

// globalsRule: no function in reach leaves a mark on package-level state of the module (see C15/R11).
func globalsRule(c *Ctx, p *Prog, R string, reach map[*ssa.Function]bool, floor int) {
	allowed := map[string]string{}
	n, nF := 0, 0
	var fns []*ssa.Function
	for fn := range reach {
		fns = append(fns, fn)
	}
	sort.Slice(fns, func(i, j int) bool { return fnName(fns[i]) < fnName(fns[j]) })
	// lazy initialisation: a function run through sync.Once.Do fills a table once, with a value that does not depend on
	// any run's arguments when it takes none
	onceFns := map[*ssa.Function]bool{}
	for _, fn := range fns {
		eachInstr(fn, func(_ *ssa.BasicBlock, in ssa.Instruction) {
			call, ok := in.(ssa.CallInstruction)
			if !ok || !objIs(calleeObj(call.Common()), "sync", "Once", "Do") {
				return
			}
			for _, a := range call.Common().Args {
				switch x := a.(type) {
				case *ssa.Function:
					onceFns[x] = true
				case *ssa.MakeClosure:
					if f, ok := x.Fn.(*ssa.Function); ok && len(x.Bindings) == 0 {
						onceFns[f] = true
					}
				}
			}
		})
	}
	for _, fn := range fns {
		if fn.Pkg == nil || !strings.HasPrefix(fn.Pkg.Pkg.Path(), modPath) || fn.Name() == "init" || onceFns[fn] {
			continue
		}
		nF++
		k := 0
		eachInstr(fn, func(_ *ssa.BasicBlock, in ssa.Instruction) {
			st, ok := in.(*ssa.Store)
			if !ok {
				return
			}
			// the global written: directly, through a field/element of it, or through a pointer that is its address
			var g *ssa.Global
			addr := st.Addr
			for i := 0; i < 8 && g == nil; i++ {
				switch x := addr.(type) {
				case *ssa.Global:
					g = x
				case *ssa.FieldAddr:
					addr = x.X
				case *ssa.IndexAddr:
					addr = x.X
				case *ssa.Phi:
					for _, e := range x.Edges {
						if gg, ok := e.(*ssa.Global); ok {
							g = gg
						}
					}
					i = 8
				default:
					i = 8
				}
			}
			if g == nil || g.Pkg == nil || !strings.HasPrefix(g.Pkg.Pkg.Path(), modPath) {
				return
			}
			n++
			k++
			name := strings.TrimPrefix(g.Pkg.Pkg.Path(), modPath+"/") + "." + g.Name()
			if why, ok := allowed[name]; ok {
				c.Allow(R, name, why)
				c.OK(R, fmt.Sprintf("%s:writes %s#%d", fnName(fn), name, k), p.pos(st.Pos()), "reviewed: "+why)
				return
			}
			c.Bad(R, fmt.Sprintf("%s:writes %s#%d", fnName(fn), name, k), p.pos(st.Pos()), "a function on the command's path writes the package-level variable "+name+": what one run sets (a flag value, a threshold) is still there for the next run in the same process, so the same arguments and files no longer give the same output")
		})
	}
	// a pointer to a package-level variable handed to code outside the module (flag.Float64Var(&pkg.Default.X, ...)) is a
	// write in waiting; synchronisation primitives are the exception
	for _, fn := range fns {
		if fn.Pkg == nil || !strings.HasPrefix(fn.Pkg.Pkg.Path(), modPath) || fn.Name() == "init" {
			continue
		}
		k := 0
		eachInstr(fn, func(_ *ssa.BasicBlock, in ssa.Instruction) {
			ci, ok := in.(ssa.CallInstruction)
			if !ok {
				return
			}
			co := calleeObj(ci.Common())
			if co == nil || co.Pkg() == nil || strings.HasPrefix(co.Pkg().Path(), modPath) || co.Pkg().Path() == "sync" || co.Pkg().Path() == "sync/atomic" {
				return
			}
			for _, a := range callArgs(ci.Common()) {
				if _, isPtr := a.Type().Underlying().(*types.Pointer); !isPtr {
					continue
				}
				var g *ssa.Global
				addr := a
				for i := 0; i < 8 && g == nil; i++ {
					switch x := addr.(type) {
					case *ssa.Global:
						g = x
					case *ssa.FieldAddr:
						addr = x.X
					case *ssa.IndexAddr:
						addr = x.X
					default:
						i = 8
					}
				}
				if g == nil || g.Pkg == nil || !strings.HasPrefix(g.Pkg.Pkg.Path(), modPath) {
					continue
				}
				n++
				k++
				name := strings.TrimPrefix(g.Pkg.Pkg.Path(), modPath+"/") + "." + g.Name()
				c.Bad(R, fmt.Sprintf("%s:lends %s to %s#%d", fnName(fn), name, co.Name(), k), p.pos(in.Pos()), "the address of the package-level variable "+name+" (or of a field of it) is handed to "+co.FullName()+", which stores through it: what one run sets (a flag value, a threshold) is still there for the next run in the same process, so the same arguments and files no longer give the same output")
			}
		})
	}
	// package-level storage used as scratch: a slice of a package-level array or slice variable handed to something
	// that writes into its argument (append, copy, the Append* family of the standard library)
	for _, fn := range fns {
		if fn.Pkg == nil || !strings.HasPrefix(fn.Pkg.Pkg.Path(), modPath) || fn.Name() == "init" || onceFns[fn] {
			continue
		}
		ins, gs, ws := scratchGlobals(fn, func(g *ssa.Global) bool { return g.Pkg != nil && strings.HasPrefix(g.Pkg.Pkg.Path(), modPath) },
			func(f *types.Func) bool { return !strings.HasPrefix(f.Pkg().Path(), modPath) })
		for i, in := range ins {
			n++
			name := strings.TrimPrefix(gs[i].Pkg.Pkg.Path(), modPath+"/") + "." + gs[i].Name()
			c.Bad(R, fmt.Sprintf("%s:scratch %s#%d", fnName(fn), name, i+1), p.pos(in.Pos()), "the storage of the package-level variable "+name+" is handed to "+ws[i]+", which writes into it: two calls that overlap (cells are formatted and summarised from several goroutines) scribble over each other's digits, and a result that still aliases the scratch space changes under its holder")
		}
	}
	c.OK(R, "globals:scan", "", fmt.Sprintf("%d module functions reachable, %d stores to package-level variables of the module", nF, n))
	c.Floor(R, "module functions scanned for stores to package-level variables", nF, floor)
}

// c15LoopCaptures (C15/R12 = C14/R12): see loopCapturedWrites.
func c15LoopCaptures(c *Ctx, p *Prog, R string) {
	nGo := 0
	for _, fn := range p.Funcs(btabRel, "cmd/benchstat") {
		cws, k := loopCapturedWrites(fn, func(f *ssa.Function) bool { return c15Wrappers[f] != nil || len(findWrappers([]*ssa.Function{f})) > 0 })
		nGo += k
		seen := map[*ssa.Alloc]bool{}
		for _, cw := range cws {
			if seen[cw.Var] {
				continue
			}
			seen[cw.Var] = true
			c.Bad(R, fmt.Sprintf("%s:goroutine-shares-loop-variable %s", fnName(fn), cw.Var.Comment), p.pos(cw.Site.Pos()), "a goroutine started in this loop captures the variable "+cw.Var.Comment+", which lives outside the loop and is assigned again at "+p.pos(cw.Store.Pos())+" in a later iteration: a cell still waiting for its turn is then summarised with the next table's setting (its unit's statistical assumption), depending on how the goroutines happen to be scheduled")
		}
	}
	c.OK(R, "goroutines-in-loops:captures", "", fmt.Sprintf("%d goroutine starts inside loops, none captures a variable assigned by a later iteration", nGo))
	c.Floor(R, "goroutine starts inside loops of the table builder", nGo, 2)
	ctl := mustLoad(c, loadOpts{dir: c.HomeDir + "/checker"}, "./testdata/lookbehind")
	nCtl := 0
	for _, fn := range ctl.Funcs("perfcheck/testdata/lookbehind") {
		cws, _ := loopCapturedWrites(fn, nil)
		nCtl += len(cws)
	}
	if nCtl == 0 {
		c.Undecided(R, "positive-control", "", "the loop-capture matcher no longer recognises its own positive example")
	} else {
		c.OK(R, "positive-control", "checker/testdata/lookbehind/lb.go", "matcher fires on the stored goroutine sharing a variable hoisted out of its loop")
	}
}

// c15Limiter (C15/R13): see the rule text.
func c15Limiter(c *Ctx, p *Prog) {
	const R = "C15/R13"
	n := 0
	var eval func(v ssa.Value, g int64) (int64, bool)
	eval = func(v ssa.Value, g int64) (int64, bool) {
		switch x := v.(type) {
		case *ssa.Const:
			return constInt(x)
		case *ssa.Convert:
			return eval(x.X, g)
		case *ssa.Call:
			if objIs(calleeObj(&x.Call), "runtime", "", "GOMAXPROCS") || objIs(calleeObj(&x.Call), "runtime", "", "NumCPU") {
				return g, true
			}
		case *ssa.BinOp:
			a, ok1 := eval(x.X, g)
			b, ok2 := eval(x.Y, g)
			if !ok1 || !ok2 {
				return 0, false
			}
			switch x.Op {
			case token.ADD:
				return a + b, true
			case token.SUB:
				return a - b, true
			case token.MUL:
				return a * b, true
			case token.QUO:
				if b != 0 {
					return a / b, true
				}
			}
		}
		return 0, false
	}
	for _, fn := range p.Funcs(btabRel) {
		eachInstr(fn, func(_ *ssa.BasicBlock, in ssa.Instruction) {
			mc, ok := in.(*ssa.MakeChan)
			if !ok {
				return
			}
			n++
			key := fmt.Sprintf("%s:channel-capacity#%d", fnName(fn), n)
			bad := ""
			for _, g := range []int64{1, 2, 64} {
				sz, ok := eval(mc.Size, g)
				if !ok {
					c.Undecided(R, key, p.pos(mc.Pos()), "cannot evaluate the channel's capacity")
					return
				}
				if sz < 1 {
					bad = fmt.Sprintf("with GOMAXPROCS = %d the limiter channel has capacity %d", g, sz)
					break
				}
			}
			c.Check(bad == "", R, key, p.pos(mc.Pos()), "capacity is at least 1 for GOMAXPROCS = 1, 2, 64", bad+": the token is sent before the goroutine that will take it back is started, so the send never completes and benchstat hangs")
		})
	}
	c.Floor(R, "channels made by the table builder", n, 1)
}
