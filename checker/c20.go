// c20.go: C20 — uploads are all-or-nothing under faults; upload IDs are never reused.
package main

import (
	"fmt"
	"go/ast"
	"go/constant"
	"go/token"
	"go/types"
	"sort"
	"strconv"
	"strings"

	"golang.org/x/tools/go/ssa"
)

func init() { register("C20", checkC20) }

const (
	stAppPkg = modPath + "/storage/app"
	stDBPkg  = modPath + "/storage/db"
	stFSPkg  = modPath + "/storage/fs"
)

func checkC20(c *Ctx) {
	c.Rule("C20/R1", "upload typestate: creating the upload registers, before any return, a deferred abort that fires iff the upload variable is non-nil; the variable is cleared only on the nil-error edge of Commit; the upload loop ends normally only on err == io.EOF exactly")
	c.Rule("C20/R2", "writer pairing: after a successful NewWriter a deferred closure closes with the function's named error when it is non-nil and otherwise assigns Close's error to it; it is registered before any further return")
	c.Rule("C20/R3", "no error is dropped on the upload path (storage/app, storage/db, storage/fs/local) except by the reviewed clean-up calls; in the upload functions a non-nil error from a progress call returns a non-nil error")
	c.Rule("C20/R4", "methods of db.Upload execute SQL only through the upload's own transaction, and every transaction in storage/db (the upload's, and the one that allocates the upload ID) is committed only on paths where every earlier write of that function (flush, Exec) is known to have returned nil")
	c.Rule("C20/R5", "ID allocation: latest-ID read and insert run in one transaction whose Commit error is checked and whose rollback is deferred; the records use a separate, later transaction; the ID parser's offset matches the formatter's separator")
	c.Rule("C20/R6", "protocol tables: the form fields the client writes for files and commit are accepted by the server; the field it writes for abort is rejected; every part named \"file\" reaches the call that stores and indexes it (no path on which the form name can be \"file\" returns to the head of the part loop without it)")
	c.Rule("C20/R7", "every in-repo fs.Writer.CloseWithError discards: it never publishes the file and, where the file already exists on disk, removes it")

	c.Rule("C20/R9", "a file without benchmark lines fails the upload: the function that stores one file returns success only where that file's record count is known to be non-zero (or returns the count and every caller tests it)")
	c.Rule("C20/R14", "every label of an accepted record is queued: no return of Upload.insertLabel that can be nil is reachable without the append to the pending label arguments")
	c.Rule("C20/R13", "a record the upload accepts is kept: every path of Upload.InsertRecord to a nil return passes a store into the pending insert arguments")
	c.Rule("C20/R12", "what is indexed is what is stored, all of it: the indexing reader reads from io.TeeReader(part, file-store writer), and the part is handed over as it came from the multipart reader")
	c.Rule("C20/R11", "server metadata cannot be overridden by content: every benchmark reader storage/app makes for an uploaded part receives the server's labels through AddLabels on every path before its first Next")
	c.Rule("C20/R10", "an aborted upload stays invisible without hiding a committed one (same rule as C19/R8): in the upload listing the filter on the per-upload record count comes before every LIMIT, so the hidden rows of failed uploads use up no places")
	c.Rule("C20/R8", "an upload ID is never handed out twice: the statement that creates the Uploads row is a plain INSERT (no REPLACE, no OR REPLACE/IGNORE, no ON CONFLICT/ON DUPLICATE KEY), so an ID that already exists is refused by the primary key instead of silently replacing the committed upload (and, through ON DELETE CASCADE, its records)")
	pats := []string{"./storage", "./storage/app", "./storage/db", "./storage/fs", "./storage/fs/local", "./storage/benchfmt"}
	p := mustLoad(c, loadOpts{}, pats...)
	c20(c, p)
	c.Under("C19/R8", "C20/R10", func() { c19Limit(c, p) })
	c20ServerLabels(c, p)
	c20WholePartStored(c, p)
	c20RecordKept(c, p)
	c20LabelKept(c, p)
	if c.Tier == "thorough" && c.override == nil {
		if p2, err := load(c, loadOpts{tags: "appengine"}, pats...); err == nil {
			c20Dropped(c, p2)
		} else {
			// classic App Engine SDK packages are not in the module cache: the appengine-tagged files cannot be type-checked here
			c.Note("build configuration tags=appengine not analysed: %v", err)
		}
		p3 := mustLoad(c, loadOpts{}, "./storage/...")
		c20CloseWithError(c, p3, relsOf(p3))
	}
}

func relsOf(p *Prog) []string {
	var out []string
	for r := range p.byRel {
		out = append(out, r)
	}
	sort.Strings(out)
	return out
}

func c20(c *Ctx, p *Prog) {
	c20Dropped(c, p)
	c20Typestate(c, p)
	c20WriterPairing(c, p)
	c20Tx(c, p)
	c20NewUpload(c, p)
	c20Protocol(c, p)
	c20CloseWithError(c, p, []string{"storage/fs", "storage/fs/local"})
	c20InsertOnly(c, p)
	c20EmptyFile(c, p)
}

func isErrorType(t types.Type) bool {
	n, ok := t.(*types.Named)
	return ok && n.Obj().Pkg() == nil && n.Obj().Name() == "error"
}

// errResultIndex: index of the trailing error result of a call, -1 if none.
func errResultIndex(sig *types.Signature) int {
	n := sig.Results().Len()
	if n == 0 {
		return -1
	}
	if isErrorType(sig.Results().At(n - 1).Type()) {
		return n - 1
	}
	return -1
}

// errorUse returns the value carrying the call's error and whether it is used at all.
func errorUse(call *ssa.Call) (ssa.Value, bool) {
	sig := call.Call.Signature()
	idx := errResultIndex(sig)
	if idx < 0 {
		return nil, true
	}
	used := func(v ssa.Value) bool {
		for _, r := range *v.Referrers() {
			if _, ok := r.(*ssa.DebugRef); !ok {
				return true
			}
		}
		return false
	}
	if sig.Results().Len() == 1 {
		return call, used(call)
	}
	for _, r := range *call.Referrers() {
		if ex, ok := r.(*ssa.Extract); ok && ex.Index == idx {
			return ex, used(ex)
		}
	}
	return nil, false
}

func calleeName(cc *ssa.CallCommon) string {
	if co := calleeObj(cc); co != nil {
		return strings.ReplaceAll(co.FullName(), modPath+"/", "")
	}
	return "dynamic call"
}

// c20Dropped: R3 first half.
func c20Dropped(c *Ctx, p *Prog) {
	const R = "C20/R3"
	// reviewed clean-up calls: callee -> enclosing function (prefix) -> reason
	type allow struct{ callee, in, why string }
	allows := []allow{
		{"(*storage/db.Upload).Abort", "(*storage/app.App).processUpload$", "deferred abort on a path that already fails"},
		{"(storage/fs.Writer).CloseWithError", "(*storage/app.App).indexFile$", "discarding the file on a path that already returns an error"},
		{"(*database/sql.Tx).Rollback", "(*storage/db.DB).NewUpload$", "deferred rollback of the ID transaction on a failing path"},
		{"(*os.File).Close", "(*storage/fs/local.wrapper).CloseWithError", "closing before unlinking a file that is being discarded"},
		{"(*storage/db.Query).Close", "(*storage/app.App).search", "closing a read-only query result"},
		{"(*storage/db.UploadList).Close", "(*storage/app.App).uploads", "closing a read-only query result"},
		{"(*database/sql.Rows).Close", "(*storage/db.", "closing a read-only result set"},
	}
	n, nAllowed := 0, 0
	idx := map[string]int{}
	for _, fn := range p.Funcs("storage/app", "storage/db", "storage/fs/local", "storage/fs") {
		eachInstr(fn, func(_ *ssa.BasicBlock, in ssa.Instruction) {
			var cc *ssa.CallCommon
			dropped := false
			switch x := in.(type) {
			case *ssa.Call:
				cc = &x.Call
				if errResultIndex(cc.Signature()) < 0 {
					return
				}
				_, used := errorUse(x)
				dropped = !used
			case *ssa.Defer:
				cc = &x.Call
				dropped = errResultIndex(cc.Signature()) >= 0
			case *ssa.Go:
				cc = &x.Call
				dropped = errResultIndex(cc.Signature()) >= 0
			default:
				return
			}
			n++
			if !dropped {
				return
			}
			name := calleeName(cc)
			if explicitBlank(p, fn, in) && !isSinkProgress(cc) {
				c.Note("explicit blank-identifier discard of %s's error in %s (not on the sink path; not judged)", name, fnName(fn))
				return
			}
			// writes to an HTTP response / log are not on the storage path
			if isResponseOrLogWrite(cc) {
				return
			}
			k := fmt.Sprintf("%s:drops error of %s", fnName(fn), name)
			idx[k]++
			if idx[k] > 1 {
				k = fmt.Sprintf("%s#%d", k, idx[k])
			}
			// discarding a file with the error that is already being reported: CloseWithError(e) on a path where e is
			// known non-nil (wherever that code lives)
			if name == "(storage/fs.Writer).CloseWithError" {
				args := callArgs(cc)
				if len(args) >= 2 {
					ev := args[len(args)-1]
					for _, f := range factsAt(in.Block()) {
						bo, ok := f.Cond.(*ssa.BinOp)
						if !ok {
							continue
						}
						kc, isK := bo.Y.(*ssa.Const)
						if !isK || !kc.IsNil() {
							continue
						}
						same := bo.X == ev || sameValue(bo.X, ev) || (loadAddr(bo.X) != nil && loadAddr(bo.X) == loadAddr(ev))
						if same && ((bo.Op == token.NEQ && f.True) || (bo.Op == token.EQL && !f.True)) {
							nAllowed++
							c.Allow(R, name+" in "+fnName(fn), "discarding the file with an error that is already non-nil on this path")
							c.OK(R, k, p.pos(in.Pos()), "clean-up call: CloseWithError(e) where e != nil")
							return
						}
					}
				}
			}
			// `defer tx.Rollback()`: database/sql makes Rollback a no-op (ErrTxDone) once the transaction was committed, so
			// the deferred call only ever rolls back on a path that already fails
			if _, isDefer := in.(*ssa.Defer); isDefer && name == "(*database/sql.Tx).Rollback" {
				nAllowed++
				c.Allow(R, name+" in "+fnName(fn), "deferred rollback: a no-op after Commit, otherwise the path already fails")
				c.OK(R, k, p.pos(in.Pos()), "clean-up call: defer tx.Rollback()")
				return
			}
			// rolling a transaction back in a deferred closure that first tests that the transaction is still open: the
			// path already fails (or the transaction was committed and the variable cleared), wherever that code lives
			if name == "(*database/sql.Tx).Rollback" && fn.Parent() != nil {
				deferred := false
				eachInstr(fn.Parent(), func(_ *ssa.BasicBlock, in2 ssa.Instruction) {
					if d, ok := in2.(*ssa.Defer); ok {
						if mc, ok := d.Call.Value.(*ssa.MakeClosure); ok && mc.Fn == ssa.Value(fn) {
							deferred = true
						}
					}
				})
				guarded := false
				for _, f := range factsAt(in.Block()) {
					if bo, ok := f.Cond.(*ssa.BinOp); ok {
						if kc, isK := bo.Y.(*ssa.Const); isK && kc.IsNil() && ((bo.Op == token.NEQ && f.True) || (bo.Op == token.EQL && !f.True)) {
							guarded = true
						}
					}
				}
				if deferred && guarded {
					nAllowed++
					c.Allow(R, name+" in "+fnName(fn), "deferred rollback of a transaction that is still open: the path already fails")
					c.OK(R, k, p.pos(in.Pos()), "clean-up call: deferred rollback under 'tx != nil'")
					return
				}
			}
			for _, a := range allows {
				if name == a.callee && strings.HasPrefix(fnName(fn), a.in) {
					nAllowed++
					c.Allow(R, name+" in "+fnName(fn), a.why)
					c.OK(R, k, p.pos(in.Pos()), "clean-up call (allow-listed: "+a.why+")")
					return
				}
			}
			c.Bad(R, k, p.pos(in.Pos()), "the error returned by "+name+" is dropped: a storage fault at exactly this step goes unnoticed and the upload is committed although a file or record is incomplete")
		})
	}
	c.Floor(R, "error-returning calls on the upload path", n, 30)
	c.OK(R, "dropped-errors:summary", "", fmt.Sprintf("%d error-returning calls inspected, %d dropped by reviewed clean-up calls", n, nAllowed))

	// second half: in the upload functions, a non-nil error from a progress call returns non-nil.
	for _, fn := range p.Funcs("storage/app") {
		name := fnName(fn)
		if !(strings.Contains(name, "processUpload") || strings.Contains(name, "indexFile")) || fn.Parent() != nil {
			continue
		}
		i := 0
		eachInstr(fn, func(_ *ssa.BasicBlock, in ssa.Instruction) {
			call, ok := in.(*ssa.Call)
			if !ok || errResultIndex(call.Call.Signature()) < 0 {
				return
			}
			ev, used := errorUse(call)
			if !used || ev == nil {
				return
			}
			i++
			k := fmt.Sprintf("%s:error of %s returns#%d", name, calleeName(&call.Call), i)
			ok2, why := errorLeadsToReturn(fn, ev)
			c.Check(ok2, R, k, p.pos(call.Pos()), "non-nil error returns a non-nil error", why)
		})
	}
}

// explicitBlank: the call's error is assigned to the blank identifier in the source.
func explicitBlank(p *Prog, fn *ssa.Function, in ssa.Instruction) bool {
	pk := fn.Package()
	if pk == nil && fn.Parent() != nil {
		pk = fn.Parent().Package()
	}
	if pk == nil {
		return false
	}
	pp := p.all[pk.Pkg.Path()]
	if pp == nil {
		return false
	}
	file := fileOf(pp, in.Pos())
	if file == nil {
		return false
	}
	found := false
	ast.Inspect(file, func(n ast.Node) bool {
		as, ok := n.(*ast.AssignStmt)
		if !ok || len(as.Rhs) != 1 {
			return true
		}
		ce, ok := as.Rhs[0].(*ast.CallExpr)
		if !ok || ce.Lparen != in.Pos() {
			return true
		}
		if id, ok := as.Lhs[len(as.Lhs)-1].(*ast.Ident); ok && id.Name == "_" {
			found = true
		}
		return true
	})
	return found
}

// isSinkProgress: calls that write to the file store or advance the upload; their errors may never be discarded.
func isSinkProgress(cc *ssa.CallCommon) bool {
	co := calleeObj(cc)
	if co == nil {
		return false
	}
	if cc.IsInvoke() && co.Pkg() != nil && co.Pkg().Path() == stFSPkg {
		return true
	}
	if sig := co.Type().(*types.Signature); sig.Recv() != nil {
		rn := recvName(sig.Recv().Type())
		if co.Pkg() != nil && co.Pkg().Path() == stDBPkg && rn == "Upload" {
			return true
		}
		if co.Pkg() != nil && co.Pkg().Path() == "database/sql" && (rn == "Tx" || rn == "Stmt") {
			return true
		}
	}
	if co.Pkg() != nil && (co.Pkg().Path() == "fmt" || co.Pkg().Path() == "io") {
		for _, a := range callArgs(cc) {
			for {
				switch x := a.(type) {
				case *ssa.MakeInterface:
					a = x.X
					continue
				case *ssa.ChangeInterface:
					a = x.X
					continue
				}
				break
			}
			if strings.Contains(a.Type().String(), "storage/fs.Writer") {
				return true
			}
		}
	}
	return false
}

func isResponseOrLogWrite(cc *ssa.CallCommon) bool {
	co := calleeObj(cc)
	if co == nil {
		return false
	}
	args := callArgs(cc)
	typ := func(v ssa.Value) string {
		for {
			switch x := v.(type) {
			case *ssa.MakeInterface:
				v = x.X
				continue
			case *ssa.ChangeInterface:
				v = x.X
				continue
			}
			break
		}
		return v.Type().String()
	}
	if co.Pkg() != nil && co.Pkg().Path() == "fmt" && strings.HasPrefix(co.Name(), "Fprint") && len(args) > 0 {
		t := typ(args[0])
		return strings.Contains(t, "net/http.ResponseWriter") || strings.Contains(t, "os.File") || strings.Contains(t, "bytes.Buffer") || strings.Contains(t, "strings.Builder")
	}
	if co.Pkg() != nil && co.Pkg().Path() == "io" && co.Name() == "WriteString" && len(args) > 0 {
		return strings.Contains(typ(args[0]), "net/http.ResponseWriter")
	}
	if cc.IsInvoke() && strings.Contains(cc.Value.Type().String(), "net/http.ResponseWriter") {
		return true
	}
	if sig := co.Type().(*types.Signature); sig.Recv() != nil {
		rt := sig.Recv().Type().String()
		if strings.Contains(rt, "bytes.Buffer") || strings.Contains(rt, "strings.Builder") || strings.Contains(rt, "text/template") || strings.Contains(rt, "html/template") || strings.Contains(rt, "encoding/json.Encoder") {
			return true
		}
	}
	return false
}

// errorLeadsToReturn: ev's nil test exists and its non-nil edge reaches only returns of a non-nil error
// (ev itself, or a fresh error), or ev is returned directly / assigned to the named error result.
func errorLeadsToReturn(fn *ssa.Function, ev ssa.Value) (bool, string) {
	for _, r := range *ev.Referrers() {
		switch x := r.(type) {
		case *ssa.Return:
			return true, ""
		case *ssa.Store:
			// stored into a named result or local: accept (checked via R2 for the named error)
			_ = x
			return true, ""
		case *ssa.BinOp:
			if x.Op != token.NEQ && x.Op != token.EQL {
				continue
			}
			other := x.Y
			if other == ev {
				other = x.X
			}
			if cst, ok := other.(*ssa.Const); ok && cst.IsNil() {
				for _, r2 := range *x.Referrers() {
					ifi, ok := r2.(*ssa.If)
					if !ok {
						continue
					}
					nb := ifi.Block().Succs[0]
					if x.Op == token.EQL {
						nb = ifi.Block().Succs[1]
					}
					return allPathsReturnNonNil(nb, ev, map[*ssa.BasicBlock]bool{}, 0)
				}
			}
			// comparison with a sentinel (io.EOF): handled by R1
			if _, isLoad := other.(*ssa.UnOp); isLoad {
				continue
			}
		case *ssa.Phi:
			return true, ""
		}
	}
	// sentinel-only comparison plus a later nil test is the NextPart idiom: look for any nil test
	for _, r := range *ev.Referrers() {
		if bo, ok := r.(*ssa.BinOp); ok {
			if cst, ok := bo.Y.(*ssa.Const); ok && cst.IsNil() {
				return true, ""
			}
		}
	}
	return false, "the error is inspected but a non-nil value does not lead to an error return"
}

func allPathsReturnNonNil(b *ssa.BasicBlock, ev ssa.Value, seen map[*ssa.BasicBlock]bool, depth int) (bool, string) {
	if seen[b] || depth > 6 {
		return false, "the failing path does not return"
	}
	seen[b] = true
	switch t := b.Instrs[len(b.Instrs)-1].(type) {
	case *ssa.Return:
		if len(t.Results) == 0 {
			return false, "the failing path returns without an error result"
		}
		last := retLast(t)
		if last == ev || isNonNilValue(last) || sameErr(last, ev) {
			return true, ""
		}
		// a named error result that holds ev
		if la := loadAddr(last); la != nil {
			for _, r := range *ev.Referrers() {
				if st, ok := r.(*ssa.Store); ok && st.Addr == la {
					return true, ""
				}
			}
		}
		return false, "the failing path returns " + valStr(last) + " instead of the error"
	case *ssa.Jump:
		return allPathsReturnNonNil(b.Succs[0], ev, seen, depth+1)
	case *ssa.If:
		for _, s := range b.Succs {
			if ok, why := allPathsReturnNonNil(s, ev, seen, depth+1); !ok {
				return false, why
			}
		}
		return true, ""
	}
	return false, "the failing path neither returns nor panics"
}

// ---- R1 ----

func c20Typestate(c *Ctx, p *Prog) {
	const R = "C20/R1"
	uploadT := p.Named("storage/db", "Upload")
	if uploadT == nil {
		c.Undecided(R, "anchor:db.Upload", "", "type not found")
		return
	}
	n := 0
	for _, fn := range p.Funcs("storage/app") {
		if fn.Parent() != nil {
			continue
		}
		// the captured upload variable: an Alloc of type **db.Upload
		var slot *ssa.Alloc
		eachInstr(fn, func(_ *ssa.BasicBlock, in ssa.Instruction) {
			if al, ok := in.(*ssa.Alloc); ok {
				if pt, ok := al.Type().(*types.Pointer); ok {
					if pt2, ok := pt.Elem().(*types.Pointer); ok && types.Identical(pt2.Elem(), uploadT) {
						slot = al
					}
				}
			}
		})
		var create *ssa.Call
		eachInstr(fn, func(_ *ssa.BasicBlock, in ssa.Instruction) {
			if call, ok := in.(*ssa.Call); ok && objIs(calleeObj(&call.Call), stDBPkg, "DB", "NewUpload") {
				create = call
			}
		})
		if create == nil {
			continue
		}
		n++
		name := fnName(fn)
		site := p.pos(create.Pos())
		if slot == nil {
			c.Bad(R, name+":upload-variable", site, "the upload is not held in a variable shared with a deferred abort: no clean-up can see whether it was committed")
			continue
		}
		// (a) deferred abort registered, dominated by creation, dominating every later return
		var def *ssa.Defer
		guardSlot := slot
		disarms := func(v ssa.Value) bool { k, ok := v.(*ssa.Const); return ok && k.IsNil() }
		guardDesc := "the upload variable is nil"
		eachInstr(fn, func(_ *ssa.BasicBlock, in ssa.Instruction) {
			d, ok := in.(*ssa.Defer)
			if !ok {
				return
			}
			mc, ok := d.Call.Value.(*ssa.MakeClosure)
			if !ok {
				return
			}
			cl := mc.Fn.(*ssa.Function)
			if g, dis, ds := abortGuard(cl, mc, slot); g != nil {
				def = d
				guardSlot, disarms, guardDesc = g, dis, ds
			}
		})
		if def == nil {
			c.Bad(R, name+":deferred-abort", site, "no deferred closure aborts the upload when the upload variable is still non-nil: a failure after NewUpload leaves the records' transaction open and the upload half-registered")
		} else {
			okDom := instrDominates(create, def)
			// no path from the creation to a return avoids the defer (returns on the creation's own error edge excepted)
			okRet := true
			if instrDominates(def, create) && !inAnyLoop(fn, def.Block()) {
				// registered before the upload exists (guarded by the variable being set): in force at every later return
				okDom = true
			} else if def.Block() != create.Block() {
				reach := reachFrom(create.Block(), map[*ssa.BasicBlock]bool{def.Block(): true})
				for b := range reach {
					if _, isRet := b.Instrs[len(b.Instrs)-1].(*ssa.Return); isRet && b != create.Block() && !errEdgeOf(create, b) {
						okRet = false
					}
				}
			}
			c.Check(okDom && okRet, R, name+":deferred-abort", p.pos(def.Pos()), "deferred abort registered right after creation and before every later return",
				"a return after the upload was created is not covered by the deferred abort")
		}
		// (b) the abort is disarmed (upload = nil, or committed = true) only on Commit's ok edge
		_ = guardDesc
		i := 0
		for _, r := range *guardSlot.Referrers() {
			st, ok := r.(*ssa.Store)
			if !ok || st.Addr != guardSlot {
				continue
			}
			if !disarms(st.Val) {
				continue
			}
			if st.Block() == fn.Blocks[0] && instrIndex(st) < 4 {
				continue // zero initialisation
			}
			i++
			ok2 := false
			for _, f := range factsAt(st.Block()) {
				bo, ok := f.Cond.(*ssa.BinOp)
				if !ok {
					continue
				}
				var ev ssa.Value
				if cst, ok := bo.Y.(*ssa.Const); ok && cst.IsNil() {
					ev = bo.X
				}
				if call, ok := ev.(*ssa.Call); ok && objIs(calleeObj(&call.Call), stDBPkg, "Upload", "Commit") {
					if (bo.Op == token.NEQ && !f.True) || (bo.Op == token.EQL && f.True) {
						ok2 = true
					}
				}
			}
			c.Check(ok2, R, fmt.Sprintf("%s:clear-upload#%d", name, i), p.pos(st.Pos()), "the deferred abort is disarmed only after Commit succeeded",
				"the deferred abort is disarmed ("+guardDesc+") on a path where Commit has not succeeded: the upload may be incomplete and is no longer aborted")
		}
		if i == 0 {
			c.Undecided(R, name+":clear-upload", site, "the deferred abort is never disarmed: Abort would run after a successful Commit")
		}
		// (c) normal end of the part loop: err == io.EOF exactly
		var np *ssa.Call
		eachInstr(fn, func(_ *ssa.BasicBlock, in ssa.Instruction) {
			if call, ok := in.(*ssa.Call); ok && objIs(calleeObj(&call.Call), "mime/multipart", "Reader", "NextPart") {
				np = call
			}
		})
		if np != nil {
			var commit *ssa.Call
			eachInstr(fn, func(_ *ssa.BasicBlock, in ssa.Instruction) {
				if call, ok := in.(*ssa.Call); ok && objIs(calleeObj(&call.Call), stDBPkg, "Upload", "Commit") {
					commit = call
				}
			})
			ev, _ := errorUse(np)
			okEOF := false
			if commit != nil && ev != nil {
				for _, r := range *ev.Referrers() {
					bo, ok := r.(*ssa.BinOp)
					if !ok || bo.Op != token.EQL {
						continue
					}
					other := bo.Y
					if other == ev {
						other = bo.X
					}
					if la := loadAddr(other); la != nil {
						if g, ok := la.(*ssa.Global); ok && g.Pkg.Pkg.Path() == "io" && g.Name() == "EOF" {
							// the commit is reachable only through the true edge of this comparison
							for _, r2 := range *bo.Referrers() {
								if ifi, ok := r2.(*ssa.If); ok {
									falseReach := reachFrom(ifi.Block().Succs[1], map[*ssa.BasicBlock]bool{ifi.Block(): true})
									// the false edge may loop back to this test, but must not reach Commit without passing it
									if !falseReach[commit.Block()] {
										okEOF = true
									}
								}
							}
						}
					}
				}
			}
			c.Check(okEOF, R, name+":normal-end", p.pos(np.Pos()), "Commit is reached only when NextPart returned exactly io.EOF",
				"the upload is committed although NextPart did not return exactly io.EOF (a wrapped or unexpected EOF from a truncated body counts as a clean end)")
		}
	}
	c.Floor(R, "functions creating uploads in storage/app", n, 1)
}

// errEdgeOf: block b lies on the error edge of call (dominated by the non-nil branch of its error test).
func errEdgeOf(call *ssa.Call, b *ssa.BasicBlock) bool {
	ev, _ := errorUse(call)
	if ev == nil {
		return false
	}
	for _, f := range factsAt(b) {
		bo, ok := f.Cond.(*ssa.BinOp)
		if !ok {
			continue
		}
		if (sameErr(bo.X, ev) || sameErr(bo.Y, ev)) && ((bo.Op == token.NEQ && f.True) || (bo.Op == token.EQL && !f.True)) {
			return true
		}
	}
	return false
}

// sameErr: v is ev, or a load of a slot into which ev was stored.
func sameErr(v, ev ssa.Value) bool {
	if v == ev {
		return true
	}
	if la := loadAddr(v); la != nil {
		for _, r := range *ev.Referrers() {
			if st, ok := r.(*ssa.Store); ok && st.Val == ev && st.Addr == la {
				return true
			}
		}
	}
	return false
}

// abortsIffNonNil: closure body is `if *slot != nil { (*slot).Abort() }`.
// abortGuard: the deferred closure calls Upload.Abort on the captured upload exactly under a test of a captured
// variable: the upload slot itself (abort while non-nil; disarmed by storing nil) or a boolean flag (abort while
// !committed / while armed; disarmed by storing the opposite constant). Returns the guard slot and a predicate
// recognising the disarming store value.
func abortGuard(cl *ssa.Function, mc *ssa.MakeClosure, slot *ssa.Alloc) (guard *ssa.Alloc, disarms func(v ssa.Value) bool, desc string) {
	fvIdx := -1
	for i, b := range mc.Bindings {
		if b == slot {
			fvIdx = i
		}
	}
	if fvIdx < 0 {
		return nil, nil, ""
	}
	fv := cl.FreeVars[fvIdx]
	eachInstr(cl, func(b *ssa.BasicBlock, in ssa.Instruction) {
		call, isCall := in.(*ssa.Call)
		if !isCall || !objIs(calleeObj(&call.Call), stDBPkg, "Upload", "Abort") {
			return
		}
		if la := loadAddr(call.Call.Args[0]); la != fv {
			return
		}
		for _, f := range factsAt(b) {
			// upload != nil
			if bo, isBo := f.Cond.(*ssa.BinOp); isBo {
				if la := loadAddr(bo.X); la == fv {
					if cst, isC := bo.Y.(*ssa.Const); isC && cst.IsNil() && ((bo.Op == token.NEQ && f.True) || (bo.Op == token.EQL && !f.True)) {
						guard = slot
						disarms = func(v ssa.Value) bool { k, ok := v.(*ssa.Const); return ok && k.IsNil() }
						desc = "the upload variable is nil"
					}
				}
				continue
			}
			// a captured boolean flag, loaded directly (possibly negated: factsAt peels the negation)
			if la := loadAddr(f.Cond); la != nil {
				if gfv, ok := la.(*ssa.FreeVar); ok && isBoolT(f.Cond.Type()) {
					for i, x := range cl.FreeVars {
						if x == gfv {
							if al, ok := mc.Bindings[i].(*ssa.Alloc); ok {
								abortWhen := f.True
								guard = al
								disarms = func(v ssa.Value) bool {
									k, ok := v.(*ssa.Const)
									return ok && k.Value != nil && k.Value.Kind() == constant.Bool && constant.BoolVal(k.Value) == !abortWhen
								}
								desc = fmt.Sprintf("the flag %s is %v", al.Comment, !abortWhen)
							}
						}
					}
				}
			}
		}
	})
	return
}

func abortsIffNonNil(cl *ssa.Function, mc *ssa.MakeClosure, slot *ssa.Alloc) bool {
	// which free variable is bound to slot
	fvIdx := -1
	for i, b := range mc.Bindings {
		if b == slot {
			fvIdx = i
		}
	}
	if fvIdx < 0 {
		return false
	}
	fv := cl.FreeVars[fvIdx]
	ok := false
	eachInstr(cl, func(b *ssa.BasicBlock, in ssa.Instruction) {
		call, isCall := in.(*ssa.Call)
		if !isCall || !objIs(calleeObj(&call.Call), stDBPkg, "Upload", "Abort") {
			return
		}
		if la := loadAddr(call.Call.Args[0]); la != fv {
			return
		}
		for _, f := range factsAt(b) {
			bo, isBo := f.Cond.(*ssa.BinOp)
			if !isBo {
				continue
			}
			if la := loadAddr(bo.X); la == fv {
				if cst, isC := bo.Y.(*ssa.Const); isC && cst.IsNil() && ((bo.Op == token.NEQ && f.True) || (bo.Op == token.EQL && !f.True)) {
					ok = true
				}
			}
		}
	})
	// and no Abort outside that guard
	return ok
}

// ---- R2 ----

func c20WriterPairing(c *Ctx, p *Prog) {
	const R = "C20/R2"
	n := 0
	for _, fn := range p.Funcs("storage/app") {
		if fn.Parent() != nil {
			continue
		}
		var nw *ssa.Call
		eachInstr(fn, func(_ *ssa.BasicBlock, in ssa.Instruction) {
			if call, ok := in.(*ssa.Call); ok && call.Call.IsInvoke() && call.Call.Method.Name() == "NewWriter" && call.Call.Method.Pkg() != nil && call.Call.Method.Pkg().Path() == stFSPkg {
				nw = call
			}
		})
		if nw == nil {
			continue
		}
		n++
		name := fnName(fn)
		// named error result slot
		var errSlot *ssa.Alloc
		for _, l := range fn.Locals {
			if pt, ok := l.Type().(*types.Pointer); ok && isErrorType(pt.Elem()) && l.Comment == "err" {
				errSlot = l
			}
		}
		eachInstr(fn, func(_ *ssa.BasicBlock, in ssa.Instruction) {
			if al, ok := in.(*ssa.Alloc); ok && al.Heap {
				if pt, ok := al.Type().(*types.Pointer); ok && isErrorType(pt.Elem()) && al.Comment == "err" {
					errSlot = al
				}
			}
		})
		var def *ssa.Defer
		var cl *ssa.Function
		var mcl *ssa.MakeClosure
		var closeHelper *ssa.Function
		var closeHelperCall *ssa.Call
		eachInstr(fn, func(_ *ssa.BasicBlock, in ssa.Instruction) {
			if d, ok := in.(*ssa.Defer); ok {
				if mc, ok := d.Call.Value.(*ssa.MakeClosure); ok {
					f := mc.Fn.(*ssa.Function)
					has := false
					eachInstr(f, func(_ *ssa.BasicBlock, in2 ssa.Instruction) {
						if c2, ok := in2.(*ssa.Call); ok && c2.Call.IsInvoke() && (c2.Call.Method.Name() == "CloseWithError" || c2.Call.Method.Name() == "Close") {
							has = true
						}
						// or a helper of the package that does the closing
						if c2, ok := in2.(*ssa.Call); ok {
							if h := c2.Call.StaticCallee(); h != nil && h.Blocks != nil && h.Pkg == fn.Pkg {
								eachInstr(h, func(_ *ssa.BasicBlock, in3 ssa.Instruction) {
									if c3, ok := in3.(*ssa.Call); ok && c3.Call.IsInvoke() && c3.Call.Method.Name() == "CloseWithError" {
										has = true
										closeHelper, closeHelperCall = h, c2
									}
								})
							}
						}
					})
					if has {
						def, cl, mcl = d, f, mc
					}
				}
			}
		})
		site := p.pos(nw.Pos())
		if def == nil || errSlot == nil {
			c.Bad(R, name+":deferred-close", site, "no deferred closure closes the file writer with the function's error: on failure the partly written file would be kept, on success the close error would be lost")
			continue
		}
		// inside the closure: err != nil -> CloseWithError(err); else err = Close()
		fvErr := -1
		for i, b := range mcl.Bindings {
			if b == errSlot {
				fvErr = i
			}
		}
		okCWE, okClose := false, false
		if fvErr >= 0 && closeHelper != nil {
			// err = helper(..., err): the helper receives the function's error, discards the file when it is non-nil
			// and returns Close's error otherwise; the closure stores the helper's result back into the error
			fv := cl.FreeVars[fvErr]
			pi := -1
			for i, a := range closeHelperCall.Call.Args {
				if la := loadAddr(a); la == fv {
					pi = i
				}
			}
			stored := false
			for _, r := range *closeHelperCall.Referrers() {
				if st, ok := r.(*ssa.Store); ok && st.Addr == fv {
					stored = true
				}
			}
			if pi >= 0 && pi < len(closeHelper.Params) && stored {
				prm := closeHelper.Params[pi]
				eachInstr(closeHelper, func(b *ssa.BasicBlock, in ssa.Instruction) {
					call, isCall := in.(*ssa.Call)
					if !isCall || !call.Call.IsInvoke() {
						return
					}
					nonNil, isNil := false, false
					for _, f := range factsAt(b) {
						if bo, ok := f.Cond.(*ssa.BinOp); ok && bo.X == prm {
							if cst, ok := bo.Y.(*ssa.Const); ok && cst.IsNil() {
								if (bo.Op == token.NEQ) == f.True {
									nonNil = true
								} else {
									isNil = true
								}
							}
						}
					}
					switch call.Call.Method.Name() {
					case "CloseWithError":
						if nonNil {
							okCWE = true
						}
					case "Close":
						if isNil {
							// its result is what the helper returns on that path
							for _, hb := range closeHelper.Blocks {
								if ret, ok := hb.Instrs[len(hb.Instrs)-1].(*ssa.Return); ok {
									rv := retVal(ret, 0)
									if rv == call {
										okClose = true
									}
									if phi, ok := rv.(*ssa.Phi); ok {
										for _, e := range phi.Edges {
											if e == call {
												okClose = true
											}
										}
									}
								}
							}
						}
					}
				})
			}
		} else if fvErr >= 0 {
			fv := cl.FreeVars[fvErr]
			eachInstr(cl, func(b *ssa.BasicBlock, in ssa.Instruction) {
				call, isCall := in.(*ssa.Call)
				if !isCall || !call.Call.IsInvoke() {
					return
				}
				nonNil, isNil := false, false
				for _, f := range factsAt(b) {
					if bo, ok := f.Cond.(*ssa.BinOp); ok {
						if la := loadAddr(bo.X); la == fv {
							if cst, ok := bo.Y.(*ssa.Const); ok && cst.IsNil() {
								if (bo.Op == token.NEQ) == f.True {
									nonNil = true
								} else {
									isNil = true
								}
							}
						}
					}
				}
				switch call.Call.Method.Name() {
				case "CloseWithError":
					if nonNil {
						okCWE = true
					}
				case "Close":
					if isNil {
						// result stored to the named error
						for _, r := range *call.Referrers() {
							if st, ok := r.(*ssa.Store); ok && st.Addr == fv {
								okClose = true
							}
						}
					}
				}
			})
		}
		c.Check(okCWE && okClose, R, name+":deferred-close", p.pos(def.Pos()), "failure discards the file (CloseWithError), success propagates Close's error",
			fmt.Sprintf("the deferred close does not pair with the function's error (discard-on-error: %v, close-error propagated: %v)", okCWE, okClose))
		// registered before any further return: every return after NewWriter's ok edge is dominated by the defer
		okRet := true
		if def.Block() != nw.Block() {
			reach := reachFrom(nw.Block(), map[*ssa.BasicBlock]bool{def.Block(): true})
			for b := range reach {
				if _, isRet := b.Instrs[len(b.Instrs)-1].(*ssa.Return); isRet && b != nw.Block() && !errEdgeOf(nw, b) {
					okRet = false
				}
			}
		}
		c.Check(okRet, R, name+":deferred-close:registered-first", p.pos(def.Pos()), "registered before any later return", "a return after the writer was opened is not covered by the deferred close")
		// every return of a constant nil error must not bypass the named result: returns store to err slot implicitly (named results) — nothing to check.
	}
	c.Floor(R, "functions opening file writers in storage/app", n, 1)
}

// ---- R4 ----

func c20Tx(c *Ctx, p *Prog) {
	const R = "C20/R4"
	txF := p.Field("storage/db", "Upload", "tx")
	if txF == nil {
		c.Undecided(R, "anchor:Upload.tx", "", "field not found")
		return
	}
	n := 0
	for _, fn := range p.Funcs("storage/db") {
		if fn.Signature.Recv() == nil || recvName(fn.Signature.Recv().Type()) != "Upload" {
			continue
		}
		i := 0
		eachInstr(fn, func(_ *ssa.BasicBlock, in ssa.Instruction) {
			call, ok := in.(*ssa.Call)
			if !ok {
				return
			}
			co := calleeObj(&call.Call)
			if co == nil || co.Pkg() == nil || co.Pkg().Path() != "database/sql" {
				return
			}
			n++
			i++
			recv := ""
			if sig := co.Type().(*types.Signature); sig.Recv() != nil {
				recv = recvName(sig.Recv().Type())
			}
			k := fmt.Sprintf("%s:sql call %s.%s#%d", fnName(fn), recv, co.Name(), i)
			okTx := false
			if recv == "Tx" {
				if f, _ := loadOfField(call.Call.Args[0]); f == txF {
					okTx = true
				}
			}
			c.Check(okTx, R, k, p.pos(call.Pos()), "through the upload's transaction", "an upload method executes SQL outside the upload's transaction: the rows would survive an Abort")
		})
		// calls of helpers taking a *sql.Tx: the argument must be u.tx
		eachInstr(fn, func(_ *ssa.BasicBlock, in ssa.Instruction) {
			call, ok := in.(*ssa.Call)
			if !ok {
				return
			}
			sc := call.Call.StaticCallee()
			if sc == nil || sc.Pkg == nil || sc.Pkg.Pkg.Path() != stDBPkg {
				return
			}
			for ai, a := range call.Call.Args {
				if strings.HasSuffix(a.Type().String(), "database/sql.Tx") {
					n++
					f, _ := loadOfField(a)
					c.Check(f == txF, R, fmt.Sprintf("%s:passes tx to %s#%d", fnName(fn), sc.Name(), ai), p.pos(call.Pos()), "helper receives the upload's transaction", "a helper receives a transaction other than the upload's")
				}
			}
		})
	}
	c.Floor(R, "SQL executions in db.Upload methods", n, 3)
	// commit only what was written: a Tx.Commit in an upload method is reached only when every earlier error-returning call
	// of that method on the upload or its transaction/statements returned nil
	nc := 0
	for _, fn := range p.Funcs("storage/db") {
		var commits, writes []*ssa.Call
		eachInstr(fn, func(_ *ssa.BasicBlock, in ssa.Instruction) {
			call, ok := in.(*ssa.Call)
			if !ok {
				return
			}
			co := calleeObj(&call.Call)
			if co == nil {
				return
			}
			sig := co.Type().(*types.Signature)
			if sig.Recv() == nil {
				return
			}
			rn := recvName(sig.Recv().Type())
			isSQL := co.Pkg() != nil && co.Pkg().Path() == "database/sql"
			switch {
			case isSQL && rn == "Tx" && co.Name() == "Commit":
				commits = append(commits, call)
			case (isSQL && (rn == "Tx" || rn == "Stmt") && strings.HasPrefix(co.Name(), "Exec")) || (rn == "Upload" && co.Pkg() != nil && co.Pkg().Path() == stDBPkg):
				// returns an error (alone or last)
				res := sig.Results()
				if res.Len() > 0 && isErrorType(res.At(res.Len()-1).Type()) {
					writes = append(writes, call)
				}
			}
		})
		for _, cm := range commits {
			for _, w := range writes {
				if !instrDominates(w, cm) && !reachesInstr(w, cm) {
					continue
				}
				nc++
				// the error of w must be known nil at the commit
				var errV ssa.Value = w
				if tup, ok := w.Type().(*types.Tuple); ok {
					errV = nil
					for _, r := range *w.Referrers() {
						if ex, ok := r.(*ssa.Extract); ok && ex.Index == tup.Len()-1 {
							errV = ex
						}
					}
				}
				nilKnown := false
				if errV != nil {
					for _, f := range factsAt(cm.Block()) {
						if bo, ok := f.Cond.(*ssa.BinOp); ok && (bo.X == errV || bo.Y == errV) {
							if (bo.Op == token.NEQ && !f.True) || (bo.Op == token.EQL && f.True) {
								nilKnown = true
							}
						}
					}
				}
				co := calleeObj(&w.Call)
				c.Check(nilKnown, R, fmt.Sprintf("%s:commit-after-%s", fnName(fn), co.Name()), p.pos(cm.Pos()), "the transaction is committed only when "+co.Name()+" returned nil",
					"the transaction is committed on a path where the error of the preceding "+co.Name()+" is not known to be nil: when the final batch of records fails to be written the upload is committed with the records written so far, so a failed upload is partly queryable")
			}
		}
	}
	c.Floor(R, "writes preceding a commit in storage/db", nc, 2)
}

// reachesInstr: b can execute after a (a's block reaches b's block, or both are in one block with a first).
func reachesInstr(a, b ssa.Instruction) bool {
	if a.Block() == b.Block() {
		for _, in := range a.Block().Instrs {
			if in == a {
				return true
			}
			if in == b {
				return false
			}
		}
	}
	seen := map[*ssa.BasicBlock]bool{}
	work := append([]*ssa.BasicBlock(nil), a.Block().Succs...)
	for len(work) > 0 {
		x := work[len(work)-1]
		work = work[:len(work)-1]
		if seen[x] {
			continue
		}
		seen[x] = true
		if x == b.Block() {
			return true
		}
		work = append(work, x.Succs...)
	}
	return false
}

// ---- R5 ----

func c20NewUpload(c *Ctx, p *Prog) {
	const R = "C20/R5"
	fn := p.Method("storage/db", "DB", "NewUpload")
	if fn == nil {
		c.Undecided(R, "anchor:DB.NewUpload", "", "method not found")
		return
	}
	txF := p.Field("storage/db", "Upload", "tx")
	// NewUpload may delegate: the function that allocates the ID (it runs the insertUpload statement) and the function
	// that opens the record transaction (it stores Upload.tx) are found by what they do
	entry := fn
	var recFn *ssa.Function
	for _, g := range p.Funcs("storage/db") {
		if g.Parent() != nil {
			continue
		}
		eachInstr(g, func(_ *ssa.BasicBlock, in ssa.Instruction) {
			if call, ok := in.(*ssa.Call); ok && objIs(calleeObj(&call.Call), "database/sql", "Tx", "Stmt") {
				if f, _ := loadOfField(call.Call.Args[1]); f != nil && f.Name() == "insertUpload" {
					fn = g
				}
			}
		})
		if len(storesToField(g, txF)) > 0 && (g == entry || calledOnlyFrom(g, p.Funcs("storage/db"), func(h *ssa.Function) bool { return h == entry || h.Name() == "ReplaceUpload" })) {
			if recFn == nil || g == entry {
				recFn = g
			}
		}
	}
	site := p.pos(fn.Pos())
	// Begin calls
	var begins []*ssa.Call
	eachInstr(fn, func(_ *ssa.BasicBlock, in ssa.Instruction) {
		if call, ok := in.(*ssa.Call); ok && objIs(calleeObj(&call.Call), "database/sql", "DB", "Begin") {
			begins = append(begins, call)
		}
	})
	// statements used through tx.Stmt
	type use struct {
		stmtField string
		tx        ssa.Value
	}
	var uses []use
	eachInstr(fn, func(_ *ssa.BasicBlock, in ssa.Instruction) {
		if call, ok := in.(*ssa.Call); ok && objIs(calleeObj(&call.Call), "database/sql", "Tx", "Stmt") {
			f, _ := loadOfField(call.Call.Args[1])
			nm := "?"
			if f != nil {
				nm = f.Name()
			}
			uses = append(uses, use{nm, txRoot(call.Call.Args[0])})
		}
	})
	// direct statement use outside a transaction
	direct := 0
	eachInstr(fn, func(_ *ssa.BasicBlock, in ssa.Instruction) {
		if call, ok := in.(*ssa.Call); ok {
			co := calleeObj(&call.Call)
			if co != nil && co.Pkg() != nil && co.Pkg().Path() == "database/sql" {
				if sig := co.Type().(*types.Signature); sig.Recv() != nil && recvName(sig.Recv().Type()) == "Stmt" {
					if f, _ := loadOfField(call.Call.Args[0]); f != nil {
						direct++
					}
				}
			}
		}
	})
	sameTx := len(uses) >= 2
	for _, u := range uses {
		if u.tx == nil || u.tx != uses[0].tx {
			sameTx = false
		}
	}
	c.Check(sameTx && direct == 0, R, "NewUpload:one-transaction", site, fmt.Sprintf("%d statements run through one transaction", len(uses)),
		"the latest-ID read and the insert of the new ID do not run inside one transaction: two concurrent NewUpload calls can read the same latest ID")
	// Commit of that tx checked, before the record transaction begins; Upload.tx is a different Begin
	var idTx ssa.Value
	if len(uses) > 0 {
		idTx = uses[0].tx
	}
	var commit *ssa.Call
	eachInstr(fn, func(_ *ssa.BasicBlock, in ssa.Instruction) {
		if call, ok := in.(*ssa.Call); ok && objIs(calleeObj(&call.Call), "database/sql", "Tx", "Commit") && txRoot(call.Call.Args[0]) == idTx {
			commit = call
		}
	})
	if commit == nil {
		c.Bad(R, "NewUpload:id-commit", site, "the ID transaction is never committed inside NewUpload: the new ID is not durable when the upload is handed out, so an aborted upload's ID is rolled back and reused by the next upload")
	} else {
		ev, used := errorUse(commit)
		okc := used
		if used && ev != nil {
			okc, _ = errorLeadsToReturn(fn, ev)
		}
		c.Check(okc, R, "NewUpload:id-commit", p.pos(commit.Pos()), "ID transaction committed and its error returned", "the ID transaction's Commit error is not returned")
	}
	// store to Upload.tx
	okSep := false
	var utx ssa.Value
	if recFn != nil {
		for _, st := range storesToField(recFn, txF) {
			utx = txRoot(st.Val)
		}
	}
	if utx != nil && idTx != nil && utx != idTx {
		if call, ok := utx.(*ssa.Call); ok && commit != nil {
			switch {
			case recFn == fn:
				okSep = instrDominates(commit, call)
			default:
				// split form: the record transaction is begun in its own function, which the entry point calls only
				// after the ID allocation returned without error; and the allocation commits before every success return
				var idCall, recCall ssa.Instruction
				eachInstr(entry, func(_ *ssa.BasicBlock, in ssa.Instruction) {
					if ci, ok := in.(ssa.CallInstruction); ok {
						if ci.Common().StaticCallee() == fn {
							idCall = in
						}
						if ci.Common().StaticCallee() == recFn {
							recCall = in
						}
					}
				})
				commitsFirst := true
				for _, b := range fn.Blocks {
					if ret, ok := b.Instrs[len(b.Instrs)-1].(*ssa.Return); ok && len(ret.Results) > 0 {
						if k, isK := retLast(ret).(*ssa.Const); isK && k.IsNil() && !(commit.Block() == b || commit.Block().Dominates(b)) {
							commitsFirst = false
						}
					}
				}
				okSep = idCall != nil && recCall != nil && instrDominates(idCall, recCall) && commitsFirst && objIs(calleeObj(&call.Call), "database/sql", "DB", "Begin")
			}
		}
	}
	c.Check(okSep, R, "NewUpload:separate-record-tx", site, "records use a separate transaction begun after the ID was committed",
		"the upload's record transaction is the ID transaction (or begins before the ID is committed): aborting the upload rolls back the Uploads row and the ID is handed out again")
	// deferred rollback guarded by tx != nil
	okRb := false
	eachInstr(fn, func(_ *ssa.BasicBlock, in ssa.Instruction) {
		if d, ok := in.(*ssa.Defer); ok {
			if mc, ok := d.Call.Value.(*ssa.MakeClosure); ok {
				eachInstr(mc.Fn.(*ssa.Function), func(_ *ssa.BasicBlock, in2 ssa.Instruction) {
					if call, ok := in2.(*ssa.Call); ok && objIs(calleeObj(&call.Call), "database/sql", "Tx", "Rollback") {
						okRb = true
					}
				})
			}
			if objIs(calleeObj(&d.Call), "database/sql", "Tx", "Rollback") {
				okRb = true
			}
		}
	})
	c.Check(okRb, R, "NewUpload:deferred-rollback", site, "failed ID allocation rolls back", "no deferred rollback of the ID transaction")
	// format / parse agreement: Sprintf("%s.%d", day, num) vs Atoi(lastID[len(day)+1:])
	var format string
	eachInstr(fn, func(_ *ssa.BasicBlock, in ssa.Instruction) {
		if call, ok := in.(*ssa.Call); ok && objIs(calleeObj(&call.Call), "fmt", "", "Sprintf") {
			if s, ok := constString(call.Call.Args[0]); ok {
				format = s
			}
		}
	})
	sk := verbRe.ReplaceAllString(format, "%")
	var off int64 = -1
	eachInstr(fn, func(_ *ssa.BasicBlock, in ssa.Instruction) {
		if sl, ok := in.(*ssa.Slice); ok && isString(sl.X.Type()) && sl.Low != nil {
			if bo, ok := sl.Low.(*ssa.BinOp); ok && bo.Op == token.ADD {
				if k, ok := constInt(bo.Y); ok {
					if call, ok := bo.X.(*ssa.Call); ok {
						if b, ok := call.Call.Value.(*ssa.Builtin); ok && b.Name() == "len" {
							off = k
						}
					}
				}
			}
		}
	})
	if strings.HasPrefix(sk, "%") && strings.HasSuffix(sk, "%") && off >= 0 {
		sep := sk[1 : len(sk)-1]
		c.Check(int64(len(sep)) == off, R, "NewUpload:id-format", site, fmt.Sprintf("ID is <day>%s<n>; the parser skips %d byte(s) after the day", sep, off),
			fmt.Sprintf("the ID formatter separates day and number by %q (%d bytes) but the parser of the latest ID skips %d", sep, len(sep), off))
	} else {
		c.Undecided(R, "NewUpload:id-format", site, "cannot read the ID format/offset")
	}
}

// txRoot strips loads through a local slot: the Begin call (extract #0) a tx value comes from.
func txRoot(v ssa.Value) ssa.Value {
	for i := 0; i < 6; i++ {
		switch x := v.(type) {
		case *ssa.Extract:
			return x.Tuple
		case *ssa.UnOp:
			if x.Op == token.MUL {
				if al, ok := x.X.(*ssa.Alloc); ok {
					// the unique non-nil store
					var src ssa.Value
					for _, r := range *al.Referrers() {
						if st, ok := r.(*ssa.Store); ok && st.Addr == al {
							if cst, isC := st.Val.(*ssa.Const); isC && cst.IsNil() {
								continue
							}
							src = st.Val
						}
					}
					if src == nil {
						return nil
					}
					v = src
					continue
				}
			}
			return v
		case *ssa.Phi:
			return v
		default:
			return v
		}
	}
	return v
}

// ---- R6 ----

func c20Protocol(c *Ctx, p *Prog) {
	const R = "C20/R6"
	// client: constants passed to CreateFormFile / WriteField per method of storage.Upload
	written := map[string][]string{} // method -> field names
	for _, fn := range p.Funcs("storage") {
		if fn.Signature.Recv() == nil || recvName(fn.Signature.Recv().Type()) != "Upload" {
			continue
		}
		eachInstr(fn, func(_ *ssa.BasicBlock, in ssa.Instruction) {
			if call, ok := in.(*ssa.Call); ok {
				co := calleeObj(&call.Call)
				if co != nil && co.Pkg() != nil && co.Pkg().Path() == "mime/multipart" && (co.Name() == "CreateFormFile" || co.Name() == "WriteField" || co.Name() == "CreateFormField") {
					if s, ok := constString(call.Call.Args[1]); ok {
						written[fn.Name()] = append(written[fn.Name()], s)
					}
				}
			}
		})
	}
	// server: constants compared with FormName() in storage/app; classified by what the true edge does
	accept, reject := map[string]bool{}, map[string]bool{}
	var catchAll bool
	for _, fn := range p.Funcs("storage/app") {
		var formName *ssa.Call
		eachInstr(fn, func(_ *ssa.BasicBlock, in ssa.Instruction) {
			if call, ok := in.(*ssa.Call); ok && objIs(calleeObj(&call.Call), "mime/multipart", "Part", "FormName") {
				formName = call
			}
		})
		if formName == nil {
			continue
		}
		facts := constFacts(fn, func(v ssa.Value) bool { return v == formName })
		for _, b := range fn.Blocks {
			st := facts[b]
			if st.Bot {
				continue
			}
			if ret, ok := b.Instrs[len(b.Instrs)-1].(*ssa.Return); ok && len(ret.Results) > 0 && isNonNilValue(retLast(ret)) && factsMention(b, formName) {
				if st.Top {
					catchAll = true
					for k := range st.Not {
						accept[k] = true
					}
				} else {
					for k := range st.In {
						reject[k] = true
					}
				}
			}
		}
	}
	if len(written) == 0 || !catchAll {
		c.Undecided(R, "protocol", "", "cannot read the client's field names or the server's dispatcher")
		return
	}
	for m, fields := range written {
		for _, f := range fields {
			k := fmt.Sprintf("client %s writes %q", m, f)
			if m == "Abort" {
				c.Check(!accept[f], R, k, "", "the server answers the abort field with an error, which aborts the upload", "the server accepts the field the client writes to abort: the upload is committed instead of aborted")
			} else {
				c.Check(accept[f], R, k, "", "accepted by the server", "the server rejects a field the client writes during a normal upload")
			}
		}
	}
	_ = reject
	// every part named "file" is consumed: inside the loop over the parts, no path on which the form name can still be
	// "file" returns to the loop head without passing the call that is handed the part
	nLoops := 0
	for _, fn := range p.Funcs("storage/app") {
		var formName *ssa.Call
		eachInstr(fn, func(_ *ssa.BasicBlock, in ssa.Instruction) {
			if call, ok := in.(*ssa.Call); ok && objIs(calleeObj(&call.Call), "mime/multipart", "Part", "FormName") {
				formName = call
			}
		})
		if formName == nil {
			continue
		}
		part := formName.Call.Args[0]
		var lp *loopInfo
		for _, l := range naturalLoops(fn) {
			if l.Blocks[formName.Block()] && (lp == nil || len(l.Blocks) < len(lp.Blocks)) {
				lp = l
			}
		}
		if lp == nil {
			continue
		}
		// consumers: calls in the loop that receive the part (possibly as an interface) and are not its own methods
		consumer := map[*ssa.BasicBlock]bool{}
		nCons := 0
		for b := range lp.Blocks {
			for _, in := range b.Instrs {
				call, ok := in.(*ssa.Call)
				if !ok {
					continue
				}
				for i, a := range call.Call.Args {
					if stripIface(a) == part && !(i == 0 && call.Call.Signature().Recv() != nil && recvName(call.Call.Signature().Recv().Type()) == "Part") {
						consumer[b] = true
						nCons++
					}
				}
			}
		}
		if nCons == 0 {
			c.Undecided(R, "parts:consumer", p.pos(fn.Pos()), "no call in the loop over the parts receives the part")
			continue
		}
		nLoops++
		c20FreshMeta(c, p, R, fn, lp)
		facts := constFacts(fn, func(v ssa.Value) bool { return v == formName })
		mayBeFile := func(b *ssa.BasicBlock) bool {
			st := facts[b]
			if st.Bot {
				return false
			}
			if st.Top {
				return !st.Not["file"]
			}
			return st.In["file"]
		}
		skipAt := ""
		seen := map[*ssa.BasicBlock]bool{}
		work := []*ssa.BasicBlock{formName.Block()}
		for len(work) > 0 && skipAt == "" {
			b := work[len(work)-1]
			work = work[:len(work)-1]
			if seen[b] || !lp.Blocks[b] || consumer[b] || !mayBeFile(b) {
				continue
			}
			seen[b] = true
			for si, s := range b.Succs {
				if !edgeMayBe(b, si, formName, "file") {
					continue
				}
				if s == lp.Header {
					skipAt = p.pos(b.Instrs[len(b.Instrs)-1].Pos())
					if skipAt == "" {
						for i := len(b.Instrs) - 1; i >= 0 && skipAt == ""; i-- {
							skipAt = p.pos(b.Instrs[i].Pos())
						}
					}
					break
				}
				work = append(work, s)
			}
		}
		c.Check(skipAt == "", R, fnName(fn)+":every-file-part-consumed", p.pos(fn.Pos()), "a part named \"file\" always reaches the call that stores and indexes it", "a part whose form name is \"file\" can be skipped (the loop continues near "+skipAt+" without handing the part on): the upload succeeds although that file is neither stored nor indexed, and a file without benchmark lines no longer fails the upload")
	}
	c.Floor(R, "loops over multipart parts", nLoops, 1)
}

func factsMention(b *ssa.BasicBlock, v ssa.Value) bool {
	for _, f := range factsAt(b) {
		if bo, ok := f.Cond.(*ssa.BinOp); ok && (bo.X == v || bo.Y == v) {
			return true
		}
	}
	return false
}

// ---- R7 ----

func c20CloseWithError(c *Ctx, p *Prog, rels []string) {
	const R = "C20/R7"
	n := 0
	for _, fn := range p.Funcs(rels...) {
		if fn.Name() != "CloseWithError" || fn.Signature.Recv() == nil || fn.Synthetic != "" {
			continue
		}
		n++
		name := fnName(fn)
		site := p.pos(fn.Pos())
		// (a) no publication: no MapUpdate, no call of the type's own Close that publishes (a Close that stores into shared maps)
		publishes := ""
		eachInstr(fn, func(_ *ssa.BasicBlock, in ssa.Instruction) {
			switch x := in.(type) {
			case *ssa.MapUpdate:
				publishes = "stores into a map"
			case *ssa.Call:
				if sc := x.Call.StaticCallee(); sc != nil && sc.Name() == "Close" && sc.Pkg == fn.Pkg {
					// does that Close publish?
					eachInstr(sc, func(_ *ssa.BasicBlock, in2 ssa.Instruction) {
						if _, ok := in2.(*ssa.MapUpdate); ok {
							publishes = "calls " + fnName(sc) + " which stores the file into the file table"
						}
					})
				}
			}
		})
		c.Check(publishes == "", R, name+":no-publish", site, "does not publish the file", "CloseWithError "+publishes+": a failed upload's file becomes visible")
		// (b) on-disk implementations remove the file: receiver embeds *os.File => must call os.Remove on its own name
		rt := fn.Signature.Recv().Type()
		if strings.Contains(typeStructString(rt), "os.File") {
			removes := false
			eachInstr(fn, func(_ *ssa.BasicBlock, in ssa.Instruction) {
				if call, ok := in.(*ssa.Call); ok && objIs(calleeObj(&call.Call), "os", "", "Remove") {
					if nc, ok := call.Call.Args[0].(*ssa.Call); ok && objIs(calleeObj(&nc.Call), "os", "File", "Name") {
						removes = true
					}
				}
			})
			c.Check(removes, R, name+":removes-file", site, "removes the file it was writing", "the partly written file is left on disk")
		}
	}
	c.Floor(R, "implementations of CloseWithError", n, 2)
}

func typeStructString(t types.Type) string {
	if p, ok := t.(*types.Pointer); ok {
		t = p.Elem()
	}
	return t.Underlying().String()
}

var _ = constant.MakeBool

func c20InsertOnly(c *Ctx, p *Prog) {
	const R = "C20/R8"
	n := 0
	for _, fn := range p.Funcs("storage/db") {
		eachInstr(fn, func(_ *ssa.BasicBlock, in ssa.Instruction) {
			call, ok := in.(*ssa.Call)
			if !ok {
				return
			}
			co := calleeObj(&call.Call)
			if co == nil || co.Pkg() == nil || co.Pkg().Path() != "database/sql" || !(co.Name() == "Prepare" || co.Name() == "Exec" || co.Name() == "Query") {
				return
			}
			args := callArgs(&call.Call)
			if len(args) < 2 {
				return
			}
			for _, s := range stringPieces(args[1]) {
				up := strings.ToUpper(strings.Join(strings.Fields(s), " "))
				if !strings.Contains(up, "INTO UPLOADS") {
					continue
				}
				n++
				bad := ""
				for _, w := range []string{"REPLACE", "OR IGNORE", "ON CONFLICT", "ON DUPLICATE", "INSERT IGNORE"} {
					if strings.Contains(up, w) {
						bad = w
					}
				}
				c.Check(bad == "" && strings.HasPrefix(up, "INSERT INTO UPLOADS"), R, fmt.Sprintf("%s:uploads-insert#%d", fnName(fn), n), p.pos(call.Pos()), "the Uploads row is created with a plain INSERT",
					fmt.Sprintf("the statement that creates the Uploads row is %q: with %s an ID that already exists (a later-dated upload already stored, or the clock stepping back over midnight) is handed out again and the earlier committed upload's row is replaced, which deletes its records through ON DELETE CASCADE", s, bad))
			}
		})
	}
	c.Floor(R, "statements inserting into Uploads", n, 1)
	// the row of an aborted or empty upload is what keeps its ID taken: nothing removes rows from Uploads
	nStmt := 0
	for _, fn := range p.Funcs("storage/db") {
		eachInstr(fn, func(_ *ssa.BasicBlock, in ssa.Instruction) {
			for _, op := range in.Operands(nil) {
				s, ok := constString(*op)
				if !ok {
					continue
				}
				up := strings.ToUpper(strings.Join(strings.Fields(s), " "))
				if !(strings.Contains(up, "SELECT ") || strings.Contains(up, "INSERT ") || strings.Contains(up, "DELETE ") || strings.Contains(up, "UPDATE ") || strings.Contains(up, "DROP ") || strings.Contains(up, "TRUNCATE ")) {
					continue
				}
				nStmt++
				for _, w := range []string{"DELETE FROM UPLOADS", "DROP TABLE UPLOADS", "TRUNCATE TABLE UPLOADS", "TRUNCATE UPLOADS"} {
					if strings.Contains(up, w) {
						c.Bad(R, fmt.Sprintf("%s:removes-upload-rows", fnName(fn)), p.pos(in.Pos()), fmt.Sprintf("the statement %q removes rows from Uploads: the row of an aborted (or still empty) upload is what reserves its ID, and the next ID is computed from the rows that exist, so an ID already handed out is handed out again", truncate(s, 80)))
					}
				}
			}
		})
	}
	c.Check(nStmt >= 5, R, "no statement removes Uploads rows", "", fmt.Sprintf("%d statement texts read, none deletes from Uploads", nStmt), fmt.Sprintf("only %d statement texts could be read in storage/db", nStmt))
}

// edgeMayBe: taking the si-th successor edge of b is compatible with the tracked string value being want (the edge is
// excluded only when b branches on an (in)equality test of the tracked value against a constant that rules it out).
func edgeMayBe(b *ssa.BasicBlock, si int, tracked ssa.Value, want string) bool {
	ifi, ok := b.Instrs[len(b.Instrs)-1].(*ssa.If)
	if !ok {
		return true
	}
	cond := ifi.Cond
	neg := false
	for {
		if u, ok := cond.(*ssa.UnOp); ok && u.Op == token.NOT {
			cond, neg = u.X, !neg
			continue
		}
		break
	}
	bo, ok := cond.(*ssa.BinOp)
	if !ok || (bo.Op != token.EQL && bo.Op != token.NEQ) {
		return true
	}
	var k string
	switch {
	case bo.X == tracked:
		s, ok := constString(bo.Y)
		if !ok {
			return true
		}
		k = s
	case bo.Y == tracked:
		s, ok := constString(bo.X)
		if !ok {
			return true
		}
		k = s
	default:
		return true
	}
	equalOnEdge := (bo.Op == token.EQL) == (si == 0)
	if neg {
		equalOnEdge = !equalOnEdge
	}
	if equalOnEdge {
		return k == want
	}
	return k != want
}

func inAnyLoop(fn *ssa.Function, b *ssa.BasicBlock) bool {
	for _, lp := range naturalLoops(fn) {
		if lp.Blocks[b] {
			return true
		}
	}
	return false
}

// c20FreshMeta: the server's per-file labels belong to one file. A map handed to a call inside the loop over the parts is
// either made in that iteration, or — when it outlives the iteration — every key the loop sets in it is set on every
// path to the call (or deleted somewhere in the loop): a key set only under a condition would otherwise stick to the
// following files.
func c20FreshMeta(c *Ctx, p *Prog, R string, fn *ssa.Function, lp *loopInfo) {
	n := 0
	for b := range lp.Blocks {
		for _, in := range b.Instrs {
			call, ok := in.(*ssa.Call)
			if !ok {
				continue
			}
			if sc := call.Call.StaticCallee(); sc == nil || sc.Pkg != fn.Pkg {
				continue
			}
			for _, a := range call.Call.Args {
				if _, isMap := a.Type().Underlying().(*types.Map); !isMap {
					continue
				}
				n++
				key := fmt.Sprintf("%s:labels-per-file#%d", fnName(fn), n)
				mm, isMake := a.(*ssa.MakeMap)
				if isMake && lp.Blocks[mm.Block()] {
					c.OK(R, key, p.pos(call.Pos()), "the label map handed on is made afresh for each part")
					continue
				}
				sticky := ""
				for b2 := range lp.Blocks {
					for _, in2 := range b2.Instrs {
						mu, ok := in2.(*ssa.MapUpdate)
						if !ok || mu.Map != a {
							continue
						}
						k, isK := constString(mu.Key)
						if b2 == call.Block() || b2.Dominates(call.Block()) {
							continue
						}
						// deleted somewhere in the loop?
						deleted := false
						for b3 := range lp.Blocks {
							for _, in3 := range b3.Instrs {
								if dc, ok := in3.(*ssa.Call); ok {
									if bi, ok := dc.Call.Value.(*ssa.Builtin); ok && bi.Name() == "delete" && dc.Call.Args[0] == a {
										if k2, ok := constString(dc.Call.Args[1]); ok && isK && k2 == k {
											deleted = true
										}
									}
								}
							}
						}
						if !deleted {
							sticky = k
							if !isK {
								sticky = "a computed key"
							}
						}
					}
				}
				c.Check(sticky == "", R, key, p.pos(call.Pos()), "the label map outlives the iteration but every key set in the loop is set on every path to the call", "the label map handed on with each part is shared by all parts, and the key "+strconv.Quote(sticky)+" is set in it only under a condition: once set for one file it is still there for the next, so an unnamed file is stored and indexed under the previous file's name")
			}
		}
	}
	c.Floor(R, "label maps handed on inside the part loop", n, 1)
}

// c20FreshMetaAll applies c20FreshMeta to every loop over multipart parts in storage/app (used by C19 for the labels the
// server adds to each file's records).
func c20FreshMetaAll(c *Ctx, p *Prog, R string) {
	for _, fn := range p.Funcs("storage/app") {
		var formName *ssa.Call
		eachInstr(fn, func(_ *ssa.BasicBlock, in ssa.Instruction) {
			if call, ok := in.(*ssa.Call); ok && objIs(calleeObj(&call.Call), "mime/multipart", "Part", "FormName") {
				formName = call
			}
		})
		if formName == nil {
			continue
		}
		var lp *loopInfo
		for _, l := range naturalLoops(fn) {
			if l.Blocks[formName.Block()] && (lp == nil || len(l.Blocks) < len(lp.Blocks)) {
				lp = l
			}
		}
		if lp != nil {
			c20FreshMeta(c, p, R, fn, lp)
		}
	}
}

// c20EmptyFile: a file without benchmark lines fails the upload. In the function that stores one file and queues its
// records, a nil error is returned only where the count of records read from that file is known to be non-zero — or the
// count is returned and every caller tests it before going on.
func c20EmptyFile(c *Ctx, p *Prog) {
	const R = "C20/R9"
	n := 0
	for _, fn := range p.Funcs("storage/app") {
		var lp *loopInfo
		for _, l := range naturalLoops(fn) {
			for b := range l.Blocks {
				for _, in := range b.Instrs {
					if call, ok := in.(*ssa.Call); ok && objIs(calleeObj(&call.Call), stDBPkg, "Upload", "InsertRecord") {
						lp = l
					}
				}
			}
		}
		if lp == nil {
			continue
		}
		n++
		site := p.pos(fn.Pos())
		// the per-file record counter: an integer loop variable stepped by one
		var counters []*ssa.Phi
		for _, in := range lp.Header.Instrs {
			phi, ok := in.(*ssa.Phi)
			if !ok || !isInteger(phi.Type()) {
				continue
			}
			for i, e := range phi.Edges {
				if lp.Blocks[lp.Header.Preds[i]] {
					if bo, ok := e.(*ssa.BinOp); ok && bo.Op == token.ADD && bo.X == ssa.Value(phi) {
						if k, ok := constInt(bo.Y); ok && k == 1 {
							counters = append(counters, phi)
						}
					}
				}
			}
		}
		// ... or a boolean "saw a record" flag: false before the loop, set to true in it, never back to false
		var flags []*ssa.Phi
		for _, in := range lp.Header.Instrs {
			phi, ok := in.(*ssa.Phi)
			if !ok || !isBoolean(phi.Type()) {
				continue
			}
			good, sets := true, false
			for i, e := range phi.Edges {
				k, isK := e.(*ssa.Const)
				switch {
				case e == ssa.Value(phi):
				case lp.Blocks[lp.Header.Preds[i]] && isK && k.Value != nil && k.Value.String() == "true":
					sets = true
				case !lp.Blocks[lp.Header.Preds[i]] && isK && k.Value != nil && k.Value.String() == "false":
				default:
					good = false
				}
			}
			if good && sets {
				flags = append(flags, phi)
			}
		}
		isCounter := func(v ssa.Value) bool {
			for _, ph := range counters {
				if v == ssa.Value(ph) {
					return true
				}
				// read back through the named result's slot
				if ld, ok := v.(*ssa.UnOp); ok && ld.Op == token.MUL {
					if al, ok := ld.X.(*ssa.Alloc); ok {
						for _, st := range storesInto(al) {
							if st.Val == ssa.Value(ph) {
								return true
							}
						}
					}
				}
			}
			return false
		}
		nonZeroAt := func(b *ssa.BasicBlock, isCount func(ssa.Value) bool) bool {
			for _, f := range factsAt(b) {
				for _, fl := range flags {
					if f.Cond == ssa.Value(fl) && f.True {
						return true
					}
				}
				bo, ok := f.Cond.(*ssa.BinOp)
				if !ok {
					continue
				}
				var other ssa.Value
				switch {
				case isCount(bo.X):
					other = bo.Y
				case isCount(bo.Y):
					other = bo.X
				default:
					continue
				}
				if k, ok := constInt(other); !ok || k != 0 {
					continue
				}
				if (bo.Op == token.EQL && !f.True) || (bo.Op == token.NEQ && f.True) || (bo.Op == token.GTR && f.True && isCount(bo.X)) || (bo.Op == token.LSS && f.True && isCount(bo.Y)) || (bo.Op == token.LEQ && !f.True && isCount(bo.X)) {
					return true
				}
			}
			return false
		}
		guardedHere := true
		nOK := 0
		for _, b := range fn.Blocks {
			ret, ok := b.Instrs[len(b.Instrs)-1].(*ssa.Return)
			if !ok || len(ret.Results) == 0 {
				continue
			}
			last := retLast(ret)
			isNil := false
			if k, ok := last.(*ssa.Const); ok && k.IsNil() {
				isNil = true
			}
			// named result read back: nil on this path if the slot's last store is nil — treat "not provably non-nil" as success
			if !isNil && isNonNilValue(last) {
				continue
			}
			if !isNil {
				// a named error result: success unless facts say err != nil
				errKnown := false
				for _, f := range factsAt(b) {
					if bo, ok := f.Cond.(*ssa.BinOp); ok && bo.Op == token.NEQ && f.True {
						if k, ok := bo.Y.(*ssa.Const); ok && k.IsNil() {
							errKnown = true
						}
					}
				}
				if errKnown {
					continue
				}
			}
			if !reachFrom(lp.Header, nil)[b] {
				continue
			}
			nOK++
			if !nonZeroAt(b, isCounter) {
				guardedHere = false
			}
		}
		if guardedHere && nOK > 0 {
			c.OK(R, fnName(fn)+":empty-file-is-an-error", site, "success is returned only where the file's record count is known to be non-zero")
			continue
		}
		// the count is handed to the callers: each must test it
		countIdx := -1
		res := fn.Signature.Results()
		for i := 0; i < res.Len(); i++ {
			if isInteger(res.At(i).Type()) {
				countIdx = i
			}
		}
		callersOK, nCallers := countIdx >= 0, 0
		for _, g := range p.Funcs("storage/app") {
			eachInstr(g, func(_ *ssa.BasicBlock, in ssa.Instruction) {
				call, ok := in.(*ssa.Call)
				if !ok || call.Call.StaticCallee() != fn || countIdx < 0 {
					return
				}
				nCallers++
				var cnt ssa.Value
				for _, r := range *call.Referrers() {
					if ex, ok := r.(*ssa.Extract); ok && ex.Index == countIdx {
						cnt = ex
					}
				}
				if cnt == nil {
					callersOK = false
					return
				}
				// every block the call's success continuation reaches that appends/commits must know cnt != 0: approximate by
				// requiring some block dominated by the call where cnt != 0 is a fact and no Commit is reachable without it
				tested := false
				for _, b := range g.Blocks {
					if call.Block().Dominates(b) && nonZeroAt(b, func(v ssa.Value) bool { return v == cnt }) {
						tested = true
					}
				}
				if !tested {
					callersOK = false
				}
			})
		}
		c.Check(callersOK && nCallers > 0, R, fnName(fn)+":empty-file-is-an-error", site, "the record count is returned and every caller tests it", "a file from which no benchmark line was read is stored and reported as a success: the function that writes one file returns a nil error without its own record count being known to be non-zero (and no caller tests that count per file), so an upload containing such a file is committed instead of being rejected and the file stays in the store")
	}
	c.Floor(R, "functions that store one file and queue its records", n, 1)
}

// c20ServerLabels (C20/R11): the records of an upload carry the server's metadata (upload, upload-part, upload-time,
// by) as labels the content cannot override: in storage/app every benchmark reader made for an uploaded part is given
// those labels through AddLabels before its first Next — AddLabels dominates every Next on that reader. Labels that
// merely appear as a header in the text the reader parses are ordinary file configuration: a blank-separated block or
// a later "upload:" line in the user's content replaces them.
func c20ServerLabels(c *Ctx, p *Prog) {
	const R = "C20/R11"
	sb := modPath + "/storage/benchfmt"
	n := 0
	for _, fn := range p.Funcs("storage/app") {
		eachInstr(fn, func(_ *ssa.BasicBlock, in ssa.Instruction) {
			nr, ok := in.(*ssa.Call)
			if !ok || !objIs(calleeObj(&nr.Call), sb, "", "NewReader") {
				return
			}
			n++
			var adds, nexts []*ssa.Call
			eachInstr(fn, func(_ *ssa.BasicBlock, in2 ssa.Instruction) {
				call, ok := in2.(*ssa.Call)
				if !ok || len(call.Call.Args) == 0 || call.Call.Args[0] != ssa.Value(nr) {
					return
				}
				switch {
				case objIs(calleeObj(&call.Call), sb, "Reader", "AddLabels"):
					adds = append(adds, call)
				case objIs(calleeObj(&call.Call), sb, "Reader", "Next"):
					nexts = append(nexts, call)
				}
			})
			key := fmt.Sprintf("%s:reader#%d", fnName(fn), n)
			if len(nexts) == 0 {
				c.Undecided(R, key, p.pos(nr.Pos()), "the reader made here is not advanced in this function")
				return
			}
			okAll := len(adds) > 0
			for _, nx := range nexts {
				dom := false
				for _, a := range adds {
					if instrDominates(a, nx) {
						dom = true
					}
				}
				okAll = okAll && dom
			}
			c.Check(okAll, R, key, p.pos(nr.Pos()), "the reader is given the server's labels before it reads the content",
				"the reader that indexes an uploaded part is advanced without having been given the server's labels through AddLabels: the upload, upload-part, upload-time and by labels of its records then come from whatever the parsed text says, so content carrying its own 'upload:' or 'by:' lines is stored under another upload's ID and with forged metadata, and is not found under its own file ID")
		})
	}
	c.Floor(R, "benchmark readers made for uploaded parts", n, 1)
}

// c20WholePartStored (C20/R12): what is indexed is what is stored, and all of it: the reader that indexes an uploaded
// part reads from io.TeeReader(part, file-store writer) — the library tee, which reports a failed write even when the
// read that delivered the bytes also reported the end of the input — and the part reaches it as it came from the
// multipart reader: not wrapped (a LimitReader silently ends the file early and the upload still succeeds).
func c20WholePartStored(c *Ctx, p *Prog) {
	const R = "C20/R12"
	sb := modPath + "/storage/benchfmt"
	n := 0
	for _, fn := range p.Funcs("storage/app") {
		eachInstr(fn, func(_ *ssa.BasicBlock, in ssa.Instruction) {
			nr, ok := in.(*ssa.Call)
			if !ok || !objIs(calleeObj(&nr.Call), sb, "", "NewReader") {
				return
			}
			n++
			key := fmt.Sprintf("%s:indexed-reader#%d", fnName(fn), n)
			src := nr.Call.Args[0]
			if mi, ok := src.(*ssa.MakeInterface); ok {
				src = mi.X
			}
			tee, ok := src.(*ssa.Call)
			if !ok || !objIs(calleeObj(&tee.Call), "io", "", "TeeReader") {
				c.Bad(R, key, p.pos(nr.Pos()), "the indexing reader does not read from io.TeeReader(part, file): a hand-made tee has to report a failed write to the file store even when the read that delivered the bytes also reported the end of the input — otherwise a write fault on the last chunk of a part is lost and the upload commits with a truncated file in the store")
				return
			}
			// the tee's source is the function's reader parameter, and every caller passes the multipart part itself
			from := tee.Call.Args[0]
			if ci, ok := from.(*ssa.ChangeInterface); ok {
				from = ci.X
			}
			prm, isPrm := from.(*ssa.Parameter)
			okSrc := false
			detail := "the tee does not read from the function's reader parameter"
			if isPrm {
				pi := -1
				for k, q := range fn.Params {
					if q == prm {
						pi = k
					}
				}
				okSrc = true
				nCalls := 0
				for _, g := range p.Funcs("storage/app") {
					eachInstr(g, func(_ *ssa.BasicBlock, in2 ssa.Instruction) {
						call, ok := in2.(*ssa.Call)
						if !ok || call.Call.StaticCallee() != fn {
							return
						}
						nCalls++
						a := callArgs(&call.Call)[pi]
						for {
							switch x := a.(type) {
							case *ssa.MakeInterface:
								a = x.X
								continue
							case *ssa.ChangeInterface:
								a = x.X
								continue
							}
							break
						}
						ex, isEx := a.(*ssa.Extract)
						if !isEx {
							okSrc = false
							detail = "a caller hands over something other than the part as it came from NextPart (wrapped, limited, buffered)"
							return
						}
						pc, isCall := ex.Tuple.(*ssa.Call)
						if !isCall || !objIs(calleeObj(&pc.Call), "mime/multipart", "Reader", "NextPart") {
							okSrc = false
							detail = "a caller hands over something other than the part as it came from NextPart"
						}
					})
				}
				if nCalls == 0 {
					okSrc = false
					detail = "no caller found"
				}
			} else if ex, isEx := from.(*ssa.Extract); isEx {
				if pc, isCall := ex.Tuple.(*ssa.Call); isCall && objIs(calleeObj(&pc.Call), "mime/multipart", "Reader", "NextPart") {
					okSrc = true
				}
			}
			c.Check(okSrc, R, key, p.pos(tee.Pos()), "the tee reads the multipart part itself", detail+": bytes of the part that the wrapper holds back are neither stored nor indexed, yet the upload succeeds")
		})
	}
	c.Floor(R, "readers that index an uploaded part", n, 1)
}
