// Package lookbehind is the positive control for C07/R1: a scanner that
// decides whether a quote is escaped by looking at the previous byte. The rule
// must report it on every run (it cannot tell `\\"` from `\"`).
package lookbehind

import (
	"strconv"
	"strings"
	"unicode"
)

func EndOfQuoted(q string) int {
	pos := 1
	for pos < len(q) && (q[pos] != '"' || q[pos-1] == '\\') {
		pos++
	}
	return pos
}

// Overrun is the positive control for C07/R5: the cursor can advance by two, so
// testing pos == len(q) after the loop misses pos == len(q)+1.
func Overrun(q string) string {
	pos := 1
	for pos < len(q) && q[pos] != '"' {
		if q[pos] == '\\' {
			pos++
		}
		pos++
	}
	if pos == len(q) {
		return ""
	}
	return q[:pos+1]
}

// LastErrorOnly is the positive control for C07/R9: the error of every
// iteration but the last is overwritten before anyone looks at it.
func LastErrorOnly(xs []string, f func(string) (int, error)) ([]int, error) {
	out := make([]int, len(xs))
	var err error
	for i, x := range xs {
		out[i], err = f(x)
	}
	if err != nil {
		return nil, err
	}
	return out, nil
}

// ShiftTable is the positive control for C09/R9: for the last two table
// entries the shift amount is 70 and 80.
func ShiftTable(c byte) uint64 {
	exp := 1 + strings.IndexByte("KMGTPEZY", c)
	return uint64(1) << (10 * uint(exp))
}

// Levels is the positive control for C16/R6: next is refilled in place while
// cur still refers to the same backing array.
func Levels(top []*Node) int {
	n := 0
	cur := top
	var next []*Node
	for len(cur) > 0 {
		next = next[:0]
		for _, nd := range cur {
			n++
			next = append(next, nd.Kids...)
		}
		cur = next
	}
	return n
}

type Node struct{ Kids []*Node }

// Sample / AbsoluteGuard: positive control for the dimension rule (C13/R7): a spread compared with an absolute constant.
type Sample struct{ Values []float64 }

func (s Sample) StdDev() float64 { return s.Values[0] }

func AbsoluteGuard(a, b Sample) bool {
	return a.StdDev() < 1e-9 && b.Values[0]*b.StdDev() > 2.5
}

// ForwardDigits: positive control for the digit-order rule (C16/R8): least-significant digit first, appended in that order.
func ForwardDigits(i int) string {
	var buf []byte
	for ; i > 0; i /= 10 {
		buf = append(buf, byte('0'+i%10))
	}
	return string(buf)
}

// ByteSpaces / GuardedByteSpaces: controls for the byte-as-rune rule (C04/R8, C10/R7): the first classifies a lone byte,
// the second only ASCII bytes.
func ByteSpaces(s string) int {
	n := 0
	for i := 0; i < len(s); i++ {
		if unicode.IsSpace(rune(s[i])) {
			n++
		}
	}
	return n
}

func GuardedByteSpaces(s string) int {
	n := 0
	for i := 0; i < len(s); i++ {
		if b := s[i]; b < 0x80 && unicode.IsSpace(rune(b)) {
			n++
		}
	}
	return n
}

// UnshiftedSplice: positive control for the splice-order rule (C04/R9): positions recorded against the original string,
// applied front to back without accumulating the change in length.
func UnshiftedSplice(s string, pos []int, repl string) string {
	shift := 0
	for _, p := range pos {
		q := p + shift
		s = s[:q] + repl + s[q+2:]
		shift = len(repl) - 2
	}
	return s
}

// SteppedPastTest: positive control for the stale-guard rule (C07/R14): the index is stepped between the bounds test and
// the read.
func SteppedPastTest(s string, i int) bool {
	if i+1 < len(s) {
		if s[i+1] == '^' {
			i++
		}
		if s[i+1] == ']' {
			return true
		}
	}
	return false
}

// CompactsArgument: positive control for the argument-is-read-only rule (C10/R9): the non-zero values are kept by
// appending onto a zero-length reslice of the argument, which overwrites the caller's slice.
func CompactsArgument(vals []float64) int {
	kept := vals[:0]
	for _, v := range vals {
		if v != 0 {
			kept = append(kept, v)
		}
	}
	return len(kept)
}

var scratch [32]byte

// ScratchSpace: positive control for the no-package-level-scratch rule (C10/R9, C15/R11).
func ScratchSpace(n int64) string {
	return string(strconv.AppendInt(scratch[:0], n, 10))
}

// HoistedSetting: positive control for the loop-capture rule (C15/R12): the setting is declared outside the loop,
// reassigned per iteration and read by the goroutines started in the loop.
func HoistedSetting(units []string, out []string) {
	done := make(chan bool)
	var setting string
	for i, u := range units {
		if setting == "" || u != setting {
			setting = strings.ToUpper(u)
		}
		i := i
		go func() {
			out[i] = setting
			done <- true
		}()
	}
	for range units {
		<-done
	}
}

// HoistedSet: positive control for the shared-accumulator rule (C18/R12): the set is made once, filled per group and
// its size reported per group.
func HoistedSet(groups [][]string) []int {
	seen := make(map[string]struct{})
	var sizes []int
	for _, g := range groups {
		for _, s := range g {
			seen[s] = struct{}{}
		}
		sizes = append(sizes, len(seen))
	}
	return sizes
}

// ---- one-slot caches (C08/R18, C18/R15) ----

type slotOwner struct {
	lastKey string
	lastVal int
	table   map[string]map[int]int
}

// LastLookup remembers the previous answer but tests only one of the two inputs it was computed from.
func (o *slotOwner) LastLookup(key string, n int) int {
	if o.lastKey == key {
		return o.lastVal
	}
	v := o.table[key][n]
	o.lastKey, o.lastVal = key, v
	return v
}

// LastLookupOK tests both.
type slotOwner2 struct {
	lastKey string
	lastN   int
	lastVal int
	table   map[string]map[int]int
}

func (o *slotOwner2) LastLookupOK(key string, n int) int {
	if o.lastKey == key && o.lastN == n {
		return o.lastVal
	}
	v := o.table[key][n]
	o.lastKey, o.lastN, o.lastVal = key, n, v
	return v
}
