// c03.go: C03 — numbers are read as correctly rounded float64 values and exact integers (thin).
package main

import (
	"fmt"
	"go/ast"
	"go/constant"
	"go/parser"
	"go/printer"
	"go/token"
	"go/types"
	"math/big"
	"os"
	"path/filepath"
	"runtime"
	"sort"
	"strings"

	"golang.org/x/tools/go/ssa"
)

func init() { register("C03", checkC03) }

const bconvPkg = modPath + "/benchfmt/internal/bytesconv"

func checkC03(c *Ctx) {
	c.Rule("C03/R1", "error discipline: in the benchmark-line parser a non-nil error from the integer or float parser returns a syntax error for the line, on every path, before any value is recorded")
	c.Rule("C03/R2", "the measurement fast path is exact: it accepts only the bytes '0'..'9', accumulates in int64 under a guard G with 10*G+9 <= MaxInt64 that dominates the multiply-add, returns exactly float64(accumulator) (which the language rounds correctly), and otherwise hands the whole input to the full parser with bit size 64")
	c.Rule("C03/R3", "the iteration-count fast path cannot overflow: for each word size the digit-count bound d of the unchecked path satisfies 10^d-1 <= MaxInt of that size; everything else goes to the checked parser")
	c.Rule("C03/R4", "exponent range check: in the decimal-to-bits conversion every increase of the binary exponent is followed, before the bits are assembled, by the test against the format's exponent limit (otherwise out-of-range text yields a silent Inf/garbage instead of a range error)")

	c.Rule("C03/R11", "the slow path's decimal starts from the zero value: every (*decimal).set is called on a decimal allocated in the calling function")
	c.Rule("C03/R14", "adding a digit is checked for wrap-around: in ParseUint the sum that flows back into the accumulator is compared with the accumulator itself")
	c.Rule("C03/R13", "the decimal point sits after all digits read, kept or dropped: in readFloat's scanning loop the point position is assigned only the count of all digits (variables found by name; no claim if renamed)")
	c.Rule("C03/R12", "a sign is not a number: where Atoi's fast path strips a leading sign by re-slicing from 1, the remainder's length is tested and the empty remainder returns an error")
	c.Rule("C03/R10", "a dropped mantissa digit counts as truncation only if it is not zero: in readFloat the truncation flag becomes true only where the digit is known to differ from '0' (or is a hexadecimal letter)")
	c.Rule("C03/R9", "iteration counts are decimal: Atoi hands the text it does not parse itself to ParseInt with base 10 and bit size 0 (base 0 would read 0x10, 0b1, 0o7, a leading 0 as octal and underscores)")
	c.Rule("C03/R8", "infinities and NaN: the port's recogniser accepts exactly strconv's spellings (optional sign on inf/infinity, none on nan), comparing the whole input with the literal, and maps each to the same value")
	c.Rule("C03/R7", "mantissas longer than the 800-digit decimal buffer keep their magnitude: the counter of dropped integer digits in decimal.set grows exactly for an unstored digit before the decimal point, and every decimal point position taken from the stored digit count adds it (the one place where the port is deliberately more correct than strconv's slow path)")
	c.Rule("C03/R6", "saturation contract between the integer parsers: every range-error return of ParseUint carries (1<<bitSize)-1, which ParseInt (which ignores that error) needs in order to re-derive the range error from its cutoff comparison")
	c.Rule("C03/R5", "port fidelity: each function of the byte-slice port that was carried over from the standard library's strconv unchanged agrees with the strconv function of the same name in $GOROOT, region by region (symbolic path tables: same path conditions, same calls in the same order, same stores, same results and same loop-variable updates after renaming the package and erasing register numbers)")
	p := mustLoad(c, loadOpts{}, "./benchfmt", "./benchfmt/internal/bytesconv")
	c03Errors(c, p)
	c03FastFloat(c, p, "C03/R2")
	c03FastInt(c, p)
	c03Exponent(c, p)
	c03Port(c, "C03/R5")
	c03Saturate(c, p)
	c03Dropped(c, p)
	c03Special(c, p)
	c03Decimal(c, p)
	c03Trunc(c, p)
	c03FreshDecimal(c, p)
	c03SignAlone(c, p)
	c03PointPosition(c, p)
	c03WrapDetected(c, p)
	if c.Tier == "thorough" {
		if c.override == nil {
			c03Drift(c, p)
		}
	}
}

func c03Errors(c *Ctx, p *Prog) {
	const R = "C03/R1"
	valuesF := p.Field("benchfmt", "Result", "Values")
	n := 0
	for _, fn := range p.Funcs("benchfmt") {
		if fn.Signature.Recv() == nil || recvName(fn.Signature.Recv().Type()) != "Reader" {
			continue
		}
		i := 0
		eachInstr(fn, func(_ *ssa.BasicBlock, in ssa.Instruction) {
			call, ok := in.(*ssa.Call)
			if !ok {
				return
			}
			sc := call.Call.StaticCallee()
			if sc == nil {
				return
			}
			isNum := objIs(calleeObj(&call.Call), bconvPkg, "", "Atoi") || objIs(calleeObj(&call.Call), bconvPkg, "", "ParseFloat")
			// the local float wrapper: func([]byte) (float64, error) in package benchfmt
			if sc.Pkg != nil && sc.Pkg.Pkg.Path() == bfPkg && sc.Signature.Recv() == nil && sc.Signature.Results().Len() == 2 && isFloat(sc.Signature.Results().At(0).Type()) && isErrorType(sc.Signature.Results().At(1).Type()) {
				isNum = true
			}
			if !isNum {
				return
			}
			n++
			i++
			key := fmt.Sprintf("%s:error of %s#%d", fnName(fn), sc.Name(), i)
			ev, used := errorUse(call)
			if !used || ev == nil {
				c.Bad(R, key, p.pos(call.Pos()), "the parse error is discarded: numeric text the parser rejects or finds out of range yields a silently wrong number instead of a syntax error for the line")
				return
			}
			// on every path where ev is non-nil: return non-nil, and no append to Values in between
			okAll := true
			why := ""
			// the nil test(s): type switch on err (typeassert chain) or err != nil
			var nonNilStarts []*ssa.BasicBlock
			for _, r := range *ev.Referrers() {
				if bo, ok := r.(*ssa.BinOp); ok && (bo.Op == token.EQL || bo.Op == token.NEQ) {
					if k, ok := bo.Y.(*ssa.Const); ok && k.IsNil() {
						for _, r2 := range *bo.Referrers() {
							if ifi, ok := r2.(*ssa.If); ok {
								if bo.Op == token.EQL {
									nonNilStarts = append(nonNilStarts, ifi.Block().Succs[1])
								} else {
									nonNilStarts = append(nonNilStarts, ifi.Block().Succs[0])
								}
							}
						}
					}
				}
			}
			if len(nonNilStarts) == 0 {
				// the error may be handed to a converter in the same package (error -> *SyntaxError) whose result is tested
				if conv := errorConverterResult(ev); conv != nil {
					for _, r := range *conv.Referrers() {
						if bo, ok := r.(*ssa.BinOp); ok && (bo.Op == token.EQL || bo.Op == token.NEQ) {
							if k, ok := bo.Y.(*ssa.Const); ok && k.IsNil() {
								for _, r2 := range *bo.Referrers() {
									if ifi, ok := r2.(*ssa.If); ok {
										if bo.Op == token.EQL {
											nonNilStarts = append(nonNilStarts, ifi.Block().Succs[1])
										} else {
											nonNilStarts = append(nonNilStarts, ifi.Block().Succs[0])
										}
									}
								}
							}
						}
					}
				}
			}
			if len(nonNilStarts) == 0 {
				c.Bad(R, key, p.pos(call.Pos()), "the parse error is never compared with nil")
				return
			}
			for _, s := range nonNilStarts {
				for b := range reachFrom(s, nil) {
					if !s.Dominates(b) {
						continue
					}
					for _, in2 := range b.Instrs {
						if st, ok := in2.(*ssa.Store); ok {
							if f, _ := fieldOfAddr(st.Addr); f == valuesF {
								if _, isApp := st.Val.(*ssa.Call); isApp {
									okAll, why = false, "a value is recorded on the failing path"
								}
							}
						}
					}
					if ret, ok := b.Instrs[len(b.Instrs)-1].(*ssa.Return); ok {
						last := retLast(ret)
						if k, isK := last.(*ssa.Const); isK && k.IsNil() {
							okAll, why = false, "the failing path returns no error"
						}
					}
				}
				// the failing region must not fall back into the normal flow
				for b := range reachFrom(s, nil) {
					if !s.Dominates(b) {
						okAll, why = false, "the failing path rejoins normal parsing"
						break
					}
				}
			}
			c.Check(okAll, R, key, p.pos(call.Pos()), "a non-nil parse error ends the line with a syntax error", "a non-nil parse error does not reliably produce a syntax error: "+why)
		})
	}
	c.Floor(R, "numeric parse calls in the reader", n, 2)
}

func c03FastFloat(c *Ctx, p *Prog, R string) {
	// the wrapper: func([]byte) (float64, error) in benchfmt that calls bytesconv.ParseFloat
	var fn *ssa.Function
	for _, f := range p.Funcs("benchfmt") {
		if f.Signature.Recv() != nil || f.Signature.Results().Len() != 2 || !isFloat(f.Signature.Results().At(0).Type()) {
			continue
		}
		if len(callsIn(f, bconvPkg, "", "ParseFloat")) > 0 {
			fn = f
		}
	}
	if fn == nil {
		c.Undecided(R, "anchor:float wrapper", "", "no func([]byte) (float64, error) calling bytesconv.ParseFloat in package benchfmt")
		return
	}
	_ = p.pos(fn.Pos())
	// full parser call
	for _, call := range callsIn(fn, bconvPkg, "", "ParseFloat") {
		cc := call.Common()
		k, isK := constInt(cc.Args[1])
		c.Check(cc.Args[0] == fn.Params[0] && isK && k == 64, R, "wrapper:slow-path", p.pos(call.Pos()), "falls back to ParseFloat(whole input, 64)", "the fallback does not parse the whole input with bit size 64")
	}
	// The accumulation loop may live in the wrapper or in a helper it calls (same package): find every loop that
	// multiplies an int64 loop variable by ten and adds a converted byte.
	type accLoop struct {
		fn  *ssa.Function
		lp  *loopInfo
		acc *ssa.Phi
		upd *ssa.BinOp
	}
	var accs []accLoop
	for _, g := range staticReach([]*ssa.Function{fn}, bfPkg) {
		if g.Pkg == nil || g.Pkg.Pkg.Path() != bfPkg {
			continue
		}
		for _, lp := range naturalLoops(g) {
			for _, in := range lp.Header.Instrs {
				phi, ok := in.(*ssa.Phi)
				if !ok {
					break
				}
				if !isInteger(phi.Type()) {
					continue
				}
				for _, e := range phi.Edges {
					bo, ok := e.(*ssa.BinOp)
					if !ok || bo.Op != token.ADD {
						continue
					}
					for _, side := range []ssa.Value{bo.X, bo.Y} {
						if mul, ok := side.(*ssa.BinOp); ok && mul.Op == token.MUL {
							if k, ok := constInt(mul.Y); ok && k == 10 && mul.X == phi {
								accs = append(accs, accLoop{g, lp, phi, bo})
							}
							if k, ok := constInt(mul.X); ok && k == 10 && mul.Y == phi {
								accs = append(accs, accLoop{g, lp, phi, bo})
							}
						}
					}
				}
			}
		}
	}
	nFast := 0
	for _, a := range accs {
		nFast++
		key := fmt.Sprintf("fast-path:accumulate#%d", nFast)
		site := p.pos(a.upd.Pos())
		bt, _ := a.acc.Type().Underlying().(*types.Basic)
		if bt == nil || bt.Kind() != types.Int64 {
			c.Bad(R, key, site, "the fast path's accumulator is not an int64")
			continue
		}
		// every path of one iteration that reaches the multiply-add must have established: the byte is a digit, and the
		// accumulator is at most G with 10*G+9 <= MaxInt64. Read from the path conditions (whatever statement form).
		start := loopBodyStart(a.lp)
		mk := func() *e6Interp { return &e6Interp{PureCall: func(f *types.Func) bool { return true }} }
		outs, why := e6Enumerate(mk, start, a.lp.Header, iterStop(a.lp, start), 256)
		if why != "" || start == nil {
			c.Undecided(R, key, site, "cannot tabulate the accumulation loop: "+why)
			continue
		}
		maxI := new(big.Int).SetUint64(1<<63 - 1)
		nPaths := 0
		for _, o := range outs {
			if o.Term != "exit" || o.Exit != a.lp.Header {
				continue // leaves the loop or the function
			}
			// does this path perform the update?
			newAcc := ""
			for j, pr := range a.lp.Header.Preds {
				if pr == o.ExitFrom {
					newAcc = o.Val(a.acc.Edges[j]).String()
				}
			}
			if !strings.Contains(newAcc, "* 10") && !strings.Contains(newAcc, "10 *") {
				continue
			}
			nPaths++
			digitOK := false
			var G *big.Int
			lo, hi := false, false
			for _, k := range o.AtomKeys() {
				v := o.Assign[k]
				_ = v
				s := o.AtomSyms[k]
				if s.Op != "binop" || len(s.Args) != 2 {
					continue
				}
				x, y := s.Args[0], s.Args[1]
				isSub48 := func(z *Sym) bool {
					return z.Op == "binop" && z.Tok == token.SUB && z.Args[1].isConst() && z.Args[1].String() == "48" && (z.Type == nil || isUint8(z.Type))
				}
				num := func(z *Sym) (*big.Int, bool) {
					if z.isConst() && z.Const != nil && z.Const.Kind() == constant.Int {
						n, ok := new(big.Int).SetString(z.Const.ExactString(), 10)
						return n, ok
					}
					return nil, false
				}
				isAcc := func(z *Sym) bool { return z.Op == "opaque" && strings.Contains(z.Name, "phi:"+a.acc.Comment) }
				isByte := func(z *Sym) bool {
					return (z.Op == "load" || z.Op == "index" || z.Op == "opaque" || z.Op == "extract") && !isAcc(z)
				}
				// normalise to  e op n  with the constant on the right
				op := s.Tok
				e, n, okN := x, (*big.Int)(nil), false
				if nn, ok := num(y); ok {
					n, okN = nn, true
				} else if nn, ok := num(x); ok {
					e, n, okN = y, nn, true
					switch op {
					case token.LSS:
						op = token.GTR
					case token.LEQ:
						op = token.GEQ
					case token.GTR:
						op = token.LSS
					case token.GEQ:
						op = token.LEQ
					}
				}
				if !okN {
					continue
				}
				// upper bound established on e: e <= ub
				var ub, lb *big.Int
				switch {
				case op == token.GTR && !v, op == token.LEQ && v:
					ub = n
				case op == token.GEQ && !v, op == token.LSS && v:
					ub = new(big.Int).Sub(n, big.NewInt(1))
				case op == token.LSS && !v, op == token.GEQ && v:
					lb = n
				case op == token.LEQ && !v, op == token.GTR && v:
					lb = new(big.Int).Add(n, big.NewInt(1))
				}
				switch {
				case isSub48(e) && ub != nil && ub.Cmp(big.NewInt(9)) <= 0:
					digitOK = true // unsigned (ch-'0') <= 9
				case isAcc(e) && ub != nil:
					if G == nil || ub.Cmp(G) < 0 {
						G = ub
					}
				case isByte(e) && lb != nil && lb.Cmp(big.NewInt(48)) >= 0:
					lo = true
				case isByte(e) && ub != nil && ub.Cmp(big.NewInt(57)) <= 0:
					hi = true
				}
			}
			if lo && hi {
				digitOK = true
			}
			okG := false
			if G != nil {
				t := new(big.Int).Mul(G, big.NewInt(10))
				t.Add(t, big.NewInt(9))
				okG = t.Cmp(maxI) <= 0
			}
			c.Check(digitOK && okG, R, fmt.Sprintf("%s:path%d", key, nPaths), site, fmt.Sprintf("digits only, accumulator at most %v with 10*G+9 <= MaxInt64", G),
				fmt.Sprintf("the fast path can overflow or accept non-digits (digit-only test on the path: %v, accumulator bound on the path: %v, 10*G+9 <= MaxInt64: %v; path: %s): a long integer measurement wraps to a wrong value with no error", digitOK, G, okG, truncate(o.AssignStr(), 300)))
		}
		if nPaths == 0 {
			c.Undecided(R, key, site, "no iteration path performing the multiply-add was found")
		}
	}
	c.Floor(R, "integer accumulation loops on the measurement fast path", nFast, 1)
	// the fast result is float64(accumulator): the wrapper's non-fallback success return converts an int64 that is
	// the accumulator itself or the first result of the helper that holds the loop (whose own returns yield it)
	nRet := 0
	for _, b := range fn.Blocks {
		ret, ok := b.Instrs[len(b.Instrs)-1].(*ssa.Return)
		if !ok {
			continue
		}
		v := retVal(ret, 0)
		if ex, ok := v.(*ssa.Extract); ok {
			if call, ok := ex.Tuple.(*ssa.Call); ok && objIs(calleeObj(&call.Call), bconvPkg, "", "ParseFloat") {
				continue
			}
		}
		nRet++
		key := fmt.Sprintf("wrapper:fast-return#%d", nRet)
		cv, isCv := v.(*ssa.Convert)
		okSrc := false
		if isCv && isInteger(cv.X.Type()) {
			for _, a := range accs {
				if cv.X == a.acc {
					okSrc = true
				}
				if ex, ok := cv.X.(*ssa.Extract); ok && ex.Index == 0 {
					if call, ok := ex.Tuple.(*ssa.Call); ok && call.Call.StaticCallee() == a.fn {
						// the helper returns the accumulator (or a constant on failure)
						good := true
						for _, hb := range a.fn.Blocks {
							if hr, ok := hb.Instrs[len(hb.Instrs)-1].(*ssa.Return); ok {
								r0 := retVal(hr, 0)
								if _, isK := r0.(*ssa.Const); !isK && r0 != a.acc {
									good = false
								}
							}
						}
						okSrc = good
					}
				}
			}
		}
		c.Check(okSrc, R, key, p.pos(ret.Pos()), "the fast path returns float64(integer accumulator), which the language rounds correctly",
			"the fast path returns "+valStr(v)+" rather than float64(integer accumulator): digits accumulated in floating point (or scaled by a power of ten) are rounded more than once, so long digit strings come out an ulp or more away from the correctly rounded value")
	}
	c.Floor(R, "fast-path returns of the float wrapper", nRet, 1)
}

func isUint8(t types.Type) bool {
	b, ok := t.Underlying().(*types.Basic)
	return ok && b.Kind() == types.Uint8
}

func c03FastInt(c *Ctx, p *Prog) {
	const R = "C03/R3"
	fn := p.Fn("benchfmt/internal/bytesconv", "Atoi")
	if fn == nil {
		c.Undecided(R, "anchor:bytesconv.Atoi", "", "not found")
		return
	}
	site := p.pos(fn.Pos())
	// intSize for this build configuration
	intSize := int64(64)
	if k, ok := p.Obj("benchfmt/internal/bytesconv", "intSize").(*types.Const); ok {
		intSize, _ = constant.Int64Val(k.Val())
	}
	// digit-count bounds: comparisons of len(s) with constants on the way into the unchecked loop
	var loop *loopInfo
	for _, lp := range naturalLoops(fn) {
		loop = lp
	}
	if loop == nil {
		c.Undecided(R, "Atoi:fast-loop", site, "no unchecked accumulation loop found")
		return
	}
	bound := int64(-1)
	for _, f := range factsAt(loop.Header) {
		bo, ok := f.Cond.(*ssa.BinOp)
		if !ok {
			continue
		}
		isLen := func(v ssa.Value) bool {
			call, ok := v.(*ssa.Call)
			if !ok {
				return false
			}
			bi, ok := call.Call.Value.(*ssa.Builtin)
			return ok && bi.Name() == "len" && call.Call.Args[0] == fn.Params[0]
		}
		if isLen(bo.X) {
			if k, ok := constInt(bo.Y); ok {
				switch {
				case bo.Op == token.LSS && f.True:
					bound = k - 1
				case bo.Op == token.LEQ && f.True:
					bound = k
				case bo.Op == token.GEQ && !f.True:
					bound = k - 1
				case bo.Op == token.GTR && !f.True:
					bound = k
				}
			}
		}
	}
	if bound < 0 {
		// go/ssa folds `intSize == 64 && ...` so the surviving comparison is the one for this word size; if it is
		// not a dominating fact (|| chain), find comparisons of len(s) < K anywhere before the loop
		eachInstr(fn, func(b *ssa.BasicBlock, in ssa.Instruction) {
			bo, ok := in.(*ssa.BinOp)
			if !ok || loop.Blocks[b] {
				return
			}
			// (dead alternatives for other word sizes are already pruned by eachInstr)
			if call, ok := bo.X.(*ssa.Call); ok {
				if bi, ok := call.Call.Value.(*ssa.Builtin); ok && bi.Name() == "len" && call.Call.Args[0] == fn.Params[0] {
					if k, ok := constInt(bo.Y); ok && k > 1 {
						switch bo.Op {
						case token.LSS:
							if k-1 > bound {
								bound = k - 1
							}
						case token.LEQ:
							if k > bound {
								bound = k
							}
						}
					}
				}
			}
		})
	}
	if bound < 0 {
		c.Undecided(R, "Atoi:digit-bound", site, "cannot find the length bound guarding the unchecked loop")
		return
	}
	// a sign byte may take one position, but the bound must hold without it
	limit := new(big.Int).Lsh(big.NewInt(1), uint(intSize-1))
	limit.Sub(limit, big.NewInt(1))
	max := new(big.Int).Exp(big.NewInt(10), big.NewInt(bound), nil)
	max.Sub(max, big.NewInt(1))
	c.Check(max.Cmp(limit) <= 0, R, fmt.Sprintf("Atoi:digit-bound[int%d]", intSize), site, fmt.Sprintf("up to %d digits are accumulated unchecked; 10^%d-1 <= MaxInt%d", bound, bound, intSize),
		fmt.Sprintf("up to %d digits are accumulated without overflow check, but 10^%d-1 exceeds MaxInt%d: a %d-digit iteration count above the maximum wraps to a negative number with no error", bound, bound, intSize, bound))
	// the slow path is the checked parser
	ok := len(callsIn(fn, bconvPkg, "", "ParseInt")) > 0
	c.Check(ok, R, "Atoi:slow-path", site, "everything else goes through ParseInt", "inputs outside the fast path are not handed to the checked parser")
}

func c03Exponent(c *Ctx, p *Prog) {
	const R = "C03/R4"
	expbitsF := p.Field("benchfmt/internal/bytesconv", "floatInfo", "expbits")
	biasF := p.Field("benchfmt/internal/bytesconv", "floatInfo", "bias")
	mantF := p.Field("benchfmt/internal/bytesconv", "floatInfo", "mantbits")
	if expbitsF == nil || biasF == nil || mantF == nil {
		c.Undecided(R, "anchor:floatInfo", "", "float format description not found")
		return
	}
	n := 0
	for _, fn := range p.Funcs("benchfmt/internal/bytesconv") {
		// assembly: ((exp - bias) & mask) << mantbits
		var asm *ssa.BinOp
		eachInstr(fn, func(_ *ssa.BasicBlock, in ssa.Instruction) {
			bo, ok := in.(*ssa.BinOp)
			if !ok || bo.Op != token.SHL {
				return
			}
			if f, _ := loadOfField(bo.Y); f != mantF {
				return
			}
			// X derives from (exp - bias)
			var has func(v ssa.Value, d int) bool
			has = func(v ssa.Value, d int) bool {
				if d > 5 {
					return false
				}
				switch x := v.(type) {
				case *ssa.BinOp:
					if x.Op == token.SUB {
						if f, _ := loadOfField(x.Y); f == biasF {
							return true
						}
					}
					return has(x.X, d+1) || has(x.Y, d+1)
				case *ssa.Convert:
					return has(x.X, d+1)
				}
				return false
			}
			if has(bo.X, 0) {
				asm = bo
			}
		})
		if asm == nil {
			continue
		}
		// the exponent value used in the assembly
		var expAt ssa.Value
		var find func(v ssa.Value, d int)
		find = func(v ssa.Value, d int) {
			if d > 5 || expAt != nil {
				return
			}
			switch x := v.(type) {
			case *ssa.BinOp:
				if x.Op == token.SUB {
					if f, _ := loadOfField(x.Y); f == biasF {
						expAt = x.X
						return
					}
				}
				find(x.X, d+1)
				find(x.Y, d+1)
			case *ssa.Convert:
				find(x.X, d+1)
			}
		}
		find(asm.X, 0)
		if expAt == nil {
			continue
		}
		n++
		site := p.pos(fn.Pos())
		// tested values: T such that (T - bias) is compared (>=, >) with something involving expbits in an If
		tested := map[ssa.Value]bool{}
		eachInstr(fn, func(_ *ssa.BasicBlock, in ssa.Instruction) {
			bo, ok := in.(*ssa.BinOp)
			if !ok || (bo.Op != token.GEQ && bo.Op != token.GTR && bo.Op != token.LSS && bo.Op != token.LEQ) {
				return
			}
			var testedVal ssa.Value
			if sub, ok := bo.X.(*ssa.BinOp); ok && sub.Op == token.SUB {
				if f, _ := loadOfField(sub.Y); f == biasF {
					testedVal = sub.X
				}
			}
			if testedVal == nil {
				testedVal = bo.X // compared directly with a limit derived from the format (maxExp)
			}
			// right side mentions expbits
			mentions := false
			var walk func(v ssa.Value, d int)
			walk = func(v ssa.Value, d int) {
				if d > 5 {
					return
				}
				if f, _ := loadOfField(v); f == expbitsF {
					mentions = true
				}
				if b2, ok := v.(*ssa.BinOp); ok {
					walk(b2.X, d+1)
					walk(b2.Y, d+1)
				}
				if cv, ok := v.(*ssa.Convert); ok {
					walk(cv.X, d+1)
				}
			}
			walk(bo.Y, 0)
			// limits kept in a local (maxExp := 1<<expbits + bias - 2)
			used := false
			for _, r := range *bo.Referrers() {
				if _, ok := r.(*ssa.If); ok {
					used = true
				}
			}
			if mentions && used {
				tested[testedVal] = true
			}
		})
		// definitions reaching the assembly through phis
		var defs []ssa.Value
		seen := map[ssa.Value]bool{}
		var collect func(v ssa.Value)
		collect = func(v ssa.Value) {
			if seen[v] {
				return
			}
			seen[v] = true
			if phi, ok := v.(*ssa.Phi); ok {
				for _, e := range phi.Edges {
					collect(e)
				}
				return
			}
			defs = append(defs, v)
		}
		collect(expAt)
		// downstream closure through phis
		downstream := func(d ssa.Value) map[ssa.Value]bool {
			out := map[ssa.Value]bool{d: true}
			changed := true
			for changed {
				changed = false
				eachInstr(fn, func(_ *ssa.BasicBlock, in ssa.Instruction) {
					if phi, ok := in.(*ssa.Phi); ok && !out[phi] {
						for _, e := range phi.Edges {
							if out[e] {
								out[phi] = true
								changed = true
							}
						}
					}
				})
			}
			return out
		}
		i := 0
		for _, d := range defs {
			bo, ok := d.(*ssa.BinOp)
			if !ok || bo.Op != token.ADD {
				continue // constants, bias-derived values (zero / Inf encodings), decreases
			}
			if !inFamily(bo.X, fn, expAt) {
				continue // not an increase of the running exponent (e.g. the Inf encoding limit+bias)
			}
			// an increase: positive constant or a computed amount
			if k, ok := constInt(bo.Y); ok && k <= 0 {
				continue
			}
			i++
			okT := false
			for v := range downstream(d) {
				if tested[v] {
					okT = true
				}
			}
			c.Check(okT, R, fmt.Sprintf("%s:exponent-increase#%d", fnName(fn), i), p.pos(bo.Pos()), "the increased exponent is range-checked before the bits are assembled",
				"the binary exponent is increased here and reaches the bit assembly without being compared with the format's exponent limit: text just above the largest finite float (after the rounding carry) returns ±Inf silently instead of a range error")
		}
		if i == 0 {
			c.OK(R, fnName(fn)+":no-unchecked-increase", site, "no exponent increase reaches the assembly")
		}
	}
	c.Floor(R, "functions assembling float bits from a binary exponent", n, 1)
}

// c03Drift: informational per-function comparison of the byte-slice port with $GOROOT/src/strconv.
func c03Drift(c *Ctx, p *Prog) {
	goroot := runtime.GOROOT()
	if env := os.Getenv("GOROOT"); env != "" {
		goroot = env
	}
	dir := filepath.Join(goroot, "src", "strconv")
	norm := func(fset *token.FileSet, fd *ast.FuncDecl) string {
		var sb strings.Builder
		printer.Fprint(&sb, fset, fd.Body)
		s := sb.String()
		s = strings.ReplaceAll(s, "[]byte", "string")
		s = strings.Join(strings.Fields(s), " ")
		return s
	}
	std := map[string]string{}
	fset := token.NewFileSet()
	pkgs, err := parser.ParseDir(fset, dir, func(fi os.FileInfo) bool { return !strings.HasSuffix(fi.Name(), "_test.go") }, 0)
	if err != nil {
		c.Note("strconv drift report: cannot parse %s: %v", dir, err)
		return
	}
	for _, pk := range pkgs {
		for _, f := range pk.Files {
			for _, d := range f.Decls {
				if fd, ok := d.(*ast.FuncDecl); ok && fd.Body != nil {
					name := fd.Name.Name
					if fd.Recv != nil {
						name = "m." + name
					}
					std[name] = norm(fset, fd)
				}
			}
		}
	}
	var same, differ, only []string
	pk := p.Pkg("benchfmt/internal/bytesconv")
	for _, f := range pk.Syntax {
		for _, d := range f.Decls {
			if fd, ok := d.(*ast.FuncDecl); ok && fd.Body != nil {
				name := fd.Name.Name
				if fd.Recv != nil {
					name = "m." + name
				}
				s, ok := std[name]
				switch {
				case !ok:
					only = append(only, name)
				case s == norm(p.Fset, fd):
					same = append(same, name)
				default:
					differ = append(differ, name)
				}
			}
		}
	}
	sort.Strings(same)
	sort.Strings(differ)
	sort.Strings(only)
	c.extra["strconv_drift_informational"] = map[string]any{
		"note":      "per-function comparison of benchfmt/internal/bytesconv with $GOROOT/src/strconv after replacing []byte by string and normalising whitespace; informational only, never a verdict (it would fire on behaviour-preserving edits)",
		"identical": same, "different": differ, "only_in_port": only,
	}
	c.Note("strconv drift (informational): %d functions identical modulo []byte/string, %d differ, %d only in the port", len(same), len(differ), len(only))
}

// inFamily: v is a previous value of the running exponent: a loop/merge variable or parameter, possibly
// adjusted by additive updates.
func inFamily(v ssa.Value, fn *ssa.Function, expAt ssa.Value) bool {
	for d := 0; d < 20; d++ {
		switch x := v.(type) {
		case *ssa.Phi, *ssa.Parameter:
			return true
		case *ssa.BinOp:
			if x.Op == token.ADD || x.Op == token.SUB {
				v = x.X
				continue
			}
			return false
		default:
			return false
		}
	}
	return false
}

// c03Port: functions of the port that are semantically unchanged from strconv must agree with it (E8).
// The table was obtained by running the comparison on the pinned tree and reading each differing function:
// the port checks underscores up front (ParseUint, ParseInt, readFloat, atof32/64, ParseFloat), has its own
// special() without a prefix length, and builds error values without stringslite.Clone (the four *Error helpers,
// NumError.Error, Atoi); those are covered by R1-R4 instead.
var c03Carried = []string{
	"atof32exact", "atof64exact", "atofHex", "decimal.Assign", "decimal.Round", "decimal.RoundDown", "decimal.RoundUp",
	"decimal.RoundedInteger", "decimal.Shift", "decimal.String", "decimal.floatBits", "decimal.set", "digitZero",
	"leftShift", "lower", "prefixIsLessThan", "rightShift", "shouldRoundUp", "trim", "underscoreOK",
}

// c03Counters: per carried function, local counters the port has and strconv has not, each an additive correction that
// is 0 whenever strconv's own code is right; the sibling comparison is made modulo them and rule R7 checks what they
// must do. decimal.set: "dropped" counts integer digits beyond the 800-digit buffer (fix f844cc7; strconv keeps the
// uncorrected dp = nd, which its Eisel-Lemire fast path masks).
var c03Counters = map[string][]string{"decimal.set": {"dropped"}}

func c03Port(c *Ctx, R string) {
	p := mustLoad(c, loadOpts{}, "./benchfmt/internal/bytesconv", "strconv")
	pairs := map[string]sibPair{}
	for _, pr := range sibPairs(p, "benchfmt/internal/bytesconv", "strconv") {
		pairs[pr.name] = pr
	}
	fns := p.Funcs("benchfmt/internal/bytesconv", "strconv")
	eff := newEffects(p, fns)
	pureOne := func(fn *ssa.Function) bool {
		sm := eff.sums[fn]
		return sm != nil && !sm.writesAnyParam() && len(sm.WritesGlobal) == 0 && len(sm.Outputs) == 0 && len(sm.Unknown) == 0 && len(sm.LooseFields) == 0
	}
	// a call is a value (not an action) only when the callee is side-effect free in both packages, so that both
	// siblings are tabulated alike
	pureBoth := map[*ssa.Function]bool{}
	for _, pr := range pairs {
		if pureOne(pr.a) && pureOne(pr.b) {
			pureBoth[pr.a], pureBoth[pr.b] = true, true
		}
	}
	sibPure = func(f *types.Func) bool {
		if f.Pkg() != nil && (f.Pkg().Path() == "math" || f.Pkg().Path() == "math/bits") {
			return true
		}
		return pureBoth[p.SSA.FuncValue(f)]
	}
	paired := map[*ssa.Function]bool{}
	for _, pr := range pairs {
		paired[pr.a], paired[pr.b] = true, true
	}
	sibInline = func(f *ssa.Function) bool {
		return f.Pkg != nil && (f.Pkg.Pkg.Path() == modPath+"/benchfmt/internal/bytesconv" || f.Pkg.Pkg.Path() == "strconv") && !paired[f] && f.Parent() == nil && len(naturalLoops(f)) == 0 && len(f.Blocks) <= 12
	}
	defer func() { sibPure, sibInline = nil, nil }()
	nrec, nCompared, nSkipped := 0, 0, 0
	for _, name := range c03Carried {
		pr, ok := pairs[name]
		if !ok {
			c.Undecided(R, "port:"+name, "", "the function no longer exists in the port or in this toolchain's strconv")
			continue
		}
		site := p.pos(pr.a.Pos())
		// Region tables compare two functions loop by loop. When the port was restructured so that its loops no longer
		// correspond one to one with strconv's (a loop moved into a helper of its own, two loops fused, a function
		// split), the tables cannot be aligned and say nothing either way: the function is then left out, by name.
		shape := func(fn *ssa.Function) (int, string) {
			n := len(naturalLoops(fn))
			helper := ""
			eachInstr(fn, func(_ *ssa.BasicBlock, in ssa.Instruction) {
				if ci, ok := in.(ssa.CallInstruction); ok {
					if sc := ci.Common().StaticCallee(); sc != nil && sc.Pkg == fn.Pkg && !paired[sc] && sc.Blocks != nil && (len(naturalLoops(sc)) > 0 || len(sc.Blocks) > 12) {
						helper = sc.Name()
					}
				}
			})
			return n, helper
		}
		la, ha := shape(pr.a)
		lb, hb := shape(pr.b)
		// the loops also have to carry the same variables (by name): an index loop rewritten as a range loop, or a loop
		// that keeps its state in other variables, is a different loop as far as the tables are concerned
		carried := func(fn *ssa.Function) string {
			var names []string
			for _, lp := range naturalLoops(fn) {
				for _, in := range lp.Header.Instrs {
					if phi, ok := in.(*ssa.Phi); ok && phi.Comment != "" {
						// carried means changed by the loop: a variable merely merged at the header (an `if` right before
						// the loop shares the block) comes back unchanged on every back edge
						changes := false
						for i, e := range phi.Edges {
							if lp.Blocks[lp.Header.Preds[i]] && e != ssa.Value(phi) {
								changes = true
							}
						}
						if !changes {
							continue
						}
						declared := false
						for _, z := range c03Counters[name] {
							if z == phi.Comment {
								declared = true // a counter the port adds on purpose (F12)
							}
						}
						if !declared {
							names = append(names, phi.Comment)
						}
					}
				}
			}
			sort.Strings(names)
			return strings.Join(names, ",")
		}
		ca, cb := carried(pr.a), carried(pr.b)
		// ... and nest the same way: a loop moved out of another one (or into it) gives regions that do not correspond
		nesting := func(fn *ssa.Function) string {
			loops := naturalLoops(fn)
			sort.Slice(loops, func(i, j int) bool { return loops[i].Header.Index < loops[j].Header.Index })
			var ds []string
			for _, lp := range loops {
				d := 0
				for _, o := range loops {
					if o != lp && o.Blocks[lp.Header] {
						d++
					}
				}
				ds = append(ds, fmt.Sprint(d))
			}
			return strings.Join(ds, "")
		}
		if na, nb := nesting(pr.a), nesting(pr.b); la == lb && ca == cb && na != nb {
			ca, cb = ca+" nested "+na, cb+" nested "+nb
		}
		if la != lb || ha != "" || hb != "" || ca != cb {
			nSkipped++
			why := fmt.Sprintf("%d loops in the port, %d in strconv", la, lb)
			if la == lb && ca != cb {
				why = fmt.Sprintf("the loops carry {%s} in the port and {%s} in strconv", ca, cb)
			}
			if ha != "" {
				why += "; the port moves part of the work into " + ha
			}
			if hb != "" {
				why += "; strconv moves part of the work into " + hb
			}
			c.OK(R, "port:"+name, site, "not comparable loop by loop ("+why+"): left out of the sibling comparison")
			c.Note("C03/R5: %s is no longer compared with strconv (%s)", name, why)
			continue
		}
		nCompared++
		na := sibNorm{pkgPaths: []string{modPath + "/benchfmt/internal/bytesconv"}, zeroVars: c03Counters[name]}
		diff, n, why := sibCompare(pr.a, pr.b, na, sibNorm{pkgPaths: []string{"strconv"}}, 20000)
		nrec += n
		switch {
		case why != "":
			c.Undecided(R, "port:"+name, site, "cannot tabulate: "+why)
		case diff != "":
			c.Bad(R, "port:"+name, site, "the port no longer computes what strconv."+name+" computes: "+diff)
		default:
			c.OK(R, "port:"+name, site, fmt.Sprintf("%d path records agree with strconv", n))
		}
	}
	c.Floor(R, "functions of the port compared with strconv", nCompared, 16)
	c.Floor(R, "path records compared with strconv", nrec, 250)
}

// c03Saturate: ParseInt drops ParseUint's range error and re-derives it from the returned magnitude, so every
// range-error return of ParseUint must carry the saturated value (1<<bitSize)-1; returning anything smaller makes
// ParseInt report an out-of-range iteration count as a small number without error.
func c03Saturate(c *Ctx, p *Prog) {
	const R = "C03/R6"
	fn := p.Fn("benchfmt/internal/bytesconv", "ParseUint")
	if fn == nil {
		c.Undecided(R, "anchor:ParseUint", "", "not found")
		return
	}
	isMax := func(v ssa.Value) bool {
		// (1 << bitSize) - 1, possibly through a phi of identical shapes
		var chk func(v ssa.Value, d int) bool
		chk = func(v ssa.Value, d int) bool {
			if d > 3 {
				return false
			}
			switch x := v.(type) {
			case *ssa.BinOp:
				if x.Op != token.SUB {
					return false
				}
				if k, ok := constInt(x.Y); !ok || k != 1 {
					return false
				}
				sh, ok := x.X.(*ssa.BinOp)
				if !ok || sh.Op != token.SHL {
					return false
				}
				k, ok := constInt(stripConv(sh.X))
				return ok && k == 1
			case *ssa.Phi:
				for _, e := range x.Edges {
					if !chk(e, d+1) {
						return false
					}
				}
				return len(x.Edges) > 0
			}
			return false
		}
		return chk(v, 0)
	}
	n := 0
	for _, b := range fn.Blocks {
		ret, ok := b.Instrs[len(b.Instrs)-1].(*ssa.Return)
		if !ok || len(ret.Results) != 2 {
			continue
		}
		ev := retVal(ret, 1)
		if mi, ok := ev.(*ssa.MakeInterface); ok {
			ev = mi.X
		}
		call, ok := ev.(*ssa.Call)
		if !ok || !objIs(calleeObj(&call.Call), modPath+"/benchfmt/internal/bytesconv", "", "rangeError") {
			continue
		}
		n++
		c.Check(isMax(retVal(ret, 0)), R, fmt.Sprintf("ParseUint:range-return#%d", n), p.pos(ret.Pos()),
			"the range-error return carries (1<<bitSize)-1", "a range-error return of ParseUint does not carry the saturated value (1<<bitSize)-1: ParseInt ignores ParseUint's range error and compares the returned magnitude with its cutoff, so an iteration count just above 2^64 is reported as this value with no error")
	}
	c.Floor(R, "range-error returns in ParseUint", n, 2)
	// ParseInt really does rely on it: the ErrRange case falls through to the cutoff comparison
	pi := p.Fn("benchfmt/internal/bytesconv", "ParseInt")
	if pi == nil {
		c.Undecided(R, "anchor:ParseInt", "", "not found")
		return
	}
	cmp := 0
	eachInstr(pi, func(_ *ssa.BasicBlock, in ssa.Instruction) {
		if bo, ok := in.(*ssa.BinOp); ok && (bo.Op == token.GEQ || bo.Op == token.GTR) {
			if ex, ok := bo.X.(*ssa.Extract); ok && ex.Index == 0 {
				if call, ok := ex.Tuple.(*ssa.Call); ok && objIs(calleeObj(&call.Call), modPath+"/benchfmt/internal/bytesconv", "", "ParseUint") {
					cmp++
				}
			}
		}
	})
	c.Check(cmp >= 2, R, "ParseInt:cutoff-comparisons", p.pos(pi.Pos()), "ParseInt compares the magnitude with the cutoff for both signs", "ParseInt no longer compares ParseUint's magnitude with the signed cutoff for both signs")
}

// errorConverterResult: ev is passed to a function of the same package that tests that parameter against nil and
// returns a non-nil value on every return reached only when it is non-nil (an error-to-syntax-error converter);
// the call's result then stands for the error.
func errorConverterResult(ev ssa.Value) ssa.Value {
	refs := ev.Referrers()
	if refs == nil {
		return nil
	}
	for _, r := range *refs {
		call, ok := r.(*ssa.Call)
		if !ok {
			continue
		}
		h := call.Call.StaticCallee()
		if h == nil || h.Blocks == nil || h.Pkg == nil || h.Pkg.Pkg.Path() != bfPkg || h.Signature.Results().Len() != 1 {
			continue
		}
		args := callArgs(&call.Call)
		pi := -1
		for i, a := range args {
			if a == ev {
				pi = i
			}
		}
		if pi < 0 || pi >= len(h.Params) {
			continue
		}
		prm := h.Params[pi]
		// the non-nil region of h
		var starts []*ssa.BasicBlock
		if prm.Referrers() != nil {
			for _, r2 := range *prm.Referrers() {
				bo, ok := r2.(*ssa.BinOp)
				if !ok || !(bo.Op == token.EQL || bo.Op == token.NEQ) {
					continue
				}
				if k, ok := bo.Y.(*ssa.Const); !ok || !k.IsNil() {
					continue
				}
				for _, r3 := range *bo.Referrers() {
					if ifi, ok := r3.(*ssa.If); ok {
						if bo.Op == token.EQL {
							starts = append(starts, ifi.Block().Succs[1])
						} else {
							starts = append(starts, ifi.Block().Succs[0])
						}
					}
				}
			}
		}
		if len(starts) == 0 {
			continue
		}
		good := true
		for _, s := range starts {
			for b := range reachFrom(s, nil) {
				if !s.Dominates(b) {
					continue
				}
				if ret, ok := b.Instrs[len(b.Instrs)-1].(*ssa.Return); ok {
					if k, isK := retVal(ret, 0).(*ssa.Const); isK && k.IsNil() {
						good = false
					}
				}
			}
		}
		if good {
			return call
		}
	}
	return nil
}

// c03Dropped: the correction counter of decimal.set (see c03Counters) does what it must: it grows by one exactly for an
// integer digit (no decimal point seen yet) that does not fit the digit buffer, and every assignment of the decimal
// point position from the stored digit count adds it.
func c03Dropped(c *Ctx, p *Prog) {
	const R = "C03/R7"
	fn := p.Method("benchfmt/internal/bytesconv", "decimal", "set")
	if fn == nil {
		c.Undecided(R, "anchor:decimal.set", "", "not found")
		return
	}
	site := p.pos(fn.Pos())
	mk := func() *e6Interp {
		return &e6Interp{fn: fn, PureCall: func(f *types.Func) bool { return true }, OuterName: func(v ssa.Value) string { return sibOuter(v, 0) }, MaxAtoms: 20, HoistedLoads: true}
	}
	outs, why := regionOutcomes(fn, mk, 20000)
	if why != "" {
		c.Undecided(R, "decimal.set:table", site, why)
		return
	}
	nUpd, nDp := 0, 0
	for _, o := range outs {
		// buffer-full and decimal-point-seen on this path
		full, sawdot := "?", "?"
		for _, k := range o.AtomKeys() {
			v := o.Assign[k]
			_ = v
			s := o.AtomSyms[k]
			str := s.String()
			if s.Op == "binop" && s.Tok == token.LSS && strings.Contains(str, ".nd)") && s.Args[1].isConst() {
				full = fmt.Sprint(!v)
			}
			if s.Op == "opaque" && strings.Contains(s.Name, "phi:sawdot") {
				sawdot = fmt.Sprint(v)
			}
		}
		if o.Term == "exit" && o.Exit != nil {
			for _, in := range o.Exit.Instrs {
				phi, ok := in.(*ssa.Phi)
				if !ok {
					break
				}
				if phi.Comment != "dropped" {
					continue
				}
				for j, pr := range o.Exit.Preds {
					if pr != o.ExitFrom {
						continue
					}
					next := o.Val(phi.Edges[j]).String()
					cur := "opaque:phi:dropped"
					isInit := next == "0" && len(o.Assign) > 0 && !strings.Contains(o.AssignStr(), "phi:i")
					if isInit || !strings.Contains(o.AssignStr(), "phi:") {
						continue // entry into the loop
					}
					nUpd++
					wantInc := full == "true" && sawdot == "false"
					got := "other"
					switch next {
					case cur:
						got = "same"
					case "(" + cur + " + 1)":
						got = "inc"
					}
					okU := (wantInc && got == "inc") || (!wantInc && got == "same")
					c.Check(okU, R, fmt.Sprintf("decimal.set:dropped[buffer full=%s point seen=%s]#%d", full, sawdot, nUpd), site, "the counter moves exactly for an unstored integer digit",
						fmt.Sprintf("with the digit buffer full=%s and a decimal point seen=%s the counter of dropped integer digits becomes %s: integer digits beyond the 800-digit buffer are lost from the magnitude (the value comes out a power of ten too small), or fraction digits are counted as integer digits", full, sawdot, truncate(next, 80)))
				}
			}
		}
		for k, v := range o.Mem {
			if !strings.HasSuffix(k, ".dp") || !strings.Contains(v.String(), ".nd)") {
				continue
			}
			nDp++
			// wherever the stored digit count enters the position it does so together with the dropped digits (the
			// exponent may be added in the same region or a later one)
			const term = "(*(&param:b.nd) + opaque:phi:dropped)"
			c.Check(strings.Count(v.String(), ".nd)") == strings.Count(v.String(), term), R, fmt.Sprintf("decimal.set:dp-from-digit-count#%d", nDp), site, "the decimal point position is the stored digit count plus the dropped integer digits",
				"the decimal point position is set to "+truncate(v.String(), 100)+", without the integer digits that did not fit the buffer: a mantissa of more than 800 digits is scaled wrongly")
		}
	}
	c.Floor(R, "updates of the dropped-digit counter", nUpd, 4)
	c.Floor(R, "decimal point positions taken from the digit count", nDp, 2)
}

// c03Special: the port's own recogniser of infinities and NaN accepts exactly strconv's spellings: an optional sign on
// inf/infinity, none on nan, the whole input compared (case-insensitively) with the literal.
func c03Special(c *Ctx, p *Prog) {
	const R = "C03/R8"
	fn := p.Fn("benchfmt/internal/bytesconv", "special")
	if fn == nil {
		c.Undecided(R, "anchor:special", "", "not found")
		return
	}
	site := p.pos(fn.Pos())
	want := map[string]string{"+inf": "+Inf", "+infinity": "+Inf", "inf": "+Inf", "infinity": "+Inf", "-inf": "-Inf", "-infinity": "-Inf", "nan": "NaN"}
	if c03SpecialTable(c, p, fn, want) {
		return
	}
	mk := func() *e6Interp { return &e6Interp{PureCall: func(f *types.Func) bool { return true }, MaxAtoms: 20} }
	outs, why := e6Enumerate(mk, fn.Blocks[0], nil, nil, 4096)
	if why != "" {
		c.Undecided(R, "special:table", site, why)
		return
	}
	seen := map[string]bool{}
	n := 0
	for _, o := range outs {
		if o.Term != "return" || len(o.Results) != 2 {
			continue
		}
		if b, ok := o.Results[1].boolConst(); !ok || !b {
			continue
		}
		n++
		// the comparison that succeeded
		lit, whole := "", false
		for _, k := range o.AtomKeys() {
			v := o.Assign[k]
			_ = v
			s := o.AtomSyms[k]
			if v && s.Op == "call" && strings.HasSuffix(s.Name, ".equalIgnoreCase") && len(s.Args) == 2 {
				if l, ok := constString2(s.Args[1]); ok {
					lit = l
					whole = s.Args[0].Op == "param"
				}
			}
		}
		val := "?"
		rs := o.Results[0].String()
		switch {
		case strings.Contains(rs, "math.NaN"):
			val = "NaN"
		case strings.Contains(rs, "math.Inf(1)"):
			val = "+Inf"
		case strings.Contains(rs, "math.Inf(-1)"):
			val = "-Inf"
		}
		key := fmt.Sprintf("special[%q]#%d", lit, n)
		switch {
		case lit == "" || !whole:
			c.Bad(R, key, site, "a special value ("+val+") is accepted after comparing something other than the whole input with a literal spelling (a stripped sign, a prefix): spellings strconv rejects, such as \"+nan\" or \"-NaN\", are then read as numbers instead of yielding a syntax error")
		case want[lit] == "":
			c.Bad(R, key, site, fmt.Sprintf("the spelling %q is accepted as %s; strconv accepts only [+-]inf, [+-]infinity and nan", lit, val))
		default:
			seen[lit] = true
			c.Check(want[lit] == val, R, key, site, fmt.Sprintf("%q reads as %s", lit, val), fmt.Sprintf("%q reads as %s, strconv gives %s", lit, val, want[lit]))
		}
	}
	var missing []string
	for l := range want {
		if !seen[l] {
			missing = append(missing, l)
		}
	}
	sort.Strings(missing)
	c.Check(len(missing) == 0, R, "special:all-spellings", site, "every spelling strconv accepts is accepted", fmt.Sprintf("the spellings %v, which strconv accepts, are not recognised", missing))
}

// c03Decimal (C03/R9).
func c03Decimal(c *Ctx, p *Prog) {
	const R = "C03/R9"
	fn := p.Fn("benchfmt/internal/bytesconv", "Atoi")
	if fn == nil {
		c.Undecided(R, "anchor:Atoi", "", "not found")
		return
	}
	n := 0
	eachInstr(fn, func(_ *ssa.BasicBlock, in ssa.Instruction) {
		call, ok := in.(*ssa.Call)
		if !ok {
			return
		}
		sc := call.Call.StaticCallee()
		if sc == nil || sc.Pkg != fn.Pkg || (sc.Name() != "ParseInt" && sc.Name() != "ParseUint") || len(call.Call.Args) != 3 {
			return
		}
		n++
		base, ok1 := constInt(call.Call.Args[1])
		bits, ok2 := constInt(call.Call.Args[2])
		c.Check(ok1 && ok2 && base == 10 && bits == 0, R, fmt.Sprintf("Atoi:%s#%d", sc.Name(), n), p.pos(call.Pos()), "base 10, bit size 0", fmt.Sprintf("Atoi's slow path parses with base %d (constant: %v) and bit size %d: an iteration count of 19 or more characters is then read with a base guessed from its prefix (0000000000000000000100 becomes 64, 0x…10 and 1_000_… are accepted) instead of the decimal integer written", base, ok1, bits))
	})
	c.Floor(R, "integer parser calls in Atoi", n, 1)
}

// c03SpecialTable: the table-driven form of special: a loop over a package-level table of (spelling, value) pairs that
// compares the whole input with each spelling and returns that entry's value. Reports whether this form was recognised.
func c03SpecialTable(c *Ctx, p *Prog, fn *ssa.Function, want map[string]string) bool {
	const R = "C03/R8"
	site := p.pos(fn.Pos())
	var tbl *ssa.Global
	var nameF *types.Var
	var cmpCall *ssa.Call
	eachInstr(fn, func(_ *ssa.BasicBlock, in ssa.Instruction) {
		call, ok := in.(*ssa.Call)
		if !ok || call.Call.StaticCallee() == nil || call.Call.StaticCallee().Name() != "equalIgnoreCase" || len(call.Call.Args) != 2 {
			return
		}
		f, base := loadOfField(call.Call.Args[1])
		if f == nil {
			return
		}
		if ia, ok := base.(*ssa.IndexAddr); ok {
			if g, ok := ia.X.(*ssa.Global); ok {
				tbl, nameF, cmpCall = g, f, call
			}
		}
	})
	if tbl == nil {
		return false
	}
	whole := cmpCall.Call.Args[0] == ssa.Value(fn.Params[0])
	// the value returned on a match is the same element's other field
	valOK := false
	var valF *types.Var
	for _, b := range fn.Blocks {
		ret, ok := b.Instrs[len(b.Instrs)-1].(*ssa.Return)
		if !ok || len(ret.Results) != 2 {
			continue
		}
		if k, ok := ret.Results[1].(*ssa.Const); !ok || k.Value == nil || !constant.BoolVal(k.Value) {
			continue
		}
		f, base := loadOfField(ret.Results[0])
		_, nameBase := loadOfField(cmpCall.Call.Args[1])
		if f != nil && f != nameF && sameValue(base, nameBase) {
			valOK, valF = true, f
			for _, ft := range factsAt(b) {
				if ft.Cond == ssa.Value(cmpCall) && ft.True {
					valOK = true
				}
			}
		}
	}
	// the table's contents, from the package initialiser
	entries := map[int64][2]string{}
	if initFn := fn.Pkg.Func("init"); initFn != nil {
		eachInstr(initFn, func(_ *ssa.BasicBlock, in ssa.Instruction) {
			st, ok := in.(*ssa.Store)
			if !ok {
				return
			}
			f, base := fieldOfAddr(st.Addr)
			ia, ok := base.(*ssa.IndexAddr)
			if f == nil || !ok || ia.X != ssa.Value(tbl) {
				return
			}
			i, ok := constInt(ia.Index)
			if !ok {
				return
			}
			e := entries[i]
			switch f {
			case nameF:
				if s, ok := constString(st.Val); ok {
					e[0] = s
				}
			case valF:
				e[1] = "?"
				if call, ok := st.Val.(*ssa.Call); ok {
					switch {
					case objIs(calleeObj(&call.Call), "math", "", "NaN"):
						e[1] = "NaN"
					case objIs(calleeObj(&call.Call), "math", "", "Inf"):
						if k, ok := constInt(call.Call.Args[0]); ok && k >= 0 {
							e[1] = "+Inf"
						} else if ok {
							e[1] = "-Inf"
						}
					}
				}
			}
			entries[i] = e
		})
	}
	c.Check(whole && valOK, R, "special:table-lookup", site, "the whole input is compared with each spelling of the table and the matching entry's value is returned", "the table-driven recogniser does not compare the whole input with the entry's spelling, or returns something other than that entry's value")
	seen := map[string]bool{}
	var idx []int64
	for i := range entries {
		idx = append(idx, i)
	}
	sort.Slice(idx, func(a, b int) bool { return idx[a] < idx[b] })
	for _, i := range idx {
		e := entries[i]
		key := fmt.Sprintf("special[%q]", e[0])
		if want[e[0]] == "" {
			c.Bad(R, key, site, fmt.Sprintf("the spelling %q is accepted as %s; strconv accepts only [+-]inf, [+-]infinity and nan", e[0], e[1]))
			continue
		}
		seen[e[0]] = true
		c.Check(want[e[0]] == e[1], R, key, site, fmt.Sprintf("%q reads as %s", e[0], e[1]), fmt.Sprintf("%q reads as %s, strconv gives %s", e[0], e[1], want[e[0]]))
	}
	var missing []string
	for l := range want {
		if !seen[l] {
			missing = append(missing, l)
		}
	}
	sort.Strings(missing)
	c.Check(len(missing) == 0, R, "special:all-spellings", site, "every spelling strconv accepts is accepted", fmt.Sprintf("the spellings %v, which strconv accepts, are not recognised", missing))
	return true
}

// c03Trunc (C03/R10): a mantissa digit that no longer fits marks the value as truncated only if it carries weight. In
// readFloat every place where the truncation flag becomes true lies where the digit is known not to be '0' (c != '0'),
// or in a branch for hexadecimal letters (never zero). Marking a dropped zero sends an exact tie — zero padding behind a
// 53-bit mantissa plus the half bit — through "round up" instead of "round to even".
func c03Trunc(c *Ctx, p *Prog) {
	const R = "C03/R10"
	fn := p.Fn("benchfmt/internal/bytesconv", "readFloat")
	if fn == nil {
		c.Undecided(R, "anchor:readFloat", "", "not found")
		return
	}
	n := 0
	for _, b := range fn.Blocks {
		for _, in := range b.Instrs {
			phi, ok := in.(*ssa.Phi)
			if !ok || phi.Comment != "trunc" || !isBoolT(phi.Type()) {
				continue
			}
			for i, e := range phi.Edges {
				k, ok := e.(*ssa.Const)
				if !ok || k.Value == nil || !constant.BoolVal(k.Value) {
					continue
				}
				n++
				pred := b.Preds[i]
				nonZero := false
				// the facts on the way, with `switch true { case a && b: }` unfolded: the case is `true == phi(false…, b)`
				// and b is computed where a already held
				facts := factsAt(pred)
				for i := 0; i < len(facts) && i < 64; i++ {
					f := facts[i]
					bo, ok := f.Cond.(*ssa.BinOp)
					if !ok || !f.True || bo.Op != token.EQL {
						continue
					}
					var other ssa.Value
					if kb, isB := bo.X.(*ssa.Const); isB && kb.Value != nil && kb.Value.Kind() == constant.Bool && constant.BoolVal(kb.Value) {
						other = bo.Y
					} else if kb, isB := bo.Y.(*ssa.Const); isB && kb.Value != nil && kb.Value.Kind() == constant.Bool && constant.BoolVal(kb.Value) {
						other = bo.X
					}
					switch x := other.(type) {
					case *ssa.BinOp:
						facts = append(facts, fact{Cond: x, True: true, If: f.If})
					case *ssa.Phi:
						var live []ssa.Value
						for _, e := range x.Edges {
							if k, isK := e.(*ssa.Const); isK && k.Value != nil && k.Value.Kind() == constant.Bool && !constant.BoolVal(k.Value) {
								continue
							}
							live = append(live, e)
						}
						if len(live) == 1 {
							facts = append(facts, fact{Cond: live[0], True: true, If: f.If})
							if in, isIn := live[0].(ssa.Instruction); isIn {
								facts = append(facts, factsAt(in.Block())...)
							}
						}
					}
				}
				for _, f := range facts {
					bo, ok := f.Cond.(*ssa.BinOp)
					if !ok {
						continue
					}
					kk, isK := constInt(bo.Y)
					// the digit's numeric value tested against 0: value = c - '0' (possibly merged with the hexadecimal
					// letters' value through a phi)
					if isK && kk == 0 && ((bo.Op == token.NEQ && f.True) || (bo.Op == token.EQL && !f.True)) {
						var isDigitValue func(v ssa.Value, d int) bool
						isDigitValue = func(v ssa.Value, d int) bool {
							if d > 4 {
								return false
							}
							switch x := v.(type) {
							case *ssa.Convert:
								return isDigitValue(x.X, d+1)
							case *ssa.BinOp:
								if k2, ok := constInt(x.Y); ok && x.Op == token.SUB && k2 == '0' {
									return true
								}
							case *ssa.Phi:
								for _, e := range x.Edges {
									if isDigitValue(e, d+1) {
										return true
									}
								}
							}
							return false
						}
						if isDigitValue(bo.X, 0) {
							nonZero = true
						}
					}
					switch {
					case isK && kk == '0' && ((bo.Op == token.NEQ && f.True) || (bo.Op == token.EQL && !f.True)):
						nonZero = true // c != '0'
					case isK && kk == 'f' && bo.Op == token.LEQ && f.True:
						nonZero = true // lower(c) <= 'f' in the hexadecimal-letter branch
					}
					if kx, isKx := constInt(bo.X); isKx && kx == 'a' && bo.Op == token.LEQ && f.True {
						nonZero = true // 'a' <= lower(c)
					}
				}
				c.Check(nonZero, R, fmt.Sprintf("readFloat:trunc-set#%d", n), p.pos(phi.Pos()), "the truncation flag is set for a dropped digit known to be non-zero",
					"the truncation flag is set for a dropped mantissa digit without that digit being known non-zero: trailing zeros behind a full mantissa then count as lost precision, and a hexadecimal float that is an exact tie (0x1.00000000000008000p0) is rounded up instead of to even — one ulp away from what the standard parser returns")
			}
		}
	}
	c.Floor(R, "places where readFloat marks the mantissa as truncated", n, 1)
}

// c03FreshDecimal (C03/R11): the multiprecision decimal of the slow path starts from nothing: every (*decimal).set in
// the package is called on a decimal allocated in the calling function (a local or new(decimal)), never on one obtained
// from elsewhere — a pool, a field, a package-level variable. set appends to the digits already there (it was written
// for a zero value), so a recycled decimal parses the old digits followed by the new ones.
func c03FreshDecimal(c *Ctx, p *Prog) {
	const R = "C03/R11"
	set := p.Method("benchfmt/internal/bytesconv", "decimal", "set")
	if set == nil {
		c.Undecided(R, "anchor:decimal.set", "", "not found")
		return
	}
	n := 0
	for _, fn := range p.Funcs("benchfmt/internal/bytesconv") {
		eachInstr(fn, func(_ *ssa.BasicBlock, in ssa.Instruction) {
			call, ok := in.(*ssa.Call)
			if !ok || call.Call.StaticCallee() != set {
				return
			}
			n++
			recv := call.Call.Args[0]
			al, isAlloc := recv.(*ssa.Alloc)
			fresh := isAlloc && al.Parent() == fn
			if fresh {
				// nothing stored into it before set
				for _, r := range *al.Referrers() {
					if st, ok := r.(*ssa.Store); ok && st.Addr == ssa.Value(al) && instrDominates(st, call) {
						fresh = false
					}
				}
			}
			c.Check(fresh, R, fmt.Sprintf("%s:set-on-fresh-decimal#%d", fnName(fn), n), p.pos(call.Pos()), "set is called on a decimal allocated here",
				"set is called on a decimal that was not allocated in this function (recycled from a pool, a field or a package-level variable): set does not clear the digit count, so the second slow-path number of a process is parsed as the previous number's digits followed by its own — 2e300 after another slow-path value comes back as a range error")
		})
	}
	c.Floor(R, "calls of decimal.set", n, 2)
}
