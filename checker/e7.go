// e7.go: E7 — formula conformance.
//
// A symbolic float expression extracted from SSA by the E6 interpreter is
// compared with a reference formula as rational functions over the reals.
// Identity is decided by exact evaluation (math/big.Rat) at several
// pseudo-random rational points of the leaves' domain — the classical
// polynomial-identity test; two distinct rational functions of the small
// degrees occurring here agree on all of the sample points with negligible
// probability, and identical ones always agree, so algebraically equivalent
// rewritings (reassociation, distribution, temporaries) pass and a changed
// sign, constant, operand or swapped pair fails. Non-rational functions
// (sqrt, log, exp, erfc, ...) are uninterpreted: equal arguments give equal
// values. Abs, Min, Max and integer powers are interpreted exactly.
// This decides agreement over the reals, never floating-point accuracy.
package main

import (
	"fmt"
	"go/constant"
	"go/token"
	"hash/fnv"
	"math/big"
	"strings"
)

type ratEnv struct {
	leaves map[string]*big.Rat // by Sym.String()
	salt   int
	// leafOf lets a rule bind leaves by pattern (returns "" to fall through to leaves/hash).
	leafOf  func(s *Sym) string
	named   map[string]*big.Rat
	unknown []string
}

func hashRat(s string, salt int) *big.Rat {
	h := fnv.New64a()
	fmt.Fprintf(h, "%d|%s", salt, s)
	v := h.Sum64()
	// a rational in (1/7, 50): positive, away from 0 and 1
	num := int64(v%9973) + 1500
	den := int64((v>>20)%199) + 211
	return big.NewRat(num, den)
}

func (e *ratEnv) leaf(s *Sym) *big.Rat {
	if e.leafOf != nil {
		if n := e.leafOf(s); n != "" {
			if v, ok := e.named[n]; ok {
				return v
			}
		}
	}
	k := s.String()
	if v, ok := e.leaves[k]; ok {
		return v
	}
	e.unknown = append(e.unknown, k)
	return hashRat(k, e.salt)
}

type e7Err struct{ msg string }

func (e *ratEnv) eval(s *Sym) *big.Rat {
	if e.leafOf != nil && s.Op != "const" {
		if n := e.leafOf(s); n != "" {
			if v, ok := e.named[n]; ok {
				return v
			}
		}
	}
	switch s.Op {
	case "const":
		if s.Const == nil || s.IsNil {
			return new(big.Rat)
		}
		switch s.Const.Kind() {
		case constant.Int, constant.Float:
			r := new(big.Rat)
			if _, ok := r.SetString(constant.ToFloat(s.Const).ExactString()); ok {
				return r
			}
		}
		panic(e7Err{"non-numeric constant " + s.String()})
	case "convert":
		if strings.HasPrefix(s.Name, "float") || strings.HasPrefix(s.Name, "int") || strings.HasPrefix(s.Name, "uint") {
			return e.eval(s.Args[0])
		}
	case "unop":
		if s.Tok == token.SUB {
			return new(big.Rat).Neg(e.eval(s.Args[0]))
		}
	case "binop":
		switch s.Tok {
		case token.ADD, token.SUB, token.MUL, token.QUO:
			x, y := e.eval(s.Args[0]), e.eval(s.Args[1])
			r := new(big.Rat)
			switch s.Tok {
			case token.ADD:
				return r.Add(x, y)
			case token.SUB:
				return r.Sub(x, y)
			case token.MUL:
				return r.Mul(x, y)
			case token.QUO:
				if y.Sign() == 0 {
					panic(e7Err{"division by zero at a sample point"})
				}
				if s.Type != nil && isInteger(s.Type) {
					// integer division: only exact when divisible; treat as uninterpreted otherwise
					q := new(big.Rat).Quo(x, y)
					if q.IsInt() {
						return q
					}
					return hashRat("intdiv("+x.RatString()+","+y.RatString()+")", e.salt)
				}
				return r.Quo(x, y)
			}
		}
	case "call":
		name := s.Name
		if i := strings.Index(name, "@"); i >= 0 {
			name = name[:i]
		}
		switch name {
		case "math.Abs":
			return new(big.Rat).Abs(e.eval(s.Args[0]))
		case "math.Max", "max":
			x, y := e.eval(s.Args[0]), e.eval(s.Args[1])
			if x.Cmp(y) >= 0 {
				return x
			}
			return y
		case "math.Min", "min":
			x, y := e.eval(s.Args[0]), e.eval(s.Args[1])
			if x.Cmp(y) <= 0 {
				return x
			}
			return y
		case "math.Pow":
			x, y := e.eval(s.Args[0]), e.eval(s.Args[1])
			if y.IsInt() && y.Num().IsInt64() && y.Num().Int64() >= 0 && y.Num().Int64() <= 8 {
				r := big.NewRat(1, 1)
				for i := int64(0); i < y.Num().Int64(); i++ {
					r.Mul(r, x)
				}
				return r
			}
			return hashRat("pow("+x.RatString()+","+y.RatString()+")", e.salt)
		case "math.Sqrt", "math.Log", "math.Exp", "math.Erfc", "math.Erf", "math.Floor", "math.Ceil", "math.Gamma", "math.Lgamma", "math.Log1p", "math.Expm1":
			x := e.eval(s.Args[0])
			return hashRat(name+"("+x.RatString()+")", e.salt)
		case "len":
			return e.leaf(s)
		}
		// other calls: uninterpreted function of the evaluated numeric arguments when all are numeric, else a leaf
		return e.leaf(s)
	}
	return e.leaf(s)
}

// e7Equal evaluates s and ref at the given sample environments and reports the first disagreement.
func e7Equal(s *Sym, ref func(get func(string) *big.Rat) *big.Rat, points []map[string]*big.Rat, leafOf func(*Sym) string) (ok bool, detail string) {
	defer func() {
		if r := recover(); r != nil {
			if ee, isE := r.(e7Err); isE {
				ok, detail = false, "cannot evaluate: "+ee.msg
				return
			}
			panic(r)
		}
	}()
	for i, pt := range points {
		env := &ratEnv{leaves: map[string]*big.Rat{}, salt: i + 1, leafOf: leafOf, named: pt}
		got := env.eval(s)
		want := ref(func(n string) *big.Rat {
			v, ok := pt[n]
			if !ok {
				panic(e7Err{"reference uses unbound leaf " + n})
			}
			return v
		})
		if got.Cmp(want) != 0 {
			var ps []string
			for k, v := range pt {
				ps = append(ps, k+"="+v.RatString())
			}
			gf, _ := got.Float64()
			wf, _ := want.Float64()
			return false, fmt.Sprintf("at %s the code's expression %s evaluates to %.6g, the documented formula to %.6g", strings.Join(sortedStrs(ps), " "), s, gf, wf)
		}
	}
	return true, ""
}

func sortedStrs(s []string) []string {
	out := append([]string(nil), s...)
	for i := range out {
		for j := i + 1; j < len(out); j++ {
			if out[j] < out[i] {
				out[i], out[j] = out[j], out[i]
			}
		}
	}
	return out
}

func rat(a, b int64) *big.Rat { return big.NewRat(a, b) }

// ratOps: tiny helpers for writing reference formulas.
func rAdd(a, b *big.Rat) *big.Rat { return new(big.Rat).Add(a, b) }
func rSub(a, b *big.Rat) *big.Rat { return new(big.Rat).Sub(a, b) }
func rMul(a, b *big.Rat) *big.Rat { return new(big.Rat).Mul(a, b) }
func rQuo(a, b *big.Rat) *big.Rat { return new(big.Rat).Quo(a, b) }
func rAbs(a *big.Rat) *big.Rat    { return new(big.Rat).Abs(a) }
func rMax(a, b *big.Rat) *big.Rat {
	if a.Cmp(b) >= 0 {
		return a
	}
	return b
}
