// ssau.go: small SSA pattern helpers shared by the rules.
package main

import (
	"fmt"
	"go/constant"
	"go/token"
	"go/types"
	"sort"
	"strings"

	"golang.org/x/tools/go/ssa"
)

// calleeObj returns the statically known callee (function or method object) of
// a call, including interface methods for invoke-mode calls; nil for dynamic
// calls through function values.
func calleeObj(cc *ssa.CallCommon) *types.Func {
	if cc.IsInvoke() {
		return cc.Method
	}
	switch v := cc.Value.(type) {
	case *ssa.Function:
		if o, ok := v.Object().(*types.Func); ok {
			return o
		}
		// instantiated generic
		if v.Origin() != nil {
			if o, ok := v.Origin().Object().(*types.Func); ok {
				return o
			}
		}
	case *ssa.MakeClosure:
		// not an object
	}
	return nil
}

// objIs reports whether f is the function pkgPath.name, or the method
// pkgPath.(recv).name when recv != "".
func objIs(f *types.Func, pkgPath, recv, name string) bool {
	if f == nil || f.Name() != name || f.Pkg() == nil || f.Pkg().Path() != pkgPath {
		return false
	}
	sig := f.Type().(*types.Signature)
	if recv == "" {
		return sig.Recv() == nil
	}
	if sig.Recv() == nil {
		return false
	}
	return recvName(sig.Recv().Type()) == recv
}

func recvName(t types.Type) string {
	if p, ok := t.(*types.Pointer); ok {
		t = p.Elem()
	}
	if n, ok := t.(*types.Named); ok {
		return n.Obj().Name()
	}
	return ""
}

// rel path helper: "benchfmt" -> "golang.org/x/perf/benchfmt"
func rp(rel string) string { return modPath + "/" + rel }

// callIs reports whether instruction in is a call (call/go/defer) to the named function.
func callIs(in ssa.Instruction, pkgPath, recv, name string) (*ssa.CallCommon, bool) {
	ci, ok := in.(ssa.CallInstruction)
	if !ok {
		return nil, false
	}
	cc := ci.Common()
	if objIs(calleeObj(cc), pkgPath, recv, name) {
		return cc, true
	}
	return nil, false
}

// callArgs returns the arguments of a call with the receiver (if any) first,
// for both call and invoke modes.
func callArgs(cc *ssa.CallCommon) []ssa.Value {
	if cc.IsInvoke() {
		return append([]ssa.Value{cc.Value}, cc.Args...)
	}
	return cc.Args
}

// A fact is a branch condition known to hold at a block.
type fact struct {
	Cond ssa.Value
	True bool
	If   *ssa.If
}

// factsAt returns the branch conditions on dominating edges of b, innermost
// first: conditions c such that every path from entry to b takes the
// (c==True) edge of the If that tests c.
func factsAt(b *ssa.BasicBlock) []fact {
	var out []fact
	for d := b; d != nil; d = d.Idom() {
		id := d.Idom()
		if id == nil {
			break
		}
		// d is entered only through edges from blocks it dominates (back
		// edges) or from id?  Require a single predecessor for soundness.
		if len(d.Preds) != 1 || d.Preds[0] != id {
			continue
		}
		ifi, ok := id.Instrs[len(id.Instrs)-1].(*ssa.If)
		if !ok {
			continue
		}
		if id.Succs[0] == d && id.Succs[1] == d {
			continue
		}
		tr := id.Succs[0] == d
		cond := ifi.Cond
		// peel negations
		for {
			u, ok := cond.(*ssa.UnOp)
			if ok && u.Op == token.NOT {
				cond = u.X
				tr = !tr
				continue
			}
			break
		}
		out = append(out, fact{cond, tr, ifi})
	}
	return out
}

// stripConv peels value-preserving wrappers (ChangeType, MakeInterface is NOT peeled).
func stripConv(v ssa.Value) ssa.Value {
	for {
		switch x := v.(type) {
		case *ssa.ChangeType:
			v = x.X
		default:
			return v
		}
	}
}

// sameValue reports whether a and b denote the same runtime value: identical
// SSA values, equal constants, or loads through the same address chain
// (go/ssa performs no CSE, so r.x read twice gives two loads). Loads are
// considered equal only when no store to the same field/addr kind intervenes
// in the function (conservatively: no store to that field anywhere in fn
// other than those dominating both loads is NOT checked; callers use this only
// for fields not written in the function, see noStoreTo).
func sameValue(a, b ssa.Value) bool {
	a, b = stripConv(a), stripConv(b)
	if a == b {
		return true
	}
	switch x := a.(type) {
	case *ssa.Const:
		y, ok := b.(*ssa.Const)
		if !ok {
			return false
		}
		if x.Value == nil || y.Value == nil {
			return x.Value == nil && y.Value == nil && types.Identical(x.Type(), y.Type())
		}
		return constant.Compare(x.Value, token.EQL, y.Value)
	case *ssa.UnOp:
		y, ok := b.(*ssa.UnOp)
		if !ok || x.Op != y.Op {
			return false
		}
		if x.Op == token.MUL {
			return sameAddr(x.X, y.X)
		}
		return sameValue(x.X, y.X)
	case *ssa.BinOp:
		y, ok := b.(*ssa.BinOp)
		return ok && x.Op == y.Op && sameValue(x.X, y.X) && sameValue(x.Y, y.Y)
	case *ssa.Extract:
		y, ok := b.(*ssa.Extract)
		return ok && x.Index == y.Index && x.Tuple == y.Tuple
	case *ssa.Field:
		y, ok := b.(*ssa.Field)
		return ok && x.Field == y.Field && sameValue(x.X, y.X)
	}
	return false
}

func sameAddr(a, b ssa.Value) bool {
	if a == b {
		return true
	}
	switch x := a.(type) {
	case *ssa.FieldAddr:
		y, ok := b.(*ssa.FieldAddr)
		return ok && x.Field == y.Field && sameBase(x.X, y.X)
	case *ssa.IndexAddr:
		y, ok := b.(*ssa.IndexAddr)
		return ok && sameBase(x.X, y.X) && sameValue(x.Index, y.Index)
	case *ssa.Global:
		return a == b
	}
	return false
}

func sameBase(a, b ssa.Value) bool {
	if a == b {
		return true
	}
	// pointer loaded from the same address, or address chains
	if sameAddr(a, b) {
		return true
	}
	return sameValue(a, b)
}

// fieldOfAddr: if v is &X.f returns the field object and X.
func fieldOfAddr(v ssa.Value) (*types.Var, ssa.Value) {
	fa, ok := v.(*ssa.FieldAddr)
	if !ok {
		return nil, nil
	}
	t := fa.X.Type().Underlying().(*types.Pointer).Elem().Underlying().(*types.Struct)
	return t.Field(fa.Field), fa.X
}

// fieldOfVal: if v is X.f (value field selection) returns the field object and X.
func fieldOfVal(v ssa.Value) (*types.Var, ssa.Value) {
	f, ok := v.(*ssa.Field)
	if !ok {
		return nil, nil
	}
	t := f.X.Type().Underlying().(*types.Struct)
	return t.Field(f.Field), f.X
}

// loadOfField: if v is a load *(&X.f) or X.f returns the field and base.
func loadOfField(v ssa.Value) (*types.Var, ssa.Value) {
	v = stripConv(v)
	if u, ok := v.(*ssa.UnOp); ok && u.Op == token.MUL {
		return fieldOfAddr(u.X)
	}
	return fieldOfVal(v)
}

var liveCache = map[*ssa.Function]map[*ssa.BasicBlock]bool{}

// liveBlocks: blocks reachable from the entry when branches on constants (`const debug = false`) are resolved.
func liveBlocks(fn *ssa.Function) map[*ssa.BasicBlock]bool {
	if m, ok := liveCache[fn]; ok {
		return m
	}
	m := map[*ssa.BasicBlock]bool{}
	if len(fn.Blocks) > 0 {
		work := []*ssa.BasicBlock{fn.Blocks[0]}
		for len(work) > 0 {
			b := work[len(work)-1]
			work = work[:len(work)-1]
			if m[b] {
				continue
			}
			m[b] = true
			if ifi, ok := b.Instrs[len(b.Instrs)-1].(*ssa.If); ok {
				if cst, ok := ifi.Cond.(*ssa.Const); ok && cst.Value != nil && cst.Value.Kind() == constant.Bool {
					if constant.BoolVal(cst.Value) {
						work = append(work, b.Succs[0])
					} else {
						work = append(work, b.Succs[1])
					}
					continue
				}
			}
			work = append(work, b.Succs...)
		}
		if fn.Recover != nil {
			m[fn.Recover] = true
		}
	}
	liveCache[fn] = m
	return m
}

// eachInstr visits every instruction of fn in blocks that are not statically dead.
func eachInstr(fn *ssa.Function, f func(b *ssa.BasicBlock, in ssa.Instruction)) {
	live := liveBlocks(fn)
	for _, b := range fn.Blocks {
		if !live[b] {
			continue
		}
		for _, in := range b.Instrs {
			f(b, in)
		}
	}
}

// storesToField lists stores in fn whose address is a FieldAddr of field.
func storesToField(fn *ssa.Function, field *types.Var) []*ssa.Store {
	var out []*ssa.Store
	eachInstr(fn, func(_ *ssa.BasicBlock, in ssa.Instruction) {
		if st, ok := in.(*ssa.Store); ok {
			if f, _ := fieldOfAddr(st.Addr); f == field {
				out = append(out, st)
			}
		}
	})
	return out
}

// callsIn lists the calls in fn to the given callee.
func callsIn(fn *ssa.Function, pkgPath, recv, name string) []ssa.CallInstruction {
	var out []ssa.CallInstruction
	eachInstr(fn, func(_ *ssa.BasicBlock, in ssa.Instruction) {
		if _, ok := callIs(in, pkgPath, recv, name); ok {
			out = append(out, in.(ssa.CallInstruction))
		}
	})
	return out
}

// extractOf reports whether v is result #idx of call (or the call itself when it has a single result).
func extractOf(v ssa.Value, call ssa.Value, idx int) bool {
	v = stripConv(v)
	if e, ok := v.(*ssa.Extract); ok {
		return e.Tuple == call && e.Index == idx
	}
	return false
}

// isStringType / isFloatType
func isString(t types.Type) bool {
	b, ok := t.Underlying().(*types.Basic)
	return ok && b.Info()&types.IsString != 0
}
func isFloat(t types.Type) bool {
	b, ok := t.Underlying().(*types.Basic)
	return ok && b.Info()&types.IsFloat != 0
}
func isInteger(t types.Type) bool {
	b, ok := t.Underlying().(*types.Basic)
	return ok && b.Info()&types.IsInteger != 0
}

// constInt returns the integer value of a constant SSA value.
func constInt(v ssa.Value) (int64, bool) {
	c, ok := stripConv(v).(*ssa.Const)
	if !ok || c.Value == nil || c.Value.Kind() != constant.Int {
		return 0, false
	}
	return c.Int64(), true
}

func constString(v ssa.Value) (string, bool) {
	c, ok := stripConv(v).(*ssa.Const)
	if !ok || c.Value == nil || c.Value.Kind() != constant.String {
		return "", false
	}
	return constant.StringVal(c.Value), true
}

// blockDominatedByEdge reports whether edge from->from.Succs[i] dominates b.
func edgeDominates(from *ssa.BasicBlock, i int, b *ssa.BasicBlock) bool {
	s := from.Succs[i]
	if len(s.Preds) != 1 {
		return false
	}
	return s.Dominates(b)
}

// reachable blocks from start (inclusive) without passing through any block in stop.
func reachFrom(start *ssa.BasicBlock, stop map[*ssa.BasicBlock]bool) map[*ssa.BasicBlock]bool {
	seen := map[*ssa.BasicBlock]bool{}
	var walk func(b *ssa.BasicBlock)
	walk = func(b *ssa.BasicBlock) {
		if seen[b] || stop[b] {
			return
		}
		seen[b] = true
		for _, s := range b.Succs {
			walk(s)
		}
	}
	walk(start)
	return seen
}

func valStr(v ssa.Value) string {
	if v == nil {
		return "<nil>"
	}
	return fmt.Sprintf("%s(%s)", v.Name(), strings.ReplaceAll(v.String(), modPath+"/", ""))
}

// derefs: if v is a unary load, return the address.
func loadAddr(v ssa.Value) ssa.Value {
	if u, ok := stripConv(v).(*ssa.UnOp); ok && u.Op == token.MUL {
		return u.X
	}
	return nil
}

// instrIndex returns the index of in within its block.
func instrIndex(in ssa.Instruction) int {
	for i, x := range in.Block().Instrs {
		if x == in {
			return i
		}
	}
	return -1
}

// instrDominates: a executes before b on every path reaching b.
func instrDominates(a, b ssa.Instruction) bool {
	if a.Block() == b.Block() {
		return instrIndex(a) < instrIndex(b)
	}
	return a.Block().Dominates(b.Block())
}

// retVal returns result i of a return instruction, looking through the result
// slots go/ssa introduces in functions with defers (store; rundefers; load; return).
func retVal(ret *ssa.Return, i int) ssa.Value {
	v := ret.Results[i]
	la := loadAddr(v)
	if la == nil {
		return v
	}
	al, ok := la.(*ssa.Alloc)
	if !ok {
		return v
	}
	instrs := ret.Block().Instrs
	for j := len(instrs) - 1; j >= 0; j-- {
		if st, ok := instrs[j].(*ssa.Store); ok && st.Addr == al {
			return st.Val
		}
	}
	return v
}

func retLast(ret *ssa.Return) ssa.Value { return retVal(ret, len(ret.Results)-1) }

func isBoolean(t types.Type) bool {
	b, ok := t.Underlying().(*types.Basic)
	return ok && b.Info()&types.IsBoolean != 0
}

// ascendingSortCall: in sorts its first argument, a slice of ordered elements, into ascending order with the standard
// library (sort.Float64s/Ints/Strings or slices.Sort).
func ascendingSortCall(in ssa.Instruction) (*ssa.CallCommon, bool) {
	for _, n := range []string{"Float64s", "Ints", "Strings"} {
		if cc, ok := callIs(in, "sort", "", n); ok {
			return cc, true
		}
	}
	if cc, ok := callIs(in, "slices", "", "Sort"); ok {
		return cc, true
	}
	return nil, false
}

// calledOnlyFrom: fn has at least one static caller among fns and every static caller of fn (among fns) satisfies ok,
// transitively through helpers that are themselves called only from such functions.
func calledOnlyFrom(fn *ssa.Function, fns []*ssa.Function, ok func(*ssa.Function) bool) bool {
	var rec func(f *ssa.Function, d int) bool
	rec = func(f *ssa.Function, d int) bool {
		if ok(f) {
			return true
		}
		if d > 4 {
			return false
		}
		n := 0
		for _, g := range fns {
			calls := false
			eachInstr(g, func(_ *ssa.BasicBlock, in ssa.Instruction) {
				if ci, isCall := in.(ssa.CallInstruction); isCall && ci.Common().StaticCallee() == f {
					calls = true
				}
			})
			if !calls || g == f {
				continue
			}
			n++
			if !rec(g, d+1) {
				return false
			}
		}
		return n > 0
	}
	return rec(fn, 0)
}

// countedLoop: idx is the counter of an ascending loop with step 1 and constant bounds — either the phi of
// `for i := a; i < N; i++` used in the body, or the phi+1 of a range loop (phi starts at -1, the header tests phi+1 < N).
// Returns the first and last value idx takes in the body. The bound may be a constant or the length of an array.
func countedLoop(idx ssa.Value) (first, last int64, ok bool) {
	var phi *ssa.Phi
	var inc *ssa.BinOp
	rangeForm := false
	switch x := idx.(type) {
	case *ssa.Phi:
		phi = x
	case *ssa.BinOp:
		if p, isPhi := x.X.(*ssa.Phi); isPhi && x.Op == token.ADD {
			if k, isK := constInt(x.Y); isK && k == 1 {
				phi, inc, rangeForm = p, x, true
			}
		}
	}
	if phi == nil || len(phi.Edges) != 2 {
		return 0, 0, false
	}
	var init int64
	haveInit := false
	for _, e := range phi.Edges {
		if k, isK := constInt(e); isK {
			init, haveInit = k, true
			continue
		}
		bo, isBo := e.(*ssa.BinOp)
		if !isBo || bo.Op != token.ADD || bo.X != ssa.Value(phi) {
			return 0, 0, false
		}
		if k, isK := constInt(bo.Y); !isK || k != 1 {
			return 0, 0, false
		}
		if inc == nil {
			inc = bo
		} else if rangeForm && bo != inc {
			return 0, 0, false
		}
	}
	if !haveInit || inc == nil {
		return 0, 0, false
	}
	// the header's test: tested < N with tested the counter as seen at the test
	tested := ssa.Value(phi)
	if rangeForm {
		tested = inc
	}
	hdr := phi.Block()
	ifi, isIf := hdr.Instrs[len(hdr.Instrs)-1].(*ssa.If)
	if !isIf {
		return 0, 0, false
	}
	cond, isBo := ifi.Cond.(*ssa.BinOp)
	if !isBo || cond.Op != token.LSS || cond.X != tested {
		return 0, 0, false
	}
	n, isK := constInt(cond.Y)
	if !isK {
		// len of an array value or pointer
		if call, isCall := cond.Y.(*ssa.Call); isCall {
			if b, isB := call.Call.Value.(*ssa.Builtin); isB && b.Name() == "len" {
				t := call.Call.Args[0].Type().Underlying()
				if pt, isP := t.(*types.Pointer); isP {
					t = pt.Elem().Underlying()
				}
				if at, isA := t.(*types.Array); isA {
					n, isK = at.Len(), true
				}
			}
		}
	}
	if !isK {
		return 0, 0, false
	}
	first = init
	if rangeForm {
		first = init + 1
	}
	return first, n - 1, first <= n-1
}

func sortedKeys[V any](m map[string]V) []string {
	out := make([]string, 0, len(m))
	for k := range m {
		out = append(out, k)
	}
	sort.Strings(out)
	return out
}
