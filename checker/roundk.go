package main

// Rules added for the seventh round of seeded changes (DESIGN §0.16). Path rules over the CFG: "every path from A to B
// passes C", decided with reachFrom (reachability that avoids a set of blocks).

import (
	"fmt"
	"go/token"
	"go/types"
	"strings"

	"golang.org/x/tools/go/ssa"
)

var _ = strings.Contains
var _ types.Type

// guardsOf: the conditions every path to block at has passed, leaving out (a) conditions of the loop lp itself,
// (b) the exit condition of an earlier loop that simply ran to its end, (c) "the previous write did not fail" where the
// failing branch returns that error. What remains is a real condition on reaching at.
func guardsOf(at *ssa.BasicBlock, lp *loopInfo) []fact {
	var out []fact
	loops := naturalLoops(at.Parent())
	for _, f := range factsAt(at) {
		if lp != nil && (f.If.Block() == lp.Header || lp.Blocks[f.If.Block()]) {
			continue
		}
		left := false
		for _, l := range loops {
			if l.Header == f.If.Block() && !l.Blocks[at] {
				left = true
			}
		}
		if left {
			continue
		}
		if bo, ok := f.Cond.(*ssa.BinOp); ok && !f.True && bo.Op == token.NEQ && isErrorType(bo.X.Type()) {
			if k, ok := bo.Y.(*ssa.Const); ok && k.IsNil() {
				then := f.If.Block().Succs[0]
				if ret, ok := then.Instrs[len(then.Instrs)-1].(*ssa.Return); ok && len(ret.Results) > 0 && retLast(ret) == bo.X {
					continue
				}
			}
		}
		out = append(out, f)
	}
	return out
}

// blocksWhere: the blocks of fn holding an instruction for which pred holds.
func blocksWhere(fn *ssa.Function, pred func(ssa.Instruction) bool) map[*ssa.BasicBlock]bool {
	out := map[*ssa.BasicBlock]bool{}
	eachInstr(fn, func(b *ssa.BasicBlock, in ssa.Instruction) {
		if pred(in) {
			out[b] = true
		}
	})
	return out
}

// usesAddrOfField: the instruction is a call one of whose operands is (an interface holding) the address of field f.
func usesAddrOfField(in ssa.Instruction, f *types.Var) bool {
	ci, ok := in.(ssa.CallInstruction)
	if !ok {
		return false
	}
	for _, a := range callArgs(ci.Common()) {
		if mi, ok := a.(*ssa.MakeInterface); ok {
			a = mi.X
		}
		if g, _ := fieldOfAddr(a); g == f {
			return true
		}
	}
	return false
}

// c01EveryRecordWritten (C01/R17): a unit-metadata record handed to the writer is written: in the function Write
// hands a *UnitMetadata to, every path from the entry to a return passes a write into the writer's buffer.
func c01EveryRecordWritten(c *Ctx, p *Prog) {
	const R = "C01/R17"
	write := p.Method("benchfmt", "Writer", "Write")
	bufF := p.Field("benchfmt", "Writer", "buf")
	umT := p.Named("benchfmt", "UnitMetadata")
	if write == nil || bufF == nil || umT == nil {
		c.Undecided(R, "anchor:Writer.Write/buf, UnitMetadata", "", "not found")
		return
	}
	n := 0
	eachInstr(write, func(_ *ssa.BasicBlock, in ssa.Instruction) {
		call, ok := in.(*ssa.Call)
		if !ok {
			return
		}
		h := call.Call.StaticCallee()
		if h == nil || h.Blocks == nil || h.Pkg != write.Pkg {
			return
		}
		takes := false
		for _, a := range call.Call.Args {
			if pt, ok := a.Type().(*types.Pointer); ok && types.Identical(pt.Elem(), umT) {
				takes = true
			}
		}
		if !takes {
			return
		}
		n++
		writes := blocksWhere(h, func(in ssa.Instruction) bool { return usesAddrOfField(in, bufF) })
		bad := ""
		for b := range reachFrom(h.Blocks[0], writes) {
			if _, ok := b.Instrs[len(b.Instrs)-1].(*ssa.Return); ok {
				bad = p.pos(b.Instrs[len(b.Instrs)-1].Pos())
				if bad == "" {
					bad = fmt.Sprintf("block %d", b.Index)
				}
			}
		}
		c.Check(bad == "" && len(writes) > 0, R, fnName(h)+":writes on every path", p.pos(h.Pos()), "every path writes the record into the buffer",
			"a unit-metadata record can leave "+fnName(h)+" without having been written (return at "+bad+"): records the writer decides to skip are missing from what a reader of the output sees — a second unit's `better=lower` is not a repetition of the first unit's")
	})
	c.Floor(R, "functions writing unit metadata", n, 1)
}

// c02ConfigLineRecorded (C02/R15): a `key: value` line with a value always (re)files the key as coming from the file:
// in Reader.Scan, from the branch that does not delete the key, every path back to the common continuation passes the
// call that ensures the entry with file=true.
func c02ConfigLineRecorded(c *Ctx, p *Prog) {
	const R = "C02/R15"
	scan := p.Method("benchfmt", "Reader", "Scan")
	if scan == nil {
		c.Undecided(R, "anchor:Reader.Scan", "", "not found")
		return
	}
	n := 0
	for _, ci := range callsIn(scan, rp("benchfmt"), "Result", "deleteConfig") {
		bd := ci.Block()
		fs := factsAt(bd)
		if len(fs) == 0 || len(bd.Succs) != 1 {
			continue
		}
		ifb := fs[0].If.Block()
		var other *ssa.BasicBlock
		if fs[0].True {
			other = ifb.Succs[1]
		} else {
			other = ifb.Succs[0]
		}
		join := bd.Succs[0]
		n++
		ensures := blocksWhere(scan, func(in ssa.Instruction) bool {
			cc, ok := callIs(in, rp("benchfmt"), "Result", "ensureConfig")
			if !ok {
				return false
			}
			args := callArgs(cc)
			k, isK := args[len(args)-1].(*ssa.Const)
			return isK && k.Value != nil && k.Value.String() == "true"
		})
		reach := reachFrom(other, ensures)
		c.Check(len(ensures) > 0 && !reach[join], R, fmt.Sprintf("Scan:config line#%d", n), p.pos(ci.Pos()), "a line with a value files the key as file configuration on every path",
			"a configuration line with a value can be passed over without ensureConfig(key, true): a key installed by the tool (Reset's initial configuration, File=false) that the file then states itself stays marked as not from the file, and a writer drops the line")
	}
	c.Floor(R, "configuration-line sites in Reader.Scan", n, 1)
}

// c07EveryPartMade (C07/R17): every field of a projection expression is validated: in ProjectionParser.Parse every
// path through an iteration of the loop over the parsed fields passes the call of makeProjection.
func c07EveryPartMade(c *Ctx, p *Prog, R string) {
	parse := p.Method("benchproc", "ProjectionParser", "Parse")
	if parse == nil {
		c.Undecided(R, "anchor:ProjectionParser.Parse", "", "not found")
		return
	}
	n := 0
	made := blocksWhere(parse, func(in ssa.Instruction) bool {
		_, ok := callIs(in, rp("benchproc"), "ProjectionParser", "makeProjection")
		return ok
	})
	for _, lp := range naturalLoops(parse) {
		in := false
		for b := range made {
			if lp.Blocks[b] {
				in = true
			}
		}
		if !in {
			continue
		}
		n++
		start := loopBodyStart(lp)
		if start == nil {
			c.Undecided(R, "Parse:fields loop", p.pos(parse.Pos()), "loop shape not recognised")
			continue
		}
		reach := reachFrom(start, made)
		c.Check(!reach[lp.Header], R, "Parse:every field is made", p.pos(parse.Pos()), "every iteration passes makeProjection",
			"an iteration of the loop over the expression's fields can go round without makeProjection: that field's sort order and fixed list are never looked at, so `goos, goos@nosuchorder` is accepted and a repeated key's value list does not filter")
	}
	c.Floor(R, "field loops in ProjectionParser.Parse", n, 1)
}

// c06EveryListFilters (C06/R18): every fixed value list filters: the membership test makeProjection returns is appended
// to a list (so several fields can each contribute one), never kept in a single variable.
func c06EveryListFilters(c *Ctx, p *Prog) {
	const R = "C06/R18"
	parse := p.Method("benchproc", "ProjectionParser", "Parse")
	if parse == nil {
		c.Undecided(R, "anchor:ProjectionParser.Parse", "", "not found")
		return
	}
	n := 0
	eachInstr(parse, func(_ *ssa.BasicBlock, in ssa.Instruction) {
		call, ok := in.(*ssa.Call)
		if !ok {
			return
		}
		if _, ok := callIs(in, rp("benchproc"), "ProjectionParser", "makeProjection"); !ok {
			return
		}
		for _, r := range *call.Referrers() {
			ex, ok := r.(*ssa.Extract)
			if !ok || ex.Index != 0 {
				continue
			}
			n++
			appended, single := false, false
			for _, u := range *ex.Referrers() {
				switch x := u.(type) {
				case *ssa.Store:
					if ia, ok := x.Addr.(*ssa.IndexAddr); ok && x.Val == ssa.Value(ex) {
						for _, r2 := range *ia.X.Referrers() {
							if sl, ok := r2.(*ssa.Slice); ok {
								for _, r3 := range *sl.Referrers() {
									if ap, ok := r3.(*ssa.Call); ok {
										if bi, ok := ap.Call.Value.(*ssa.Builtin); ok && bi.Name() == "append" {
											appended = true
										}
									}
								}
							}
						}
					}
				case *ssa.Phi:
					single = true
				}
			}
			c.Check(appended && !single, R, "Parse:membership tests are collected", p.pos(call.Pos()), "each field's membership test is appended to the list that is ANDed with the filter",
				"the membership test of a fixed value list is kept in one variable (or not collected at all): with two lists in one expression only the last one filters, results outside the first list reach the table")
		}
	})
	c.Floor(R, "makeProjection results in Parse", n, 1)
}

// c20RecordKept (C20/R13): a record the upload accepts is in the pending arguments: in Upload.InsertRecord every path
// from the entry to a return of nil passes a store into insertRecordArgs (an element or the field).
func c20RecordKept(c *Ctx, p *Prog) {
	const R = "C20/R13"
	fn := p.Method("storage/db", "Upload", "InsertRecord")
	argsF := p.Field("storage/db", "Upload", "insertRecordArgs")
	if fn == nil || argsF == nil {
		c.Undecided(R, "anchor:Upload.InsertRecord/insertRecordArgs", "", "not found")
		return
	}
	keeps := blocksWhere(fn, func(in ssa.Instruction) bool {
		st, ok := in.(*ssa.Store)
		if !ok {
			return false
		}
		if f, _ := fieldOfAddr(st.Addr); f == argsF {
			return true
		}
		if ia, ok := st.Addr.(*ssa.IndexAddr); ok {
			if f, _ := loadOfField(ia.X); f == argsF {
				return true
			}
		}
		return false
	})
	bad := ""
	nRet := 0
	reach := reachFrom(fn.Blocks[0], keeps)
	for _, b := range fn.Blocks {
		ret, ok := b.Instrs[len(b.Instrs)-1].(*ssa.Return)
		if !ok {
			continue
		}
		if k, ok := retLast(ret).(*ssa.Const); ok && k.IsNil() {
			nRet++
			if reach[b] {
				bad = p.pos(ret.Pos())
			}
		}
	}
	c.Check(bad == "" && len(keeps) > 0, R, "InsertRecord:accepted means kept", p.pos(fn.Pos()), fmt.Sprintf("%d successful returns, each after a store into the pending arguments", nRet),
		"InsertRecord can return nil (at "+bad+") without having put the record into the pending insert arguments: the upload reports success and the record is never indexed")
	c.Floor(R, "successful returns of InsertRecord", nRet, 1)
}

// c09OrderAlways (C09/R11): observation order is recorded for every new key: the loop in which the observation maps are
// filled is reached under no condition of its own (only the "key already known" return and finished loops precede it).
func c09OrderAlways(c *Ctx, p *Prog) {
	const R = "C09/R11"
	orderF := p.Field("benchproc", "Field", "order")
	if orderF == nil {
		c.Undecided(R, "anchor:Field.order", "", "not found")
		return
	}
	n := 0
	for _, fn := range p.Funcs("benchproc") {
		for _, lp := range naturalLoops(fn) {
			var upd *ssa.MapUpdate
			for b := range lp.Blocks {
				for _, in := range b.Instrs {
					if mu, ok := in.(*ssa.MapUpdate); ok {
						if f, _ := loadOfField(mu.Map); f == orderF {
							upd = mu
						}
					}
				}
			}
			if upd == nil {
				continue
			}
			n++
			var conds []string
			for _, f := range guardsOf(lp.Header, lp) {
				pos := p.pos(f.If.Pos())
				if pos == "" {
					pos = p.pos(f.Cond.Pos())
				}
				conds = append(conds, pos)
			}
			c.Check(len(conds) == 0, R, fnName(fn)+":observation order is always recorded", p.pos(upd.Pos()), "the loop filling the observation maps runs for every new key",
				fmt.Sprintf("the loop that records first-observation ranks runs only under a condition (%s): a field whose order map is set on a path that does not also establish that condition (.unit is set up by ParseWithUnit, not by the order clause) never gets its ranks, and its values compare as equal", strings.Join(conds, ", ")))
		}
	}
	c.Floor(R, "loops filling observation maps", n, 1)
}

// c17SortBeforeGeomean (C17/R14): the geomean row stays last: a table is put into the requested order before its
// geomean row is appended; no call of Sort is applied to a table that may already have the row.
func c17SortBeforeGeomean(c *Ctx, p *Prog) {
	const R = "C17/R14"
	fn := p.Method("benchstat", "Collection", "Tables")
	if fn == nil {
		c.Undecided(R, "anchor:Collection.Tables", "", "not found")
		return
	}
	var sorts, geos []*ssa.Call
	eachInstr(fn, func(_ *ssa.BasicBlock, in ssa.Instruction) {
		call, ok := in.(*ssa.Call)
		if !ok {
			return
		}
		if h := call.Call.StaticCallee(); h != nil && h.Pkg == fn.Pkg {
			switch h.Name() {
			case "Sort":
				sorts = append(sorts, call)
			case "addGeomean":
				geos = append(geos, call)
			}
		}
	})
	tableOf := func(call *ssa.Call) ssa.Value {
		for _, a := range call.Call.Args {
			if pt, ok := a.Type().(*types.Pointer); ok {
				if nt, ok := pt.Elem().(*types.Named); ok && nt.Obj().Name() == "Table" {
					return a
				}
			}
		}
		return nil
	}
	for i, s := range sorts {
		ok := false
		for _, g := range geos {
			if tableOf(s) == nil || tableOf(g) == nil || !sameValue(tableOf(s), tableOf(g)) {
				continue
			}
			// the geomean call comes after the sort within the same pass over the table
			if s.Block() == g.Block() && instrIndex(s) < instrIndex(g) || s.Block() != g.Block() && s.Block().Dominates(g.Block()) || s.Block() != g.Block() && reachFrom(s.Block(), map[*ssa.BasicBlock]bool{})[g.Block()] && !g.Block().Dominates(s.Block()) {
				ok = true
			}
		}
		c.Check(ok, R, fmt.Sprintf("Tables:sort#%d precedes the geomean row", i+1), p.pos(s.Pos()), "the table is sorted before its geomean row is appended",
			"Sort is applied to a table that is not the one about to receive its geomean row (the rows are already complete): the [Geo mean] row is sorted in among the benchmarks instead of staying last")
	}
	c.Floor(R, "Sort calls in Collection.Tables", len(sorts), 1)
	c.Floor(R, "addGeomean calls in Collection.Tables", len(geos), 1)
}
