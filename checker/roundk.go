package main

// Rules added for the seventh round of seeded changes (DESIGN §0.16). Path rules over the CFG: "every path from A to B
// passes C", decided with reachFrom (reachability that avoids a set of blocks).

import (
	"fmt"
	"go/constant"
	"sort"
	"go/token"
	"go/types"
	"strings"
	"unicode"

	"golang.org/x/tools/go/ssa"
)

var _ = strings.Contains
var _ types.Type

// guardsOf: the conditions every path to block at has passed, leaving out (a) conditions of the loop lp itself,
// (b) the exit condition of an earlier loop that simply ran to its end, (c) "the previous write did not fail" where the
// failing branch returns that error. What remains is a real condition on reaching at.
func guardsOf(at *ssa.BasicBlock, lp *loopInfo) []fact {
	var out []fact
	loops := naturalLoops(at.Parent())
	for _, f := range factsAt(at) {
		if lp != nil && (f.If.Block() == lp.Header || lp.Blocks[f.If.Block()]) {
			continue
		}
		left := false
		for _, l := range loops {
			if l.Header == f.If.Block() && !l.Blocks[at] {
				left = true
			}
		}
		if left {
			continue
		}
		if bo, ok := f.Cond.(*ssa.BinOp); ok && !f.True && bo.Op == token.NEQ && isErrorType(bo.X.Type()) {
			if k, ok := bo.Y.(*ssa.Const); ok && k.IsNil() {
				then := f.If.Block().Succs[0]
				if ret, ok := then.Instrs[len(then.Instrs)-1].(*ssa.Return); ok && len(ret.Results) > 0 && retLast(ret) == bo.X {
					continue
				}
			}
		}
		// the other branch leaves the function at once (the answer was already known)
		other := f.If.Block().Succs[0]
		if f.True {
			other = f.If.Block().Succs[1]
		}
		if _, isRet := other.Instrs[len(other.Instrs)-1].(*ssa.Return); isRet && len(other.Preds) == 1 {
			continue
		}
		out = append(out, f)
	}
	return out
}

// blocksWhere: the blocks of fn holding an instruction for which pred holds.
func blocksWhere(fn *ssa.Function, pred func(ssa.Instruction) bool) map[*ssa.BasicBlock]bool {
	out := map[*ssa.BasicBlock]bool{}
	eachInstr(fn, func(b *ssa.BasicBlock, in ssa.Instruction) {
		if pred(in) {
			out[b] = true
		}
	})
	return out
}

// usesAddrOfField: the instruction is a call one of whose operands is (an interface holding) the address of field f.
func usesAddrOfField(in ssa.Instruction, f *types.Var) bool {
	ci, ok := in.(ssa.CallInstruction)
	if !ok {
		return false
	}
	for _, a := range callArgs(ci.Common()) {
		if mi, ok := a.(*ssa.MakeInterface); ok {
			a = mi.X
		}
		if g, _ := fieldOfAddr(a); g == f {
			return true
		}
	}
	return false
}

// c01EveryRecordWritten (C01/R17): a unit-metadata record handed to the writer is written: in the function Write
// hands a *UnitMetadata to, every path from the entry to a return passes a write into the writer's buffer.
func c01EveryRecordWritten(c *Ctx, p *Prog) {
	const R = "C01/R17"
	write := p.Method("benchfmt", "Writer", "Write")
	bufF := p.Field("benchfmt", "Writer", "buf")
	umT := p.Named("benchfmt", "UnitMetadata")
	if write == nil || bufF == nil || umT == nil {
		c.Undecided(R, "anchor:Writer.Write/buf, UnitMetadata", "", "not found")
		return
	}
	n := 0
	eachInstr(write, func(_ *ssa.BasicBlock, in ssa.Instruction) {
		call, ok := in.(*ssa.Call)
		if !ok {
			return
		}
		h := call.Call.StaticCallee()
		if h == nil || h.Blocks == nil || h.Pkg != write.Pkg {
			return
		}
		takes := false
		for _, a := range call.Call.Args {
			if pt, ok := a.Type().(*types.Pointer); ok && types.Identical(pt.Elem(), umT) {
				takes = true
			}
		}
		if !takes {
			return
		}
		n++
		writes := blocksWhere(h, func(in ssa.Instruction) bool { return usesAddrOfField(in, bufF) })
		bad := ""
		reachH := reachFrom(h.Blocks[0], writes)
		for _, b := range h.Blocks {
			if !reachH[b] {
				continue
			}
			if _, ok := b.Instrs[len(b.Instrs)-1].(*ssa.Return); ok {
				bad = p.pos(b.Instrs[len(b.Instrs)-1].Pos())
				if bad == "" {
					bad = fmt.Sprintf("block %d", b.Index)
				}
			}
		}
		c.Check(bad == "" && len(writes) > 0, R, fnName(h)+":writes on every path", p.pos(h.Pos()), "every path writes the record into the buffer",
			"a unit-metadata record can leave "+fnName(h)+" without having been written (return at "+bad+"): records the writer decides to skip are missing from what a reader of the output sees — a second unit's `better=lower` is not a repetition of the first unit's")
	})
	c.Floor(R, "functions writing unit metadata", n, 1)
}

// c02ConfigLineRecorded (C02/R15): a `key: value` line with a value always (re)files the key as coming from the file:
// in Reader.Scan, from the branch that does not delete the key, every path back to the common continuation passes the
// call that ensures the entry with file=true.
func c02ConfigLineRecorded(c *Ctx, p *Prog) {
	const R = "C02/R15"
	scan := p.Method("benchfmt", "Reader", "Scan")
	if scan == nil {
		c.Undecided(R, "anchor:Reader.Scan", "", "not found")
		return
	}
	n := 0
	// Scan itself, or a helper of the package it hands the line's key and value to
	cands := []*ssa.Function{scan}
	for d := 0; d < 2; d++ {
		for _, f := range cands {
			eachInstr(f, func(_ *ssa.BasicBlock, in ssa.Instruction) {
				if ci, ok := in.(ssa.CallInstruction); ok {
					if h := ci.Common().StaticCallee(); h != nil && h.Pkg == scan.Pkg && h.Blocks != nil {
						for _, x := range cands {
							if x == h {
								return
							}
						}
						cands = append(cands, h)
					}
				}
			})
		}
	}
	for _, fn := range cands {
		if fn.Name() == "deleteConfig" || fn.Name() == "ensureConfig" {
			continue
		}
		ensures := blocksWhere(fn, func(in ssa.Instruction) bool {
			cc, ok := callIs(in, rp("benchfmt"), "Result", "ensureConfig")
			if !ok {
				return false
			}
			args := callArgs(cc)
			k, isK := args[len(args)-1].(*ssa.Const)
			return isK && k.Value != nil && k.Value.String() == "true"
		})
		if len(ensures) == 0 {
			continue
		}
		for _, ci := range callsIn(fn, rp("benchfmt"), "Result", "deleteConfig") {
			bd := ci.Block()
			fs := factsAt(bd)
			if len(fs) == 0 {
				continue
			}
			ifb := fs[0].If.Block()
			var other *ssa.BasicBlock
			if fs[0].True {
				other = ifb.Succs[1]
			} else {
				other = ifb.Succs[0]
			}
			n++
			reach := reachFrom(other, ensures)
			bad := false
			if len(bd.Succs) == 1 {
				bad = reach[bd.Succs[0]]
			} else {
				for b := range reach {
					if _, isRet := b.Instrs[len(b.Instrs)-1].(*ssa.Return); isRet {
						bad = true
					}
				}
			}
			c.Check(!bad, R, fmt.Sprintf("%s:config line#%d", fnName(fn), n), p.pos(ci.Pos()), "a line with a value files the key as file configuration on every path",
				"a configuration line with a value can be passed over without ensureConfig(key, true): a key installed by the tool (Reset's initial configuration, File=false) that the file then states itself stays marked as not from the file, and a writer drops the line")
		}
	}
	c.Floor(R, "configuration-line sites in Reader.Scan", n, 1)
}

// c07EveryPartMade (C07/R17): every field of a projection expression is validated: in ProjectionParser.Parse every
// path through an iteration of the loop over the parsed fields passes the call of makeProjection.
func c07EveryPartMade(c *Ctx, p *Prog, R string) {
	parse := p.Method("benchproc", "ProjectionParser", "Parse")
	if parse == nil {
		c.Undecided(R, "anchor:ProjectionParser.Parse", "", "not found")
		return
	}
	n := 0
	made := blocksWhere(parse, func(in ssa.Instruction) bool {
		_, ok := callIs(in, rp("benchproc"), "ProjectionParser", "makeProjection")
		return ok
	})
	for _, lp := range naturalLoops(parse) {
		in := false
		for b := range made {
			if lp.Blocks[b] {
				in = true
			}
		}
		if !in {
			continue
		}
		n++
		start := loopBodyStart(lp)
		if start == nil {
			c.Undecided(R, "Parse:fields loop", p.pos(parse.Pos()), "loop shape not recognised")
			continue
		}
		reach := reachFrom(start, made)
		c.Check(!reach[lp.Header], R, "Parse:every field is made", p.pos(parse.Pos()), "every iteration passes makeProjection",
			"an iteration of the loop over the expression's fields can go round without makeProjection: that field's sort order and fixed list are never looked at, so `goos, goos@nosuchorder` is accepted and a repeated key's value list does not filter")
	}
	c.Floor(R, "field loops in ProjectionParser.Parse", n, 1)
}

// c06EveryListFilters (C06/R18): every fixed value list filters: the membership test makeProjection returns is appended
// to a list (so several fields can each contribute one), never kept in a single variable.
func c06EveryListFilters(c *Ctx, p *Prog) {
	const R = "C06/R18"
	parse := p.Method("benchproc", "ProjectionParser", "Parse")
	if parse == nil {
		c.Undecided(R, "anchor:ProjectionParser.Parse", "", "not found")
		return
	}
	n := 0
	eachInstr(parse, func(_ *ssa.BasicBlock, in ssa.Instruction) {
		call, ok := in.(*ssa.Call)
		if !ok {
			return
		}
		if _, ok := callIs(in, rp("benchproc"), "ProjectionParser", "makeProjection"); !ok {
			return
		}
		for _, r := range *call.Referrers() {
			ex, ok := r.(*ssa.Extract)
			if !ok || ex.Index != 0 {
				continue
			}
			n++
			appended, single := false, false
			for _, u := range *ex.Referrers() {
				switch x := u.(type) {
				case *ssa.Store:
					if ia, ok := x.Addr.(*ssa.IndexAddr); ok && x.Val == ssa.Value(ex) {
						for _, r2 := range *ia.X.Referrers() {
							if sl, ok := r2.(*ssa.Slice); ok {
								for _, r3 := range *sl.Referrers() {
									if ap, ok := r3.(*ssa.Call); ok {
										if bi, ok := ap.Call.Value.(*ssa.Builtin); ok && bi.Name() == "append" {
											appended = true
										}
									}
								}
							}
						}
					}
				case *ssa.Phi:
					single = true
				}
			}
			c.Check(appended && !single, R, "Parse:membership tests are collected", p.pos(call.Pos()), "each field's membership test is appended to the list that is ANDed with the filter",
				"the membership test of a fixed value list is kept in one variable (or not collected at all): with two lists in one expression only the last one filters, results outside the first list reach the table")
		}
	})
	c.Floor(R, "makeProjection results in Parse", n, 1)
}

// c20RecordKept (C20/R13): a record the upload accepts is in the pending arguments: in Upload.InsertRecord every path
// from the entry to a return of nil passes a store into insertRecordArgs (an element or the field).
func c20RecordKept(c *Ctx, p *Prog) {
	const R = "C20/R13"
	fn := p.Method("storage/db", "Upload", "InsertRecord")
	argsF := p.Field("storage/db", "Upload", "insertRecordArgs")
	if fn == nil || argsF == nil {
		c.Undecided(R, "anchor:Upload.InsertRecord/insertRecordArgs", "", "not found")
		return
	}
	keeps := blocksWhere(fn, func(in ssa.Instruction) bool {
		st, ok := in.(*ssa.Store)
		if !ok {
			return false
		}
		if f, _ := fieldOfAddr(st.Addr); f == argsF {
			return true
		}
		if ia, ok := st.Addr.(*ssa.IndexAddr); ok {
			if f, _ := loadOfField(ia.X); f == argsF {
				return true
			}
		}
		return false
	})
	bad := ""
	nRet := 0
	reach := reachFrom(fn.Blocks[0], keeps)
	for _, b := range fn.Blocks {
		ret, ok := b.Instrs[len(b.Instrs)-1].(*ssa.Return)
		if !ok {
			continue
		}
		if k, ok := retLast(ret).(*ssa.Const); ok && k.IsNil() {
			nRet++
			if reach[b] {
				bad = p.pos(ret.Pos())
			}
		}
	}
	c.Check(bad == "" && len(keeps) > 0, R, "InsertRecord:accepted means kept", p.pos(fn.Pos()), fmt.Sprintf("%d successful returns, each after a store into the pending arguments", nRet),
		"InsertRecord can return nil (at "+bad+") without having put the record into the pending insert arguments: the upload reports success and the record is never indexed")
	c.Floor(R, "successful returns of InsertRecord", nRet, 1)
}

// c09OrderAlways (C09/R11): observation order is recorded for every new key: the loop in which the observation maps are
// filled is reached under no condition of its own (only the "key already known" return and finished loops precede it).
func c09OrderAlways(c *Ctx, p *Prog) {
	const R = "C09/R11"
	orderF := p.Field("benchproc", "Field", "order")
	if orderF == nil {
		c.Undecided(R, "anchor:Field.order", "", "not found")
		return
	}
	n := 0
	// functions that fill an observation map outside any loop of their own: helpers called once per field
	helper := map[*ssa.Function]bool{}
	for _, fn := range p.Funcs("benchproc") {
		loops := naturalLoops(fn)
		eachInstr(fn, func(b *ssa.BasicBlock, in ssa.Instruction) {
			if mu, ok := in.(*ssa.MapUpdate); ok {
				if f, _ := loadOfField(mu.Map); f == orderF {
					inLoop := false
					for _, lp := range loops {
						if lp.Blocks[b] {
							inLoop = true
						}
					}
					if !inLoop {
						helper[fn] = true
					}
				}
			}
		})
	}
	for _, fn := range p.Funcs("benchproc") {
		for _, lp := range naturalLoops(fn) {
			var upd ssa.Instruction
			for b := range lp.Blocks {
				for _, in := range b.Instrs {
					if mu, ok := in.(*ssa.MapUpdate); ok {
						if f, _ := loadOfField(mu.Map); f == orderF {
							upd = mu
						}
					}
					if ci, ok := in.(ssa.CallInstruction); ok && helper[ci.Common().StaticCallee()] {
						upd = in
					}
				}
			}
			if upd == nil {
				continue
			}
			n++
			var conds []string
			for _, f := range guardsOf(lp.Header, lp) {
				pos := p.pos(f.If.Pos())
				if pos == "" {
					pos = p.pos(f.Cond.Pos())
				}
				conds = append(conds, pos)
			}
			c.Check(len(conds) == 0, R, fnName(fn)+":observation order is always recorded", p.pos(upd.Pos()), "the loop filling the observation maps runs for every new key",
				fmt.Sprintf("the loop that records first-observation ranks runs only under a condition (%s): a field whose order map is set on a path that does not also establish that condition (.unit is set up by ParseWithUnit, not by the order clause) never gets its ranks, and its values compare as equal", strings.Join(conds, ", ")))
		}
	}
	c.Floor(R, "loops filling observation maps", n, 1)
}

// c17SortBeforeGeomean (C17/R14): the geomean row stays last: a table is put into the requested order before its
// geomean row is appended; no call of Sort is applied to a table that may already have the row.
func c17SortBeforeGeomean(c *Ctx, p *Prog) {
	const R = "C17/R14"
	fn := p.Method("benchstat", "Collection", "Tables")
	if fn == nil {
		c.Undecided(R, "anchor:Collection.Tables", "", "not found")
		return
	}
	var sorts, geos []*ssa.Call
	eachInstr(fn, func(_ *ssa.BasicBlock, in ssa.Instruction) {
		call, ok := in.(*ssa.Call)
		if !ok {
			return
		}
		if h := call.Call.StaticCallee(); h != nil && h.Pkg == fn.Pkg {
			switch h.Name() {
			case "Sort":
				sorts = append(sorts, call)
			case "addGeomean":
				geos = append(geos, call)
			}
		}
	})
	tableOf := func(call *ssa.Call) ssa.Value {
		for _, a := range call.Call.Args {
			if pt, ok := a.Type().(*types.Pointer); ok {
				if nt, ok := pt.Elem().(*types.Named); ok && nt.Obj().Name() == "Table" {
					return a
				}
			}
		}
		return nil
	}
	for i, s := range sorts {
		ok := false
		for _, g := range geos {
			if tableOf(s) == nil || tableOf(g) == nil || !sameValue(tableOf(s), tableOf(g)) {
				continue
			}
			// the geomean call comes after the sort within the same pass over the table
			if s.Block() == g.Block() && instrIndex(s) < instrIndex(g) || s.Block() != g.Block() && s.Block().Dominates(g.Block()) || s.Block() != g.Block() && reachFrom(s.Block(), map[*ssa.BasicBlock]bool{})[g.Block()] && !g.Block().Dominates(s.Block()) {
				ok = true
			}
		}
		c.Check(ok, R, fmt.Sprintf("Tables:sort#%d precedes the geomean row", i+1), p.pos(s.Pos()), "the table is sorted before its geomean row is appended",
			"Sort is applied to a table that is not the one about to receive its geomean row (the rows are already complete): the [Geo mean] row is sorted in among the benchmarks instead of staying last")
	}
	c.Floor(R, "Sort calls in Collection.Tables", len(sorts), 1)
	c.Floor(R, "addGeomean calls in Collection.Tables", len(geos), 1)
}

// backSlice walks the operands of v backwards (through arithmetic, loads and their addresses, calls and their
// arguments, phis, extracts) and calls visit on every value met; visit returning false stops the walk below that value.
func backSlice(v ssa.Value, visit func(ssa.Value) bool) {
	seen := map[ssa.Value]bool{}
	var walk func(v ssa.Value, d int)
	walk = func(v ssa.Value, d int) {
		if v == nil || seen[v] || d > 40 {
			return
		}
		seen[v] = true
		if !visit(v) {
			return
		}
		in, ok := v.(ssa.Instruction)
		if !ok {
			return
		}
		// a local cell: what was stored into it (a by-value struct parameter is spilled so that its fields can be addressed)
		if al, ok := v.(*ssa.Alloc); ok {
			for _, st := range storesInto(al) {
				walk(st.Val, d+1)
			}
		}
		for _, op := range in.Operands(nil) {
			if *op != nil {
				walk(*op, d+1)
			}
		}
	}
	walk(v, 0)
}

// reaches: some value in the backward slice of v satisfies pred.
func reaches(v ssa.Value, pred func(ssa.Value) bool) bool {
	found := false
	backSlice(v, func(x ssa.Value) bool {
		if pred(x) {
			found = true
		}
		return !found
	})
	return found
}

// c02ValueIsTheRest (C02/R16): the value of a `key: value` line is everything after the separator: what
// parseKeyValueLine returns as the value is a suffix of the line (slices without an upper bound, at most a
// left-trimming library call), so trailing blanks belong to the value.
func c02ValueIsTheRest(c *Ctx, p *Prog) {
	const R = "C02/R16"
	fn := p.Fn("benchfmt", "parseKeyValueLine")
	if fn == nil || len(fn.Params) != 1 || fn.Signature.Results().Len() != 3 {
		c.Undecided(R, "anchor:parseKeyValueLine", "", "not found or signature changed")
		return
	}
	n := 0
	bad := ""
	var walk func(v ssa.Value, seen map[ssa.Value]bool)
	walk = func(v ssa.Value, seen map[ssa.Value]bool) {
		if seen[v] {
			return
		}
		seen[v] = true
		switch x := v.(type) {
		case *ssa.Phi:
			for _, e := range x.Edges {
				walk(e, seen)
			}
		case *ssa.Slice:
			if x.High != nil || x.Max != nil {
				bad = "an upper bound at " + p.pos(x.Pos())
			}
			walk(x.X, seen)
		case *ssa.Parameter, *ssa.Const:
		case *ssa.Call:
			co := calleeObj(&x.Call)
			if co != nil && co.Pkg() != nil && co.Pkg().Path() == "bytes" && (co.Name() == "TrimLeft" || co.Name() == "TrimLeftFunc" || co.Name() == "TrimPrefix") {
				walk(x.Call.Args[0], seen)
				return
			}
			name := "a call"
			if co != nil {
				name = co.FullName()
			}
			bad = name + " at " + p.pos(x.Pos())
		case *ssa.Extract:
			walk(x.Tuple, seen)
		default:
			bad = fmt.Sprintf("%T at %s", v, p.pos(v.Pos()))
		}
	}
	for _, b := range fn.Blocks {
		if ret, ok := b.Instrs[len(b.Instrs)-1].(*ssa.Return); ok {
			n++
			walk(retVal(ret, 1), map[ssa.Value]bool{})
		}
	}
	c.Check(bad == "", R, "parseKeyValueLine:value is the rest of the line", p.pos(fn.Pos()), "the value is a suffix of the line",
		"the value parseKeyValueLine returns is not simply the rest of the line after the separator ("+bad+"): the format gives the value as everything up to the end of the line, so a value ending in blanks or tabs reads back without them")
	c.Floor(R, "returns of parseKeyValueLine", n, 1)
}

// c05PlainKey (C05/R7): a plain key is the configured value whenever the key is configured: extractConfig returns nil
// only where the lookup said "absent". c05NameIsBase (C05/R8): .name and .fullname are Name.Base() and Name.Full() as
// they come.
func c05PlainKey(c *Ctx, p *Prog) {
	const R = "C05/R7"
	fn := p.Fn("benchproc", "extractConfig")
	if fn == nil {
		c.Undecided(R, "anchor:extractConfig", "", "not found")
		return
	}
	n := 0
	for _, b := range fn.Blocks {
		ret, ok := b.Instrs[len(b.Instrs)-1].(*ssa.Return)
		if !ok {
			continue
		}
		v := retVal(ret, 0)
		k, isConst := v.(*ssa.Const)
		if !isConst || !k.IsNil() {
			continue
		}
		n++
		absent := false
		for _, f := range factsAt(b) {
			if ex, ok := f.Cond.(*ssa.Extract); ok && ex.Index == 1 && !f.True {
				if call, ok := ex.Tuple.(*ssa.Call); ok && objIs(calleeObj(&call.Call), rp("benchfmt"), "Result", "ConfigIndex") {
					absent = true
				}
			}
		}
		c.Check(absent, R, fmt.Sprintf("extractConfig:empty#%d only when absent", n), p.pos(ret.Pos()), "nil is returned where ConfigIndex reported the key absent",
			"extractConfig returns nil on a path where the key was found: a configured key (for instance one set by the tool, File=false) then projects and filters as the empty string")
	}
	c.Floor(R, "nil returns of extractConfig", n, 1)
}

func c05NameIsBase(c *Ctx, p *Prog) {
	const R = "C05/R8"
	for _, pr := range [][2]string{{"extractName", "Base"}, {"extractFull", "Full"}} {
		fn := p.Fn("benchproc", pr[0])
		if fn == nil {
			c.Undecided(R, "anchor:"+pr[0], "", "not found")
			continue
		}
		ok, n := true, 0
		for _, b := range fn.Blocks {
			if ret, isRet := b.Instrs[len(b.Instrs)-1].(*ssa.Return); isRet {
				n++
				call, isCall := retVal(ret, 0).(*ssa.Call)
				if !isCall || !objIs(calleeObj(&call.Call), rp("benchfmt"), "Name", pr[1]) {
					ok = false
				}
			}
		}
		c.Check(ok && n > 0, R, pr[0]+":verbatim", p.pos(fn.Pos()), "returns Name."+pr[1]+"() as it comes",
			pr[0]+" returns something other than the result of Name."+pr[1]+"(): the extracted name is then not the "+strings.ToLower(pr[1])+" name for some names (a base that itself begins with a trimmed prefix, say)")
	}
}

// c06OperatorsVerbatim (C06/R19): AND and OR are the words AND and OR: where the bare-word scanner compares with these
// two constants, the other operand is the scanned text itself, not a function of it.
func c06OperatorsVerbatim(c *Ctx, p *Prog, R string) {
	n := 0
	for _, fn := range p.Funcs("benchproc/internal/parse") {
		eachInstr(fn, func(_ *ssa.BasicBlock, in ssa.Instruction) {
			bo, ok := in.(*ssa.BinOp)
			if !ok || bo.Op != token.EQL && bo.Op != token.NEQ {
				return
			}
			for _, pr := range [][2]ssa.Value{{bo.X, bo.Y}, {bo.Y, bo.X}} {
				s, ok := constString(pr[0])
				if !ok || s != "AND" && s != "OR" {
					continue
				}
				n++
				_, isCall := pr[1].(*ssa.Call)
				c.Check(!isCall, R, fmt.Sprintf("%s:operator %s", fnName(fn), s), p.pos(bo.Pos()), "compared with the scanned word itself",
					"the word compared with "+s+" is the result of a call, not the scanned text: words that merely map to "+s+" (and, Or, …) become operators, and a filter such as `/op:and` or `.name:Or` stops parsing")
			}
		})
	}
	c.Floor(R, "comparisons with AND/OR", n, 2)
}

// c07ErrorPositions (C07/R18): an error's offset lies in the text: the position handed to errorTracker.error is never a
// constant string (the offset is len(original) - len(position argument)).
func c07ErrorPositions(c *Ctx, p *Prog) {
	const R = "C07/R18"
	n := 0
	for _, fn := range p.Funcs("benchproc/internal/parse") {
		eachInstr(fn, func(_ *ssa.BasicBlock, in ssa.Instruction) {
			cc, ok := callIs(in, rp("benchproc/internal/parse"), "errorTracker", "error")
			if !ok {
				return
			}
			args := callArgs(cc)
			if len(args) != 3 {
				return
			}
			n++
			_, posConst := args[1].(*ssa.Const)
			c.Check(!posConst, R, fmt.Sprintf("%s:error#%d", fnName(fn), n), p.pos(in.Pos()), "the position argument is a piece of the text",
				"errorTracker.error is given a constant string where the rest of the text belongs: the offset is computed as len(text) minus its length, so it is wrong (negative for short texts) and the message is lost")
		})
	}
	c.Floor(R, "calls of errorTracker.error", n, 1)
}

// c08EqualRowCompares (C08/R17): two rows are one key only if every value agrees: keyNode.equalRow compares the stored
// values with the row's, element by element, in a loop (or with slices.Equal).
func c08EqualRowCompares(c *Ctx, p *Prog) {
	const R = "C08/R17"
	fn := p.Method("benchproc", "keyNode", "equalRow")
	valsF := p.Field("benchproc", "keyNode", "vals")
	if fn == nil || valsF == nil || len(fn.Params) != 2 {
		c.Undecided(R, "anchor:keyNode.equalRow", "", "not found")
		return
	}
	row := fn.Params[1]
	ok := false
	for _, lp := range naturalLoops(fn) {
		for b := range lp.Blocks {
			for _, in := range b.Instrs {
				bo, isBo := in.(*ssa.BinOp)
				if !isBo || bo.Op != token.EQL && bo.Op != token.NEQ || !isString(bo.X.Type()) {
					continue
				}
				fromRow := func(v ssa.Value) bool { return reaches(v, func(x ssa.Value) bool { return x == ssa.Value(row) }) }
				fromVals := func(v ssa.Value) bool {
					return reaches(v, func(x ssa.Value) bool { f, _ := fieldOfAddr(x); return f == valsF })
				}
				if fromRow(bo.X) && fromVals(bo.Y) || fromRow(bo.Y) && fromVals(bo.X) {
					ok = true
				}
			}
		}
	}
	for _, ci := range callsIn(fn, "slices", "", "Equal") {
		_ = ci
		ok = true
	}
	c.Check(ok, R, "equalRow:compares every value", p.pos(fn.Pos()), "the stored values are compared with the row's element by element",
		"keyNode.equalRow no longer compares the values themselves: the row hash has no separators and is only 64 bits, so tuples such as (net, 386) and (net3, 86) that share a hash and a length become one key")
}

// c09SortKeysAllFields (C09/R12): SortKeys compares by every flattened field: what its comparison closure passes to
// the shared less function as the field list is FlattenedFields() as returned, assigned once.
func c09SortKeysAllFields(c *Ctx, p *Prog) {
	const R = "C09/R12"
	fn := p.Fn("benchproc", "SortKeys")
	if fn == nil {
		c.Undecided(R, "anchor:SortKeys", "", "not found")
		return
	}
	n := 0
	fieldT := p.Named("benchproc", "Field")
	isFlat := func(v ssa.Value) bool {
		cl, ok := v.(*ssa.Call)
		return ok && objIs(calleeObj(&cl.Call), rp("benchproc"), "Projection", "FlattenedFields")
	}
	all := p.Funcs("benchproc")
	for _, an := range all {
		eachInstr(an, func(_ *ssa.BasicBlock, in ssa.Instruction) {
			call, ok := in.(*ssa.Call)
			if !ok {
				return
			}
			h := call.Call.StaticCallee()
			if h == nil || h.Pkg != fn.Pkg || len(call.Call.Args) != 3 || h.Signature.Recv() != nil || fieldT == nil || !isSliceOfPtr(call.Call.Args[0].Type(), fieldT) || !isStringSlice(call.Call.Args[1].Type()) {
				return
			}
			n++
			arg := call.Call.Args[0]
			good := false
			if u, ok := arg.(*ssa.UnOp); ok && u.Op == token.MUL {
				if fv, ok := u.X.(*ssa.FreeVar); ok && an.Parent() != nil {
					// the captured variable: its binding in the enclosing function
					for _, instr := range allInstrs(an.Parent()) {
						mc, ok := instr.(*ssa.MakeClosure)
						if !ok || mc.Fn != ssa.Value(an) {
							continue
						}
						for i, f := range an.FreeVars {
							if f == fv {
								if al, ok := mc.Bindings[i].(*ssa.Alloc); ok {
									sts := storesInto(al)
									good = len(sts) == 1 && isFlat(sts[0].Val)
								}
							}
						}
					}
				} else if f, _ := fieldOfAddr(u.X); f != nil {
					// a field of a sorter object: every store into that field is FlattenedFields() as returned
					nst := 0
					good = true
					for _, g := range all {
						for _, st := range storesToField(g, f) {
							nst++
							if !isFlat(st.Val) {
								good = false
							}
						}
					}
					good = good && nst > 0
				}
			} else if isFlat(arg) {
				good = true
			}
			c.Check(good, R, fmt.Sprintf("%s:field list", fnName(an)), p.pos(call.Pos()), "the comparison walks FlattenedFields() as returned",
				"the field list keys are compared by is not simply the projection's flattened fields (it is reassigned or derived): keys are then ordered by fewer fields than Key.Less uses, and the result depends on the arrangement the slice arrived in")
		})
	}
	c.Floor(R, "calls of the shared comparison function", n, 2)
}

func allInstrs(fn *ssa.Function) []ssa.Instruction {
	var out []ssa.Instruction
	eachInstr(fn, func(_ *ssa.BasicBlock, in ssa.Instruction) { out = append(out, in) })
	return out
}

// c10EmptySafe (C10/R10): the common scale of no values is defined: CommonScale does not index or re-slice its slice
// parameter at a constant position unless a length test dominates.
func c10EmptySafe(c *Ctx, p *Prog) {
	const R = "C10/R10"
	fn := p.Fn("benchunit", "CommonScale")
	if fn == nil || len(fn.Params) == 0 {
		c.Undecided(R, "anchor:CommonScale", "", "not found")
		return
	}
	vals := fn.Params[0]
	lenGuarded := func(b *ssa.BasicBlock) bool {
		for _, f := range factsAt(b) {
			if reaches(f.Cond, func(x ssa.Value) bool {
				cl, ok := x.(*ssa.Call)
				if !ok {
					return false
				}
				bi, ok := cl.Call.Value.(*ssa.Builtin)
				return ok && bi.Name() == "len" && cl.Call.Args[0] == ssa.Value(vals)
			}) {
				return true
			}
		}
		return false
	}
	bad := ""
	eachInstr(fn, func(b *ssa.BasicBlock, in ssa.Instruction) {
		switch x := in.(type) {
		case *ssa.IndexAddr:
			if x.X == ssa.Value(vals) {
				if _, isK := constInt(x.Index); isK && !lenGuarded(b) {
					bad = p.pos(x.Pos())
				}
			}
		case *ssa.Slice:
			if x.X == ssa.Value(vals) && x.Low != nil {
				if k, isK := constInt(x.Low); isK && k > 0 && !lenGuarded(b) {
					bad = p.pos(x.Pos())
				}
			}
		}
	})
	c.Check(bad == "", R, "CommonScale:no values", p.pos(fn.Pos()), "the slice is only walked, never indexed at a fixed position without a length test",
		"CommonScale indexes or re-slices its values at a constant position (at "+bad+") with no length test before it: the common scale of an empty set — documented as the unscaled default — panics instead")
}

// c12ZeroVarianceExact (C12/R10): a sample is refused for having no variance only when its variance is exactly zero:
// every float comparison guarding a return of ErrZeroVariance is an (in)equality with the constant 0. A tolerance is an
// absolute quantity in squared units of the measurements: valid samples of small magnitude would be refused.
func c12ZeroVarianceExact(c *Ctx, p *Prog, R string) {
	n := 0
	for _, fn := range p.Funcs("internal/stats") {
		for _, b := range fn.Blocks {
			ret, ok := b.Instrs[len(b.Instrs)-1].(*ssa.Return)
			if !ok || len(ret.Results) == 0 {
				continue
			}
			g, ok := loadAddr(retLast(ret)).(*ssa.Global)
			if !ok || g.Name() != "ErrZeroVariance" {
				continue
			}
			n++
			bad := ""
			for _, f := range factsAt(b) {
				bo, ok := f.Cond.(*ssa.BinOp)
				if !ok || !isFloat(bo.X.Type()) {
					continue
				}
				k, isK := bo.Y.(*ssa.Const)
				if !isK {
					k, isK = bo.X.(*ssa.Const)
				}
				if !isK {
					continue
				}
				if !(k.Value != nil && constant.Sign(k.Value) == 0) && reaches(f.Cond, func(x ssa.Value) bool {
					cl, ok := x.(*ssa.Call)
					if !ok {
						return false
					}
					co := calleeObj(&cl.Call)
					return co != nil && (co.Name() == "Variance" || co.Name() == "StdDev" || co.Name() == "variance")
				}) {
					bad = fmt.Sprintf("%s %s %s at %s", valStr(bo.X), bo.Op, k.Value, p.pos(bo.Pos()))
				}
			}
			c.Check(bad == "", R, fmt.Sprintf("%s:zero-variance#%d is exact", fnName(fn), n), p.pos(ret.Pos()), "refused only for a variance of exactly 0",
				"the zero-variance refusal compares a variance with a non-zero constant ("+bad+"): the threshold is an absolute quantity in squared units, so valid samples of small magnitude (timings in seconds with nanosecond spread) get ErrZeroVariance instead of T, DoF and P, and the test is no longer invariant under a change of unit")
		}
	}
	c.Floor(R, "returns of ErrZeroVariance", n, 3)
}

// c16MarginsComplete (C16/R14): a column's left margin is the widest of all its cells' margins, so it is known only
// after the loop that collects it: inside any loop that still stores into the margin table, an element read from it
// may flow back into the table (the running maximum) and nowhere else.
func c16MarginsComplete(c *Ctx, p *Prog) {
	const R = "C16/R14"
	fn := p.Method("cmd/benchstat/internal/texttab", "Table", "Format")
	lmF := p.Field("cmd/benchstat/internal/texttab", "textCell", "leftMargin")
	if fn == nil || lmF == nil {
		c.Undecided(R, "anchor:Table.Format/cell.leftMargin", "", "not found")
		return
	}
	n := 0
	eachInstr(fn, func(_ *ssa.BasicBlock, in ssa.Instruction) {
		ms, ok := in.(*ssa.MakeSlice)
		if !ok {
			return
		}
		// stores into elements of this slice
		var stores []*ssa.Store
		for _, r := range *ms.Referrers() {
			if ia, ok := r.(*ssa.IndexAddr); ok {
				for _, r2 := range *ia.Referrers() {
					if st, ok := r2.(*ssa.Store); ok && st.Addr == ssa.Value(ia) {
						stores = append(stores, st)
					}
				}
			}
		}
		isMargin := false
		for _, st := range stores {
			if reaches(st.Val, func(x ssa.Value) bool {
				if f, _ := fieldOfVal(x); f == lmF {
					return true
				}
				f, _ := fieldOfAddr(x)
				return f == lmF
			}) {
				isMargin = true
			}
		}
		if !isMargin {
			return
		}
		n++
		loops := naturalLoops(fn)
		building := func(b *ssa.BasicBlock) bool {
			for _, lp := range loops {
				if !lp.Blocks[b] {
					continue
				}
				for _, st := range stores {
					if lp.Blocks[st.Block()] {
						return true
					}
				}
			}
			return false
		}
		bad := ""
		for _, r := range *ms.Referrers() {
			ia, ok := r.(*ssa.IndexAddr)
			if !ok {
				continue
			}
			for _, r2 := range *ia.Referrers() {
				ld, ok := r2.(*ssa.UnOp)
				if !ok || ld.Op != token.MUL || !building(ld.Block()) {
					continue
				}
				// forward: where does the loaded value go?
				seen := map[ssa.Value]bool{}
				var fwd func(v ssa.Value)
				fwd = func(v ssa.Value) {
					if seen[v] {
						return
					}
					seen[v] = true
					for _, u := range *v.Referrers() {
						switch x := u.(type) {
						case *ssa.Store:
							if ia2, ok := x.Addr.(*ssa.IndexAddr); ok && ia2.X == ssa.Value(ms) {
								continue
							}
							bad = p.pos(x.Pos())
						case *ssa.BinOp:
							if x.Op == token.ADD || x.Op == token.SUB || x.Op == token.MUL {
								fwd(x)
							}
							// comparisons decide nothing but which value is kept
						case *ssa.Phi:
							fwd(x)
						case *ssa.Convert:
							fwd(x)
						case *ssa.Call:
							if bi, ok := x.Call.Value.(*ssa.Builtin); ok && (bi.Name() == "max" || bi.Name() == "min") {
								fwd(x)
							} else {
								bad = p.pos(x.Pos())
							}
						case *ssa.If:
						default:
							if pos := p.pos(u.Pos()); pos != "" {
								bad = pos
							}
						}
					}
				}
				fwd(ld)
			}
		}
		c.Check(bad == "", R, fmt.Sprintf("Format:margin table#%d read when complete", n), p.pos(ms.Pos()), "inside the collecting loop the margins only feed their own maximum",
			"a column's left margin is used (at "+bad+") inside the loop that is still collecting the margins: a cell is then sized with the widest margin seen so far, not the column's, and a later row with a wider margin overruns the column")
	})
	c.Floor(R, "margin tables in Table.Format", n, 1)
}

// c18LessComparesTwo (C18/R14): a sort comparison compares element i with element j: in every func(i, j int) bool
// closure of the package no comparison has both operands computed from the same one index.
func c18LessComparesTwo(c *Ctx, p *Prog, R string, rels ...string) {
	n := 0
	for _, fn := range p.Funcs(rels...) {
		if fn.Parent() == nil || len(fn.Params) != 2 || fn.Signature.Results().Len() != 1 || !isBoolean(fn.Signature.Results().At(0).Type()) || !isInteger(fn.Params[0].Type()) || !isInteger(fn.Params[1].Type()) {
			continue
		}
		i, j := fn.Params[0], fn.Params[1]
		// func(i, j int) bool { return lessKey(s[i], s[j]) }: the comparisons are the named function's, between its parameters
		body := fn
		if len(fn.Blocks) == 1 {
			if ret, ok := fn.Blocks[0].Instrs[len(fn.Blocks[0].Instrs)-1].(*ssa.Return); ok && len(ret.Results) == 1 {
				if call, ok := ret.Results[0].(*ssa.Call); ok {
					if h := call.Call.StaticCallee(); h != nil && h.Pkg == fn.Pkg && h.Blocks != nil && len(h.Params) == 2 && len(call.Call.Args) == 2 {
						di := func(v ssa.Value, prm *ssa.Parameter) bool {
							return reaches(v, func(x ssa.Value) bool { return x == ssa.Value(prm) })
						}
						a0, a1 := call.Call.Args[0], call.Call.Args[1]
						if di(a0, i) && !di(a0, j) && di(a1, j) && !di(a1, i) || di(a0, j) && !di(a0, i) && di(a1, i) && !di(a1, j) {
							body, i, j = h, h.Params[0], h.Params[1]
						} else {
							n++
							c.Bad(R, fmt.Sprintf("%s:delegates", fnName(fn)), p.pos(call.Pos()), "the less function hands the named comparison two arguments that are not element i and element j")
						}
					}
				}
			}
		}
		eachInstr(body, func(_ *ssa.BasicBlock, in ssa.Instruction) {
			bo, ok := in.(*ssa.BinOp)
			if !ok {
				return
			}
			switch bo.Op {
			case token.LSS, token.GTR, token.LEQ, token.GEQ, token.EQL, token.NEQ:
			default:
				return
			}
			dep := func(v ssa.Value) (bool, bool) {
				return reaches(v, func(x ssa.Value) bool { return x == ssa.Value(i) }), reaches(v, func(x ssa.Value) bool { return x == ssa.Value(j) })
			}
			xi, xj := dep(bo.X)
			yi, yj := dep(bo.Y)
			if !(xi || xj) || !(yi || yj) {
				return
			}
			n++
			same := xi && yi && !xj && !yj || xj && yj && !xi && !yi
			c.Check(!same, R, fmt.Sprintf("%s:comparison#%d", fnName(fn), n), p.pos(bo.Pos()), "compares the two elements",
				"both sides of a comparison in a sort's less function are computed from the same index: the comparison is constant, elements that differ only in this component are left in the order the map iteration produced")
		})
	}
	c.Floor(R, "comparisons in less closures", n, 3)
}

// c17OneSidedByLookup (C17/R15): a row is omitted when one configuration lacks the metric: in Collection.Tables every
// nil test of a *Metrics value tests the result of a lookup in Collection.Metrics (a row's own list holds only the
// configurations that are present, so its positions do not say which one is missing).
func c17OneSidedByLookup(c *Ctx, p *Prog) {
	const R = "C17/R15"
	fn := p.Method("benchstat", "Collection", "Tables")
	metricsF := p.Field("benchstat", "Collection", "Metrics")
	mT := p.Named("benchstat", "Metrics")
	if fn == nil || metricsF == nil || mT == nil {
		c.Undecided(R, "anchor:Collection.Tables/Metrics", "", "not found")
		return
	}
	n := 0
	eachInstr(fn, func(_ *ssa.BasicBlock, in ssa.Instruction) {
		bo, ok := in.(*ssa.BinOp)
		if !ok || bo.Op != token.EQL && bo.Op != token.NEQ {
			return
		}
		var v ssa.Value
		if k, ok := bo.Y.(*ssa.Const); ok && k.IsNil() {
			v = bo.X
		} else if k, ok := bo.X.(*ssa.Const); ok && k.IsNil() {
			v = bo.Y
		}
		if v == nil {
			return
		}
		pt, ok := v.Type().(*types.Pointer)
		if !ok || !types.Identical(pt.Elem(), mT) {
			return
		}
		n++
		fromTable := false
		// the element values ever appended to a slice variable (a local, or a field of a row under construction)
		var appended func(sv ssa.Value, seen map[ssa.Value]bool) ([]ssa.Value, bool)
		appended = func(sv ssa.Value, seen map[ssa.Value]bool) ([]ssa.Value, bool) {
			if seen[sv] {
				return nil, true
			}
			seen[sv] = true
			switch x := sv.(type) {
			case *ssa.Const:
				return nil, true
			case *ssa.Slice:
				return appended(x.X, seen)
			case *ssa.Phi:
				var out []ssa.Value
				for _, e := range x.Edges {
					el, ok := appended(e, seen)
					if !ok {
						return nil, false
					}
					out = append(out, el...)
				}
				return out, true
			case *ssa.Call:
				bi, ok := x.Call.Value.(*ssa.Builtin)
				if !ok || bi.Name() != "append" || len(x.Call.Args) != 2 {
					return nil, false
				}
				out, ok := appended(x.Call.Args[0], seen)
				if !ok {
					return nil, false
				}
				sl, ok := x.Call.Args[1].(*ssa.Slice)
				if !ok {
					return nil, false
				}
				al, ok := sl.X.(*ssa.Alloc)
				if !ok {
					return nil, false
				}
				for _, st := range storesInto(al) {
					out = append(out, st.Val)
				}
				return out, true
			case *ssa.UnOp:
				if x.Op != token.MUL {
					return nil, false
				}
				f, _ := fieldOfAddr(x.X)
				if f == nil {
					return nil, false
				}
				var out []ssa.Value
				for _, st := range storesToField(fn, f) {
					el, ok := appended(st.Val, seen)
					if !ok {
						return nil, false
					}
					out = append(out, el...)
				}
				return out, true
			}
			return nil, false
		}
		var look func(v ssa.Value, d int) bool
		look = func(v ssa.Value, d int) bool {
			if d > 4 {
				return false
			}
			switch x := v.(type) {
			case *ssa.UnOp:
				// an element of a list: every value ever appended to the list is such a lookup (nil where missing)
				if ia, ok := x.X.(*ssa.IndexAddr); ok && x.Op == token.MUL {
					els, ok := appended(ia.X, map[ssa.Value]bool{})
					if !ok || len(els) == 0 {
						return false
					}
					for _, e := range els {
						if !look(e, d+1) {
							return false
						}
					}
					return true
				}
				return false
			case *ssa.Lookup:
				f, _ := loadOfField(x.X)
				return f == metricsF
			case *ssa.Extract:
				return look(x.Tuple, d+1)
			case *ssa.Phi:
				for _, e := range x.Edges {
					if !look(e, d+1) {
						return false
					}
				}
				return len(x.Edges) > 0
			}
			return false
		}
		fromTable = look(v, 0)
		c.Check(fromTable, R, fmt.Sprintf("Tables:missing-metric test#%d", n), p.pos(bo.Pos()), "the tested value is a lookup in Collection.Metrics",
			"whether a configuration lacks the metric is asked of something other than Collection.Metrics[key] (or a list holding exactly those lookups): a row's list has a placeholder where a configuration is missing, so the test never fires and a one-sided benchmark gets a row with a fabricated delta")
	})
	c.Floor(R, "nil tests of *Metrics in Collection.Tables", n, 1)
}

// c04PublishedEntriesAreComplete (C04/R10): what goes into the unit cache is finished: the value handed to the
// sync.Map's Store/LoadOrStore is not written through after that call.
func c04PublishedEntriesAreComplete(c *Ctx, p *Prog) {
	const R = "C04/R10"
	n := 0
	for _, s := range findMemoSites(p.Funcs("benchunit")) {
		if s.Kind != "sync.Map" {
			continue
		}
		n++
		call := s.Instr.(*ssa.Call)
		v := s.Val
		if mi, ok := v.(*ssa.MakeInterface); ok {
			v = mi.X
		}
		al, ok := v.(*ssa.Alloc)
		bad := ""
		if ok {
			eachInstr(s.Fn, func(_ *ssa.BasicBlock, in ssa.Instruction) {
				st, isSt := in.(*ssa.Store)
				if !isSt {
					return
				}
				root := st.Addr
				for {
					if fa, ok := root.(*ssa.FieldAddr); ok {
						root = fa.X
						continue
					}
					if ia, ok := root.(*ssa.IndexAddr); ok {
						root = ia.X
						continue
					}
					break
				}
				if root == ssa.Value(al) && !instrDominates(st, call) {
					bad = p.pos(st.Pos())
				}
			})
		}
		c.Check(bad == "", R, fmt.Sprintf("%s:cache entry#%d complete when published", fnName(s.Fn), n), p.pos(call.Pos()), "the entry is filled before it is stored in the cache",
			"the cache entry is written (at "+bad+") after it was put into the shared map: a goroutine tidying the same new unit meanwhile reads the empty entry and reports the measurement with an empty unit and factor 0")
	}
	c.Floor(R, "stores into the unit cache", n, 1)
}

// ---- one-slot caches ----

// A one-slot cache: a function loads a field, and on a "hit" (conditions that read the slot or the fields stored together
// with it) uses the loaded value; otherwise it computes a value and stores it into the field. The cached value may be
// reused only when everything it was computed from is the same, so every input of the computation that is already
// known at the hit test must take part in that test.
type slotMemo struct {
	Fn      *ssa.Function
	Store   *ssa.Store
	Slot    *types.Var
	Inputs  []string
	Tested  []string
	Missing []string
}

func slotMemos(fn *ssa.Function) []slotMemo {
	var out []slotMemo
	if fn.Blocks == nil {
		return nil
	}
	baseOf := func(a ssa.Value) ssa.Value {
		for {
			switch x := a.(type) {
			case *ssa.FieldAddr:
				a = x.X
				continue
			case *ssa.IndexAddr:
				a = x.X
				continue
			case *ssa.UnOp:
				if x.Op == token.MUL {
					a = x.X
					continue
				}
			}
			return a
		}
	}
	rootName := func(v ssa.Value) string {
		if u, ok := v.(*ssa.UnOp); ok && u.Op == token.MUL {
			v = baseOf(u.X)
		}
		switch x := v.(type) {
		case *ssa.Parameter:
			return x.Name()
		case *ssa.FreeVar:
			return x.Name()
		case *ssa.Alloc:
			if x.Comment != "" {
				return x.Comment
			}
		case *ssa.Call:
			if co := calleeObj(&x.Call); co != nil {
				return x.Name() + "=" + co.Name() + "(…)"
			}
		}
		return v.Name()
	}
	for _, b := range fn.Blocks {
		for _, in := range b.Instrs {
			st, ok := in.(*ssa.Store)
			if !ok {
				continue
			}
			slot, _ := fieldOfAddr(st.Addr)
			if slot == nil {
				continue
			}
			stBase := baseOf(st.Addr)
			// the fields stored together with the slot
			group := map[*types.Var]bool{slot: true}
			for _, in2 := range b.Instrs {
				if st2, ok := in2.(*ssa.Store); ok {
					if f, _ := fieldOfAddr(st2.Addr); f != nil && sameValue(baseOf(st2.Addr), stBase) {
						group[f] = true
					}
				}
			}
			isSlotLoad := func(v ssa.Value) bool {
				u, ok := v.(*ssa.UnOp)
				if !ok || u.Op != token.MUL {
					return false
				}
				f, _ := fieldOfAddr(u.X)
				return f == slot && !instrDominates(st, u)
			}
			// an accumulator (x.f = g(x.f)) is not a cache
			if reaches(st.Val, isSlotLoad) {
				continue
			}
			// hit uses of the slot's old value
			var hitFacts []fact
			eachInstr(fn, func(hb *ssa.BasicBlock, hin ssa.Instruction) {
				switch x := hin.(type) {
				case *ssa.Return:
					for _, r := range x.Results {
						if isSlotLoad(r) && !b.Dominates(hb) {
							hitFacts = append(hitFacts, factsAt(hb)...)
						}
					}
				case *ssa.Phi:
					hasOld, hasNew := -1, false
					for i, e := range x.Edges {
						if isSlotLoad(e) {
							hasOld = i
						}
						if e == st.Val {
							hasNew = true
						}
					}
					if hasOld >= 0 && hasNew {
						pr := hb.Preds[hasOld]
						hitFacts = append(hitFacts, factsAt(pr)...)
						if ifi, ok := pr.Instrs[len(pr.Instrs)-1].(*ssa.If); ok && pr.Succs[0] != pr.Succs[1] {
							cond, tr := ifi.Cond, pr.Succs[0] == hb
							for {
								u, ok := cond.(*ssa.UnOp)
								if ok && u.Op == token.NOT {
									cond, tr = u.X, !tr
									continue
								}
								break
							}
							hitFacts = append(hitFacts, fact{cond, tr, ifi})
						}
					}
				}
			})
			// (c) the slot is read again after the conditional refill (if stale { slot = compute() }; use(slot)): the hit
			// conditions are the refill's own guards
			if len(hitFacts) == 0 {
				eachInstr(fn, func(hb *ssa.BasicBlock, hin ssa.Instruction) {
					u, ok := hin.(*ssa.UnOp)
					if !ok || u.Op != token.MUL {
						return
					}
					if f, _ := fieldOfAddr(u.X); f != slot {
						return
					}
					if hb == b || b.Dominates(hb) || hb.Dominates(b) || !reachFrom(b, nil)[hb] {
						return
					}
					later := map[*ssa.If]bool{}
					for _, f := range factsAt(hb) {
						later[f.If] = true
					}
					for _, f := range factsAt(b) {
						if !later[f.If] {
							hitFacts = append(hitFacts, f)
						}
					}
				})
			}
			if len(hitFacts) == 0 {
				continue
			}
			// the test point: the outermost hit condition that reads the slot group
			var t0 *ssa.BasicBlock
			for _, f := range hitFacts {
				if reaches(f.Cond, func(x ssa.Value) bool {
					u, ok := x.(*ssa.UnOp)
					if !ok || u.Op != token.MUL {
						return false
					}
					g, _ := fieldOfAddr(u.X)
					return g != nil && group[g]
				}) {
					if t0 == nil || f.If.Block().Dominates(t0) {
						t0 = f.If.Block()
					}
				}
			}
			if t0 == nil {
				continue
			}
			avail := func(v ssa.Value) bool {
				switch v.(type) {
				case *ssa.Parameter, *ssa.FreeVar:
					return true
				}
				in, ok := v.(ssa.Instruction)
				if !ok || in.Block() == nil {
					return false
				}
				return in.Block() == t0 || in.Block().Dominates(t0)
			}
			frontier := func(start []ssa.Value) map[string]bool {
				res := map[string]bool{}
				seen := map[ssa.Value]bool{}
				var walk func(v ssa.Value, d int)
				ctl := func(blk *ssa.BasicBlock, d int) {
					for _, f := range factsAt(blk) {
						if f.If.Block() != t0 && t0.Dominates(f.If.Block()) {
							walk(f.Cond, d+1)
						}
					}
				}
				walk = func(v ssa.Value, d int) {
					if v == nil || seen[v] || d > 60 {
						return
					}
					seen[v] = true
					switch v.(type) {
					case *ssa.Const, *ssa.Function, *ssa.Builtin, *ssa.Global:
						return
					}
					if avail(v) {
						res[rootName(v)] = true
						return
					}
					in, ok := v.(ssa.Instruction)
					if !ok {
						return
					}
					if phi, ok := v.(*ssa.Phi); ok {
						for _, pr := range phi.Block().Preds {
							ctl(pr, d)
						}
					}
					if al, ok := v.(*ssa.Alloc); ok {
						for _, r := range *al.Referrers() {
							switch x := r.(type) {
							case *ssa.Store:
								walk(x.Val, d+1)
								ctl(x.Block(), d)
							case ssa.CallInstruction:
								for _, a := range callArgs(x.Common()) {
									walk(a, d+1)
								}
								ctl(x.Block(), d)
							case *ssa.FieldAddr, *ssa.IndexAddr:
								for _, r2 := range *x.(ssa.Value).Referrers() {
									if st2, ok := r2.(*ssa.Store); ok {
										walk(st2.Val, d+1)
										ctl(st2.Block(), d)
									}
								}
							}
						}
					}
					for _, op := range in.Operands(nil) {
						if *op != nil {
							walk(*op, d+1)
						}
					}
				}
				for _, s := range start {
					walk(s, 0)
				}
				return res
			}
			inputs := frontier([]ssa.Value{st.Val})
			var conds []ssa.Value
			for _, f := range hitFacts {
				conds = append(conds, f.Cond)
			}
			// conditions are evaluated at or after the test point: everything they read that is known there
			tested := map[string]bool{}
			{
				seen := map[ssa.Value]bool{}
				var walk func(v ssa.Value, d int)
				walk = func(v ssa.Value, d int) {
					if v == nil || seen[v] || d > 60 {
						return
					}
					seen[v] = true
					switch v.(type) {
					case *ssa.Const, *ssa.Function, *ssa.Builtin, *ssa.Global:
						return
					}
					in, isIn := v.(ssa.Instruction)
					inCond := isIn && in.Block() != nil && (in.Block() == t0 || t0.Dominates(in.Block()))
					if avail(v) && !inCond || !isIn {
						tested[rootName(v)] = true
						return
					}
					if avail(v) {
						// defined in the test block itself: a root unless it is part of the condition's own arithmetic
						switch v.(type) {
						case *ssa.BinOp, *ssa.UnOp, *ssa.Call, *ssa.Extract, *ssa.FieldAddr, *ssa.IndexAddr, *ssa.Field, *ssa.Index, *ssa.Lookup, *ssa.Phi, *ssa.Convert, *ssa.ChangeType, *ssa.MakeInterface, *ssa.TypeAssert:
							if u, ok := v.(*ssa.UnOp); ok && u.Op == token.MUL {
								tested[rootName(v)] = true
							}
						default:
							tested[rootName(v)] = true
							return
						}
					}
					for _, op := range in.Operands(nil) {
						if *op != nil {
							walk(*op, d+1)
						}
					}
				}
				for _, cnd := range conds {
					walk(cnd, 0)
				}
			}
			m := slotMemo{Fn: fn, Store: st, Slot: slot}
			for k := range inputs {
				m.Inputs = append(m.Inputs, k)
				if !tested[k] {
					m.Missing = append(m.Missing, k)
				}
			}
			for k := range tested {
				m.Tested = append(m.Tested, k)
			}
			sort.Strings(m.Inputs)
			sort.Strings(m.Tested)
			sort.Strings(m.Missing)
			out = append(out, m)
		}
	}
	return out
}

// slotMemoAllow: reviewed one-slot caches that are kept on purpose, by function and field.
var slotMemoAllow = map[string]string{
	"(*benchseries.ComparisonSeries).AddSummaries/Summary": "not a cache of the last call but the point's summary itself: AddSummaries documents filling in the summaries that are missing (others arrive from JSON), so one computed under an earlier confidence/N is kept by design",
}

// slotMemoRule: every one-slot cache in the given packages tests every input of the cached computation.
func slotMemoRule(c *Ctx, p *Prog, R string, floorCtl bool, rels ...string) {
	n := 0
	for _, fn := range p.Funcs(rels...) {
		for i, m := range slotMemos(fn) {
			n++
			key := fmt.Sprintf("%s:one-slot cache %s#%d", fnName(fn), m.Slot.Name(), i+1)
			if why, ok := slotMemoAllow[fnName(fn)+"/"+m.Slot.Name()]; ok {
				c.Allow(R, fnName(fn)+"/"+m.Slot.Name(), why)
				c.OK(R, key, p.pos(m.Store.Pos()), "reviewed: "+why)
				continue
			}
			c.Check(len(m.Missing) == 0, R, key, p.pos(m.Store.Pos()), fmt.Sprintf("computed from %v, reused only when %v agree", m.Inputs, m.Tested),
				fmt.Sprintf("the value cached in %s is computed from %v but reused whenever %v agree: %v take no part in the test, so a call that differs only there gets the previous call's answer", m.Slot.Name(), m.Inputs, m.Tested, m.Missing))
		}
	}
	c.extra["one_slot_caches_"+strings.ReplaceAll(R, "/", "_")] = n
	if floorCtl {
		ctl := mustLoad(c, loadOpts{dir: c.HomeDir + "/checker"}, "./testdata/lookbehind")
		bad := 0
		for _, fn := range ctl.Funcs("perfcheck/testdata/lookbehind") {
			for _, m := range slotMemos(fn) {
				if len(m.Missing) > 0 {
					bad++
				}
			}
		}
		c.Check(bad >= 1, R, "control:one-slot cache with an untested input", "checker/testdata/lookbehind/lb.go", fmt.Sprintf("the matcher reports the planted cache (%d)", bad), "the planted one-slot cache with an untested input is not reported: the matcher is broken")
	}
}

// c11WrapperCallsFirst (C11/R11): benchstat.UTest has no verdict of its own: no return is reachable from its entry
// without passing the call of MannWhitneyUTest.
func c11WrapperCallsFirst(c *Ctx, p *Prog) {
	const R = "C11/R11"
	fn := p.Fn("benchstat", "UTest")
	if fn == nil {
		c.Undecided(R, "anchor:benchstat.UTest", "", "not found")
		return
	}
	calls := blocksWhere(fn, func(in ssa.Instruction) bool {
		_, ok := callIs(in, rp("internal/stats"), "", "MannWhitneyUTest")
		return ok
	})
	bad := ""
	reachC := reachFrom(fn.Blocks[0], calls)
	for _, b := range fn.Blocks {
		if !reachC[b] {
			continue
		}
		if ret, ok := b.Instrs[len(b.Instrs)-1].(*ssa.Return); ok {
			bad = p.pos(ret.Pos())
		}
	}
	c.Check(len(calls) > 0 && bad == "", R, "UTest:the test decides", p.pos(fn.Pos()), "every return follows the call of MannWhitneyUTest",
		"benchstat.UTest returns (at "+bad+") without having called MannWhitneyUTest: the U test is defined for a single value against several (n=1+19 has the exact p 0.100), a size check of the wrapper's own reports \"too few samples\" instead")
}

// c09Antisymmetric (C09/R13): a field comparator is an order: cmp(a, b) and cmp(b, a) have opposite signs. Every closure
// stored into Field.cmp is tabulated (paths × results); the table of cmp(b, a) is the same table with the parameters
// renamed. Wherever a path of the one and a path of the other can be taken by the same pair of values (their conditions
// do not contradict each other) the two results must be opposite: constants c and -c, or x-y and y-x.
func c09Antisymmetric(c *Ctx, p *Prog) {
	const R = "C09/R13"
	cmpF := p.Field("benchproc", "Field", "cmp")
	if cmpF == nil {
		c.Undecided(R, "anchor:Field.cmp", "", "not found")
		return
	}
	n := 0
	seenFn := map[*ssa.Function]bool{}
	for _, fn := range p.Funcs("benchproc") {
		for _, st := range storesToField(fn, cmpF) {
			var f *ssa.Function
			switch x := st.Val.(type) {
			case *ssa.MakeClosure:
				f, _ = x.Fn.(*ssa.Function)
			case *ssa.Function:
				f = x
			}
			if f == nil || seenFn[f] || len(f.Params) != 2 || f.Blocks == nil {
				continue
			}
			seenFn[f] = true
			n++
			key := fmt.Sprintf("%s:antisymmetric", fnName(f))
			site := p.pos(f.Pos())
			mk := func() *e6Interp {
				return &e6Interp{PureCall: func(g *types.Func) bool { return true }}
			}
			outs, why := e6Enumerate(mk, f.Blocks[0], nil, nil, 512)
			if why != "" {
				c.OK(R, key, site, "not tabulated ("+why+"): no claim")
				continue
			}
			pa, pb := "param:"+f.Params[0].Name(), "param:"+f.Params[1].Name()
			swap := func(s string) string {
				s = strings.ReplaceAll(s, pa, "\x00")
				s = strings.ReplaceAll(s, pb, pa)
				return strings.ReplaceAll(s, "\x00", pb)
			}
			type row struct {
				cond map[string]bool
				res  *Sym
			}
			var rows []row
			for _, o := range outs {
				if o.Term != "return" || len(o.Results) != 1 {
					continue
				}
				r := row{cond: map[string]bool{}, res: o.Results[0]}
				for _, k := range o.AtomKeys() {
					r.cond[o.AtomSyms[k].String()] = o.Assign[k]
				}
				rows = append(rows, r)
			}
			bad := ""
			for _, r1 := range rows {
				for _, r2 := range rows {
					// r2 with the parameters exchanged
					compatible := true
					for k, v := range r2.cond {
						if v1, ok := r1.cond[swap(k)]; ok && v1 != v {
							compatible = false
						}
					}
					if !compatible {
						continue
					}
					x, y := r1.res, r2.res
					switch {
					case x.Op == "const" && y.Op == "const" && x.Const != nil && y.Const != nil:
						if constant.Sign(x.Const) != -constant.Sign(y.Const) {
							bad = fmt.Sprintf("cmp(a,b) = %s on a path that cmp(b,a) = %s can share", x, y)
						}
					}
					// (a difference x-y against y-x, or a constant against a difference: no claim)
				}
			}
			c.Check(bad == "", R, key, site, fmt.Sprintf("%d result paths, pairwise opposite under exchange of the arguments", len(rows)),
				"the comparator is not antisymmetric: "+bad+" — two distinct values then each sort after the other (or neither before the other), so the sorted order depends on the arrangement the keys arrived in")
		}
	}
	c.Floor(R, "comparators stored into Field.cmp", n, 2)
}

// c07SpaceAgrees (C07/R19): what the tokenizer skips as a space is what ends a bare word: the space recogniser
// (func(string) int calling unicode.IsSpace) is evaluated for sample first bytes — comparisons of that byte with
// constants and unicode.IsSpace itself are answered from the sample — and must return a positive width exactly for the
// bytes unicode.IsSpace accepts. A byte that ends a word but is not skipped makes the tokenizer loop for ever.
func c07SpaceAgrees(c *Ctx, p *Prog) {
	const R = "C07/R19"
	var fn *ssa.Function
	for _, f := range p.Funcs("benchproc/internal/parse") {
		sig := f.Signature
		if f.Parent() == nil && sig.Recv() == nil && sig.Params().Len() == 1 && sig.Results().Len() == 1 && isString(sig.Params().At(0).Type()) && isInteger(sig.Results().At(0).Type()) && len(callsIn(f, "unicode", "", "IsSpace")) > 0 {
			fn = f
		}
	}
	if fn == nil {
		c.Undecided(R, "anchor:space recogniser", "", "no func(string) int calling unicode.IsSpace in the tokenizer's package")
		return
	}
	site := p.pos(fn.Pos())
	for _, sample := range []struct {
		b     int64
		space bool
	}{{' ', true}, {'\t', true}, {'\n', true}, {'\v', true}, {'\f', true}, {'\r', true}, {'a', false}, {':', false}, {'(', false}, {'0', false}} {
		sample := sample
		decide := func(s *Sym) (bool, bool) {
			if s.Op == "call" && strings.HasPrefix(s.Name, "unicode.IsSpace") {
				return sample.space, true
			}
			if s.Op != "binop" || len(s.Args) != 2 {
				return false, false
			}
			isByte := func(x *Sym) bool {
				for x.Op == "convert" && len(x.Args) == 1 {
					x = x.Args[0]
				}
				return (x.Op == "load" || x.Op == "index") && x.Type != nil && isInteger(x.Type) && strings.Contains(x.String(), "param:")
			}
			var a, b int64
			switch {
			case isByte(s.Args[0]) && s.Args[1].isConst() && s.Args[1].Const != nil && s.Args[1].Const.Kind() == constant.Int:
				a = sample.b
				b, _ = constant.Int64Val(s.Args[1].Const)
			case isByte(s.Args[1]) && s.Args[0].isConst() && s.Args[0].Const != nil && s.Args[0].Const.Kind() == constant.Int:
				a, _ = constant.Int64Val(s.Args[0].Const)
				b = sample.b
			default:
				return false, false
			}
			switch s.Tok {
			case token.EQL:
				return a == b, true
			case token.NEQ:
				return a != b, true
			case token.LSS:
				return a < b, true
			case token.LEQ:
				return a <= b, true
			case token.GTR:
				return a > b, true
			case token.GEQ:
				return a >= b, true
			}
			return false, false
		}
		outs, why := e6Enumerate(func() *e6Interp {
			return &e6Interp{PureCall: func(f *types.Func) bool { return true }, Decide: decide}
		}, fn.Blocks[0], nil, nil, 64)
		key := fmt.Sprintf("%s:first byte %q", fnName(fn), rune(sample.b))
		if why != "" {
			c.Undecided(R, key, site, why)
			continue
		}
		ok := len(outs) > 0
		for _, o := range outs {
			if o.Term != "return" || len(o.Results) != 1 {
				continue
			}
			r := o.Results[0]
			zero := r.Op == "const" && r.Const != nil && constant.Sign(r.Const) == 0
			if zero == sample.space {
				ok = false
			}
		}
		c.Check(ok, R, key, site, fmt.Sprintf("space=%v", sample.space),
			fmt.Sprintf("for text beginning with the byte %q the space recogniser answers %s, but unicode.IsSpace — which is what ends a bare word — says space=%v: a byte that ends a word and is not skipped leaves the tokenizer at the same place for ever (a projection containing \\v or \\f never finishes parsing)", rune(sample.b), map[bool]string{true: "\"not a space\"", false: "\"a space\""}[sample.space], sample.space))
	}
}

// c03SignAlone (C03/R12): a sign is not a number: wherever Atoi's own digit loop is preceded by stripping a
// leading sign by re-slicing its text from 1, the length of what remains is tested, and the empty remainder returns an
// error.
func c03SignAlone(c *Ctx, p *Prog) {
	const R = "C03/R12"
	n := 0
	// (ParseInt strips the sign too, but hands the remainder to ParseUint, which refuses the empty text itself)
	for _, name := range []string{"Atoi"} {
		fn := p.Fn("benchfmt/internal/bytesconv", name)
		if fn == nil {
			continue
		}
		eachInstr(fn, func(_ *ssa.BasicBlock, in ssa.Instruction) {
			sl, ok := in.(*ssa.Slice)
			if !ok || sl.High != nil || sl.Low == nil {
				return
			}
			if k, ok := constInt(sl.Low); !ok || k != 1 {
				return
			}
			if _, isParam := sl.X.(*ssa.Parameter); !isParam {
				return
			}
			n++
			// len(rest) compared with a constant, one branch returning a non-nil error
			tested := false
			var uses func(v ssa.Value, d int)
			uses = func(v ssa.Value, d int) {
				if d > 3 {
					return
				}
				for _, r := range *v.Referrers() {
					switch x := r.(type) {
					case *ssa.Phi:
						uses(x, d+1)
					case *ssa.Call:
						bi, ok := x.Call.Value.(*ssa.Builtin)
						if !ok || bi.Name() != "len" {
							continue
						}
						for _, r2 := range *x.Referrers() {
							bo, ok := r2.(*ssa.BinOp)
							if !ok {
								continue
							}
							if _, isK := constInt(bo.Y); !isK {
								if _, isK := constInt(bo.X); !isK {
									continue
								}
							}
							for _, r3 := range *bo.Referrers() {
								ifi, ok := r3.(*ssa.If)
								if !ok {
									continue
								}
								for _, s := range ifi.Block().Succs {
									if ret, ok := s.Instrs[len(s.Instrs)-1].(*ssa.Return); ok && len(ret.Results) == 2 {
										if k, isK := ret.Results[1].(*ssa.Const); !isK || !k.IsNil() {
											tested = true
										}
									}
								}
							}
						}
					}
				}
			}
			uses(sl, 0)
			c.Check(tested, R, fmt.Sprintf("%s:sign stripped#%d", name, n), p.pos(sl.Pos()), "the remainder's length is tested and the empty remainder is an error",
				"after the sign is stripped the length of what remains is not tested (with an error return): the texts \"-\" and \"+\" then read as the number 0 instead of being a syntax error, so a benchmark line whose iteration count is a bare sign is accepted")
		})
	}
	c.Floor(R, "places where a leading sign is stripped", n, 1)
}

// c03PointPosition (C03/R13): the decimal point sits after all the digits read so far, kept or dropped: in readFloat
// the variable holding the point's position (dp) is assigned, inside the scanning loop, only the count of all digits
// (nd) — not the count of digits that still fitted into the mantissa (ndMant). Variables are found by their names in
// the SSA form; if they are not there any more the rule makes no claim (and says so).
func c03PointPosition(c *Ctx, p *Prog) {
	const R = "C03/R13"
	fn := p.Fn("benchfmt/internal/bytesconv", "readFloat")
	if fn == nil {
		c.Undecided(R, "anchor:readFloat", "", "not found")
		return
	}
	site := p.pos(fn.Pos())
	for _, lp := range naturalLoops(fn) {
		var dp, nd *ssa.Phi
		for _, in := range lp.Header.Instrs {
			if phi, ok := in.(*ssa.Phi); ok {
				switch phi.Comment {
				case "dp":
					dp = phi
				case "nd":
					nd = phi
				}
			}
		}
		if dp == nil || nd == nil {
			continue
		}
		bad := ""
		seen := map[ssa.Value]bool{}
		var leaf func(e ssa.Value)
		leaf = func(e ssa.Value) {
			if seen[e] || e == ssa.Value(dp) || e == ssa.Value(nd) {
				return
			}
			seen[e] = true
			if ph, ok := e.(*ssa.Phi); ok && ph.Block() != lp.Header && lp.Blocks[ph.Block()] {
				// a merge inside the iteration
				for _, x := range ph.Edges {
					leaf(x)
				}
				return
			}
			// a leading zero after the point moves the position by one: dp ± constant
			if bo, ok := e.(*ssa.BinOp); ok && (bo.Op == token.ADD || bo.Op == token.SUB) {
				if _, isK := constInt(bo.Y); isK {
					leaf(bo.X)
					return
				}
			}
			bad = valStr(e)
			if ph, ok := e.(*ssa.Phi); ok && ph.Comment != "" {
				bad = ph.Comment
			}
		}
		for i, e := range dp.Edges {
			if lp.Blocks[lp.Header.Preds[i]] {
				leaf(e)
			}
		}
		c.Check(bad == "", R, "readFloat:point position", site, "at the radix point dp becomes nd, the count of all digits read",
			"at the radix point the position is taken from "+bad+" instead of the count of all digits read: once more digits were read than the mantissa keeps (17 or more hexadecimal digits before the point) the value is too small by a power of the base")
		return
	}
	c.OK(R, "readFloat:point position", site, "the variables dp/nd are not named so any more: no claim")
	c.Note("C03/R13 makes no claim: readFloat no longer has loop variables named dp and nd")
}

// c16NoShrinkingCaptures (C16/R15): the cell closures of the renderers are called once per cell and must start each
// call in the same state: no closure assigns to a slice variable it captured a re-slice of that same variable with a
// lower bound (x = x[k:]) — such a buffer only ever shrinks from call to call, until an index falls outside it.
func c16NoShrinkingCaptures(c *Ctx, p *Prog) {
	const R = "C16/R15"
	n := 0
	for _, fn := range p.Funcs(btabRel) {
		if fn.Parent() == nil {
			continue
		}
		eachInstr(fn, func(_ *ssa.BasicBlock, in ssa.Instruction) {
			st, ok := in.(*ssa.Store)
			if !ok {
				return
			}
			fv, ok := st.Addr.(*ssa.FreeVar)
			if !ok {
				return
			}
			if _, isSl := st.Val.Type().Underlying().(*types.Slice); !isSl {
				return
			}
			n++
			shrinks := false
			if sl, ok := st.Val.(*ssa.Slice); ok && sl.Low != nil {
				if ld, ok := sl.X.(*ssa.UnOp); ok && ld.Op == token.MUL && ld.X == ssa.Value(fv) {
					shrinks = true
				}
			}
			c.Check(!shrinks, R, fmt.Sprintf("%s:captured %s#%d", fnName(fn), fv.Name(), n), p.pos(st.Pos()), "not re-sliced from the front",
				"the closure assigns the captured slice "+fv.Name()+" a re-slice of itself with a lower bound: the variable lives across calls, so the buffer shrinks with every cell until an index falls outside it (CSV output with many columns panics while the text output is fine)")
		})
	}
	c.Floor(R, "captured slice variables assigned in the renderers' closures", n, 1)
}

// ---- rules added for the eighth round of seeded changes (DESIGN §0.18) ----

// c19FirstEquals (part of C19/R13): a sub-benchmark part `key=value` is cut at its first '=': parseNameLabels does not
// look for the last one (the value may itself contain '=').
func c19FirstEquals(c *Ctx, p *Prog) {
	const R = "C19/R13"
	fn := p.Fn("storage/benchfmt", "parseNameLabels")
	if fn == nil {
		c.Undecided(R, "anchor:parseNameLabels", "", "not found")
		return
	}
	bad := ""
	eachInstr(fn, func(_ *ssa.BasicBlock, in ssa.Instruction) {
		call, ok := in.(*ssa.Call)
		if !ok {
			return
		}
		co := calleeObj(&call.Call)
		if co == nil || co.Pkg() == nil || co.Pkg().Path() != "strings" || !strings.HasPrefix(co.Name(), "LastIndex") || len(call.Call.Args) < 2 {
			return
		}
		if k, ok := constString(call.Call.Args[1]); ok && k == "=" {
			bad = p.pos(call.Pos())
		}
		if k, ok := constInt(call.Call.Args[1]); ok && k == '=' {
			bad = p.pos(call.Pos())
		}
	})
	c.Check(bad == "", R, "parseNameLabels:key ends at the first '='", p.pos(fn.Pos()), "no search for the last '='",
		"a sub-benchmark part is cut at its last '=' (at "+bad+"): for BenchmarkDecode/text=a=b the stored label is `text=a: b` instead of `text: a=b`, so queries on text miss the record")
}

// c15WholeResidue (C15/R16): what a cell warns about is computed from all of its residues: the argument of
// NonSingularFields in the cell summary is the key list of the residue set as mapKeys returns it.
func c15WholeResidue(c *Ctx, p *Prog, R string) {
	n := 0
	for _, fn := range p.Funcs(btabRel) {
		eachInstr(fn, func(_ *ssa.BasicBlock, in ssa.Instruction) {
			call, ok := in.(*ssa.Call)
			if !ok || !objIs(calleeObj(&call.Call), rp("benchproc"), "", "NonSingularFields") {
				return
			}
			n++
			arg := call.Call.Args[0]
			_, isCall := arg.(*ssa.Call)
			c.Check(isCall, R, fmt.Sprintf("%s:non-singular fields of the whole residue#%d", fnName(fn), n), p.pos(call.Pos()), "the key list is handed over as collected",
				"NonSingularFields is given something other than the collected key list itself (a selection of it): a field that differs only between keys that were left out is not reported, and which keys are left out depends on their order")
		})
	}
	c.Floor(R, "calls of NonSingularFields in the table builder", n, 1)
}

// c09ComparatorsReadOnly (C09/R14 = C15/R17): comparing does not change the order: no closure stored into Field.cmp
// (nor a closure it makes or calls) writes a map or memory it captured. Cells are summarised by concurrent goroutines
// that sort with the same comparators.
func c09ComparatorsReadOnly(c *Ctx, p *Prog, R string) {
	cmpF := p.Field("benchproc", "Field", "cmp")
	if cmpF == nil {
		c.Undecided(R, "anchor:Field.cmp", "", "not found")
		return
	}
	n := 0
	seen := map[*ssa.Function]bool{}
	for _, fn := range p.Funcs("benchproc") {
		for _, st := range storesToField(fn, cmpF) {
			mc, ok := st.Val.(*ssa.MakeClosure)
			if !ok {
				continue
			}
			f, _ := mc.Fn.(*ssa.Function)
			if f == nil || seen[f] {
				continue
			}
			seen[f] = true
			n++
			bad := ""
			var visit func(g *ssa.Function, d int)
			visit = func(g *ssa.Function, d int) {
				if d > 3 || g.Blocks == nil {
					return
				}
				eachInstr(g, func(_ *ssa.BasicBlock, in ssa.Instruction) {
					switch x := in.(type) {
					case *ssa.MapUpdate:
						if rootIsFreeVar(x.Map, 0) {
							bad = p.pos(x.Pos())
						}
					case *ssa.Store:
						if rootIsFreeVar(x.Addr, 0) {
							bad = p.pos(x.Pos())
						}
					case *ssa.MakeClosure:
						if h, ok := x.Fn.(*ssa.Function); ok {
							visit(h, d+1)
						}
					case *ssa.Call:
						if h := x.Call.StaticCallee(); h != nil && h.Parent() != nil {
							visit(h, d+1)
						}
						// a closure held in a captured variable (orderOf := func…; cmp = func… { orderOf(a) })
						v := x.Call.Value
						if ld, ok := v.(*ssa.UnOp); ok && ld.Op == token.MUL {
							v = ld.X
						}
						if fv, ok := v.(*ssa.FreeVar); ok && g.Parent() != nil {
							for _, pin := range allInstrs(g.Parent()) {
								pmc, ok := pin.(*ssa.MakeClosure)
								if !ok || pmc.Fn != ssa.Value(g) {
									continue
								}
								for i, f2 := range g.FreeVars {
									if f2 != fv || i >= len(pmc.Bindings) {
										continue
									}
									bnd := pmc.Bindings[i]
									if al, ok := bnd.(*ssa.Alloc); ok {
										for _, st2 := range storesInto(al) {
											bnd = st2.Val
										}
									}
									if hm, ok := bnd.(*ssa.MakeClosure); ok {
										if h, ok := hm.Fn.(*ssa.Function); ok {
											visit(h, d+1)
										}
									}
								}
							}
						}
					}
				})
			}
			visit(f, 0)
			c.Check(bad == "", R, fnName(f)+":read-only", p.pos(f.Pos()), "the comparator writes nothing it captured",
				"a field comparator writes captured state (at "+bad+"): sorting then changes the order it sorts by, and the per-cell goroutines that sort residue keys with the shared projection's comparators write the same map concurrently")
		}
	}
	c.Floor(R, "comparator closures stored into Field.cmp", n, 2)
}

// c20LabelKept (C20/R14): every label of an accepted record is queued: in Upload.insertLabel no return that can be nil
// is reachable without passing the store that appends to the pending label arguments.
func c20LabelKept(c *Ctx, p *Prog) {
	const R = "C20/R14"
	fn := p.Method("storage/db", "Upload", "insertLabel")
	argsF := p.Field("storage/db", "Upload", "insertLabelArgs")
	if fn == nil || argsF == nil {
		c.Undecided(R, "anchor:Upload.insertLabel/insertLabelArgs", "", "not found")
		return
	}
	keeps := blocksWhere(fn, func(in ssa.Instruction) bool {
		st, ok := in.(*ssa.Store)
		if !ok {
			return false
		}
		f, _ := fieldOfAddr(st.Addr)
		if f != argsF {
			return false
		}
		call, isCall := st.Val.(*ssa.Call)
		if !isCall {
			return false
		}
		bi, isB := call.Call.Value.(*ssa.Builtin)
		return isB && bi.Name() == "append"
	})
	reach := reachFrom(fn.Blocks[0], keeps)
	bad, nRet := "", 0
	for _, b := range fn.Blocks {
		ret, ok := b.Instrs[len(b.Instrs)-1].(*ssa.Return)
		if !ok || len(ret.Results) == 0 {
			continue
		}
		// a return of an error known to be non-nil (the failed flush) is not an acceptance
		knownErr := false
		for _, f := range factsAt(b) {
			if bo, ok := f.Cond.(*ssa.BinOp); ok && bo.X == retLast(ret) && (bo.Op == token.NEQ && f.True || bo.Op == token.EQL && !f.True) {
				if k, ok := bo.Y.(*ssa.Const); ok && k.IsNil() {
					knownErr = true
				}
			}
		}
		if knownErr {
			continue
		}
		nRet++
		if reach[b] {
			bad = p.pos(ret.Pos())
		}
	}
	c.Check(bad == "" && len(keeps) > 0, R, "insertLabel:accepted means queued", p.pos(fn.Pos()), fmt.Sprintf("%d returns that can report success, each after the label was appended", nRet),
		"insertLabel can report success (at "+bad+") without having appended the label to the pending arguments: the label that happens to arrive when the batch is full is dropped, and the record cannot be found by it")
}

// c19DecodeIntoFresh (C19/R15): a listing row shows its own labels only: where the client decodes a JSON row into a
// field of the iterator, a store that resets that field dominates the decode.
func c19DecodeIntoFresh(c *Ctx, p *Prog) {
	const R = "C19/R15"
	n := 0
	for _, fn := range p.Funcs("storage") {
		eachInstr(fn, func(_ *ssa.BasicBlock, in ssa.Instruction) {
			call, ok := in.(*ssa.Call)
			if !ok || !objIs(calleeObj(&call.Call), "encoding/json", "Decoder", "Decode") {
				return
			}
			arg := call.Call.Args[len(call.Call.Args)-1]
			if mi, ok := arg.(*ssa.MakeInterface); ok {
				arg = mi.X
			}
			f, _ := fieldOfAddr(arg)
			if f == nil {
				return
			}
			n++
			reset := false
			for _, st := range storesToField(fn, f) {
				if instrDominates(st, call) {
					reset = true
				}
			}
			c.Check(reset, R, fmt.Sprintf("%s:decodes into a reset %s", fnName(fn), f.Name()), p.pos(call.Pos()), "the target is reset before every decode",
				"the JSON row is decoded into "+f.Name()+" without that field having been reset first: Decode leaves absent members alone and adds to an existing map, so a row lacking a label shows the previous row's value (and rows already handed out change)")
		})
	}
	c.Floor(R, "JSON decodes into iterator fields in the storage client", n, 1)
}

// c03WrapDetected (C03/R14): adding the next digit is checked for wrap-around: in ParseUint the sum n + digit is
// compared with n itself (n1 < n), not only with the width's maximum — for 64 bits the maximum can never be exceeded,
// the sum just wraps.
func c03WrapDetected(c *Ctx, p *Prog) {
	const R = "C03/R14"
	fn := p.Fn("benchfmt/internal/bytesconv", "ParseUint")
	if fn == nil {
		c.Undecided(R, "anchor:ParseUint", "", "not found")
		return
	}
	n := 0
	eachInstr(fn, func(_ *ssa.BasicBlock, in ssa.Instruction) {
		add, ok := in.(*ssa.BinOp)
		if !ok || add.Op != token.ADD || !isInteger(add.Type()) {
			return
		}
		// (a loop counter stepping by a constant is not the accumulator)
		if _, isK := add.Y.(*ssa.Const); isK {
			return
		}
		if _, isK := add.X.(*ssa.Const); isK {
			return
		}
		// the accumulator: one operand derives from a loop-carried value that this sum flows back into
		var operand ssa.Value
		for _, o := range []ssa.Value{add.X, add.Y} {
			if reaches(o, func(x ssa.Value) bool {
				ph, ok := x.(*ssa.Phi)
				if !ok {
					return false
				}
				for _, e := range ph.Edges {
					if e == ssa.Value(add) {
						return true
					}
				}
				return false
			}) {
				operand = o
			}
		}
		if operand == nil {
			return
		}
		n++
		checked := false
		for _, r := range *add.Referrers() {
			if bo, ok := r.(*ssa.BinOp); ok {
				switch bo.Op {
				case token.LSS, token.GTR, token.LEQ, token.GEQ:
					if bo.X == ssa.Value(add) && bo.Y == operand || bo.Y == ssa.Value(add) && bo.X == operand {
						checked = true
					}
				}
			}
		}
		c.Check(checked, R, fmt.Sprintf("ParseUint:sum#%d checked for wrap-around", n), p.pos(add.Pos()), "the sum is compared with the accumulator it was added to",
			"the sum of the accumulator and the next digit is not compared with the accumulator itself: for 64-bit values a comparison with the maximum can never fail, so magnitudes from 2^64 on wrap round silently (an iteration count of 18446744073709551617 reads as 1)")
	})
	c.Floor(R, "digit sums flowing back into the accumulator in ParseUint", n, 1)
}

// c05AbsentAfterScan (C05/R9): a sub-name key is absent only when no part has it: in the lookup every return of nil
// lies after the loop over the parts (no shortcut decides "absent" from the name as a whole); c05SuffixGuards
// (C05/R10): the -N form is returned under no other condition than "this is /gomaxprocs", "there is a part" and "it
// begins with the dash".
func c05AbsentAfterScan(c *Ctx, p *Prog) {
	// the lookup by role: the functions of benchproc that split a name into its parts, and the helpers they call
	var cands []*ssa.Function
	seenF := map[*ssa.Function]bool{}
	callsParts := func(f *ssa.Function) bool {
		return len(callsIn(f, rp("benchfmt"), "Name", "Parts")) > 0
	}
	for _, f := range p.Funcs("benchproc") {
		if f.Blocks != nil && callsParts(f) && !seenF[f] {
			seenF[f] = true
			cands = append(cands, f)
		}
	}
	nLookup := len(cands)
	for _, f := range append([]*ssa.Function{}, cands...) {
		eachInstr(f, func(_ *ssa.BasicBlock, in ssa.Instruction) {
			if call, ok := in.(*ssa.Call); ok {
				if h := call.Call.StaticCallee(); h != nil && h.Pkg == f.Pkg && h.Blocks != nil && !seenF[h] {
					seenF[h] = true
					cands = append(cands, h)
				}
			}
		})
	}
	c.Floor("C05/R9", "functions of benchproc that split a name into parts", nLookup, 1)
	// R9: "absent" is never decided from the name as a whole
	nNil := 0
	for _, f := range cands[:nLookup] {
		if f.Signature.Results().Len() == 0 {
			continue
		}
		if _, isSl := f.Signature.Results().At(0).Type().Underlying().(*types.Slice); !isSl {
			continue
		}
		for _, b := range f.Blocks {
			ret, ok := b.Instrs[len(b.Instrs)-1].(*ssa.Return)
			if !ok {
				continue
			}
			k, isK := retVal(ret, 0).(*ssa.Const)
			if !isK || !k.IsNil() {
				continue
			}
			nNil++
			bad := ""
			for _, ft := range factsAt(b) {
				if reaches(ft.Cond, func(v ssa.Value) bool {
					cl, ok := v.(*ssa.Call)
					if !ok {
						return false
					}
					return objIs(calleeObj(&cl.Call), rp("benchfmt"), "Name", "Full") || objIs(calleeObj(&cl.Call), rp("benchfmt"), "Name", "String")
				}) {
					bad = p.pos(ft.If.Pos())
					if bad == "" {
						bad = valStr(ft.Cond)
					}
				}
			}
			c.Check(bad == "", "C05/R9", fmt.Sprintf("%s:absent#%d decided from the parts", fnName(f), nNil), p.pos(ret.Pos()), "no condition on the name as a whole",
				"the lookup answers \"absent\" under a condition computed from the whole name (at "+bad+"), not from its parts: names the shortcut misjudges (an empty base, so that the key starts at offset 0) lose the key")
		}
	}
	// R10: the -N return: a slice from 1 of a part
	n := 0
	for _, g := range cands {
		for _, b := range g.Blocks {
			ret, ok := b.Instrs[len(b.Instrs)-1].(*ssa.Return)
			if !ok || len(ret.Results) == 0 {
				continue
			}
			sl, ok := retVal(ret, 0).(*ssa.Slice)
			if !ok || sl.Low == nil || sl.High != nil {
				continue
			}
			if k, ok := constInt(sl.Low); !ok || k != 1 {
				continue
			}
			n++
			extra := ""
			for _, f := range factsAt(b) {
				okCond := false
				switch x := f.Cond.(type) {
				case *ssa.Parameter:
					okCond = isBoolean(x.Type())
				case *ssa.UnOp:
					// a captured or stored flag
					okCond = isBoolean(x.Type())
				case *ssa.BinOp:
					isLen := func(v ssa.Value) bool {
						cl, ok := v.(*ssa.Call)
						if !ok {
							return false
						}
						bi, ok := cl.Call.Value.(*ssa.Builtin)
						return ok && bi.Name() == "len"
					}
					if isLen(x.X) || isLen(x.Y) {
						okCond = true
					}
					for _, side := range [][2]ssa.Value{{x.X, x.Y}, {x.Y, x.X}} {
						if k, ok := constInt(side[1]); ok && k == '-' {
							if ld, ok := side[0].(*ssa.UnOp); ok {
								if ia, ok := ld.X.(*ssa.IndexAddr); ok {
									if i0, ok := constInt(ia.Index); ok && i0 == 0 {
										okCond = true
									}
								}
							}
						}
					}
				}
				if !okCond {
					extra = p.pos(f.If.Pos())
					if extra == "" {
						extra = valStr(f.Cond)
					}
				}
			}
			c.Check(extra == "", "C05/R10", fmt.Sprintf("%s:-N form#%d", fnName(g), n), p.pos(ret.Pos()), "returned whenever the last part begins with the dash",
				"the -N form is returned only under a further condition (at "+extra+"): Name.Parts still splits the suffix off, so for the names that fail the extra test (-0, -08) /gomaxprocs is empty although the name has the part")
		}
	}
	if n == 0 {
		c.OK("C05/R10", "-N form", "", "no return of the shape part[1:] in the lookup or its helpers: no claim")
		c.Note("C05/R10 makes no claim: the -N form is not returned as a slice from 1 any more")
	}
}

// c07EveryWordQuoted (C07/R20): a projection field prints so that it reads back: in Field.String no element of the
// fixed value list reaches the text except as the result of quoteWord.
func c07EveryWordQuoted(c *Ctx, p *Prog) {
	const R = "C07/R20"
	fn := p.Method("benchproc/internal/parse", "Field", "String")
	fixedF := p.Field("benchproc/internal/parse", "Field", "Fixed")
	if fn == nil || fixedF == nil {
		c.Undecided(R, "anchor:parse.Field.String/Fixed", "", "not found")
		return
	}
	n := 0
	bad := ""
	eachInstr(fn, func(_ *ssa.BasicBlock, in ssa.Instruction) {
		ld, ok := in.(*ssa.UnOp)
		if !ok || ld.Op != token.MUL || !isString(ld.Type()) {
			return
		}
		ia, ok := ld.X.(*ssa.IndexAddr)
		if !ok || !reaches(ia.X, func(v ssa.Value) bool {
			f, _ := fieldOfAddr(v)
			if f == fixedF {
				return true
			}
			g, _ := fieldOfVal(v)
			return g == fixedF
		}) {
			return
		}
		n++
		for _, r := range *ld.Referrers() {
			switch x := r.(type) {
			case *ssa.DebugRef:
			case *ssa.Call:
				if h := x.Call.StaticCallee(); h == nil || h.Name() != "quoteWord" {
					bad = p.pos(x.Pos())
				}
			default:
				bad = p.pos(r.Pos())
				if bad == "" {
					bad = fmt.Sprintf("%T", r)
				}
			}
		}
	})
	c.Check(bad == "" && n > 0, R, "Field.String:every listed value is quoted", p.pos(fn.Pos()), "elements of the value list are used only as arguments of quoteWord",
		"an element of the fixed value list is used otherwise than as quoteWord's argument (at "+bad+"): a value that needs quoting (a space, an operator character, a leading '-', the empty string) is printed raw, and the printed field does not parse back to the same field")
}

// c13FirstModeWins (C13/R10 = C14/R19): with several equally frequent values the first (smallest, the values being
// sorted) is the mode: in the exact summary the candidate replaces the mode only when its count is strictly greater.
// Variables found by SSA name; no claim when renamed.
func c13FirstModeWins(c *Ctx, p *Prog, R string) {
	fn := p.Method("benchmath", "assumeExact", "Summary")
	if fn == nil {
		c.Undecided(R, "anchor:assumeExact.Summary", "", "not found")
		return
	}
	site := p.pos(fn.Pos())
	found := false
	eachInstr(fn, func(_ *ssa.BasicBlock, in ssa.Instruction) {
		bo, ok := in.(*ssa.BinOp)
		if !ok {
			return
		}
		name := func(v ssa.Value) string {
			if ph, ok := v.(*ssa.Phi); ok {
				return ph.Comment
			}
			return ""
		}
		isCount := func(v ssa.Value) bool {
			return name(v) == "count" || reaches(v, func(x ssa.Value) bool { return name(x) == "count" }) && name(v) != "modeCount"
		}
		var strict, known bool
		switch {
		case isCount(bo.X) && name(bo.Y) == "modeCount":
			known, strict = true, bo.Op == token.GTR
		case name(bo.X) == "modeCount" && isCount(bo.Y):
			known, strict = true, bo.Op == token.LSS
		}
		if !known {
			return
		}
		found = true
		c.Check(strict, R, "assumeExact.Summary:mode replaced only by a strictly more frequent value", p.pos(bo.Pos()), "count > modeCount",
			"the mode is replaced by a value that is merely as frequent: with a tie ({100,100,101,101}) the centre becomes the largest of the tied values instead of the first, and deltas and geomeans follow")
	})
	if !found {
		c.OK(R, "assumeExact.Summary:mode replaced only by a strictly more frequent value", site, "the variables count/modeCount are not named so any more: no claim")
		c.Note("%s makes no claim: assumeExact.Summary no longer has variables named count and modeCount", R)
	}
}

// c08NoWordSizedSets (C08/R19): a set of fields is not kept in one machine word: no left shift in benchproc has as its
// amount a loop index with no bound from the code (the number of flattened fields grows with the .config keys seen;
// from the 64th on the bit is lost).
func c08NoWordSizedSets(c *Ctx, p *Prog) {
	const R = "C08/R19"
	n, bad := 0, ""
	for _, fn := range p.Funcs("benchproc") {
		eachInstr(fn, func(_ *ssa.BasicBlock, in ssa.Instruction) {
			bo, ok := in.(*ssa.BinOp)
			if !ok || bo.Op != token.SHL {
				return
			}
			if _, isConst := bo.Y.(*ssa.Const); isConst {
				return
			}
			// one bit per member: 1 << i
			if k, ok := constInt(bo.X); !ok || k != 1 {
				return
			}
			n++
			if _, bounded := upperBound(bo.Y, 0); bounded {
				return
			}
			// an index of a loop over a slice or counter
			if reaches(bo.Y, func(x ssa.Value) bool {
				ph, ok := x.(*ssa.Phi)
				if !ok || !isInteger(ph.Type()) {
					return false
				}
				for _, lp := range naturalLoops(fn) {
					if lp.Header == ph.Block() {
						return true
					}
				}
				return false
			}) {
				bad = fnName(fn) + " at " + p.pos(bo.Pos())
			}
		})
	}
	c.Check(bad == "", R, "shift amounts in benchproc", "", fmt.Sprintf("%d variable shifts, none by an unbounded loop index", n),
		"a left shift by a loop index that the code does not bound ("+bad+"): a set of fields kept as bits of one word silently loses every field from the word's width on — with more than 64 flattened fields (a .config group that has grown) differing fields are not reported")
}

// c02KeyCharacters (C02/R17): what may stand inside a configuration key is decided by unicode.IsSpace and
// unicode.IsUpper, for ASCII too: one step of the key scan of parseKeyValueLine (not the first character) is evaluated
// for sample bytes — comparisons of the character with constants and the unicode predicates answered from the sample —
// and must refuse the line for every space and upper-case sample and go on for lower-case letters, digits and
// punctuation. A fast path that knows only blank and tab lets `progress\rdone: 100%` become configuration.
func c02KeyCharacters(c *Ctx, p *Prog) {
	const R = "C02/R17"
	fn := p.Fn("benchfmt", "parseKeyValueLine")
	if fn == nil {
		c.Undecided(R, "anchor:parseKeyValueLine", "", "not found")
		return
	}
	site := p.pos(fn.Pos())
	var lp *loopInfo
	for _, l := range naturalLoops(fn) {
		for b := range l.Blocks {
			for _, in := range b.Instrs {
				if _, ok := callIs(in, "unicode", "", "IsUpper"); ok && lp == nil {
					lp = l
				}
			}
		}
	}
	if lp == nil || loopBodyStart(lp) == nil {
		c.Undecided(R, "parseKeyValueLine:key scan", site, "the loop that applies unicode.IsUpper was not found")
		return
	}
	start := loopBodyStart(lp)
	for _, sample := range []struct {
		b      int64
		refuse bool
	}{{' ', true}, {'\t', true}, {'\f', true}, {'\v', true}, {'\r', true}, {'A', true}, {'Z', true}, {'a', false}, {'z', false}, {'-', false}, {'0', false}, {'_', false}} {
		sample := sample
		r := rune(sample.b)
		decide := func(s *Sym) (bool, bool) {
			if s.Op == "call" {
				switch {
				case strings.HasPrefix(s.Name, "unicode.IsSpace"):
					return unicode.IsSpace(r), true
				case strings.HasPrefix(s.Name, "unicode.IsUpper"):
					return unicode.IsUpper(r), true
				case strings.HasPrefix(s.Name, "unicode.IsLower"):
					return unicode.IsLower(r), true
				}
				return false, false
			}
			if s.Op != "binop" || len(s.Args) != 2 {
				return false, false
			}
			isChar := func(x *Sym) bool {
				for x.Op == "convert" && len(x.Args) == 1 {
					x = x.Args[0]
				}
				str := x.String()
				return strings.Contains(str, "DecodeRune") && x.Op == "extract" && x.Idx == 0 || (x.Op == "load" || x.Op == "index") && strings.Contains(str, "param:")
			}
			isPos := func(x *Sym) bool { return x.Op == "opaque" || x.Op == "phi-unknown" }
			cst := func(x *Sym) (int64, bool) {
				if x.isConst() && x.Const != nil && x.Const.Kind() == constant.Int {
					return constant.Int64Val(x.Const)
				}
				return 0, false
			}
			var a, b int64
			switch {
			case isChar(s.Args[0]):
				k, ok := cst(s.Args[1])
				if !ok {
					return false, false
				}
				a, b = sample.b, k
			case isChar(s.Args[1]):
				k, ok := cst(s.Args[0])
				if !ok {
					return false, false
				}
				a, b = k, sample.b
			case isPos(s.Args[0]):
				// the position: not the first character (some i > 0)
				k, ok := cst(s.Args[1])
				if !ok || k != 0 {
					return false, false
				}
				a, b = 5, 0
			case isPos(s.Args[1]):
				k, ok := cst(s.Args[0])
				if !ok || k != 0 {
					return false, false
				}
				a, b = 0, 5
			default:
				return false, false
			}
			switch s.Tok {
			case token.EQL:
				return a == b, true
			case token.NEQ:
				return a != b, true
			case token.LSS:
				return a < b, true
			case token.LEQ:
				return a <= b, true
			case token.GTR:
				return a > b, true
			case token.GEQ:
				return a >= b, true
			}
			return false, false
		}
		outs, why := e6Enumerate(func() *e6Interp {
			return &e6Interp{PureCall: func(f *types.Func) bool { return true }, Decide: decide}
		}, start, lp.Header, iterStop(lp, start), 64)
		key := fmt.Sprintf("parseKeyValueLine:key character %q", r)
		if why != "" {
			c.Undecided(R, key, site, why)
			continue
		}
		ok := len(outs) > 0
		for _, o := range outs {
			refused := o.Term == "return"
			if refused != sample.refuse {
				ok = false
			}
		}
		c.Check(ok, R, key, site, fmt.Sprintf("refused=%v", sample.refuse),
			fmt.Sprintf("inside a key the character %q is %s, but unicode.IsSpace/IsUpper say it must be %s: a foreign line such as `progress\\rdone: 100%%` then becomes a configuration key on every following result (or a legitimate key is ignored)", r, map[bool]string{true: "accepted", false: "refused"}[sample.refuse], map[bool]string{true: "refused", false: "accepted"}[sample.refuse]))
	}
}

// c06ApplyFilters (C06/R20): a result the filter rejects is left without measurements: in Match.Apply every return
// that is not the constant true follows a store to the result's Values.
func c06ApplyFilters(c *Ctx, p *Prog) {
	const R = "C06/R20"
	fn := p.Method("benchproc", "Match", "Apply")
	valuesF := p.Field("benchfmt", "Result", "Values")
	if fn == nil || valuesF == nil {
		c.Undecided(R, "anchor:Match.Apply/Result.Values", "", "not found")
		return
	}
	stores := blocksWhere(fn, func(in ssa.Instruction) bool {
		st, ok := in.(*ssa.Store)
		if !ok {
			return false
		}
		f, _ := fieldOfAddr(st.Addr)
		return f == valuesF
	})
	reach := reachFrom(fn.Blocks[0], stores)
	bad, n := "", 0
	for _, b := range fn.Blocks {
		ret, ok := b.Instrs[len(b.Instrs)-1].(*ssa.Return)
		if !ok || len(ret.Results) != 1 {
			continue
		}
		if k, ok := ret.Results[0].(*ssa.Const); ok && k.Value != nil && k.Value.String() == "true" {
			continue
		}
		n++
		if reach[b] {
			bad = p.pos(ret.Pos())
		}
	}
	c.Check(bad == "" && len(stores) > 0, R, "Apply:a rejecting answer follows the filtering of Values", p.pos(fn.Pos()), fmt.Sprintf("%d returns other than true, each after a store to Values", n),
		"Match.Apply can answer something other than true (at "+bad+") without having touched the result's Values: a result the filter rejects as a whole keeps all its measurements, contrary to Apply's contract")
	c.Floor(R, "returns of Match.Apply other than true", n, 1)
}

// c16WarnBeforeCell (C16/R16): the CSV warning names the cell about to be written: the label is taken from the
// length of the row under construction, so every call of the warning closure in ToCSV is followed — in its block, or
// on some path before the loop goes round — by an append to that row.
func c16WarnBeforeCell(c *Ctx, p *Prog) {
	const R = "C16/R16"
	fn := p.Method(btabRel, "Table", "ToCSV")
	if fn == nil {
		c.Undecided(R, "anchor:Table.ToCSV", "", "not found")
		return
	}
	// the warning closure: the one that prints to the warnings writer; the row: the captured []string it measures
	var warn *ssa.Function
	for _, a := range fn.AnonFuncs {
		if len(callsIn(a, "fmt", "", "Fprintf")) > 0 {
			warn = a
		}
	}
	if warn == nil {
		c.Undecided(R, "ToCSV:warning closure", p.pos(fn.Pos()), "not found")
		return
	}
	var rowCell *ssa.Alloc
	for _, in := range allInstrs(fn) {
		mc, ok := in.(*ssa.MakeClosure)
		if !ok || mc.Fn != ssa.Value(warn) {
			continue
		}
		for _, bnd := range mc.Bindings {
			if al, ok := bnd.(*ssa.Alloc); ok {
				if pt, ok := al.Type().(*types.Pointer); ok {
					if sl, ok := pt.Elem().Underlying().(*types.Slice); ok && isString(sl.Elem()) {
						rowCell = al
					}
				}
			}
		}
	}
	if rowCell == nil {
		c.Undecided(R, "ToCSV:row", p.pos(fn.Pos()), "the row the warning closure measures was not found")
		return
	}
	isAppend := func(in ssa.Instruction) bool {
		st, ok := in.(*ssa.Store)
		if !ok || st.Addr != ssa.Value(rowCell) {
			return false
		}
		call, ok := st.Val.(*ssa.Call)
		if !ok {
			return false
		}
		bi, ok := call.Call.Value.(*ssa.Builtin)
		return ok && bi.Name() == "append"
	}
	appends := blocksWhere(fn, isAppend)
	loops := naturalLoops(fn)
	n := 0
	eachInstr(fn, func(b *ssa.BasicBlock, in ssa.Instruction) {
		call, ok := in.(*ssa.Call)
		if !ok {
			return
		}
		// a call of the closure value
		isWarn := false
		if mc, ok := call.Call.Value.(*ssa.MakeClosure); ok && mc.Fn == ssa.Value(warn) {
			isWarn = true
		}
		if ld, ok := call.Call.Value.(*ssa.UnOp); ok {
			if al, ok := ld.X.(*ssa.Alloc); ok {
				for _, st := range storesInto(al) {
					if mc, ok := st.Val.(*ssa.MakeClosure); ok && mc.Fn == ssa.Value(warn) {
						isWarn = true
					}
				}
			}
		}
		if !isWarn {
			return
		}
		n++
		good := false
		after := false
		for _, in2 := range b.Instrs {
			if in2 == in {
				after = true
				continue
			}
			if after && isAppend(in2) {
				good = true
			}
		}
		if !good {
			// every path to the next iteration passes an append
			var inner *loopInfo
			for _, lp := range loops {
				if lp.Blocks[b] && (inner == nil || len(lp.Blocks) < len(inner.Blocks)) {
					inner = lp
				}
			}
			// (the cell may turn out empty — a summary that is not there — so an append need only be possible before the
			// loop goes round; called after the cell's appends, none is)
			if inner != nil {
				stop := map[*ssa.BasicBlock]bool{inner.Header: true}
				for _, s := range b.Succs {
					for r := range reachFrom(s, stop) {
						if appends[r] && inner.Blocks[r] {
							good = true
						}
					}
				}
			}
		}
		c.Check(good, R, fmt.Sprintf("ToCSV:warning#%d names the cell about to be written", n), p.pos(call.Pos()), "followed by the append of that cell",
			"the warning closure is called after the cell it is about was already appended to the row: the spreadsheet label it prints is taken from the row's length, so the CSV warning points two columns to the right of (or past) the cell the text output marks")
	})
	c.Floor(R, "calls of the warning closure in ToCSV", n, 2)
}
