// c05.go: C05 — benchmark names decompose consistently and key extraction follows suit (thin).
package main

import (
	"fmt"
	"go/constant"
	"go/token"
	"go/types"
	"sort"
	"strings"

	"golang.org/x/tools/go/ssa"
)

func init() { register("C05", checkC05) }

func checkC05(c *Ctx) {
	c.Rule("C05/R1", "dispatch table of the extractor constructor: .name -> Name.Base, .fullname -> Name.Full, /k -> the sub-name lookup with prefix k= and the GOMAXPROCS special case enabled exactly for /gomaxprocs, anything else -> the configuration lookup returning nil when the key is absent")
	c.Rule("C05/R2", "one splitter: Base and Parts take the trailing -N split from the same helper; with a '/' present Base is the text before the first '/', untouched; Parts is a partition of the name (each segment starts where the previous ended, the -N part starts where the rest ends)")
	c.Rule("C05/R3", "the -N splitter splits only at a '-' that is followed by at least one byte, all of them digits")
	c.Rule("C05/R7", "a plain key is the configured value whenever the key is configured: extractConfig returns nil only where ConfigIndex reported the key absent")
	c.Rule("C05/R9", "a sub-name key is absent only when no part has it: no nil return of a function that splits a name into its parts is guarded by a condition computed from the whole name (Name.Full)")
	c.Rule("C05/R10", "the -N form is returned under no condition other than: this is /gomaxprocs, there is a last part, it begins with the dash")
	c.Rule("C05/R8", ".name and .fullname are Name.Base() and Name.Full() as they come: extractName and extractFull return those calls' results")
	c.Rule("C05/R6", "decomposition is a function of the name in hand (same rule as C08/R11): no extractor writes memory it captured")
	c.Rule("C05/R5", "absent is the empty string for filters too: the closure NewFilter builds for a key:value term returns FilterMatch.Match(extractor(result)) on every path")
	c.Rule("C05/R4", "the sub-name lookup scans the parts in order and returns the text after the prefix of the first part that has it; the -N form is consulted only for /gomaxprocs and only on the last part")

	p := mustLoad(c, loadOpts{}, "./benchfmt", "./benchproc")
	c05Dispatch(c, p)
	c05Base(c, p)
	c05Splitter(c, p)
	c05Lookup(c, p, "C05/R4")
	c05AbsentIsEmpty(c, p, "C05/R5")
	c05PlainKey(c, p)
	c05NameIsBase(c, p)
	c05AbsentAfterScan(c, p)
	closuresKeepNoState(c, p, "C05/R6", extractorCtors(p), 2, "an extractor writes memory it captured (at %s): what it remembers of one name — a view into the reader's reused line buffer — is applied to the next name of the same length, so /k, .name and /gomaxprocs come out of the wrong text")
}

func c05Dispatch(c *Ctx, p *Prog) {
	const R = "C05/R1"
	extT := p.Named("benchproc", "extractor")
	var ctor *ssa.Function
	for _, fn := range p.Funcs("benchproc") {
		sig := fn.Signature
		if fn.Parent() == nil && sig.Recv() == nil && sig.Params().Len() == 1 && isString(sig.Params().At(0).Type()) && sig.Results().Len() == 2 && extT != nil && types.Identical(sig.Results().At(0).Type(), extT) {
			ctor = fn
		}
	}
	if ctor == nil {
		c.Undecided(R, "anchor:extractor constructor", "", "not found")
		return
	}
	site := p.pos(ctor.Pos())
	key := ctor.Params[0]
	facts := constFacts(ctor, func(v ssa.Value) bool { return isParamOrSpill(v, key) })
	// what a function value does with the name / config
	usesOnly := func(f *ssa.Function) map[string]bool {
		out := map[string]bool{}
		for _, g := range staticReach([]*ssa.Function{f}, bprocPkg) {
			eachInstr(g, func(_ *ssa.BasicBlock, in ssa.Instruction) {
				if call, ok := in.(*ssa.Call); ok {
					if co := calleeObj(&call.Call); co != nil && co.Pkg() != nil && co.Pkg().Path() == bfPkg {
						out[co.Name()] = true
					}
				}
			})
		}
		return out
	}
	n := 0
	// usesDash: the function (with what it calls in the package) tests a byte against '-': the -N form of GOMAXPROCS
	usesDash := func(f *ssa.Function) bool {
		found := false
		for _, g := range staticReach([]*ssa.Function{f}, bprocPkg) {
			eachInstr(g, func(_ *ssa.BasicBlock, in ssa.Instruction) {
				if bo, ok := in.(*ssa.BinOp); ok && (bo.Op == token.EQL || bo.Op == token.NEQ) {
					if k, ok := constInt(bo.Y); ok && k == '-' {
						if b, ok := bo.X.Type().Underlying().(*types.Basic); ok && b.Kind() == types.Uint8 {
							found = true
						}
					}
				}
			})
		}
		return found
	}
	var gmpClosure, generalClosure *ssa.Function
	gmpUsesDash, generalNotGmp := false, false
	// return blocks in block order, so that a closure chosen for one key is seen before the general one
	for _, b := range ctor.Blocks {
		ret, ok := b.Instrs[len(b.Instrs)-1].(*ssa.Return)
		if !ok {
			continue
		}
		v := stripConv(retVal(ret, 0))
		var fn *ssa.Function
		var mc *ssa.MakeClosure
		switch x := v.(type) {
		case *ssa.Function:
			fn = x
		case *ssa.MakeClosure:
			fn = x.Fn.(*ssa.Function)
			mc = x
			// a method value (e.extract): the closure is a synthetic bound-method wrapper; look at the method itself
			if fn.Synthetic != "" {
				if mo, ok := fn.Object().(*types.Func); ok {
					if m := p.SSA.FuncValue(mo); m != nil {
						fn = m
					}
				}
			}
		default:
			continue
		}
		st := facts[b]
		uses := usesOnly(fn)
		n++
		switch {
		case !st.Top && len(st.In) == 1 && st.In[".name"]:
			c.Check(uses["Base"] && !uses["Full"] && !uses["Parts"] && !uses["ConfigIndex"], R, "dispatch:.name", site, ".name extracts Name.Base()", fmt.Sprintf(".name does not extract the base name (uses %v)", keysOf(uses)))
		case !st.Top && len(st.In) == 1 && st.In[".fullname"]:
			c.Check(uses["Full"] && !uses["Base"] && !uses["Parts"], R, "dispatch:.fullname", site, ".fullname extracts Name.Full()", fmt.Sprintf(".fullname does not extract the full name (uses %v)", keysOf(uses)))
		case !st.Top && len(st.In) == 1 && st.In["/gomaxprocs"] && uses["Parts"]:
			// a closure chosen for /gomaxprocs alone: the -N form is decided at construction time
			n--
			gmpClosure = fn
			gmpUsesDash = usesDash(fn)
		case st.Top && uses["Parts"]:
			// the /k closure: prefix = key + "=", gomaxprocs flag = (key == "/gomaxprocs")
			generalClosure = fn
			generalNotGmp = st.Not["/gomaxprocs"]
			okPrefix, okFlag := false, false
			guardSlash := false
			for _, f := range factsAt(b) {
				if call, ok := f.Cond.(*ssa.Call); ok && f.True && objIs(calleeObj(&call.Call), "strings", "", "HasPrefix") {
					if s, ok := constString(call.Call.Args[1]); ok && s == "/" {
						guardSlash = true
					}
				}
			}
			okPrefix = storesEquals(ctor, 0)
			eachInstr(ctor, func(_ *ssa.BasicBlock, in ssa.Instruction) {
				if bo, ok := in.(*ssa.BinOp); ok && bo.Op == token.EQL {
					if s, ok := constString(bo.Y); ok && s == "/gomaxprocs" && isParamOrSpill(bo.X, key) {
						// flows into the closure binding
						if mc != nil {
							for _, bnd := range mc.Bindings {
								if al, ok := bnd.(*ssa.Alloc); ok {
									// a captured variable, or a field of the struct bound as a method value's receiver
									for _, s2 := range storesInto(al) {
										if s2.Val == bo {
											okFlag = true
										}
									}
									for _, r := range *al.Referrers() {
										if s2, ok := r.(*ssa.Store); ok && s2.Val == bo {
											okFlag = true
										}
									}
								}
								if bnd == bo {
									okFlag = true
								}
							}
						}
					}
				}
			})
			if !okFlag {
				// object form: the comparison key == "/gomaxprocs" is stored into a bool field of an extractor object
				// (by the constructor or a function it hands the key to); that the -N form is taken only under that
				// field is C05/R4's part
				for _, g := range staticReach([]*ssa.Function{ctor}, bprocPkg) {
					eachInstr(g, func(_ *ssa.BasicBlock, in ssa.Instruction) {
						st2, ok := in.(*ssa.Store)
						if !ok {
							return
						}
						bo, ok := st2.Val.(*ssa.BinOp)
						if !ok || bo.Op != token.EQL {
							return
						}
						if s, ok := constString(bo.Y); !ok || s != "/gomaxprocs" {
							return
						}
						if _, isParam := bo.X.(*ssa.Parameter); !isParam {
							return
						}
						if f, _ := fieldOfAddr(st2.Addr); f != nil && isBoolean(f.Type()) {
							okFlag = true
						}
					})
				}
			}
			if !okFlag && gmpClosure != nil && generalNotGmp {
				// construction-time form: /gomaxprocs has its own closure that knows the -N form, every other key gets
				// one that does not
				okFlag = gmpUsesDash && !usesDash(generalClosure)
			}
			c.Check(guardSlash && okPrefix && okFlag, R, "dispatch:/k", site, "/k looks up prefix k= among the name parts, GOMAXPROCS form only for /gomaxprocs",
				fmt.Sprintf("the sub-name extractor is not built as documented (only for keys starting with '/': %v, prefix ends in '=': %v, -N form enabled exactly for /gomaxprocs: %v)", guardSlash, okPrefix, okFlag))
		case st.Top && uses["ConfigIndex"]:
			c.Check(!uses["Base"] && !uses["Parts"] && !uses["Full"], R, "dispatch:config", site, "other keys read the configuration", "a plain key does not read the configuration only")
		default:
			n--
		}
	}
	c.Floor(R, "extractor kinds returned by the constructor", n, 4)
	// configuration lookup returns nil when absent
	for _, fn := range p.Funcs("benchproc") {
		if len(callsIn(fn, bfPkg, "Result", "ConfigIndex")) == 0 || fn.Signature.Results().Len() != 1 {
			continue
		}
		if s, ok := fn.Signature.Results().At(0).Type().Underlying().(*types.Slice); !ok || !isInteger(s.Elem()) {
			continue
		}
		okNil := false
		for _, b := range fn.Blocks {
			if ret, ok := b.Instrs[len(b.Instrs)-1].(*ssa.Return); ok {
				if k, ok := retVal(ret, 0).(*ssa.Const); ok && k.IsNil() {
					for _, f := range factsAt(b) {
						if ex, ok := f.Cond.(*ssa.Extract); ok && ex.Index == 1 && !f.True {
							okNil = true
						}
					}
				}
			}
		}
		c.Check(okNil, R, fnName(fn)+":absent-is-empty", p.pos(fn.Pos()), "an absent configuration key yields the empty value", "an absent configuration key does not yield the empty value")
		// a plain key is the configured value of that key: what is returned for a present key is the stored value itself
		verbatim, nVal := true, 0
		for _, b := range fn.Blocks {
			ret, ok := b.Instrs[len(b.Instrs)-1].(*ssa.Return)
			if !ok {
				continue
			}
			v := retVal(ret, 0)
			if k, ok := v.(*ssa.Const); ok && k.IsNil() {
				continue
			}
			nVal++
			f, _ := loadOfField(v)
			if f == nil || f.Name() != "Value" {
				verbatim = false
			}
		}
		c.Check(verbatim && nVal > 0, R, fnName(fn)+":value-verbatim", p.pos(fn.Pos()), "a present key yields the stored value itself", "for a present key the configuration extractor returns something computed from the stored value (trimmed, sliced, converted) rather than the value itself: values that differ only in what was cut off fall into one group, and a value made only of the cut characters reads as absent")
	}
}

func keysOf(m map[string]bool) []string { return keys(m) }

func c05Base(c *Ctx, p *Prog) {
	const R = "C05/R2"
	base := p.Method("benchfmt", "Name", "Base")
	parts := p.Method("benchfmt", "Name", "Parts")
	if base == nil || parts == nil {
		c.Undecided(R, "anchor:Name.Base/Parts", "", "not found")
		return
	}
	// the splitter: the Name method called by Parts that returns the two halves, or the index of the '-'
	split, indexForm := c05FindSplitter(parts)
	if split == nil {
		c.Undecided(R, "anchor:splitter", p.pos(parts.Pos()), "Parts does not call a splitter (two slices, or the index of the '-') on the name")
		return
	}
	site := p.pos(base.Pos())
	outs, why := e6Enumerate(func() *e6Interp {
		return &e6Interp{PureCall: func(f *types.Func) bool { return true }}
	}, base.Blocks[0], nil, nil, 64)
	if why != "" {
		c.Undecided(R, "Base:table", site, why)
		return
	}
	n := 0
	for _, o := range outs {
		var hasSlash, hasDash *bool
		var cutCall *Sym
		for _, k := range o.AtomKeys() {
			v := o.Assign[k]
			_ = v
			s := o.AtomSyms[k]
			if indexForm && s.Op == "binop" && len(s.Args) == 2 && !strings.Contains(s.String(), "bytes.IndexByte") && strings.Contains(s.String(), split.Name()) {
				// the sign test on the splitter's index: which of -1 (no suffix), 0 (the name is only a suffix), 5 take this branch?
				kc, onLeft := s.Args[1], false
				if s.Args[0].isConst() {
					kc, onLeft = s.Args[0], true
				}
				if kc.isConst() && kc.Const != nil && kc.Const.Kind() == constant.Int {
					kv, _ := constant.Int64Val(kc.Const)
					switch taken := c05SignTest(s.Tok, kv, onLeft, v); taken {
					case "0 5":
						t := true
						hasDash = &t
					case "-1":
						f := false
						hasDash = &f
					default:
						c.Bad(R, "Base:suffix-test", site, fmt.Sprintf("Base tests the index of the -N suffix in a way that is not 'present or absent' (this branch is taken for index in {%s}): for a name that is only a suffix (\"-8\") Base and Parts disagree", taken))
						return
					}
				}
				continue
			}
			// the library form: base, _, found := bytes.Cut(name, sep) with sep the one byte '/'
			if s.Op == "extract" && s.Idx == 2 && len(s.Args) == 1 && s.Args[0].Op == "call" && strings.HasPrefix(s.Args[0].Name, "bytes.Cut") && c05SepIsSlash(base) {
				vv := v
				hasSlash = &vv
				cutCall = s.Args[0]
				continue
			}
			if s.Op != "binop" || !strings.Contains(s.String(), "bytes.IndexByte") {
				continue
			}
			// which values of the index (-1 = no slash, 0 = leading slash, 5 = somewhere later) take this branch?
			kc, onLeft := s.Args[1], false
			if s.Args[0].isConst() {
				kc, onLeft = s.Args[0], true
			}
			if !kc.isConst() || kc.Const == nil || kc.Const.Kind() != constant.Int {
				continue
			}
			kv, _ := constant.Int64Val(kc.Const)
			taken := ""
			for _, idx := range []int64{-1, 0, 5} {
				a, b := idx, kv
				if onLeft {
					a, b = kv, idx
				}
				var t bool
				switch s.Tok {
				case token.LSS:
					t = a < b
				case token.LEQ:
					t = a <= b
				case token.GTR:
					t = a > b
				case token.GEQ:
					t = a >= b
				case token.EQL:
					t = a == b
				case token.NEQ:
					t = a != b
				}
				if t == v {
					taken += fmt.Sprint(idx) + " "
				}
			}
			switch strings.TrimSpace(taken) {
			case "0 5":
				t := true
				hasSlash = &t
			case "-1":
				f := false
				hasSlash = &f
			default:
				c.Bad(R, "Base:slash-test", site, fmt.Sprintf("Base distinguishes names by the position of the first '/' in a way that is not 'present or absent' (this branch is taken for index in {%s}): a name that starts with '/' (empty base) gets the whole name back from Base while Parts reports an empty base, so .name and the decomposition disagree", strings.TrimSpace(taken)))
				return
			}
		}
		if hasSlash == nil || o.Term != "return" {
			// a search for the first of several separators is a different decision altogether
			for _, call := range append(callsIn(base, "bytes", "", "IndexAny"), callsIn(base, "strings", "", "IndexAny")...) {
				if set, ok := constString(call.Common().Args[1]); ok && strings.Contains(set, "/") && set != "/" {
					c.Bad(R, "Base:slash-test", p.pos(call.Pos()), fmt.Sprintf("Base cuts at the first of the characters %q, not at the first '/': a name whose base contains one of the others before its first '/' (Enc-JSON/size=4) gets a different base from Base than from Parts, so .name and the decomposition disagree", set))
					return
				}
			}
			c.Undecided(R, "Base:atoms", site, "Base does not decide on the presence of '/'")
			return
		}
		n++
		res := o.Results[0]
		if *hasSlash && cutCall != nil {
			// Cut's first result, of a Cut applied to the name
			isName := func(s *Sym) bool {
				return s.Op == "param" || (s.Op == "call" && strings.HasSuffix(strings.Split(s.Name, "@")[0], ".Full") && len(s.Args) == 1 && s.Args[0].Op == "param")
			}
			ok := res.Op == "extract" && res.Idx == 0 && len(res.Args) == 1 && res.Args[0].String() == cutCall.String() && len(cutCall.Args) == 2 && isName(cutCall.Args[0])
			c.Check(ok, R, "Base[name has '/']", site, "the text before the first '/', untouched", "with a '/' in the name Base is not simply the text before the first '/': for 'Test-8/foo' Base and the first element of Parts disagree, so .name matches differently from the decomposition")
		} else if *hasSlash {
			// the text before the first '/' of the name — or of the splitter's prefix, which has the same first '/'
			// because the -N suffix the splitter removes contains none; what is cut and what is searched must be the
			// same text
			ok := false
			if res.Op == "slice" && len(res.Args) >= 3 && res.Args[2] != nil {
				cut := res.Args[0]
				isName := func(s *Sym) bool {
					if s.Op == "param" {
						return true
					}
					if s.Op == "call" && strings.HasSuffix(strings.Split(s.Name, "@")[0], ".Full") && len(s.Args) == 1 && s.Args[0].Op == "param" {
						return true
					}
					return s.Op == "extract" && s.Idx == 0 && s.Args[0].Op == "call" && strings.Contains(s.Args[0].Name, split.Name())
				}
				hi := res.Args[2]
				if hi.Op == "call" && strings.HasPrefix(hi.Name, "bytes.IndexByte") && len(hi.Args) == 2 && isName(cut) && isName(hi.Args[0]) {
					searched := hi.Args[0]
					same := searched.String() == cut.String() || (searched.Op == "call" && cut.Op == "param") || (searched.Op == "param" && cut.Op == "call")
					ok = same && (res.Args[1] == nil || res.Args[1].String() == "0" || res.Args[1].String() == "zero")
				}
			}
			c.Check(ok, R, "Base[name has '/']", site, "the text before the first '/', untouched", "with a '/' in the name Base is not simply the text before the first '/': for 'Test-8/foo' Base and the first element of Parts disagree, so .name matches differently from the decomposition")
		} else if !indexForm {
			ok := res.Op == "extract" && res.Idx == 0 && res.Args[0].Op == "call" && strings.Contains(res.Args[0].Name, split.Name())
			c.Check(ok, R, "Base[no '/']", site, "the splitter's prefix", "without '/' Base is not the prefix returned by the shared -N splitter")
		} else {
			// the splitter returns the index of the '-': the name up to it when there is one, the whole name otherwise
			wholeName := func(s *Sym) bool {
				return s.Op == "param" || (s.Op == "call" && strings.HasSuffix(strings.Split(s.Name, "@")[0], ".Full") && len(s.Args) == 1 && s.Args[0].Op == "param")
			}
			switch {
			case hasDash == nil:
				c.Bad(R, "Base[no '/']", site, "without '/' Base does not consult the shared -N splitter")
			case *hasDash:
				ok := res.Op == "slice" && len(res.Args) >= 3 && res.Args[2] != nil && wholeName(res.Args[0]) &&
					(res.Args[1] == nil || res.Args[1].String() == "0" || res.Args[1].String() == "zero") &&
					res.Args[2].Op == "call" && strings.Contains(res.Args[2].Name, split.Name())
				c.Check(ok, R, "Base[no '/', -N]", site, "the name up to the splitter's index", "without '/' and with a -N suffix Base is not the name up to the index the shared splitter reports")
			default:
				c.Check(wholeName(res), R, "Base[no '/', no -N]", site, "the whole name", "without '/' and without -N suffix Base is not the whole name")
			}
		}
	}
	c.Floor(R, "Base cases", n, 2)
	// Parts: partition
	site = p.pos(parts.Pos())
	// (a) the split result's second part is appended last, when non-nil
	// (b) segments: append(buf[prev:i]) with prev := i at each '/', final append(buf[prev:])
	okSeg, okTail, okGmp := false, false, false
	// buf: the name without its -N part; gmp: that part (nil when there is none)
	var buf, gmp ssa.Value
	eachInstr(parts, func(_ *ssa.BasicBlock, in ssa.Instruction) {
		if ex, ok := in.(*ssa.Extract); ok {
			if call, ok := ex.Tuple.(*ssa.Call); ok && call.Call.StaticCallee() == split {
				if ex.Index == 0 {
					buf = ex
				} else {
					gmp = ex
				}
			}
		}
	})
	if indexForm {
		buf, gmp = c05HalvesByIndex(parts, split)
	}
	// the segment loop: in Parts itself, or in a helper of the package that Parts hands the name (without -N) to
	segFn, segBuf := parts, buf
	if len(naturalLoops(parts)) == 0 && buf != nil {
		eachInstr(parts, func(_ *ssa.BasicBlock, in ssa.Instruction) {
			if call, ok := in.(*ssa.Call); ok {
				if h := call.Call.StaticCallee(); h != nil && h.Pkg == parts.Pkg && h.Blocks != nil && len(naturalLoops(h)) > 0 {
					for i, a := range call.Call.Args {
						if a == buf && i < len(h.Params) {
							segFn, segBuf = h, h.Params[i]
						}
					}
				}
			}
		})
	}
	for _, lp := range naturalLoops(segFn) {
		var prev *ssa.Phi
		for _, in := range lp.Header.Instrs {
			if phi, ok := in.(*ssa.Phi); ok && isInteger(phi.Type()) && phi.Comment == "prev" {
				prev = phi
			}
		}
		if prev == nil {
			continue
		}
		// inside: slice buf[prev:i] appended, then prev = i
		for b := range lp.Blocks {
			for _, in := range b.Instrs {
				if sl, ok := in.(*ssa.Slice); ok && sl.X == segBuf && sl.Low == prev && sl.High != nil {
					// the new prev on this path equals High
					for i, e := range prev.Edges {
						if e == sl.High && lp.Blocks[lp.Header.Preds[i]] {
							okSeg = true
						}
					}
					// (through an inner phi)
					for _, e := range prev.Edges {
						if ph, ok := e.(*ssa.Phi); ok {
							for _, e2 := range ph.Edges {
								if e2 == sl.High {
									okSeg = true
								}
							}
						}
					}
				}
			}
		}
		// after the loop: buf[prev:]
		eachInstr(segFn, func(b *ssa.BasicBlock, in ssa.Instruction) {
			if sl, ok := in.(*ssa.Slice); ok && !lp.Blocks[b] && sl.X == segBuf && sl.Low == prev && sl.High == nil {
				okTail = true
			}
		})
	}
	eachInstr(parts, func(b *ssa.BasicBlock, in ssa.Instruction) {
		// the -N part appended under gomaxprocs != nil
		if call, ok := in.(*ssa.Call); ok {
			if bi, ok := call.Call.Value.(*ssa.Builtin); ok && bi.Name() == "append" {
				for _, f := range factsAt(b) {
					if bo, ok := f.Cond.(*ssa.BinOp); ok && bo.Op == token.NEQ && f.True && gmp != nil && bo.X == gmp {
						if k, ok := bo.Y.(*ssa.Const); ok && k.IsNil() {
							okGmp = true
						}
					}
				}
			}
		}
	})
	c.Check(buf != nil && okSeg && okTail && okGmp, R, "Parts:partition", site, "segments are cut at each '/', each starting where the previous ended; the rest and the -N part follow",
		fmt.Sprintf("Parts does not partition the name (segment starts where previous ended: %v, final segment to the end: %v, -N part appended when present: %v): base followed by parts no longer reproduces the name", okSeg, okTail, okGmp))
}

// c05FindSplitter: the method of Name that fn calls to find the -N suffix. Two shapes: it returns the two halves
// (prefix, suffix []byte; suffix nil when there is none), or the index of the '-' (-1 when there is none).
func c05FindSplitter(fn *ssa.Function) (split *ssa.Function, indexForm bool) {
	eachInstr(fn, func(_ *ssa.BasicBlock, in ssa.Instruction) {
		call, ok := in.(*ssa.Call)
		if !ok {
			return
		}
		sc := call.Call.StaticCallee()
		if sc == nil || sc.Blocks == nil {
			return
		}
		// a method of Name, or a function of the package handed the name (splitGomaxprocs(n))
		isMethod := sc.Signature.Recv() != nil && recvName(sc.Signature.Recv().Type()) == "Name"
		isFunc := sc.Signature.Recv() == nil && sc.Pkg == fn.Pkg && sc.Parent() == nil && len(sc.Params) == 1 && len(call.Call.Args) == 1
		if isFunc {
			// handed the receiver (possibly converted to []byte)
			a := call.Call.Args[0]
			for {
				if cv, ok := a.(*ssa.ChangeType); ok {
					a = cv.X
					continue
				}
				if cv, ok := a.(*ssa.Convert); ok {
					a = cv.X
					continue
				}
				break
			}
			isFunc = len(fn.Params) > 0 && a == ssa.Value(fn.Params[0])
			// and it looks for the dash
			dash := false
			eachInstr(sc, func(_ *ssa.BasicBlock, in2 ssa.Instruction) {
				if bo, ok := in2.(*ssa.BinOp); ok {
					if k, ok := constInt(bo.Y); ok && k == '-' {
						dash = true
					}
				}
			})
			isFunc = isFunc && dash
		}
		if !isMethod && !isFunc {
			return
		}
		res := sc.Signature.Results()
		switch {
		case res.Len() == 2:
			split, indexForm = sc, false
		case res.Len() == 1 && isInteger(res.At(0).Type()) && split == nil:
			// an index-returning method that compares bytes with '-'
			dash := false
			eachInstr(sc, func(_ *ssa.BasicBlock, in2 ssa.Instruction) {
				if bo, ok := in2.(*ssa.BinOp); ok {
					if k, ok := constInt(bo.Y); ok && k == '-' {
						dash = true
					}
				}
			})
			if dash {
				split, indexForm = sc, true
			}
		}
	})
	return
}

// c05SignTest: the truth of `a op b` for the index values -1 (no '-'), 0 (the name starts with it) and 5: returns the
// values for which the comparison has the given truth, e.g. "0 5" for present.
func c05SignTest(tok token.Token, kv int64, onLeft bool, truth bool) string {
	taken := ""
	for _, idx := range []int64{-1, 0, 5} {
		a, b := idx, kv
		if onLeft {
			a, b = kv, idx
		}
		var t bool
		switch tok {
		case token.LSS:
			t = a < b
		case token.LEQ:
			t = a <= b
		case token.GTR:
			t = a > b
		case token.GEQ:
			t = a >= b
		case token.EQL:
			t = a == b
		case token.NEQ:
			t = a != b
		}
		if t == truth {
			taken += fmt.Sprint(idx) + " "
		}
	}
	return strings.TrimSpace(taken)
}

// c05HalvesByIndex: Parts with an index-returning splitter: d := n.split(); under d >= 0 (exactly: true for 0 and up,
// false for -1) the two halves are n[:d] and n[d:], otherwise the whole name and nil. Returns the merged values.
func c05HalvesByIndex(parts, split *ssa.Function) (buf, gmp ssa.Value) {
	var d ssa.Value
	eachInstr(parts, func(_ *ssa.BasicBlock, in ssa.Instruction) {
		if call, ok := in.(*ssa.Call); ok && call.Call.StaticCallee() == split {
			d = call
		}
	})
	if d == nil {
		return nil, nil
	}
	recv := ssa.Value(parts.Params[0])
	present := func(b *ssa.BasicBlock) bool {
		for _, f := range factsAt(b) {
			bo, ok := f.Cond.(*ssa.BinOp)
			if !ok {
				continue
			}
			if k, ok := constInt(bo.Y); ok && bo.X == d && c05SignTest(bo.Op, k, false, f.True) == "0 5" {
				return true
			}
			if k, ok := constInt(bo.X); ok && bo.Y == d && c05SignTest(bo.Op, k, true, f.True) == "0 5" {
				return true
			}
		}
		return false
	}
	absent := func(b *ssa.BasicBlock, succ *ssa.BasicBlock) bool {
		// the edge b -> succ is taken only when d is -1
		ifi, ok := b.Instrs[len(b.Instrs)-1].(*ssa.If)
		if !ok {
			return false
		}
		bo, ok := ifi.Cond.(*ssa.BinOp)
		if !ok {
			return false
		}
		truth := b.Succs[0] == succ
		if b.Succs[0] == b.Succs[1] {
			return false
		}
		if k, ok := constInt(bo.Y); ok && bo.X == d {
			return c05SignTest(bo.Op, k, false, truth) == "-1"
		}
		if k, ok := constInt(bo.X); ok && bo.Y == d {
			return c05SignTest(bo.Op, k, true, truth) == "-1"
		}
		return false
	}
	eachInstr(parts, func(b *ssa.BasicBlock, in ssa.Instruction) {
		phi, ok := in.(*ssa.Phi)
		if !ok || len(phi.Edges) != 2 {
			return
		}
		for i, e := range phi.Edges {
			sl, ok := stripConv(e).(*ssa.Slice)
			if !ok || sl.X != recv || !present(b.Preds[i]) {
				continue
			}
			other := stripConv(phi.Edges[1-i])
			if !absent(b.Preds[1-i], b) {
				continue
			}
			switch {
			case sl.Low == nil && sl.High == d && other == recv:
				buf = phi
			case sl.Low == d && sl.High == nil:
				if k, ok := other.(*ssa.Const); ok && k.IsNil() {
					gmp = phi
				}
			}
		}
	})
	return buf, gmp
}

func c05Splitter(c *Ctx, p *Prog) {
	const R = "C05/R3"
	parts := p.Method("benchfmt", "Name", "Parts")
	var split *ssa.Function
	indexForm := false
	if parts != nil {
		split, indexForm = c05FindSplitter(parts)
	}
	if split == nil {
		c.Undecided(R, "anchor:splitter", "", "not found")
		return
	}
	site := p.pos(split.Pos())
	recv := split.Params[0]
	n := 0
	for _, b := range split.Blocks {
		ret, ok := b.Instrs[len(b.Instrs)-1].(*ssa.Return)
		if !ok {
			continue
		}
		var cut ssa.Value
		if indexForm {
			idx := retVal(ret, 0)
			if k, ok := constInt(idx); ok && k == -1 {
				continue // no split
			}
			n++
			cut = idx
		} else {
			second := stripConv(retVal(ret, 1))
			if k, ok := second.(*ssa.Const); ok && k.IsNil() {
				continue // no split
			}
			n++
			sl, ok := second.(*ssa.Slice)
			if !ok || sl.X != recv || sl.Low == nil {
				c.Undecided(R, fmt.Sprintf("splitter:split-return#%d", n), p.pos(ret.Pos()), "the -N part is not a suffix slice of the name")
				continue
			}
			cut = sl.Low
		}
		key := fmt.Sprintf("splitter:split-return#%d", n)
		dash, nonEmpty := false, false
		for _, f := range factsAt(b) {
			bo, ok := f.Cond.(*ssa.BinOp)
			if !ok {
				continue
			}
			// n[cut] == '-'
			if idx, ok := byteIndexOfAny(bo.X); ok && (idx == cut || sameValue(idx, cut)) {
				if k, ok := constInt(bo.Y); ok && k == '-' && ((bo.Op == token.EQL && f.True) || (bo.Op == token.NEQ && !f.True)) {
					dash = true
				}
			}
			// cut < len(n)-1  (or any strict comparison of the cut position against the length)
			mentionsLen := func(v ssa.Value) bool {
				found := false
				var walk func(v ssa.Value, d int)
				walk = func(v ssa.Value, d int) {
					if d > 4 {
						return
					}
					if call, ok := v.(*ssa.Call); ok {
						if bi, ok := call.Call.Value.(*ssa.Builtin); ok && bi.Name() == "len" && call.Call.Args[0] == recv {
							found = true
						}
					}
					if b2, ok := v.(*ssa.BinOp); ok {
						walk(b2.X, d+1)
						walk(b2.Y, d+1)
					}
				}
				walk(v, 0)
				return found
			}
			related := func(v ssa.Value) bool {
				if v == cut {
					return true
				}
				if b2, ok := v.(*ssa.BinOp); ok && (b2.X == cut || b2.Y == cut) {
					return true
				}
				if b3, ok := cut.(*ssa.BinOp); ok && (b3.X == v || b3.Y == v) {
					return true
				}
				return false
			}
			if (related(bo.X) && mentionsLen(bo.Y)) || (related(bo.Y) && mentionsLen(bo.X)) {
				switch {
				case bo.Op == token.LSS && f.True, bo.Op == token.GTR && f.True, bo.Op == token.NEQ && f.True, bo.Op == token.GEQ && !f.True, bo.Op == token.LEQ && !f.True, bo.Op == token.EQL && !f.True:
					nonEmpty = true
				}
			}
		}
		c.Check(dash && nonEmpty, R, key, p.pos(ret.Pos()), "splits at a '-' that is followed by at least one byte",
			fmt.Sprintf("the name is split at a position that is not guaranteed to be a '-' followed by at least one digit ('-' tested: %v, something follows: %v): a name ending in '-' gets a bogus '-' part and loses its dash in .name and /k", dash, nonEmpty))
	}
	c.Floor(R, "split returns of the -N splitter", n, 1)
	// bytes after the cut are digits: the scan leaves the loop (without splitting) at the first non-digit
	okDigits := false
	eachInstr(split, func(_ *ssa.BasicBlock, in ssa.Instruction) {
		if bo, ok := in.(*ssa.BinOp); ok {
			if k, ok := constInt(bo.Y); ok && (k == '0' || k == '9') {
				okDigits = true
			}
			if k, ok := constInt(bo.X); ok && (k == '0' || k == '9') {
				okDigits = true
			}
		}
	})
	c.Check(okDigits, R, "splitter:digits-only", site, "only digits are skipped while looking for the '-'", "the splitter does not restrict the suffix to digits")
	// and exactly the digits: one step of the backward scan evaluated for sample bytes (comparisons of the scanned byte
	// with constants are answered from the sample): on '0', '5' and '9' the scan goes on to the next byte; on '/', ':'
	// and 'a' it stops without splitting
	for _, lp := range naturalLoops(split) {
		start := loopBodyStart(lp)
		if start == nil {
			continue
		}
		for _, sample := range []struct {
			b     int64
			digit bool
		}{{'0', true}, {'5', true}, {'9', true}, {'/', false}, {':', false}, {'a', false}} {
			sample := sample
			decide := func(s *Sym) (bool, bool) {
				if s.Op != "binop" || len(s.Args) != 2 {
					return false, false
				}
				isByte := func(x *Sym) bool {
					return (x.Op == "load" || x.Op == "index") && x.Type != nil && isInteger(x.Type) && strings.Contains(x.String(), "param:")
				}
				var a, b int64
				switch {
				case isByte(s.Args[0]) && s.Args[1].isConst() && s.Args[1].Const != nil && s.Args[1].Const.Kind() == constant.Int:
					a = sample.b
					b, _ = constant.Int64Val(s.Args[1].Const)
				case isByte(s.Args[1]) && s.Args[0].isConst() && s.Args[0].Const != nil && s.Args[0].Const.Kind() == constant.Int:
					a, _ = constant.Int64Val(s.Args[0].Const)
					b = sample.b
				default:
					return false, false
				}
				switch s.Tok {
				case token.EQL:
					return a == b, true
				case token.NEQ:
					return a != b, true
				case token.LSS:
					return a < b, true
				case token.LEQ:
					return a <= b, true
				case token.GTR:
					return a > b, true
				case token.GEQ:
					return a >= b, true
				}
				return false, false
			}
			outs, why := e6Enumerate(func() *e6Interp {
				return &e6Interp{PureCall: func(f *types.Func) bool { return true }, Decide: decide}
			}, start, lp.Header, iterStop(lp, start), 64)
			key := fmt.Sprintf("splitter:byte %q", rune(sample.b))
			if why != "" {
				c.Undecided(R, key, site, why)
				continue
			}
			okS := len(outs) > 0
			for _, o := range outs {
				goesOn := o.Term == "exit" && o.Exit == lp.Header
				if goesOn != sample.digit {
					okS = false
				}
			}
			c.Check(okS, R, key, site, fmt.Sprintf("digit=%v: the scan goes on=%v", sample.digit, sample.digit),
				fmt.Sprintf("on the byte %q the backward scan for the -N suffix does not do what it does for a %s: a suffix containing that byte is (not) split off — e.g. Test-10 keeps its -10 in .name when '0' does not count as a digit", rune(sample.b), map[bool]string{true: "digit (go on)", false: "non-digit (stop without splitting)"}[sample.digit]))
		}
	}
	// "exactly when": per scanned position, whenever the byte is '-' and something follows it, the iteration must end
	// in the split return; a further condition on that path (position > 0, length limits) makes well-formed -N
	// suffixes go unsplit for some names.
	nIter := 0
	{
		mk := func() *e6Interp { return &e6Interp{PureCall: func(f *types.Func) bool { return true }} }
		outs, why := regionOutcomes(split, mk, 512)
		if why != "" {
			c.Undecided(R, "splitter:iteration", site, why)
			outs = nil
		}
		for _, o := range outs {
			dash, follows, other := "?", "?", []string{}
			for _, k := range o.AtomKeys() {
				v := o.Assign[k]
				_ = v
				s := o.AtomSyms[k]
				str := s.String()
				switch {
				case s.Op == "binop" && s.Tok == token.EQL && s.Args[1].isConst() && s.Args[1].String() == "45":
					dash = fmt.Sprint(v)
				case s.Op == "binop" && s.Tok == token.NEQ && s.Args[1].isConst() && s.Args[1].String() == "45":
					dash = fmt.Sprint(!v)
				case s.Op == "binop" && strings.Contains(str, "len(") && (s.Tok == token.LSS || s.Tok == token.NEQ):
					follows = fmt.Sprint(v)
				case s.Op == "binop" && strings.Contains(str, "len(") && (s.Tok == token.GEQ || s.Tok == token.EQL):
					follows = fmt.Sprint(!v)
				default:
					other = append(other, fmt.Sprintf("%s=%v", k, v))
				}
			}
			if dash == "false" || follows == "false" {
				continue
			}
			if dash == "?" {
				continue // the byte was not compared with '-' on this path: judged by the rules above
			}
			nIter++
			sort.Strings(other)
			isSplit := o.Term == "return" && len(o.Results) == 2 && !(o.Results[1].isConst() && o.Results[1].IsNil)
			if indexForm {
				isSplit = o.Term == "return" && len(o.Results) == 1 && !(o.Results[0].isConst() && o.Results[0].String() == "-1")
			}
			c.Check(isSplit, R, fmt.Sprintf("splitter:dash-followed-by-bytes#%d", nIter), site, "a '-' followed by at least one byte ends the scan with a split",
				fmt.Sprintf("at a '-' that is followed by at least one byte the splitter does not split when %s: names such as \"-8\" (a Benchmark line whose name is only the suffix) keep the suffix in .name and report no /gomaxprocs", strings.Join(other, " ∧ ")))
		}
	}
	c.Floor(R, "iteration paths through a '-' with bytes after it", nIter, 1)
}

// byteIndexOfAny: like byteIndexOf but also through named byte-slice types.
func byteIndexOfAny(v ssa.Value) (ssa.Value, bool) {
	if idx, ok := byteIndexOf(v); ok {
		return idx, true
	}
	return nil, false
}

func c05Lookup(c *Ctx, p *Prog, R string) {
	// the scan: the function of benchproc with a loop that tests bytes.HasPrefix / CutPrefix against a []byte parameter
	var fn *ssa.Function
	var prefix *ssa.Parameter
	var prefixF *types.Var
	// the library form of the scan: i := slices.IndexFunc(parts, func(part) bool { return bytes.HasPrefix(part, prefix) })
	type libScan struct {
		call  *ssa.Call
		parts ssa.Value
	}
	var lib *libScan
	var prefixCell *ssa.Alloc
	for _, f := range p.Funcs("benchproc") {
		if f.Parent() != nil {
			continue
		}
		for _, ci := range callsIn(f, "slices", "", "IndexFunc") {
			call, ok := ci.(*ssa.Call)
			mc, isMC := ci.Common().Args[1].(*ssa.MakeClosure)
			if !ok || !isMC {
				continue
			}
			pred := mc.Fn.(*ssa.Function)
			// the predicate is exactly "the element has the prefix": every return is the HasPrefix call on its
			// parameter and a captured parameter of f
			good := len(pred.Params) == 1 && len(pred.Blocks) == 1
			var bound ssa.Value
			if good {
				ret, isRet := pred.Blocks[0].Instrs[len(pred.Blocks[0].Instrs)-1].(*ssa.Return)
				good = false
				if isRet && len(ret.Results) == 1 {
					if hc, isCall := ret.Results[0].(*ssa.Call); isCall && objIs(calleeObj(&hc.Call), "bytes", "", "HasPrefix") && hc.Call.Args[0] == ssa.Value(pred.Params[0]) {
						arg := hc.Call.Args[1]
						// a captured parameter lives in a cell: the closure loads it
						if ld, isLd := arg.(*ssa.UnOp); isLd && ld.Op == token.MUL {
							arg = ld.X
						}
						if fv, isFV := arg.(*ssa.FreeVar); isFV {
							for i, v := range pred.FreeVars {
								if v == fv {
									bound = mc.Bindings[i]
								}
							}
						}
					}
				}
				if cell, isCell := bound.(*ssa.Alloc); isCell {
					// written once, with the parameter
					if sts := storesInto(cell); len(sts) == 1 {
						if prm, isPrm := sts[0].Val.(*ssa.Parameter); isPrm {
							bound = prm
							prefixCell = cell
						}
					}
				}
				if prm, isPrm := bound.(*ssa.Parameter); isPrm && prm.Parent() == f {
					good = true
					fn, prefix = f, prm
					lib = &libScan{call, ci.Common().Args[0]}
				}
			}
		}
	}
	for _, f := range p.Funcs("benchproc") {
		if f.Parent() != nil || len(naturalLoops(f)) == 0 || lib != nil {
			continue
		}
		for _, call := range append(callsIn(f, "bytes", "", "HasPrefix"), callsIn(f, "bytes", "", "CutPrefix")...) {
			if prm, ok := call.Common().Args[1].(*ssa.Parameter); ok && prm.Parent() == f {
				fn, prefix = f, prm
			}
			// or a field of the receiver (an extractor object)
			if fld, base := loadOfField(call.Common().Args[1]); fld != nil && len(f.Params) > 0 && base == ssa.Value(f.Params[0]) && f.Signature.Recv() != nil {
				fn, prefixF = f, fld
			}
		}
	}
	if fn == nil {
		c.Undecided(R, "anchor:sub-name lookup", "", "not found")
		return
	}
	site := p.pos(fn.Pos())
	isPrefix := func(v ssa.Value) bool {
		if prefix != nil && v == ssa.Value(prefix) {
			return true
		}
		if ld, ok := v.(*ssa.UnOp); ok && ld.Op == token.MUL && prefixCell != nil && ld.X == ssa.Value(prefixCell) {
			return true
		}
		if prefixF != nil {
			if f, base := loadOfField(v); f == prefixF && base == ssa.Value(fn.Params[0]) {
				return true
			}
		}
		return false
	}
	// the search loop: forward range over the parts, returns at the first HasPrefix match with part[len(prefix):]
	okFwd, okRet := false, false
	for _, lp := range naturalLoops(fn) {
		var idx *ssa.Phi
		for _, in := range lp.Header.Instrs {
			if phi, ok := in.(*ssa.Phi); ok && isInteger(phi.Type()) {
				idx = phi
			}
		}
		if idx == nil {
			continue
		}
		// forward: starts at -1 (range) or 0 and steps +1
		for i, e := range idx.Edges {
			if lp.Blocks[lp.Header.Preds[i]] {
				if bo, ok := e.(*ssa.BinOp); ok && bo.Op == token.ADD {
					if k, ok := constInt(bo.Y); ok && k == 1 {
						okFwd = true
					}
				}
			} else if k, ok := constInt(e); ok && (k == -1 || k == 0) {
				// ok
			} else {
				okFwd = false
			}
		}
		for b := range lp.Blocks {
			for _, s := range append([]*ssa.BasicBlock{b}, b.Succs...) {
				ret, ok := s.Instrs[len(s.Instrs)-1].(*ssa.Return)
				if !ok || !b.Dominates(s) && s != b {
					continue
				}
				// val, ok := bytes.CutPrefix(part, prefix); if ok { return val }
				if ex, isEx := retVal(ret, 0).(*ssa.Extract); isEx && ex.Index == 0 {
					if cc, isCall := ex.Tuple.(*ssa.Call); isCall && objIs(calleeObj(&cc.Call), "bytes", "", "CutPrefix") && isPrefix(cc.Call.Args[1]) {
						for _, f := range factsAt(s) {
							if ok2, isEx2 := f.Cond.(*ssa.Extract); isEx2 && f.True && ok2.Index == 1 && ok2.Tuple == cc {
								okRet = true
							}
						}
					}
				}
				sl, ok := retVal(ret, 0).(*ssa.Slice)
				if !ok || sl.Low == nil {
					continue
				}
				if call, ok := sl.Low.(*ssa.Call); ok {
					if bi, ok := call.Call.Value.(*ssa.Builtin); ok && bi.Name() == "len" && isPrefix(call.Call.Args[0]) {
						for _, f := range factsAt(s) {
							if hc, ok := f.Cond.(*ssa.Call); ok && f.True && objIs(calleeObj(&hc.Call), "bytes", "", "HasPrefix") && isPrefix(hc.Call.Args[1]) {
								okRet = true
							}
						}
					}
				}
			}
		}
	}
	if lib != nil {
		// IndexFunc returns the first index whose element satisfies the predicate, scanning upwards; the function must
		// return parts[i][len(prefix):] exactly where i >= 0 is known
		okFwd = true
		for _, b := range fn.Blocks {
			ret, ok := b.Instrs[len(b.Instrs)-1].(*ssa.Return)
			if !ok || len(ret.Results) != 1 {
				continue
			}
			sl, ok := retVal(ret, 0).(*ssa.Slice)
			if !ok || sl.Low == nil || sl.High != nil {
				continue
			}
			lc, ok := sl.Low.(*ssa.Call)
			if !ok {
				continue
			}
			if bi, ok := lc.Call.Value.(*ssa.Builtin); !ok || bi.Name() != "len" || !isPrefix(lc.Call.Args[0]) {
				continue
			}
			la := loadAddr(sl.X)
			ia, ok := la.(*ssa.IndexAddr)
			if !ok || ia.X != lib.parts || ia.Index != ssa.Value(lib.call) {
				continue
			}
			for _, f := range factsAt(b) {
				bo, ok := f.Cond.(*ssa.BinOp)
				if !ok || bo.X != ssa.Value(lib.call) {
					continue
				}
				if k, ok := constInt(bo.Y); ok && c05SignTest(bo.Op, k, false, f.True) == "0 5" {
					okRet = true
				}
			}
		}
	}
	// all parts are scanned: the slice indexed by the loop variable is the very slice Name.Parts returned — in the scan
	// function itself, or handed to it whole at every call
	isWholeParts := func(v ssa.Value) bool {
		if ex, ok := stripConv(v).(*ssa.Extract); ok && ex.Index == 1 {
			if call, ok := ex.Tuple.(*ssa.Call); ok && objIs(calleeObj(&call.Call), bfPkg, "Name", "Parts") {
				return true
			}
		}
		return false
	}
	nScan := 0
	scanBlocks := []map[*ssa.BasicBlock]bool{}
	for _, lp := range naturalLoops(fn) {
		scanBlocks = append(scanBlocks, lp.Blocks)
	}
	if lib != nil {
		// the element read at the index the library scan returned
		all := map[*ssa.BasicBlock]bool{}
		for _, b := range fn.Blocks {
			all[b] = true
		}
		scanBlocks = []map[*ssa.BasicBlock]bool{all}
	}
	for _, blocks := range scanBlocks {
		for _, b := range fn.Blocks {
			if !blocks[b] {
				continue
			}
			for _, in := range b.Instrs {
				ia, ok := in.(*ssa.IndexAddr)
				if !ok {
					continue
				}
				if lib != nil && (ia.X != lib.parts || ia.Index != ssa.Value(lib.call)) {
					continue
				}
				if sl, ok := ia.X.Type().Underlying().(*types.Slice); !ok || !isBytesOrString(sl.Elem()) {
					continue
				}
				nScan++
				whole := isWholeParts(ia.X)
				if prm, ok := stripConv(ia.X).(*ssa.Parameter); ok && prm.Parent() == fn {
					// the parts are a parameter: every caller in the package passes what Name.Parts returned
					pi := -1
					for k, q := range fn.Params {
						if q == prm {
							pi = k
						}
					}
					nCalls, allWhole := 0, true
					for _, g := range p.Funcs("benchproc") {
						eachInstr(g, func(_ *ssa.BasicBlock, in2 ssa.Instruction) {
							if ci, ok := in2.(ssa.CallInstruction); ok && ci.Common().StaticCallee() == fn && pi >= 0 && pi < len(ci.Common().Args) {
								nCalls++
								if !isWholeParts(ci.Common().Args[pi]) {
									allWhole = false
								}
							}
						})
					}
					whole = nCalls > 0 && allWhole
				}
				c.Check(whole, R, fmt.Sprintf("lookup:scans-all-parts#%d", nScan), p.pos(ia.Pos()), "the scan indexes the slice returned by Name.Parts",
					"the sub-name scan runs over a re-sliced or substituted part list, not over all parts returned by Name.Parts: an explicit /k=v segment outside that range (e.g. /gomaxprocs=4 followed by further segments) is not found")
			}
		}
	}
	c.Floor(R, "part accesses in the scan loop", nScan, 1)
	// the step of the scan as a table: a part is taken exactly when it has the prefix — nothing else decides
	if lib == nil {
		for _, lp := range naturalLoops(fn) {
			hasTest := false
			for b := range lp.Blocks {
				for _, in := range b.Instrs {
					if call, ok := in.(*ssa.Call); ok && (objIs(calleeObj(&call.Call), "bytes", "", "HasPrefix") || objIs(calleeObj(&call.Call), "bytes", "", "CutPrefix")) && isPrefix(call.Call.Args[1]) {
						hasTest = true
					}
				}
			}
			start := loopBodyStart(lp)
			if !hasTest || start == nil {
				continue
			}
			outs, why := e6Enumerate(func() *e6Interp {
				return &e6Interp{PureCall: func(f *types.Func) bool { return true }}
			}, start, lp.Header, iterStop(lp, start), 128)
			if why != "" {
				c.Undecided(R, "lookup:step", site, why)
				continue
			}
			// the operands of the prefix test, to recognise a length pre-check on the same two texts
			partStr, prefixStr := "", ""
			for _, o := range outs {
				for _, k := range o.AtomKeys() {
					s := o.AtomSyms[k]
					var call *Sym
					if s.Op == "call" && strings.HasPrefix(s.Name, "bytes.HasPrefix") {
						call = s
					}
					if s.Op == "extract" && s.Idx == 1 && len(s.Args) == 1 && s.Args[0].Op == "call" && strings.HasPrefix(s.Args[0].Name, "bytes.CutPrefix") {
						call = s.Args[0]
					}
					if call != nil && len(call.Args) == 2 {
						partStr, prefixStr = call.Args[0].String(), call.Args[1].String()
					}
				}
			}
			// lenGuard: a comparison of the two lengths; returns whether, with the given truth value, the part can still
			// have the prefix (it can when its length is the prefix's or more), and whether the comparison is sound
			// (it must not rule out a part as long as the prefix or longer)
			lenGuard := func(s *Sym, v bool) (isGuard, canHave, sound bool) {
				if s.Op != "binop" || len(s.Args) != 2 {
					return
				}
				isLenOf := func(x *Sym, of string) bool {
					return x.Op == "call" && x.Name == "len" && len(x.Args) == 1 && x.Args[0].String() == of
				}
				var partLeft bool
				switch {
				case isLenOf(s.Args[0], partStr) && isLenOf(s.Args[1], prefixStr):
					partLeft = true
				case isLenOf(s.Args[1], partStr) && isLenOf(s.Args[0], prefixStr):
				default:
					return
				}
				truth := func(d int) bool {
					a, b := 3+d, 3
					if !partLeft {
						a, b = 3, 3+d
					}
					switch s.Tok {
					case token.LSS:
						return a < b
					case token.LEQ:
						return a <= b
					case token.GTR:
						return a > b
					case token.GEQ:
						return a >= b
					case token.EQL:
						return a == b
					case token.NEQ:
						return a != b
					}
					return false
				}
				isGuard = true
				// with this truth value, which length differences are possible?
				possible := map[int]bool{}
				for _, d := range []int{-1, 0, 1} {
					if truth(d) == v {
						possible[d] = true
					}
				}
				canHave = possible[0] || possible[1]
				// sound: the comparison does not separate d = 0 from d = 1 (both can have the prefix)
				sound = truth(0) == truth(1)
				return
			}
			for i, o := range outs {
				var has *bool
				extra := ""
				for _, k := range o.AtomKeys() {
					v := o.Assign[k]
					s := o.AtomSyms[k]
					vv := v
					str := s.String()
					switch {
					case s.Op == "call" && strings.HasPrefix(s.Name, "bytes.HasPrefix"):
						has = &vv
					case s.Op == "extract" && s.Idx == 1 && strings.Contains(str, "bytes.CutPrefix"):
						has = &vv
					default:
						if g, canHave, sound := lenGuard(s, v); g && sound {
							// a part shorter than the prefix cannot have it: the pre-check answers the prefix test
							if !canHave && has == nil {
								f := false
								has = &f
							}
							continue
						}
						extra = k
					}
				}
				key := fmt.Sprintf("lookup:step#%d", i+1)
				taken := o.Term == "return"
				switch {
				case extra != "":
					c.Bad(R, key, site, "whether a part of the name is taken also depends on "+truncate(extra, 140)+": the first part that has the prefix must decide (a part that is exactly the prefix — an empty value, /a= — is a match like any other; skipping it hands out a later segment's value)")
				case has == nil:
					c.Bad(R, key, site, "a step of the scan decides without testing the part for the prefix")
				default:
					c.Check(taken == *has, R, key, site, fmt.Sprintf("has the prefix=%v: taken=%v", *has, taken), fmt.Sprintf("a part that has the prefix=%v is taken=%v", *has, taken))
				}
			}
		}
	}
	c.Check(okFwd && okRet, R, "lookup:first-match", site, "parts are scanned in order and the first part with the prefix decides",
		fmt.Sprintf("the sub-name lookup does not return the first part that has the prefix (ascending scan: %v, returns text after the prefix on a match: %v): with a repeated key /k yields a later segment's value", okFwd, okRet))
	// -N form: only for /gomaxprocs, on the last part, when it starts with '-'. The function that returns last[1:] is the
	// scan function itself (guarded by its flag parameter) or one that is used for /gomaxprocs only and hands the other
	// names on to the scan.
	okG := false
	suffixFirst := true
	nDash := 0
	for _, dfn := range p.Funcs("benchproc") {
		if dfn.Parent() != nil {
			continue
		}
		var flag *ssa.Parameter
		for _, prm := range dfn.Params {
			if isBoolean(prm.Type()) {
				flag = prm
			}
		}
		for _, b := range dfn.Blocks {
			ret, ok := b.Instrs[len(b.Instrs)-1].(*ssa.Return)
			if !ok || len(ret.Results) < 1 || len(ret.Results) > 2 {
				continue
			}
			sl, ok := retVal(ret, 0).(*ssa.Slice)
			if !ok || sl.Low == nil {
				continue
			}
			if k, ok := constInt(sl.Low); !ok || k != 1 {
				continue
			}
			hasFlag, hasDash := false, false
			flagIsField := false
			for _, f := range factsAt(b) {
				if flag != nil && f.Cond == ssa.Value(flag) && f.True {
					hasFlag = true
				}
				// a bool field of the receiver (an extractor object built for one key)
				if fld, base := loadOfField(f.Cond); fld != nil && isBoolean(fld.Type()) && f.True && dfn.Signature.Recv() != nil && len(dfn.Params) > 0 && base == ssa.Value(dfn.Params[0]) {
					hasFlag = true
					flagIsField = true
				}
				if bo, ok := f.Cond.(*ssa.BinOp); ok && ((bo.Op == token.EQL && f.True) || (bo.Op == token.NEQ && !f.True)) {
					if k, ok := constInt(bo.Y); ok && k == '-' {
						hasDash = true
					}
				}
			}
			if !hasDash {
				continue
			}
			nDash++
			// last part: index len(parts)-1
			last := false
			if la := loadAddr(sl.X); la != nil {
				if ia, ok := la.(*ssa.IndexAddr); ok {
					if bo, ok := ia.Index.(*ssa.BinOp); ok && bo.Op == token.SUB {
						if k, ok := constInt(bo.Y); ok && k == 1 {
							last = true
						}
					}
				}
			}
			if dfn != fn && flag == nil && !flagIsField {
				// used for /gomaxprocs only: decided by the constructor (C05/R1 checks the dispatch); here: it is not the
				// scan function and nothing but closures of the extractor constructor call it
				hasFlag = true
				for _, g := range p.Funcs("benchproc") {
					eachInstr(g, func(cb *ssa.BasicBlock, in2 ssa.Instruction) {
						if ci, ok := in2.(ssa.CallInstruction); ok && ci.Common().StaticCallee() == dfn && g.Parent() == nil {
							// a named caller: the call itself must sit where the caller's own /gomaxprocs flag is known true
							guarded := false
							for _, f := range factsAt(cb) {
								if prm, ok := f.Cond.(*ssa.Parameter); ok && f.True && isBoolean(prm.Type()) && prm.Parent() == g {
									guarded = true
								}
							}
							if !guarded {
								hasFlag = false
							}
						}
					})
				}
			}
			okG = hasFlag && hasDash && last
			// the -N suffix wins over an explicit /gomaxprocs= segment: its return is not reachable from inside or after
			// the scan over the parts (the scan loop, or the call of the scan function)
			for _, lp := range naturalLoops(dfn) {
				if reachFrom(lp.Header, nil)[b] {
					suffixFirst = false
				}
			}
			eachInstr(dfn, func(cb *ssa.BasicBlock, in2 ssa.Instruction) {
				if ci, ok := in2.(ssa.CallInstruction); ok && ci.Common().StaticCallee() == fn && dfn != fn {
					if cb == b || reachFrom(cb, nil)[b] {
						suffixFirst = false
					}
				}
			})
		}
	}
	c.Check(suffixFirst, R, "lookup:gomaxprocs-suffix-first", site, "the -N suffix is consulted before the parts are scanned", "the -N suffix is consulted only after the scan for an explicit /gomaxprocs= segment: for a name carrying both (Test/gomaxprocs=8-4) the explicit segment wins, so /gomaxprocs is 8 where the decomposition's -N part says 4")
	c.Check(okG && nDash == 1, R, "lookup:gomaxprocs-form", site, "the -N form is used only for /gomaxprocs, on the last part, when it starts with '-'", "the -N form of GOMAXPROCS is not restricted to /gomaxprocs and the last '-' part")
	_ = constant.MakeBool
}

// c05AbsentIsEmpty (C05/R5 = C06/R16): a filter term sees an absent key as the empty string, exactly as a projection
// does: in NewFilter the closure built for a key:value term answers with FilterMatch.Match applied to what the
// extractor returned, on every path — it never answers by itself because the extractor returned nothing.
func c05AbsentIsEmpty(c *Ctx, p *Prog, R string) {
	nf := p.Fn("benchproc", "NewFilter")
	if nf == nil {
		c.Undecided(R, "anchor:NewFilter", "", "not found")
		return
	}
	n := 0
	var closures []*ssa.Function
	var walk func(f *ssa.Function)
	walk = func(f *ssa.Function) {
		closures = append(closures, f)
		for _, a := range f.AnonFuncs {
			walk(a)
		}
	}
	for _, f := range staticReach([]*ssa.Function{nf}, bprocPkg) {
		if f.Parent() == nil {
			walk(f)
		}
	}
	seenCl := map[*ssa.Function]bool{}
	for _, cl := range closures {
		if seenCl[cl] {
			continue
		}
		seenCl[cl] = true
		var match *ssa.Call
		eachInstr(cl, func(_ *ssa.BasicBlock, in ssa.Instruction) {
			call, ok := in.(*ssa.Call)
			if !ok {
				return
			}
			co := calleeObj(&call.Call)
			if co == nil || co.Name() != "Match" || !strings.HasSuffix(co.FullName(), "FilterMatch).Match") {
				return
			}
			// its argument comes from a dynamic call (the extractor)
			args := callArgs(&call.Call)
			if len(args) < 2 {
				return
			}
			if dc, ok := args[1].(*ssa.Call); ok && dc.Call.StaticCallee() == nil && !dc.Call.IsInvoke() {
				match = call
			}
		})
		if match == nil {
			continue
		}
		n++
		okAll, nRet := true, 0
		for _, b := range cl.Blocks {
			ret, ok := b.Instrs[len(b.Instrs)-1].(*ssa.Return)
			if !ok || len(ret.Results) != 2 {
				continue
			}
			nRet++
			if retVal(ret, 1) != ssa.Value(match) {
				okAll = false
			}
		}
		c.Check(okAll && nRet > 0, R, fmt.Sprintf("%s:term-answers-by-match", fnName(cl)), p.pos(match.Pos()), "the term's answer is Match(extracted value) on every path",
			"a key:value term can answer without asking the match (a path that returns a constant, e.g. when the extractor returned nil): an absent key is the empty string — 'key:\"\"', 'key:/^$/' and '-key:x' must treat a result without the key like one whose value is empty, as projections do")
	}
	c.Floor(R, "closures built for key:value terms", n, 1)
}

// c05SepIsSlash: every bytes.Cut in fn is given, as separator, the one byte '/': a literal, or a package-level []byte
// that the package initialiser sets to {'/'} and nothing else stores to.
func c05SepIsSlash(fn *ssa.Function) bool {
	okAll, n := true, 0
	eachInstr(fn, func(_ *ssa.BasicBlock, in ssa.Instruction) {
		call, ok := in.(*ssa.Call)
		if !ok || !objIs(calleeObj(&call.Call), "bytes", "", "Cut") {
			return
		}
		n++
		sep := call.Call.Args[1]
		isSlashArray := func(v ssa.Value) bool {
			sl, ok := v.(*ssa.Slice)
			if !ok {
				return false
			}
			al, ok := sl.X.(*ssa.Alloc)
			if !ok {
				return false
			}
			at, ok := al.Type().(*types.Pointer).Elem().(*types.Array)
			if !ok || at.Len() != 1 {
				return false
			}
			good := false
			for _, r := range *al.Referrers() {
				if ia, ok := r.(*ssa.IndexAddr); ok {
					for _, r2 := range *ia.Referrers() {
						if st, ok := r2.(*ssa.Store); ok {
							if k, ok := constInt(st.Val); ok && k == '/' {
								good = true
							}
						}
					}
				}
			}
			return good
		}
		if isSlashArray(sep) {
			return
		}
		g, ok := loadAddr(sep).(*ssa.Global)
		if !ok || g.Pkg == nil {
			okAll = false
			return
		}
		stores, good := 0, false
		for _, m := range g.Pkg.Members {
			f, ok := m.(*ssa.Function)
			if !ok {
				continue
			}
			for _, ff := range append([]*ssa.Function{f}, f.AnonFuncs...) {
				eachInstr(ff, func(_ *ssa.BasicBlock, in2 ssa.Instruction) {
					if st, ok := in2.(*ssa.Store); ok && st.Addr == ssa.Value(g) {
						stores++
						if ff.Name() == "init" && isSlashArray(st.Val) {
							good = true
						}
					}
				})
			}
		}
		if !(good && stores == 1) {
			okAll = false
		}
	})
	return okAll && n > 0
}
