// c09.go: C09 — keys sort by the documented per-field orders, totally and reproducibly.
package main

import (
	"fmt"
	"go/constant"
	"go/token"
	"go/types"
	"strings"

	"golang.org/x/tools/go/ssa"
)

func init() { register("C09", checkC09) }

func checkC09(c *Ctx) {
	c.Rule("C09/R1", "producer covers consumer: observation ranks are recorded for exactly the field sequence the comparison walks (the flattened fields), and a value missing from a trimmed row is recorded as the empty string")
	c.Rule("C09/R2", "comparison step table: a field missing from one key is compared as the empty string (never skipped); differing strings call the field comparator with (a,b); a non-zero result decides by its sign; a zero result falls back to a string comparison; equal strings continue")
	c.Rule("C09/R3", "num comparator table (DESIGN Appendix A3): numbers before non-numbers, NaN after other numbers, 0 only for unordered; alpha is strings.Compare(a,b)")
	c.Rule("C09/R4", "first observation is first: a rank is stored only when the value is absent from the field's observation map, and the rank is the map's current size")
	c.Rule("C09/R5", "Key.Less and SortKeys use one comparison function over the projection's flattened fields")
	c.Rule("C09/R6", "the flattened-field cache is only ever reset (nil + fresh Once) outside its Once-guarded builder, so fields keep tree order")
	c.Rule("C09/R7", "fixed-list comparator ranks each listed value by its position in the list")

	c.Rule("C09/R8", "every field has its own first-observation table: the map stored into Field.order (and the comparator reading it) is created inside the per-field initialiser, never captured from outside it, so the keys inside .config do not share ranks")
	c.Rule("C09/R9", "numeric suffix scales cannot wrap: no left shift in the sorting code has an amount that provably reaches the operand's width for an entry of a literal suffix table (1<<(10*exp) is 0 from Zi on; math.Pow has no such limit)")
	c.Rule("C09/R14", "comparing does not change the order: no closure stored into Field.cmp (nor one it makes or calls) writes a map or memory it captured")
	c.Rule("C09/R13", "a field comparator is an order: for every closure stored into Field.cmp, wherever a path of cmp(a,b) and a path of cmp(b,a) can be taken by the same pair of values, constant results are opposite")
	c.Rule("C09/R12", "SortKeys compares by every flattened field: the field list its comparison passes to the shared less function is FlattenedFields() as returned, assigned once")
	c.Rule("C09/R11", "observation order is recorded for every new key: the loop filling the fields' observation maps is reached under no condition of its own")
	c.Rule("C09/R10", "the flattened-field cache's 'built' state is its being non-nil: the Once-guarded builder leaves a non-nil slice on every path (also with zero leaf fields) and the reset triggered by a new field is guarded by 'cache != nil' only")
	p := mustLoad(c, loadOpts{}, "./benchproc")
	c09(c, p)
	c09PerField(c, p)
	c09Shifts(c, p)
	c09FlatInvariant(c, p, "C09/R10")
	c09OrderAlways(c, p)
	c09SortKeysAllFields(c, p)
	c09Antisymmetric(c, p)
	c09ComparatorsReadOnly(c, p, "C09/R14")
}

func c09(c *Ctx, p *Prog) {
	fieldT := p.Named("benchproc", "Field")
	orderF := p.Field("benchproc", "Field", "order")
	idxF := p.Field("benchproc", "Field", "idx")
	cmpF := p.Field("benchproc", "Field", "cmp")
	flatF := p.Field("benchproc", "Projection", "flatCache")
	onceF := p.Field("benchproc", "Projection", "flatCacheOnce")
	if fieldT == nil || orderF == nil || idxF == nil || cmpF == nil || flatF == nil {
		c.Undecided("C09/R1", "anchor:Field/Projection fields", "", "benchproc.Field{order,idx,cmp} or Projection.flatCache not found")
		return
	}
	// The comparison function: func([]*Field, []string, []string) bool.
	var lessFn *ssa.Function
	for _, fn := range p.Funcs("benchproc") {
		sig := fn.Signature
		if sig.Recv() == nil && sig.Params().Len() == 3 && sig.Results().Len() == 1 && isSliceOfPtr(sig.Params().At(0).Type(), fieldT) && isStringSlice(sig.Params().At(1).Type()) && isStringSlice(sig.Params().At(2).Type()) {
			lessFn = fn
		}
	}
	if lessFn == nil {
		c.Undecided("C09/R2", "anchor:comparison function", "", "no func([]*Field, []string, []string) bool in benchproc")
		return
	}
	// R5: who calls it and with which field list.
	var flatMethod *types.Func
	nCallers := 0
	for _, fn := range p.Funcs("benchproc") {
		eachInstr(fn, func(_ *ssa.BasicBlock, in ssa.Instruction) {
			ci, ok := in.(ssa.CallInstruction)
			if !ok || ci.Common().StaticCallee() != lessFn {
				return
			}
			nCallers++
			// a three-way comparison is turned into "before" by "< 0", nothing else
			if v := ci.Value(); v != nil && isInteger(v.Type()) {
				okUse := true
				for _, r := range *v.Referrers() {
					switch x := r.(type) {
					case *ssa.DebugRef:
					case *ssa.BinOp:
						k, isK := constInt(x.Y)
						if !(x.X == ssa.Value(v) && x.Op == token.LSS && isK && k == 0) {
							okUse = false
						}
					default:
						okUse = false
					}
				}
				c.Check(okUse, "C09/R5", fnName(fn)+":three-way-result", p.pos(in.Pos()), "the three-way result is read as 'before' through < 0", "the three-way comparison's result is not read through '< 0' only (e.g. <= 0 makes equal keys sort before each other: not a strict order)")
			}
			src := ci.Common().Args[0]
			// through closures: free variable bound to a call result
			var call *ssa.Call
			switch x := src.(type) {
			case *ssa.Call:
				call = x
			case *ssa.FreeVar:
				call = freeVarSourceCall(fn, x)
			case *ssa.UnOp:
				if fv, ok := x.X.(*ssa.FreeVar); ok && x.Op == token.MUL {
					call = freeVarSourceCall(fn, fv)
				}
				// a field of a sorter object: every store to that field in the package carries the same call's result
				if fa, ok := x.X.(*ssa.FieldAddr); ok && x.Op == token.MUL {
					if fld, _ := fieldOfAddr(fa); fld != nil {
						var calls []*ssa.Call
						okAll := true
						for _, g := range p.Funcs("benchproc") {
							for _, st := range storesToField(g, fld) {
								if cc, ok := st.Val.(*ssa.Call); ok {
									calls = append(calls, cc)
								} else {
									okAll = false
								}
							}
						}
						if okAll && len(calls) >= 1 {
							call = calls[0]
							for _, cc := range calls[1:] {
								if calleeObj(&cc.Call) != calleeObj(&call.Call) {
									call = nil
									break
								}
							}
						}
					}
				}
			}
			k := fnName(fn) + ":comparison-fields"
			if call == nil {
				c.Undecided("C09/R5", k, p.pos(in.Pos()), "cannot trace the field list passed to the comparison")
				return
			}
			m := calleeObj(&call.Call)
			if flatMethod == nil {
				flatMethod = m
			}
			c.Check(m != nil && m == flatMethod, "C09/R5", k, p.pos(in.Pos()), "compares over "+m.Name()+"()", "this caller compares over a different field list than the other caller")
		})
	}
	c.Floor("C09/R5", "callers of the comparison function", nCallers, 2)
	if flatMethod != nil {
		// must be the flattened walk: the method whose body runs the Once-guarded builder
		isFlat := false
		if fm := p.SSA.FuncValue(flatMethod); fm != nil {
			eachInstr(fm, func(_ *ssa.BasicBlock, in ssa.Instruction) {
				if _, ok := callIs(in, "sync", "Once", "Do"); ok {
					isFlat = true
				}
			})
		}
		c.Check(isFlat, "C09/R5", "comparison-fields:flattened", "", flatMethod.Name()+" is the Once-guarded flattening walk", "the comparison does not walk the flattened fields")
	}

	c09LessTable(c, p, lessFn, idxF, "C09/R2")
	c09Producer(c, p, orderF, idxF, flatMethod)
	c09Comparators(c, p)
	c09FlatCache(c, p, flatF, onceF)
}

func isSliceOfPtr(t types.Type, n *types.Named) bool {
	s, ok := t.Underlying().(*types.Slice)
	if !ok {
		return false
	}
	pt, ok := s.Elem().(*types.Pointer)
	return ok && types.Identical(pt.Elem(), n)
}
func isStringSlice(t types.Type) bool {
	s, ok := t.Underlying().(*types.Slice)
	return ok && isString(s.Elem())
}

// freeVarSourceCall: the call whose result is bound to free variable fv of closure fn.
func freeVarSourceCall(fn *ssa.Function, fv *ssa.FreeVar) *ssa.Call {
	par := fn.Parent()
	if par == nil {
		return nil
	}
	idx := -1
	for i, f := range fn.FreeVars {
		if f == fv {
			idx = i
		}
	}
	var out *ssa.Call
	eachInstr(par, func(_ *ssa.BasicBlock, in ssa.Instruction) {
		if mc, ok := in.(*ssa.MakeClosure); ok && mc.Fn == fn && idx >= 0 {
			b := mc.Bindings[idx]
			if call, ok := b.(*ssa.Call); ok {
				out = call
			}
			// captured by reference: binding is an alloc that received the call result
			if al, ok := b.(*ssa.Alloc); ok {
				for _, r := range *al.Referrers() {
					if st, ok := r.(*ssa.Store); ok && st.Addr == al {
						if call, ok := st.Val.(*ssa.Call); ok {
							out = call
						}
					}
				}
			}
		}
	})
	return out
}

func c09LessTable(c *Ctx, p *Prog, lessFn *ssa.Function, idxF *types.Var, R string) {
	loops := naturalLoops(lessFn)
	site := p.pos(lessFn.Pos())
	if len(loops) != 1 {
		c.Undecided(R, "comparison:loop", site, fmt.Sprintf("expected one loop over the fields, found %d", len(loops)))
		return
	}
	lp := loops[0]
	start := loopBodyStart(lp)
	// small loop-free helpers of the package (a bounds-checked element accessor) are evaluated in place
	outs, why := e6Enumerate(func() *e6Interp {
		return &e6Interp{CanonCmp: true, Inline: func(f *ssa.Function) bool {
			return f.Pkg == lessFn.Pkg && f != lessFn && f.Parent() == nil && f.Signature.Recv() == nil && len(naturalLoops(f)) == 0 && len(f.Blocks) <= 6
		}}
	}, start, lp.Header, iterStop(lp, start), 512)
	if why != "" {
		c.Undecided(R, "comparison:table", site, why)
		return
	}
	pa, pb := lessFn.Params[1].Name(), lessFn.Params[2].Name()
	// inSide recognises the bound test of one row: idx < len(param) (pol true) or len(param) <= idx (pol false).
	inSide := func(s *Sym, param string) (bool, bool) {
		isLen := func(x *Sym) bool {
			return x.Op == "call" && x.Name == "len" && len(x.Args) == 1 && x.Args[0].String() == "param:"+param
		}
		if s.Op == "binop" && s.Tok == token.LSS && s.Args[0].MentionsField(idxF) && isLen(s.Args[1]) {
			return true, true
		}
		if s.Op == "binop" && s.Tok == token.LEQ && isLen(s.Args[0]) && s.Args[1].MentionsField(idxF) {
			return true, false
		}
		return false, false
	}
	elemOf := func(s *Sym, param string) bool {
		return s.Op == "load" && s.Args[0].Op == "indexaddr" && s.Args[0].Args[0].String() == "param:"+param
	}
	isEmpty := func(s *Sym) bool {
		return s.isConst() && s.Const != nil && s.Const.Kind() == constant.String && constant.StringVal(s.Const) == ""
	}
	n := 0
	for _, o := range outs {
		var inA, inB *bool
		var eqAtom *Sym
		var eqVal bool
		var cmpNZ, cmpNeg *bool
		for _, k := range o.AtomKeys() {
			v := o.Assign[k]
			_ = v
			s := o.AtomSyms[k]
			vv := v
			mA, polA := inSide(s, pa)
			mB, polB := inSide(s, pb)
			switch {
			case mA:
				t := v == polA
				inA = &t
			case mB:
				t := v == polB
				inB = &t
			case s.Op == "binop" && s.Tok == token.EQL && isString2(s.Args[0].Type):
				eqAtom, eqVal = s, v
			case s.Op == "binop" && s.Tok == token.EQL && s.Args[0].Op == "call":
				cmpNZ = new(bool)
				*cmpNZ = !v
			case s.Op == "binop" && s.Tok == token.LSS && s.Args[0].Op == "call":
				cmpNeg = &vv
			default:
				// a condition outside the table: if a path that consults it decides the comparison, the order is
				// decided by something other than the field comparator's sign and the byte-order fallback
				decides := false
				for _, o2 := range outs {
					if _, has := o2.Assign[k]; has && o2.Term == "return" {
						decides = true
					}
				}
				if strings.Contains(k, "opaque:phi:") && !decides {
					c.Bad(R, "comparison:carried-state", site, "a step of the comparison consults "+truncate(k, 120)+", a value carried over from the fields compared before: in a lexicographic order the first field that separates two keys decides on the spot (by the field's comparator, or by byte order when the comparator cannot separate them); remembering a tie and resolving it after later fields gives an order that is total but not the documented one")
					return
				}
				if decides {
					c.Bad(R, "comparison:extra-decision", site, "the comparison of two keys can be decided on a path that depends on "+truncate(k, 140)+", bypassing the field comparator and the byte-order fallback: for first-observation fields two distinct values can then compare as equal both ways (a value never recorded has rank 0, like the first recorded one), so the order is not total and the sorted result depends on the input arrangement")
				} else {
					c.Undecided(R, "comparison:atoms", site, "condition outside the table: "+k)
				}
				return
			}
		}
		if inA == nil && inB == nil {
			c.Undecided(R, "comparison:bounds", site, "the step does not test the field index against the rows' lengths")
			return
		}
		// a bound that was not consulted (short-circuit) may be either way: judge the worst completion
		if inA == nil {
			t := !*inB
			inA = &t
		}
		if inB == nil {
			t := !*inA
			inB = &t
		}
		n++
		key := fmt.Sprintf("comparison[inA=%v inB=%v", *inA, *inB)
		if eqAtom != nil {
			key += fmt.Sprintf(" equal=%v", eqVal)
		}
		if cmpNZ != nil {
			key += fmt.Sprintf(" cmpNonZero=%v", *cmpNZ)
		}
		if cmpNeg != nil {
			key += fmt.Sprintf(" cmpNeg=%v", *cmpNeg)
		}
		key += "]"
		var errs []string
		continues := o.Term == "exit" && o.Exit == lp.Header
		if *inA != *inB {
			// exactly one side is missing: must be compared as ""
			if eqAtom == nil {
				errs = append(errs, "a field missing from one of the two keys is skipped instead of being compared as the empty string: keys differing only in a trailing unset field compare as neither-less, so the order is not total")
			} else {
				a0, a1 := eqAtom.Args[0], eqAtom.Args[1]
				okPair := (isEmpty(a0) && (elemOf(a1, pa) || elemOf(a1, pb))) || (isEmpty(a1) && (elemOf(a0, pa) || elemOf(a0, pb)))
				if !okPair {
					errs = append(errs, "the missing side is not read as the empty string")
				}
			}
		}
		if !*inA && !*inB && !continues {
			errs = append(errs, "both sides unset yet the step does not continue with the next field")
		}
		if eqAtom != nil {
			if eqVal {
				if !continues {
					errs = append(errs, "equal values must continue with the next field")
				}
			} else {
				// comparator call with (a-side, b-side)
				var call *e6Action
				for i := range o.Actions {
					if o.Actions[i].Kind == "call" && o.Actions[i].Callee == nil {
						call = &o.Actions[i]
					}
				}
				if call == nil {
					errs = append(errs, "differing values do not consult the field's comparator")
				} else {
					args := call.Args
					if len(args) != 2 {
						errs = append(errs, "comparator called with unexpected arguments")
					} else {
						aOK := (isEmpty(args[0]) && !*inA) || elemOf(args[0], pa)
						bOK := (isEmpty(args[1]) && !*inB) || elemOf(args[1], pb)
						if !aOK || !bOK {
							errs = append(errs, "the comparator is not called with (value of first key, value of second key)")
						}
					}
				}
				if o.Term != "return" || len(o.Results) != 1 {
					errs = append(errs, "differing values must decide the comparison")
				} else if cmpNZ != nil && *cmpNZ {
					r := lessOf(o.Results[0])
					if !(r.Op == "binop" && r.Tok == token.LSS && r.Args[0].Op == "call" && r.Args[1].isConst()) {
						if cmpNeg == nil {
							errs = append(errs, "a non-zero comparator result must decide by its sign (cmp < 0)")
						} else if b, ok := r.boolConst(); !ok || b != *cmpNeg {
							errs = append(errs, "a non-zero comparator result must decide by its sign (cmp < 0)")
						}
					}
				} else {
					r := lessOf(o.Results[0])
					okFb := r.Op == "binop" && r.Tok == token.LSS && isString2(r.Args[0].Type)
					if okFb {
						x, y := r.Args[0], r.Args[1]
						aSide := (isEmpty(x) && !*inA) || elemOf(x, pa)
						bSide := (isEmpty(y) && !*inB) || elemOf(y, pb)
						okFb = aSide && bSide
					}
					if !okFb {
						errs = append(errs, "when the comparator reports equal/unordered for different strings the result must be the string comparison a < b; otherwise distinct keys compare as neither-less and the sort is not reproducible")
					}
				}
			}
		}
		if len(errs) > 0 {
			c.Bad(R, key, site, strings.Join(errs, "; "), "valuation: "+o.AssignStr())
		} else {
			c.OK(R, key, site, "step conforms")
		}
	}
	c.Floor(R, "comparison step cases", n, 6)
	// after the loop: equal tuples are not less
	for _, b := range lessFn.Blocks {
		if lp.Blocks[b] {
			continue
		}
		if ret, ok := b.Instrs[len(b.Instrs)-1].(*ssa.Return); ok && !loopBodyStart(lp).Dominates(b) {
			cst, isC := ret.Results[0].(*ssa.Const)
			notLess := false
			if isC && cst.Value != nil {
				switch cst.Value.Kind() {
				case constant.Bool:
					notLess = !constant.BoolVal(cst.Value)
				case constant.Int:
					notLess = constant.Sign(cst.Value) == 0 // three-way form: equal
				}
			}
			c.Check(notLess, R, "comparison:equal-tuples", p.pos(ret.Pos()), "equal tuples are not less", "equal tuples compare as less: the relation is not irreflexive")
		}
	}
}

func c09Producer(c *Ctx, p *Prog, orderF, idxF *types.Var, flatMethod *types.Func) {
	nProd := 0
	// functions that record a rank themselves (loop-free ones may be helpers called from the recording loop)
	updFns := map[*ssa.Function]bool{}
	for _, fn := range p.Funcs("benchproc") {
		eachInstr(fn, func(_ *ssa.BasicBlock, in ssa.Instruction) {
			if mu, ok := in.(*ssa.MapUpdate); ok {
				if f, _ := loadOfField(mu.Map); f == orderF {
					updFns[fn] = true
				}
			}
		})
	}
	isHelper := func(f *ssa.Function) bool { return f != nil && updFns[f] && len(naturalLoops(f)) == 0 }
	for _, fn := range p.Funcs("benchproc") {
		site := p.pos(fn.Pos())
		for _, lp := range naturalLoops(fn) {
			upd := false
			for b := range lp.Blocks {
				for _, in := range b.Instrs {
					if mu, ok := in.(*ssa.MapUpdate); ok {
						if f, _ := loadOfField(mu.Map); f == orderF {
							upd = true
						}
					}
					if call, ok := in.(*ssa.Call); ok && isHelper(call.Call.StaticCallee()) {
						upd = true
					}
				}
			}
			if !upd {
				continue
			}
			nProd++
			// R1a: iterated field list
			var srcCall *ssa.Call
			for b := range lp.Blocks {
				for _, in := range b.Instrs {
					if ia, ok := in.(*ssa.IndexAddr); ok {
						if call, ok := ia.X.(*ssa.Call); ok && isSliceOfPtr(call.Type(), p.Named("benchproc", "Field")) {
							srcCall = call
						}
					}
				}
			}
			k := fnName(fn) + ":rank-recording"
			if srcCall == nil {
				c.Undecided("C09/R1", k+":fields", site, "cannot identify the field list the rank-recording loop iterates")
			} else {
				m := calleeObj(&srcCall.Call)
				c.Check(m != nil && m == flatMethod, "C09/R1", k+":fields", p.pos(srcCall.Pos()),
					"ranks are recorded over the same flattened field list the comparison walks",
					fmt.Sprintf("observation ranks are recorded over %s() but the comparison walks %s(): sub-fields of a group (.config) never get ranks and fall back to byte order instead of first-observation order", nameOf(m), nameOf(flatMethod)))
			}
			// step table
			start := loopBodyStart(lp)
			outs, why := e6Enumerate(func() *e6Interp { return &e6Interp{Inline: isHelper} }, start, lp.Header, iterStop(lp, start), 256)
			if why != "" {
				c.Undecided("C09/R4", k, site, why)
				continue
			}
			for _, o := range outs {
				var tracked, inRow, present *bool
				var lookupKey *Sym
				for _, kk := range o.AtomKeys() {
					v := o.Assign[kk]
					_ = v
					s := o.AtomSyms[kk]
					vv := v
					switch {
					case s.Op == "binop" && s.Tok == token.EQL && s.Args[0].IsFieldLoad(orderF) || (s.Op == "binop" && s.Tok == token.EQL && s.Args[1].IsFieldLoad(orderF)):
						t := !v // order == nil false => tracked
						tracked = &t
					case s.Op == "binop" && s.Tok == token.LSS && s.Args[0].MentionsField(idxF):
						inRow = &vv
					case s.Op == "extract" && s.Idx == 1 && s.Args[0].Op == "lookup":
						present = &vv
						lookupKey = s.Args[0].Args[1]
					case s.Op == "binop" && s.Tok == token.LEQ && s.Args[1].MentionsField(idxF):
						// idx >= len(row) written as len(row) <= idx
						t := !v
						inRow = &t
					default:
						c.Undecided("C09/R4", k+":atoms", site, "condition outside the table: "+kk)
						return
					}
				}
				if tracked != nil && !*tracked {
					continue
				}
				var upd *e6Action
				for i := range o.Actions {
					if o.Actions[i].Kind == "mapupdate" && o.Actions[i].Args[0].MentionsField(orderF) {
						upd = &o.Actions[i]
					}
				}
				ck := fmt.Sprintf("%s[inRow=%s present=%s]", k, boolPtrStr(inRow), boolPtrStr(present))
				var errs []string
				if inRow != nil && !*inRow {
					if lookupKey == nil {
						errs = append(errs, "a value trimmed from the row (unset) is not recorded at all: a missing value first seen after other values gets rank 0 and sorts first")
					} else if !(lookupKey.isConst() && lookupKey.Const != nil && constant.StringVal(lookupKey.Const) == "") {
						errs = append(errs, "a value trimmed from the row is not recorded as the empty string")
					}
				}
				if present != nil {
					if *present && upd != nil {
						errs = append(errs, "the rank of an already observed value is overwritten")
					}
					if !*present {
						if upd == nil {
							errs = append(errs, "a newly observed value gets no rank")
						} else {
							v := upd.Args[2]
							if !(v.Op == "call" && v.Name == "len" && v.Args[0].MentionsField(orderF)) {
								errs = append(errs, "the rank stored is not the current size of the observation map")
							}
							if lookupKey != nil && upd.Args[1].String() != lookupKey.String() {
								errs = append(errs, "the rank is stored under a different value than the one looked up")
							}
						}
					}
				}
				if len(errs) > 0 {
					c.Bad("C09/R4", ck, site, strings.Join(errs, "; "), "valuation: "+o.AssignStr())
				} else {
					c.OK("C09/R4", ck, site, "conforms")
				}
			}
		}
	}
	c.Floor("C09/R1", "rank-recording loops", nProd, 1)
}

func nameOf(f *types.Func) string {
	if f == nil {
		return "<unknown>"
	}
	return f.Name()
}

func c09Comparators(c *Ctx, p *Prog) {

	// a plain number is read by the float parser, whole: in the function that also knows unit suffixes, the parse of the
	// whole text comes first (it dominates the suffix match) — the suffix pattern is not anchored to signs and exponents,
	// so tried first it reads -10 as 10 and 1e3 as 1
	for _, fn := range p.Funcs("benchproc") {
		var whole, sub ssa.Instruction
		eachInstr(fn, func(_ *ssa.BasicBlock, in ssa.Instruction) {
			call, ok := in.(*ssa.Call)
			if !ok {
				return
			}
			if objIs(calleeObj(&call.Call), "strconv", "", "ParseFloat") && len(fn.Params) > 0 && call.Call.Args[0] == ssa.Value(fn.Params[0]) && whole == nil {
				whole = in
			}
			if co := calleeObj(&call.Call); co != nil && co.Pkg() != nil && co.Pkg().Path() == "regexp" && strings.HasPrefix(co.Name(), "Find") && sub == nil {
				sub = in
			}
		})
		if whole == nil || sub == nil {
			continue
		}
		c.Check(instrDominates(whole, sub), "C09/R3", fnName(fn)+":plain-number-first", p.pos(whole.Pos()), "the whole text is tried as a float before the suffix pattern",
			"the suffix pattern is tried before (or without) parsing the whole text as a float: the pattern matches a number inside the text, so signs and exponents are lost — -10 sorts as 10 and 1e3 as 1")
	}
	// numbers before non-numbers needs the number parser's verdict: wherever benchproc hands text to strconv's float
	// or integer parser on the way to a comparator, the error result is read (compared with nil or returned)
	nParse := 0
	for _, fn := range p.Funcs("benchproc") {
		eachInstr(fn, func(_ *ssa.BasicBlock, in ssa.Instruction) {
			call, ok := in.(*ssa.Call)
			if !ok {
				return
			}
			co := calleeObj(&call.Call)
			if co == nil || co.Pkg() == nil || co.Pkg().Path() != "strconv" || !strings.HasPrefix(co.Name(), "Parse") {
				return
			}
			nParse++
			read := false
			for _, r := range *call.Referrers() {
				if ex, ok := r.(*ssa.Extract); ok && ex.Index == 1 && ex.Referrers() != nil {
					for _, r2 := range *ex.Referrers() {
						if _, isDbg := r2.(*ssa.DebugRef); !isDbg {
							read = true
						}
					}
				}
			}
			c.Check(read, "C09/R3", fmt.Sprintf("%s:parse-verdict#%d", fnName(fn), nParse), p.pos(call.Pos()), "the parser's error is read",
				"the error of "+co.Name()+" is discarded: text the parser rejects (1.2.3, pkg.Func) then counts as the number it happened to return (0), so it sorts among the numbers — before real numbers — instead of after them all")
		})
	}
	const R = "C09/R3"
	// functions stored in a package-level map[string]func(a,b string) int
	found := map[string]*ssa.Function{}
	for _, fn := range p.Funcs("benchproc") {
		if fn.Name() != "init" {
			continue
		}
		eachInstr(fn, func(_ *ssa.BasicBlock, in ssa.Instruction) {
			mu, ok := in.(*ssa.MapUpdate)
			if !ok {
				return
			}
			k, ok := constString(mu.Key)
			if !ok {
				return
			}
			var f *ssa.Function
			switch x := mu.Value.(type) {
			case *ssa.Function:
				f = x
			case *ssa.MakeClosure:
				f = x.Fn.(*ssa.Function)
			}
			if f != nil && f.Signature.Params().Len() == 2 && f.Signature.Results().Len() == 1 && isString(f.Signature.Params().At(0).Type()) && isInteger(f.Signature.Results().At(0).Type()) {
				found[k] = f
			}
		})
	}
	// documented named orders
	for _, name := range []string{"alpha", "num"} {
		if found[name] == nil {
			c.Bad(R, "named-order:"+name, "", "the documented order "+name+" is missing from the named-order table")
		}
	}
	for name := range found {
		if name != "alpha" && name != "num" {
			c.Note("named order %q is not documented in benchproc/syntax", name)
		}
	}
	if fn := found["alpha"]; fn != nil {
		ok := false
		// strings.Compare itself put into the table
		if fn.Pkg != nil && fn.Pkg.Pkg.Path() == "strings" && fn.Name() == "Compare" {
			ok = true
		}
		for _, b := range fn.Blocks {
			if ret, isRet := b.Instrs[len(b.Instrs)-1].(*ssa.Return); isRet {
				if call, isCall := ret.Results[0].(*ssa.Call); isCall && objIs(calleeObj(&call.Call), "strings", "", "Compare") &&
					call.Call.Args[0] == fn.Params[0] && call.Call.Args[1] == fn.Params[1] {
					ok = true
				}
			}
		}
		c.Check(ok, R, "alpha", p.pos(fn.Pos()), "alpha is strings.Compare(a, b)", "the alpha order is not the bytewise comparison of (a, b)")
	}
	fn := found["num"]
	if fn == nil {
		return
	}
	site := p.pos(fn.Pos())
	mk := func() *e6Interp {
		return &e6Interp{PureCall: func(f *types.Func) bool {
			return objIs(f, "math", "", "IsNaN") || (f.Pkg() != nil && f.Pkg().Path() == bprocPkg)
		}}
	}
	outs, why := e6Enumerate(mk, fn.Blocks[0], nil, nil, 2048)
	if why != "" {
		c.Undecided(R, "num:table", site, why)
		return
	}
	pa, pb := "param:"+fn.Params[0].Name(), "param:"+fn.Params[1].Name()
	// classify atoms
	kind := func(s *Sym) string {
		isParse := func(x *Sym, param string, idx int) bool {
			return x.Op == "extract" && x.Idx == idx && x.Args[0].Op == "call" && len(x.Args[0].Args) == 1 && x.Args[0].Args[0].String() == param
		}
		switch {
		case s.Op == "binop" && s.Tok == token.EQL && (isParse(s.Args[0], pa, 1) || isParse(s.Args[1], pa, 1)):
			return "pa"
		case s.Op == "binop" && s.Tok == token.EQL && (isParse(s.Args[0], pb, 1) || isParse(s.Args[1], pb, 1)):
			return "pb"
		case s.Op == "binop" && s.Tok == token.LSS && isParse(s.Args[0], pa, 0) && isParse(s.Args[1], pb, 0):
			return "lt"
		case s.Op == "binop" && s.Tok == token.LSS && isParse(s.Args[0], pb, 0) && isParse(s.Args[1], pa, 0):
			return "gt"
		case s.Op == "call" && strings.HasPrefix(s.Name, "math.IsNaN") && isParse(s.Args[0], pa, 0):
			return "na"
		case s.Op == "call" && strings.HasPrefix(s.Name, "math.IsNaN") && isParse(s.Args[0], pb, 0):
			return "nb"
		}
		return ""
	}
	n := 0
	for _, o := range outs {
		part := map[string]bool{}
		for _, k := range o.AtomKeys() {
			v := o.Assign[k]
			_ = v
			kd := kind(o.AtomSyms[k])
			if kd == "" {
				// a path of the comparator that consults anything but the two parse results, their numeric order and their
				// NaN-ness decides the order by something other than the numbers: e.g. a digits-only fast path forgets
				// that 007 is 7
				if o.Term == "return" {
					c.Bad(R, "num:extra-decision", site, "the num order is decided on a path that depends on "+truncate(k, 140)+", not only on whether the two values parse, how the parsed numbers compare and whether they are NaN: values that denote the same or ordered numbers in different spellings (007 and 8.5, 1e3 and 1000) are then ordered by their text, and the order stops being transitive")
				} else {
					c.Undecided(R, "num:atoms", site, "condition outside the table: "+k)
				}
				return
			}
			part[kd] = v
		}
		if o.Term != "return" || len(o.Results) != 1 || !o.Results[0].isConst() {
			c.Undecided(R, "num:result", site, "the comparator does not return a constant on some path")
			return
		}
		got, _ := constant.Int64Val(o.Results[0].Const)
		// completions
		for mask := 0; mask < 64; mask++ {
			v := map[string]bool{"pa": mask&1 != 0, "pb": mask&2 != 0, "lt": mask&4 != 0, "gt": mask&8 != 0, "na": mask&16 != 0, "nb": mask&32 != 0}
			cons := true
			for k, x := range part {
				if v[k] != x {
					cons = false
				}
			}
			// consistency of the numeric atoms
			if (v["lt"] && v["gt"]) || ((v["na"] || v["nb"]) && (v["lt"] || v["gt"])) {
				cons = false
			}
			if !(v["pa"] && v["pb"]) && (v["lt"] || v["gt"]) {
				cons = false // the numeric comparison only exists when both parse
			}
			if (v["na"] && !v["pa"]) || (v["nb"] && !v["pb"]) {
				cons = false // only a value that parsed can be NaN
			}
			if !cons {
				continue
			}
			var want int64
			switch {
			case v["pa"] && v["pb"]:
				switch {
				case v["lt"] || (!v["na"] && v["nb"]):
					want = -1
				case v["gt"] || (v["na"] && !v["nb"]):
					want = 1
				}
			case v["pa"]:
				want = -1
			case v["pb"]:
				want = 1
			}
			n++
			ck := fmt.Sprintf("num[aParses=%v bParses=%v a<b=%v a>b=%v aNaN=%v bNaN=%v]", v["pa"], v["pb"], v["lt"], v["gt"], v["na"], v["nb"])
			c.Check(sign(got) == want, R, ck, site, fmt.Sprintf("returns %d", got), fmt.Sprintf("returns %d, the documented order requires %d (numbers before non-numbers, NaN after other numbers)", got, want))
		}
	}
	c.Floor(R, "num comparator cases", n, 9)
}

func sign(x int64) int64 {
	switch {
	case x < 0:
		return -1
	case x > 0:
		return 1
	}
	return 0
}

func c09FlatCache(c *Ctx, p *Prog, flatF, onceF *types.Var) {
	const R = "C09/R6"
	n := 0
	for _, fn := range p.Funcs("benchproc") {
		for i, st := range storesToField(fn, flatF) {
			n++
			k := fmt.Sprintf("%s:store flatCache#%d", fnName(fn), i)
			site := p.pos(st.Pos())
			// inside the Once builder: fn (or an ancestor closure) is passed to Once.Do
			if passedToOnceDo(fn) {
				c.OK(R, k, site, "written inside the Once-guarded builder")
				continue
			}
			cst, isC := st.Val.(*ssa.Const)
			if !isC || !cst.IsNil() {
				c.Bad(R, k, site, "the flattened-field cache is patched in place outside its builder: a field added to a group after the cache was built lands at the end instead of at its place in tree order, so the sort order depends on when keys were first compared")
				continue
			}
			// a fresh Once must be installed in the same block
			fresh := false
			if onceF != nil {
				for _, s2 := range storesToField(fn, onceF) {
					if s2.Block() == st.Block() {
						if _, ok := s2.Val.(*ssa.Alloc); ok {
							fresh = true
						}
					}
				}
			}
			c.Check(fresh, R, k, site, "cache reset to nil with a fresh Once", "the cache is cleared without re-arming its Once: it would stay nil/stale forever")
		}
	}
	c.Floor(R, "writes to the flattened-field cache", n, 2)
	// the list FlattenedFields hands out IS the cache: whoever receives it may read it only. No function of the
	// package appends onto it (or onto a reslice of it: fields[:0] reuses its backing array), stores into its
	// elements, copies into it or sorts it.
	nUse := 0
	for _, fn := range p.Funcs("benchproc") {
		var roots []ssa.Value
		eachInstr(fn, func(_ *ssa.BasicBlock, in ssa.Instruction) {
			if call, ok := in.(*ssa.Call); ok && objIs(calleeObj(&call.Call), bprocPkg, "Projection", "FlattenedFields") {
				roots = append(roots, call)
			}
		})
		if len(roots) == 0 || passedToOnceDo(fn) {
			continue
		}
		ins, what := writesThrough(fn, roots)
		for i, in := range ins {
			nUse++
			c.Bad(R, fmt.Sprintf("%s:writes-borrowed-field-list#%d", fnName(fn), nUse), p.pos(in.Pos()), "the function "+what[i]+" the list it got from FlattenedFields (or a reslice of it, which shares its backing array): that list is the projection's cache of comparison fields, so the next comparison of two keys walks a corrupted field list — fields are skipped or compared twice and the order is no longer total")
		}
	}
	c.OK(R, "borrowed-field-list:read-only", "", "no function writes through the list FlattenedFields returns")
}

// passedToOnceDo: fn or one of its enclosing closures is the argument of (*sync.Once).Do.
func passedToOnceDo(fn *ssa.Function) bool {
	for f := fn; f != nil && f.Parent() != nil; f = f.Parent() {
		par := f.Parent()
		found := false
		eachInstr(par, func(_ *ssa.BasicBlock, in ssa.Instruction) {
			if cc, ok := callIs(in, "sync", "Once", "Do"); ok {
				if mc, ok := cc.Args[1].(*ssa.MakeClosure); ok && mc.Fn == f {
					found = true
				}
			}
		})
		if found {
			return true
		}
	}
	return false
}

func c09PerField(c *Ctx, p *Prog) {
	const R = "C09/R8"
	orderF := p.Field("benchproc", "Field", "order")
	if orderF == nil {
		c.Undecided(R, "anchor:Field.order", "", "field not found")
		return
	}
	n := 0
	for _, fn := range p.Funcs("benchproc") {
		eachInstr(fn, func(_ *ssa.BasicBlock, in ssa.Instruction) {
			st, ok := in.(*ssa.Store)
			if !ok {
				return
			}
			if f, _ := fieldOfAddr(st.Addr); f != orderF {
				return
			}
			if k, ok := st.Val.(*ssa.Const); ok && k.IsNil() {
				return
			}
			n++
			own := true
			why := ""
			for _, r := range rootsOf(st.Val) {
				switch r.Kind {
				case rkLocal:
					if in2, ok := r.Val.(ssa.Instruction); ok && in2.Parent() != fn {
						own, why = false, "allocated in another function"
					}
				case rkConst:
				default:
					own, why = false, "rooted at "+r.String()
				}
			}
			c.Check(own, R, fmt.Sprintf("%s:order-store#%d", fnName(fn), n), p.pos(st.Pos()), "the observation table is created where the field is initialised",
				"the field's observation table is not created per field ("+why+"): all keys discovered inside .config share one value-to-rank table, so a value first seen under one key gets that rank under every other key and keys sort by the wrong history")
		})
	}
	c.Floor(R, "stores of a field's observation table", n, 1)
}

func c09Shifts(c *Ctx, p *Prog) {
	const R = "C09/R9"
	sizes := p.Pkg("benchproc").TypesSizes
	nS, nF := 0, 0
	for _, fn := range p.Funcs("benchproc") {
		nF++
		ov, k := shiftOverflows(fn, sizes)
		nS += k
		for i, o := range ov {
			c.Bad(R, fmt.Sprintf("%s:shift#%d", fnName(fn), i+1), p.pos(o.Instr.Pos()), fmt.Sprintf("the shift amount reaches %d for the last entries of the literal table it is derived from, but the shifted value has %d bits: the scale becomes 0, so e.g. 1ZiB and 1YiB parse as 0 and sort before 1KiB", o.Max, o.Width))
		}
	}
	ctl := mustLoad(c, loadOpts{dir: c.HomeDir + "/checker"}, "./testdata/lookbehind")
	nCtl := 0
	for _, fn := range ctl.Funcs("perfcheck/testdata/lookbehind") {
		ov, _ := shiftOverflows(fn, sizes)
		nCtl += len(ov)
	}
	if nCtl == 0 {
		c.Undecided(R, "positive-control", "", "the shift-range matcher no longer recognises its own positive example")
	} else {
		c.OK(R, "positive-control", "checker/testdata/lookbehind/lb.go", "matcher fires on the stored suffix-table shift")
	}
	c.OK(R, "shifts:bounded", "", fmt.Sprintf("%d variable shifts in %d functions, none with a provable out-of-range amount", nS, nF))
}

// nonNilSlice: v is provably a non-nil slice: a literal or make, an append onto one, or the result of a function of the
// program that only ever returns (an append onto) the slice it was given, called with a non-nil one.
func nonNilSlice(v ssa.Value, d int) bool {
	if d > 6 {
		return false
	}
	switch x := stripConv(v).(type) {
	case *ssa.Slice:
		if _, ok := x.X.(*ssa.Alloc); ok {
			return true
		}
		return nonNilSlice(x.X, d+1) && false
	case *ssa.MakeSlice:
		return true
	case *ssa.Phi:
		for _, e := range x.Edges {
			if !nonNilSlice(e, d+1) {
				return false
			}
		}
		return len(x.Edges) > 0
	case *ssa.Call:
		if b, ok := x.Call.Value.(*ssa.Builtin); ok && b.Name() == "append" {
			return nonNilSlice(x.Call.Args[0], d+1)
		}
		h := x.Call.StaticCallee()
		if h == nil || h.Blocks == nil {
			return false
		}
		// which parameter does h pass through?
		for i, prm := range h.Params {
			if _, ok := prm.Type().Underlying().(*types.Slice); !ok {
				continue
			}
			visiting := map[ssa.Value]bool{}
			var from func(r ssa.Value, dd int) bool
			from = func(r ssa.Value, dd int) bool {
				if dd > 12 {
					return false
				}
				if visiting[r] {
					return true // a cycle through loop variables and recursive calls adds nothing new
				}
				visiting[r] = true
				defer delete(visiting, r)
				switch y := stripConv(r).(type) {
				case *ssa.Parameter:
					return y == prm
				case *ssa.Phi:
					for _, e := range y.Edges {
						if e != ssa.Value(y) && !from(e, dd+1) {
							return false
						}
					}
					return true
				case *ssa.Call:
					if b, ok := y.Call.Value.(*ssa.Builtin); ok && b.Name() == "append" {
						return from(y.Call.Args[0], dd+1)
					}
					if y.Call.StaticCallee() == h && i < len(y.Call.Args) {
						return from(y.Call.Args[i], dd+1) // recursion passes it on
					}
				}
				return false
			}
			all, n := true, 0
			for _, b := range h.Blocks {
				if ret, ok := b.Instrs[len(b.Instrs)-1].(*ssa.Return); ok && len(ret.Results) == 1 {
					n++
					if !from(retVal(ret, 0), 0) {
						all = false
					}
				}
			}
			if all && n > 0 && i < len(x.Call.Args) {
				return nonNilSlice(x.Call.Args[i], d+1)
			}
		}
	}
	return false
}

// c09FlatInvariant: "built" is represented by a non-nil cache. Two things keep that representation honest: the
// builder leaves a non-nil slice even when there is not a single leaf field, and the reset that a new field triggers
// tests the cache against nil (an empty but built cache must be dropped too).
func c09FlatInvariant(c *Ctx, p *Prog, R string) {
	flatF := p.Field("benchproc", "Projection", "flatCache")
	if flatF == nil {
		c.Undecided(R, "anchor:Projection.flatCache", "", "field not found")
		return
	}
	nB, nG := 0, 0
	for _, fn := range p.Funcs("benchproc") {
		// builders: closures handed to Once.Do that store the cache
		if fn.Parent() != nil && passedToOnceDo(fn) && !passedToOnceDo(fn.Parent()) && len(storesToField(fn, flatF)) > 0 {
			nB++
			ok := false
			for _, st := range storesToField(fn, flatF) {
				domAll := true
				for _, b := range fn.Blocks {
					if _, isRet := b.Instrs[len(b.Instrs)-1].(*ssa.Return); isRet && !st.Block().Dominates(b) {
						domAll = false
					}
				}
				if domAll && nonNilSlice(st.Val, 0) {
					ok = true
				}
			}
			c.Check(ok, R, fnName(fn)+":builder-leaves-non-nil", p.pos(fn.Pos()), "the builder stores a non-nil slice on every path",
				"the cache builder can leave the cache nil (a projection with no leaf field yet, e.g. only .config before any result): 'built' is then indistinguishable from 'not built', the reset on adding a field never happens, and every later field is invisible to sorting, key printing and the residue warning")
		}
		// reset guards: an If on the cache that leads to a store of nil into it
		for _, st := range storesToField(fn, flatF) {
			k, isK := st.Val.(*ssa.Const)
			if !isK || !k.IsNil() {
				continue
			}
			nG++
			okGuard, seen := true, false
			for _, f := range factsAt(st.Block()) {
				mentions := false
				var walk func(v ssa.Value, d int)
				walk = func(v ssa.Value, d int) {
					if d > 4 || v == nil {
						return
					}
					if fl, _ := loadOfField(v); fl == flatF {
						mentions = true
					}
					switch x := v.(type) {
					case *ssa.BinOp:
						walk(x.X, d+1)
						walk(x.Y, d+1)
					case *ssa.Call:
						for _, a := range x.Call.Args {
							walk(a, d+1)
						}
					case *ssa.UnOp:
						walk(x.X, d+1)
					}
				}
				walk(f.Cond, 0)
				if !mentions {
					continue
				}
				seen = true
				bo, isBo := f.Cond.(*ssa.BinOp)
				isNilCmp := false
				if isBo {
					if kk, ok := bo.Y.(*ssa.Const); ok && kk.IsNil() {
						if fl, _ := loadOfField(bo.X); fl == flatF && ((bo.Op == token.NEQ && f.True) || (bo.Op == token.EQL && !f.True)) {
							isNilCmp = true
						}
					}
				}
				if !isNilCmp {
					okGuard = false
				}
			}
			_ = seen
			c.Check(okGuard, R, fmt.Sprintf("%s:reset-guard#%d", fnName(fn), nG), p.pos(st.Pos()), "the cache is dropped whenever it was built (tested against nil, or unconditionally)",
				"the reset of the flattened-field cache is guarded by something other than 'cache != nil' (its length, say): a cache that was built while the projection had no leaf field is empty but valid-looking and is never rebuilt, so fields added later are missing from sorting, key printing and the residue warning")
		}
	}
	c.Floor(R, "flattened-field cache builders", nB, 1)
	c.Floor(R, "flattened-field cache resets", nG, 1)
}

// lessOf reads a comparison's result as "a sorts before b". A function that returns bool is taken as it is; a three-way
// function (negative, zero, positive) is read through "< 0": the field comparator's own value c becomes c < 0,
// strings.Compare(x, y) becomes x < y, an integer constant k becomes k < 0.
func lessOf(r *Sym) *Sym {
	if r == nil || r.Type == nil || !isInteger(r.Type) {
		return r
	}
	boolT := types.Typ[types.Bool]
	switch {
	case r.isConst() && r.Const != nil && r.Const.Kind() == constant.Int:
		return symConst(constant.MakeBool(constant.Sign(r.Const) < 0), boolT)
	case r.Op == "call" && strings.HasPrefix(r.Name, "strings.Compare") && len(r.Args) == 2:
		return &Sym{Op: "binop", Tok: token.LSS, Args: []*Sym{r.Args[0], r.Args[1]}, Type: boolT}
	case r.Op == "call":
		return &Sym{Op: "binop", Tok: token.LSS, Args: []*Sym{r, symConst(constant.MakeInt64(0), r.Type)}, Type: boolT}
	}
	return r
}
