package main

// E8: sibling agreement by symbolic region tables.
//
// Two functions that are meant to compute the same thing (a port and its original, two implementations of one
// contract) are compared semantically, not textually: each function's control-flow graph is cut at its loop headers;
// from every cut point (the entry and each loop header, whose loop variables are left symbolic) the abstract
// interpreter E6 enumerates all paths to the next cut point, return or panic, and records for each path its condition
// (a valuation of the branch atoms), the calls it makes in order, the memory it writes, and either the returned
// values or the next values of the loop variables. Two functions agree when, region by region, these sets of path
// records are equal after renaming the package and erasing SSA register numbers. Reordering independent statements,
// renaming locals, changing comments or switching between if/switch forms does not change the tables; changing a
// bound, a shift, an operand, the order of two float operations or dropping a check does.

import (
	"fmt"
	"regexp"
	"sort"
	"strings"

	"go/types"

	"golang.org/x/tools/go/ssa"
)

var (
	sibReg1 = regexp.MustCompile(`@t\d+`)
	sibReg2 = regexp.MustCompile(`:t\d+`)
	sibReg3 = regexp.MustCompile(`\bt\d+\b`)
)

type sibNorm struct {
	pkgPaths []string // package paths rewritten to "P"
	// zeroVars: loop-carried local variables that exist on this side only and are declared (with a reason, by the
	// rule that uses them) to be additive corrections: the comparison is made under the assumption that they are 0,
	// i.e. their updates are dropped and "x + v" reads as "x". What such a variable must do is checked separately.
	zeroVars []string
}

func (n sibNorm) str(s string) string {
	for _, zv := range n.zeroVars {
		// "(X + phi:v)" reads as X under the assumption v == 0 (structural form produced by sibSym)
		for _, pat := range []string{" + opaque:phi:" + zv + ")", " + phi:" + zv + ")"} {
			for {
				i := strings.Index(s, pat)
				if i < 0 {
					break
				}
				// find the matching "(" of this binop
				depth, j := 0, i
				for j = i - 1; j >= 0; j-- {
					if s[j] == ')' {
						depth++
					} else if s[j] == '(' {
						if depth == 0 {
							break
						}
						depth--
					}
				}
				if j < 0 {
					break
				}
				s = s[:j] + s[j+1:i] + s[i+len(pat):]
			}
		}
	}
	for _, pp := range n.pkgPaths {
		s = strings.ReplaceAll(s, pp, "P")
	}
	s = sibReg1.ReplaceAllString(s, "")
	s = sibReg2.ReplaceAllString(s, "")
	s = sibReg3.ReplaceAllString(s, "t")
	return s
}

// sibSym prints a symbol with the representation differences between string and []byte operands removed:
// an element read is idx(x,i) whether x is a string (Index/Lookup) or a slice (load of an element address).
func sibSym(s *Sym) string {
	if s == nil {
		return "<nil>"
	}
	switch s.Op {
	case "load":
		if a := s.Args[0]; a.Op == "indexaddr" {
			return "idx(" + sibSym(a.Args[0]) + "," + sibSym(a.Args[1]) + ")"
		}
		return "*(" + sibSym(s.Args[0]) + ")"
	case "index", "lookup":
		if len(s.Args) == 2 {
			return "idx(" + sibSym(s.Args[0]) + "," + sibSym(s.Args[1]) + ")"
		}
	case "const":
		return s.String()
	case "param", "free", "global", "alloc", "fn", "opaque", "zero":
		return s.String()
	case "fieldaddr":
		return "&" + sibSym(s.Args[0]) + "." + s.Name
	case "field":
		return sibSym(s.Args[0]) + "." + s.Name
	case "extract":
		return fmt.Sprintf("%s#%d", sibSym(s.Args[0]), s.Idx)
	case "binop":
		return "(" + sibSym(s.Args[0]) + " " + s.Tok.String() + " " + sibSym(s.Args[1]) + ")"
	case "unop":
		return s.Tok.String() + "(" + sibSym(s.Args[0]) + ")"
	case "struct":
		var ks []string
		for k := range s.Fields {
			ks = append(ks, k)
		}
		sort.Strings(ks)
		var b strings.Builder
		b.WriteString("{")
		for i, k := range ks {
			if i > 0 {
				b.WriteString(",")
			}
			b.WriteString(k + ":" + sibSym(s.Fields[k]))
		}
		b.WriteString("}")
		return b.String()
	case "convert":
		// conversions between string and []byte do not change the bytes
		if len(s.Args) == 1 && s.Type != nil && s.Args[0].Type != nil && isBytesOrString(s.Type) && isBytesOrString(s.Args[0].Type) {
			return sibSym(s.Args[0])
		}
	}
	var b strings.Builder
	b.WriteString(s.Op)
	if s.Name != "" {
		b.WriteString(":" + s.Name)
	}
	b.WriteString("(")
	for i, a := range s.Args {
		if i > 0 {
			b.WriteString(",")
		}
		b.WriteString(sibSym(a))
	}
	b.WriteString(")")
	return b.String()
}

func isBytesOrString(t types.Type) bool {
	if isString(t) {
		return true
	}
	if sl, ok := t.Underlying().(*types.Slice); ok {
		if b, ok := sl.Elem().Underlying().(*types.Basic); ok && b.Kind() == types.Uint8 {
			return true
		}
	}
	return false
}

// sibTables returns, per region of fn, the sorted list of normalised path records; why != "" when a region cannot
// be enumerated.
type sibRec struct {
	Cond map[string]bool
	Out  string
}

func (r sibRec) String() string {
	var cs []string
	for k, v := range r.Cond {
		cs = append(cs, fmt.Sprintf("%s=%v", k, v))
	}
	sort.Strings(cs)
	return "IF " + strings.Join(cs, " ∧ ") + " " + r.Out
}

// sibPure: calls the interpreter may treat as values rather than actions (no writes, no output).
var sibPure func(f *types.Func) bool

// sibInline: callees evaluated in place: helpers that exist on one side only (code extracted into a local function
// has no counterpart to be compared with, so it is compared as part of its caller).
var sibInline func(f *ssa.Function) bool

func sibTables(fn *ssa.Function, n sibNorm, maxRuns int) (map[string][]sibRec, string) {
	loops := naturalLoops(fn)
	sort.Slice(loops, func(i, j int) bool { return loops[i].Header.Index < loops[j].Header.Index })
	headers := map[*ssa.BasicBlock]bool{}
	hname := map[*ssa.BasicBlock]string{}
	for i, lp := range loops {
		headers[lp.Header] = true
		hname[lp.Header] = fmt.Sprintf("loop#%d", i+1)
	}
	type cut struct {
		name string
		b    *ssa.BasicBlock
	}
	cuts := []cut{{"entry", fn.Blocks[0]}}
	for _, lp := range loops {
		if lp.Header != fn.Blocks[0] {
			cuts = append(cuts, cut{hname[lp.Header], lp.Header})
		}
	}
	out := map[string][]sibRec{}
	for _, ct := range cuts {
		mk := func() *e6Interp {
			return &e6Interp{fn: fn, PureCall: func(f *types.Func) bool { return sibPure != nil && sibPure(f) },
				Inline: func(f *ssa.Function) bool { return sibInline != nil && sibInline(f) }, OuterName: func(v ssa.Value) string { return sibOuter(v, 0) }, MaxAtoms: 20, HoistedLoads: true, CanonCmp: true}
		}
		outs, why := e6Enumerate(mk, ct.b, nil, headers, maxRuns)
		if why != "" {
			return nil, ct.name + ": " + why
		}
		var recs []sibRec
		for _, o := range outs {
			conds := map[string]bool{}
			for _, k := range o.AtomKeys() {
				v := o.Assign[k]
				_ = v
				conds[n.str(sibSym(o.AtomSyms[k]))] = v
			}
			var acts []string
			for _, a := range o.Actions {
				var args []string
				for _, x := range a.Args {
					args = append(args, sibSym(x))
				}
				nm := a.Kind
				if a.Callee != nil {
					nm += ":" + a.Callee.FullName()
				}
				acts = append(acts, n.str(nm+"("+strings.Join(args, ",")+")"))
			}
			var mem []string
			for k, v := range o.Mem {
				mem = append(mem, n.str(k+" := "+sibSym(v)))
			}
			sort.Strings(mem)
			term := o.Term
			switch o.Term {
			case "return", "panic":
				var rs []string
				for _, r := range o.Results {
					rs = append(rs, n.str(sibSym(r)))
				}
				term += " " + strings.Join(rs, ", ")
			case "exit":
				term = "-> " + hname[o.Exit]
				var ups []string
				for _, in := range o.Exit.Instrs {
					phi, ok := in.(*ssa.Phi)
					if !ok {
						break
					}
					for j, pr := range o.Exit.Preds {
						if pr == o.ExitFrom {
							nm := phi.Comment
							if nm == "" {
								nm = "?"
							}
							skip := false
							for _, zv := range n.zeroVars {
								if nm == zv {
									skip = true
								}
							}
							if skip {
								continue
							}
							ups = append(ups, nm+" := "+n.str(sibSym(o.Val(phi.Edges[j]))))
						}
					}
				}
				sort.Strings(ups)
				term += " [" + strings.Join(ups, "; ") + "]"
			}
			recs = append(recs, sibRec{conds, "DO " + strings.Join(acts, " ; ") + " MEM " + strings.Join(mem, " ; ") + " THEN " + term})
		}
		sort.Slice(recs, func(i, j int) bool { return recs[i].String() < recs[j].String() })
		out[ct.name] = recs
	}
	return out, ""
}

// sibCompare compares two functions' region tables semantically. Each table is a decision tree's set of leaves (a
// partial valuation of branch atoms and what happens then); two trees denote the same function exactly when every
// pair of leaves whose valuations do not contradict each other has the same outcome. This is insensitive to the order
// in which conditions are tested and to redundant tests. It returns the first difference (empty when they agree) and
// the number of leaves compared.
func sibCompare(a, b *ssa.Function, na, nb sibNorm, maxRuns int) (diff string, nrec int, why string) {
	ta, wa := sibTables(a, na, maxRuns)
	if wa != "" {
		return "", 0, fnName(a) + ": " + wa
	}
	tb, wb := sibTables(b, nb, maxRuns)
	if wb != "" {
		return "", 0, fnName(b) + ": " + wb
	}
	var names []string
	for k := range ta {
		names = append(names, k)
	}
	for k := range tb {
		if _, ok := ta[k]; !ok {
			names = append(names, k)
		}
	}
	sort.Strings(names)
	for _, k := range names {
		ra, rb := ta[k], tb[k]
		nrec += len(ra)
		if len(ra) == 0 || len(rb) == 0 {
			return fmt.Sprintf("region %s exists in only one of the two functions (different loop structure)", k), nrec, ""
		}
		for _, x := range ra {
			for _, y := range rb {
				compatible := true
				for atom, v := range x.Cond {
					if w, ok := y.Cond[atom]; ok && w != v {
						compatible = false
						break
					}
				}
				if compatible && x.Out != y.Out {
					return fmt.Sprintf("region %s: under compatible conditions %s: %s  BUT %s: %s", k, fnName(a), truncate(x.String(), 500), fnName(b), truncate(y.String(), 500)), nrec, ""
				}
			}
		}
	}
	return "", nrec, ""
}

type sibPair struct {
	name string
	a, b *ssa.Function
}

// sibPairs pairs the source functions and methods of two packages by (receiver type name, function name).
func sibPairs(p *Prog, relA, relB string) []sibPair {
	index := func(rel string) map[string]*ssa.Function {
		m := map[string]*ssa.Function{}
		for _, fn := range p.Funcs(rel) {
			if fn.Parent() != nil || fn.Synthetic != "" {
				continue
			}
			nm := fn.Name()
			if r := fn.Signature.Recv(); r != nil {
				nm = recvName(r.Type()) + "." + nm
			}
			m[nm] = fn
		}
		return m
	}
	a, b := index(relA), index(relB)
	var out []sibPair
	for nm, fa := range a {
		if fb, ok := b[nm]; ok {
			out = append(out, sibPair{nm, fa, fb})
		}
	}
	sort.Slice(out, func(i, j int) bool { return out[i].name < out[j].name })
	return out
}

// sibOuter describes a value defined outside the region by its structure (no SSA register numbers), so that the same
// computation gets the same name in both siblings.
func sibOuter(v ssa.Value, d int) string {
	if d > 6 {
		return "…"
	}
	r := func(x ssa.Value) string { return sibOuter(x, d+1) }
	switch x := v.(type) {
	case *ssa.Const:
		if x.Value == nil {
			return "nil"
		}
		return x.Value.ExactString()
	case *ssa.Parameter:
		return "param:" + x.Name()
	case *ssa.FreeVar:
		return "free:" + x.Name()
	case *ssa.Global:
		return "global:" + x.String()
	case *ssa.Function:
		return "fn:" + x.String()
	case *ssa.Builtin:
		return "builtin." + x.Name()
	case *ssa.Phi:
		if x.Comment != "" {
			return "phi:" + x.Comment
		}
		var es []string
		for _, e := range x.Edges {
			es = append(es, r(e))
		}
		sort.Strings(es)
		return "phi(" + strings.Join(es, "|") + ")"
	case *ssa.Alloc:
		return "alloc:" + x.Comment
	case *ssa.BinOp:
		return "(" + r(x.X) + " " + x.Op.String() + " " + r(x.Y) + ")"
	case *ssa.UnOp:
		if x.Op.String() == "*" {
			if ia, ok := x.X.(*ssa.IndexAddr); ok {
				return "idx(" + r(ia.X) + "," + r(ia.Index) + ")"
			}
			return "*(" + r(x.X) + ")"
		}
		return x.Op.String() + "(" + r(x.X) + ")"
	case *ssa.Convert:
		if isBytesOrString(x.Type()) && isBytesOrString(x.X.Type()) {
			return r(x.X)
		}
		return "convert:" + x.Type().String() + "(" + r(x.X) + ")"
	case *ssa.ChangeType:
		return r(x.X)
	case *ssa.MakeInterface:
		return "iface(" + r(x.X) + ")"
	case *ssa.Slice:
		parts := []string{r(x.X)}
		for _, b := range []ssa.Value{x.Low, x.High, x.Max} {
			if b == nil {
				parts = append(parts, "zero")
			} else {
				parts = append(parts, r(b))
			}
		}
		return "slice(" + strings.Join(parts, ",") + ")"
	case *ssa.Index:
		return "idx(" + r(x.X) + "," + r(x.Index) + ")"
	case *ssa.Lookup:
		return "idx(" + r(x.X) + "," + r(x.Index) + ")"
	case *ssa.IndexAddr:
		return "indexaddr(" + r(x.X) + "," + r(x.Index) + ")"
	case *ssa.FieldAddr:
		f, _ := fieldOfAddr(x)
		return "&" + r(x.X) + "." + f.Name()
	case *ssa.Field:
		f, _ := fieldOfVal(x)
		return r(x.X) + "." + f.Name()
	case *ssa.Extract:
		return fmt.Sprintf("%s#%d", r(x.Tuple), x.Index)
	case *ssa.TypeAssert:
		return "typeassert:" + x.AssertedType.String() + "(" + r(x.X) + ")"
	case *ssa.Call:
		var as []string
		for _, a := range x.Call.Args {
			as = append(as, r(a))
		}
		if b, ok := x.Call.Value.(*ssa.Builtin); ok {
			return "call:" + b.Name() + "(" + strings.Join(as, ",") + ")"
		}
		if f := calleeObj(&x.Call); f != nil {
			return "call:" + f.FullName() + "(" + strings.Join(as, ",") + ")"
		}
		return "call:dyn(" + strings.Join(as, ",") + ")"
	}
	return fmt.Sprintf("%T", v)
}

// regionOutcomes enumerates, for every cut point of fn (the entry and each loop header), all paths to the next cut
// point, return or panic; the same decomposition sibTables uses, for rules that must not care whether a test sits
// inside a loop or after it.
func regionOutcomes(fn *ssa.Function, mk func() *e6Interp, maxRuns int) ([]*e6Outcome, string) {
	headers := map[*ssa.BasicBlock]bool{}
	starts := []*ssa.BasicBlock{fn.Blocks[0]}
	for _, lp := range naturalLoops(fn) {
		if !headers[lp.Header] {
			headers[lp.Header] = true
			if lp.Header != fn.Blocks[0] {
				starts = append(starts, lp.Header)
			}
		}
	}
	var all []*e6Outcome
	for _, st := range starts {
		outs, why := e6Enumerate(mk, st, nil, headers, maxRuns)
		if why != "" {
			return all, why
		}
		all = append(all, outs...)
	}
	return all, ""
}
