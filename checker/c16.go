// c16.go: C16 — text tables are laid out without loss and agree with the CSV rendering.
package main

import (
	"fmt"
	"go/token"
	"go/types"
	"sort"
	"strings"

	"golang.org/x/tools/go/ssa"
)

func init() { register("C16", checkC16) }

const ttabRel = "cmd/benchstat/internal/texttab"

func checkC16(c *Ctx) {
	c.Rule("C16/R1", "margin consistency: wherever the layout computes how wide a cell is, it adds the column's margin from the same per-column margin table that the emitter pads with, for single-column and spanning cells alike")
	c.Rule("C16/R2", "sibling renderers read the same data: the sets of fields of Table, TableCell, TableSummary, Summary and Comparison read (and of their methods called) on the way from ToText and from ToCSV are equal, and both pass (baseline centre, cell centre) to FormatDelta")
	c.Rule("C16/R3", "one width metric: in the layout package the width of text is its rune count; the byte length of a string is used only in emptiness tests")
	c.Rule("C16/R4", "header partition: a header node is extended exactly while the key's value equals the current node's value; a new node starts at parent.Start + j with length 1; children are built only from their parent's key range")
	c.Rule("C16/R5", "emission: each cell is placed at its column's offset, padded to the span's total width minus the margin, the running offset advances by what was printed, and blank cells are skipped so no line ends in blanks")

	c.Rule("C16/R6", "level-by-level header walk: no slice in the renderers is truncated and refilled in place while another loop-carried variable still holds the same backing array and is being read (the next level must be built in fresh storage)")
	c.Rule("C16/R8", "digit order: wherever a renderer writes a number digit by digit (footnote marks, spreadsheet column names), digits peeled off least-significant first are stored from the end of the buffer backwards, or the buffer is reversed afterwards")
	c.Rule("C16/R9", "CSV cell references: a closure of ToCSV that derives a cell reference from the length of the row under assembly is called, inside the column loops, only after the padding closure on every path of the iteration; and no value is appended to the row after a conditionally appended one of the same iteration without a padding call in between")
	c.Rule("C16/R10", "rows and records stay in step: in the CSV renderers every csv.Writer.Write is followed on every path by an increment of the shared row counter")
	c.Rule("C16/R16", "the CSV warning names the cell about to be written: every call of the warning closure in ToCSV is followed, before the loop goes round, by the append of that cell to the row whose length gives the label")
	c.Rule("C16/R15", "the renderers' per-cell closures start every call alike: no closure assigns a captured slice variable a re-slice of itself with a lower bound (a buffer that only shrinks from cell to cell)")
	c.Rule("C16/R14", "a column's left margin is used only once it is complete: inside a loop that still stores into the margin table, an element read from it flows back into the table (the running maximum) and nowhere else")
	c.Rule("C16/R13", "every header node's children are queued: in the level-by-level walk of the header tree each path through one iteration passes the append of the node's Children")
	c.Rule("C16/R12", "absolute placement in the text renderer: inside a loop over the table's columns every path from the start of the iteration to a call that emits a cell passes a Col(...) call computed from that iteration's column index")
	c.Rule("C16/R11", "a spanning cell gets room: from the test that finds the spanned columns too narrow for the cell, every path to the next cell stores into the widths table — with the work list of columns that may grow tracked as empty / non-empty along the path, so that 'every column under the cell is a shrink column' is a path of its own")
	c.Rule("C16/R7", "shrink marks stay inside the table built so far: every column index passed to SetShrink is below the layout's current column on the path that reaches the call")
	p := mustLoad(c, loadOpts{}, "./"+ttabRel, "./"+btabRel, "./benchproc", "./benchmath", "./benchfmt", "./benchunit")
	c16Margins(c, p)
	c16Siblings(c, p)
	c16Metric(c, p)
	c16Header(c, p)
	c16Emit(c, p)
	c16Refill(c, p)
	c16Shrink(c, p)
	c16Digits(c, p)
	c16CSVRefs(c, p)
	c16CSVRows(c, p)
	c16SpanFits(c, p)
	c16Placed(c, p)
	c16EveryChildQueued(c, p)
	c16MarginsComplete(c, p)
	c16NoShrinkingCaptures(c, p)
	c16WarnBeforeCell(c, p)
}

// c16CSVRows (C16/R10): warnings name spreadsheet rows, so the row counter and the records written must stay in step: in
// the CSV renderers every csv.Writer.Write is followed, on every path to the function's return, by an increment of an
// integer counter the function shares with its caller (a captured variable or named result).
func c16CSVRows(c *Ctx, p *Prog) {
	const R = "C16/R10"
	n := 0
	for _, fn := range p.Funcs(btabRel) {
		type at struct {
			b   *ssa.BasicBlock
			idx int
		}
		var writes []at
		incr := map[*ssa.BasicBlock][]int{}
		for _, b := range fn.Blocks {
			for i, in := range b.Instrs {
				if call, ok := in.(*ssa.Call); ok && objIs(calleeObj(&call.Call), "encoding/csv", "Writer", "Write") {
					writes = append(writes, at{b, i})
				}
				if st, ok := in.(*ssa.Store); ok && isInteger(st.Val.Type()) {
					if bo, ok := st.Val.(*ssa.BinOp); ok && bo.Op == token.ADD {
						if k, ok := constInt(bo.Y); ok && k == 1 {
							if ld, ok := bo.X.(*ssa.UnOp); ok && ld.X == st.Addr {
								if _, isFV := st.Addr.(*ssa.FreeVar); isFV {
									incr[b] = append(incr[b], i)
								}
								if al, isAl := st.Addr.(*ssa.Alloc); isAl && al.Comment != "" {
									incr[b] = append(incr[b], i)
								}
							}
						}
					}
				}
			}
		}
		for wi, w := range writes {
			n++
			counted := func(b *ssa.BasicBlock, from int) bool {
				for _, i := range incr[b] {
					if i > from {
						return true
					}
				}
				return false
			}
			uncounted := false
			if !counted(w.b, w.idx) {
				seen := map[*ssa.BasicBlock]bool{}
				var work []*ssa.BasicBlock
				if _, isRet := w.b.Instrs[len(w.b.Instrs)-1].(*ssa.Return); isRet {
					uncounted = true
				}
				work = append(work, w.b.Succs...)
				for len(work) > 0 && !uncounted {
					b := work[len(work)-1]
					work = work[:len(work)-1]
					if seen[b] {
						continue
					}
					seen[b] = true
					if counted(b, -1) {
						continue
					}
					if _, isRet := b.Instrs[len(b.Instrs)-1].(*ssa.Return); isRet {
						uncounted = true
					}
					work = append(work, b.Succs...)
				}
			}
			c.Check(!uncounted, R, fmt.Sprintf("%s:record-counted#%d", fnName(fn), wi+1), p.pos(w.b.Instrs[w.idx].Pos()), "the record written is counted on every path", "a CSV record is written without the row counter being advanced on some path (e.g. only for non-empty lines): the blank line between tables is a line of the file like any other, so every cell reference in a warning for a later table is one row too small per separator")
		}
	}
	c.Floor(R, "CSV records written by the renderers", n, 2)
}

// c16CSVRefs (C16/R9): the CSV renderer names the spreadsheet cell a warning belongs to by the current length of the row
// being assembled. That is the cell's column only after the row has been padded up to the cell's first column, so inside
// the loop over columns every path to such a call passes the padding call first.
func c16CSVRefs(c *Ctx, p *Prog) {
	const R = "C16/R9"
	fn := p.Method(btabRel, "Table", "ToCSV")
	if fn == nil {
		c.Undecided(R, "anchor:Table.ToCSV", "", "not found")
		return
	}
	site := p.pos(fn.Pos())
	// the row under assembly: a []string local captured by closures
	isRow := func(v ssa.Value) bool {
		fv, ok := v.(*ssa.FreeVar)
		if !ok {
			return false
		}
		pt, ok := fv.Type().(*types.Pointer)
		return ok && isStringSlice(pt.Elem())
	}
	var readers, padders []*ssa.Function
	for _, af := range fn.AnonFuncs {
		readsLen, stores, hasIntParam := false, false, false
		for _, prm := range af.Params {
			if isInteger(prm.Type()) {
				hasIntParam = true
			}
		}
		eachInstr(af, func(_ *ssa.BasicBlock, in ssa.Instruction) {
			switch x := in.(type) {
			case *ssa.Store:
				if isRow(x.Addr) {
					stores = true
				}
			case *ssa.Call:
				if bi, ok := x.Call.Value.(*ssa.Builtin); ok && bi.Name() == "len" {
					if ld, ok := x.Call.Args[0].(*ssa.UnOp); ok && isRow(ld.X) {
						readsLen = true
					}
				}
			}
		})
		switch {
		case readsLen && !stores:
			readers = append(readers, af)
		case readsLen && stores && hasIntParam:
			// pads the row up to the column given (by a loop of appends, or by appending the missing fields at once)
			padders = append(padders, af)
		}
	}
	if len(readers) == 0 {
		c.OK(R, "csv-refs:none", site, "no closure of ToCSV derives a cell reference from the length of the row under assembly")
		return
	}
	closureOf := func(call *ssa.Call) *ssa.Function {
		if mc, ok := call.Call.Value.(*ssa.MakeClosure); ok {
			return mc.Fn.(*ssa.Function)
		}
		return nil
	}
	in := func(fs []*ssa.Function, f *ssa.Function) bool {
		for _, g := range fs {
			if g == f {
				return true
			}
		}
		return false
	}
	loops := naturalLoops(fn)
	n := 0
	for _, b := range fn.Blocks {
		for idx, ins := range b.Instrs {
			call, ok := ins.(*ssa.Call)
			if !ok || !in(readers, closureOf(call)) {
				continue
			}
			// innermost loop containing the call
			var lp *loopInfo
			for _, l := range loops {
				if l.Blocks[b] && (lp == nil || len(l.Blocks) < len(lp.Blocks)) {
					lp = l
				}
			}
			if lp == nil {
				continue
			}
			start := loopBodyStart(lp)
			if start == nil {
				start = lp.Header
			}
			n++
			// is the call reachable from the start of the iteration without a padding call?
			pads := func(blk *ssa.BasicBlock, upto int) bool {
				for i, in2 := range blk.Instrs {
					if i >= upto {
						break
					}
					if c2, ok := in2.(*ssa.Call); ok && in(padders, closureOf(c2)) {
						return true
					}
				}
				return false
			}
			unpadded := false
			seen := map[*ssa.BasicBlock]bool{}
			work := []*ssa.BasicBlock{start}
			for len(work) > 0 && !unpadded {
				blk := work[len(work)-1]
				work = work[:len(work)-1]
				if seen[blk] || !lp.Blocks[blk] {
					continue
				}
				seen[blk] = true
				if blk == b {
					if !pads(blk, idx) {
						unpadded = true
					}
					continue
				}
				if pads(blk, len(blk.Instrs)) {
					continue
				}
				for _, s := range blk.Succs {
					if s != lp.Header {
						work = append(work, s)
					}
				}
			}
			c.Check(!unpadded, R, fmt.Sprintf("csv-refs:call#%d", n), p.pos(call.Pos()), "the row is padded to the cell's column on every path to this reference",
				"a warning's cell reference is taken from the length of the row before the row has been padded up to the cell's first column: when earlier cells of the row are missing (or have no delta columns) the reference names an empty cell further left, while the text rendering attaches the footnote to the right column")
		}
	}
	c.Floor(R, "cell references taken inside the column loops", n, 1)
	// column placement: a value appended after a conditional append of the same iteration lands in a column that depends
	// on whether the earlier value was present — unless the row was padded to an absolute column in between
	var rowSlot *ssa.Alloc
	eachInstr(fn, func(_ *ssa.BasicBlock, in ssa.Instruction) {
		if al, ok := in.(*ssa.Alloc); ok {
			if pt, ok := al.Type().(*types.Pointer); ok && isStringSlice(pt.Elem()) && al.Heap {
				rowSlot = al
			}
		}
	})
	if rowSlot == nil {
		return
	}
	type at struct {
		b   *ssa.BasicBlock
		idx int
		in  ssa.Instruction
	}
	na := 0
	for _, lp := range loops {
		var appends, pads []at
		for b := range lp.Blocks {
			// innermost loop only
			inner := false
			for _, l2 := range loops {
				if l2 != lp && l2.Blocks[b] && len(l2.Blocks) < len(lp.Blocks) {
					inner = true
				}
			}
			if inner {
				continue
			}
			for i, ins := range b.Instrs {
				if st, ok := ins.(*ssa.Store); ok && st.Addr == ssa.Value(rowSlot) {
					if call, ok := st.Val.(*ssa.Call); ok {
						if bi, ok := call.Call.Value.(*ssa.Builtin); ok && bi.Name() == "append" {
							appends = append(appends, at{b, i, ins})
						}
					}
				}
				if call, ok := ins.(*ssa.Call); ok && in(padders, closureOf(call)) {
					pads = append(pads, at{b, i, ins})
				}
			}
		}
		if len(pads) == 0 {
			continue
		}
		before := func(x, y at) bool { // x executes before y on every path to y
			if x.b == y.b {
				return x.idx < y.idx
			}
			return x.b.Dominates(y.b)
		}
		canReach := func(x, y at) bool {
			if x.b == y.b {
				return x.idx < y.idx
			}
			seen := map[*ssa.BasicBlock]bool{}
			work := append([]*ssa.BasicBlock(nil), x.b.Succs...)
			for len(work) > 0 {
				b := work[len(work)-1]
				work = work[:len(work)-1]
				if seen[b] || !lp.Blocks[b] || b == lp.Header {
					continue
				}
				seen[b] = true
				if b == y.b {
					return true
				}
				work = append(work, b.Succs...)
			}
			return false
		}
		for _, a2 := range appends {
			// the padding in force at a2: the latest pad that precedes it on every path
			var P *at
			for i := range pads {
				pd := pads[i]
				if before(pd, a2) && (P == nil || before(*P, pd)) {
					P = &pads[i]
				}
			}
			if P == nil {
				continue
			}
			na++
			shifted := ""
			for _, a1 := range appends {
				if a1.in == a2.in || before(a1, a2) {
					continue // the same append, or one that always happens
				}
				if canReach(*P, a1) && canReach(a1, a2) {
					shifted = p.pos(a1.in.Pos())
				}
			}
			c.Check(shifted == "", R, fmt.Sprintf("csv-columns:append#%d", na), p.pos(a2.in.Pos()), "appended at a column fixed by the padding before it", "this value is appended after a value that is only sometimes present (appended at "+shifted+") without the row being padded to an absolute column in between: when the earlier value is missing — a column without a geomean of its own — the later one slides one column to the left, so the delta appears under CI in CSV while the text rendering keeps it under 'vs base'")
		}
	}
	c.Floor(R, "appends placed by a preceding padding call", na, 3)
}

// c16Digits (C16/R8): footnote marks and spreadsheet column names are numbers written digit by digit.
func c16Digits(c *Ctx, p *Prog) {
	const R = "C16/R8"
	n := 0
	for _, fn := range p.Funcs(btabRel, ttabRel) {
		for _, dl := range digitLoops(fn) {
			n++
			key := fmt.Sprintf("%s:digits-base-%d#%d", fnName(fn), dl.Base, n)
			site := p.pos(dl.Rem.Pos())
			switch dl.Verdict {
			case "backwards":
				c.OK(R, key, site, "digits peeled least-significant first are stored from the end of the buffer backwards")
			case "reversed":
				c.OK(R, key, site, "digits are appended and the buffer is reversed afterwards")
			case "forwards":
				c.Bad(R, key, site, "digits are peeled off least-significant first but stored front to back with no reversal: every number of two or more digits is written backwards (footnote 12 is rendered as ²¹, so the mark in the table points at the wrong warning line)")
			default:
				c.Undecided(R, key, site, "cannot tell where the peeled digits are stored")
			}
		}
	}
	c.OK(R, "digits:loops", "", fmt.Sprintf("%d digit-peeling loops in the renderers", n))
	ctl := mustLoad(c, loadOpts{dir: c.HomeDir + "/checker"}, "./testdata/lookbehind")
	nCtl := 0
	for _, fn := range ctl.Funcs("perfcheck/testdata/lookbehind") {
		for _, dl := range digitLoops(fn) {
			if dl.Verdict == "forwards" {
				nCtl++
			}
		}
	}
	if nCtl == 0 {
		c.Undecided(R, "positive-control", "", "the digit-order matcher no longer recognises its own positive example")
	} else {
		c.OK(R, "positive-control", "checker/testdata/lookbehind/lb.go", "matcher fires on the stored front-to-back digit loop")
	}
}

func c16Margins(c *Ctx, p *Prog) {
	const R = "C16/R1"
	fn := p.Method(ttabRel, "Table", "Format")
	valueF := p.Field(ttabRel, "textCell", "value")
	colF := p.Field(ttabRel, "textCell", "col")
	marginF := p.Field(ttabRel, "textCell", "leftMargin")
	if fn == nil || valueF == nil || colF == nil || marginF == nil {
		c.Undecided(R, "anchor:Table.Format", "", "layout function or cell fields not found")
		return
	}
	site := p.pos(fn.Pos())
	// the per-column margin table: the slice that receives max(RuneCount(leftMargin), ...)
	var table ssa.Value
	eachInstr(fn, func(_ *ssa.BasicBlock, in ssa.Instruction) {
		st, ok := in.(*ssa.Store)
		if !ok {
			return
		}
		ia, ok := st.Addr.(*ssa.IndexAddr)
		if !ok {
			return
		}
		// value derives from RuneCountInString(cell.leftMargin)
		derives := false
		var walk func(v ssa.Value, d int)
		walk = func(v ssa.Value, d int) {
			if d > 4 {
				return
			}
			if call, ok := v.(*ssa.Call); ok {
				if objIs(calleeObj(&call.Call), "unicode/utf8", "", "RuneCountInString") {
					if f, _ := loadOfField(call.Call.Args[0]); f == marginF {
						derives = true
					}
					if f, _ := fieldOfVal(call.Call.Args[0]); f == marginF {
						derives = true
					}
				}
				for _, a := range call.Call.Args {
					walk(a, d+1)
				}
			}
		}
		walk(st.Val, 0)
		if derives {
			table = ia.X
		}
	})
	if table == nil {
		c.Undecided(R, "margin-table", site, "no per-column margin table computed from the cells' margins")
		return
	}
	// width computations: RuneCount(cell.value) + X
	n := 0
	skippedSpans := map[int]map[int64]bool{}
	spanF := p.Field(ttabRel, "textCell", "span")
	eachInstr(fn, func(_ *ssa.BasicBlock, in ssa.Instruction) {
		bo, ok := in.(*ssa.BinOp)
		if !ok || bo.Op != token.ADD {
			return
		}
		isValWidth := func(v ssa.Value) bool {
			call, ok := v.(*ssa.Call)
			if !ok || !objIs(calleeObj(&call.Call), "unicode/utf8", "", "RuneCountInString") {
				return false
			}
			f, _ := loadOfField(call.Call.Args[0])
			if f == nil {
				f, _ = fieldOfVal(call.Call.Args[0])
			}
			return f == valueF
		}
		var other ssa.Value
		switch {
		case isValWidth(bo.X):
			other = bo.Y
		case isValWidth(bo.Y):
			other = bo.X
		default:
			return
		}
		n++
		ok2 := false
		if la := loadAddr(other); la != nil {
			if ia, ok := la.(*ssa.IndexAddr); ok && ia.X == table {
				f, _ := loadOfField(ia.Index)
				if f == nil {
					f, _ = fieldOfVal(ia.Index)
				}
				ok2 = f == colF
			}
		}
		// every cell is measured: inside its loop the computation is reached on every iteration (no cell is skipped before
		// it — the emitter prints a cell's margin even when its text is empty)
		for _, lp := range naturalLoops(fn) {
			if !lp.Blocks[bo.Block()] {
				continue
			}
			inner := false
			for _, lp2 := range naturalLoops(fn) {
				if lp2 != lp && lp2.Blocks[bo.Block()] && len(lp2.Blocks) < len(lp.Blocks) {
					inner = true
				}
			}
			if inner {
				continue
			}
			start := loopBodyStart(lp)
			if start == nil {
				continue
			}
			// enumerate the paths from the start of an iteration back to the header that avoid the computation; a skip is
			// harmless only when it mirrors the emitter's own skip, i.e. the path tests both the text and the margin
			skipped := false
			mentions := func(v ssa.Value, f *types.Var) bool {
				found := false
				var walk func(v ssa.Value, d int)
				walk = func(v ssa.Value, d int) {
					if d > 6 || found {
						return
					}
					if g, _ := loadOfField(v); g == f {
						found = true
						return
					}
					if g, _ := fieldOfVal(v); g == f {
						found = true
						return
					}
					if in, ok := v.(ssa.Instruction); ok {
						var ops []*ssa.Value
						for _, o := range in.Operands(ops) {
							if *o != nil {
								walk(*o, d+1)
							}
						}
					}
				}
				walk(v, 0)
				return found
			}
			// a skip decided by the cell's span alone is a division of labour between several width loops (single-column
			// cells here, spanning cells there): which spans this site leaves out is recorded and the union over all
			// sites must cover every span
			type branch struct {
				cond  ssa.Value
				taken bool
			}
			spanOnly := func(v ssa.Value) (*ssa.BinOp, bool) {
				bo2, ok := v.(*ssa.BinOp)
				if !ok {
					return nil, false
				}
				isSpan := func(x ssa.Value) bool {
					if g, _ := loadOfField(x); g == spanF && spanF != nil {
						return true
					}
					if fv, ok := x.(*ssa.Field); ok {
						g, _ := fieldOfVal(fv)
						return g == spanF && spanF != nil
					}
					return false
				}
				_, kx := constInt(bo2.X)
				_, ky := constInt(bo2.Y)
				return bo2, (isSpan(bo2.X) && ky) || (isSpan(bo2.Y) && kx)
			}
			evalSpan := func(bo2 *ssa.BinOp, s int64) bool {
				a, b := s, s
				if k, ok := constInt(bo2.X); ok {
					a = k
				}
				if k, ok := constInt(bo2.Y); ok {
					b = k
				}
				switch bo2.Op {
				case token.EQL:
					return a == b
				case token.NEQ:
					return a != b
				case token.LSS:
					return a < b
				case token.LEQ:
					return a <= b
				case token.GTR:
					return a > b
				case token.GEQ:
					return a >= b
				}
				return false
			}
			if skippedSpans[n] == nil {
				skippedSpans[n] = map[int64]bool{}
			}
			var dfs func(b *ssa.BasicBlock, onPath map[*ssa.BasicBlock]bool, sawValue, sawMargin bool, path []branch, depth int)
			dfs = func(b *ssa.BasicBlock, onPath map[*ssa.BasicBlock]bool, sawValue, sawMargin bool, path []branch, depth int) {
				if skipped || depth > 24 || b == bo.Block() || onPath[b] {
					return
				}
				if b == lp.Header {
					allSpan := len(path) > 0
					for _, br := range path {
						if _, ok := spanOnly(br.cond); !ok {
							allSpan = false
						}
					}
					switch {
					case allSpan:
						for _, s := range []int64{1, 2, 3} {
							feasible := true
							for _, br := range path {
								bo2, _ := spanOnly(br.cond)
								if evalSpan(bo2, s) != br.taken {
									feasible = false
								}
							}
							if feasible {
								skippedSpans[n][s] = true
							}
						}
					case !(sawValue && sawMargin):
						skipped = true
					}
					return
				}
				if !lp.Blocks[b] {
					return
				}
				onPath[b] = true
				ifi, isIf := b.Instrs[len(b.Instrs)-1].(*ssa.If)
				if isIf {
					sawValue = sawValue || mentions(ifi.Cond, valueF)
					sawMargin = sawMargin || mentions(ifi.Cond, marginF)
				}
				for si, s := range b.Succs {
					p2 := path
					if isIf {
						p2 = append(append([]branch(nil), path...), branch{ifi.Cond, si == 0})
					}
					dfs(s, onPath, sawValue, sawMargin, p2, depth+1)
				}
				delete(onPath, b)
			}
			dfs(start, map[*ssa.BasicBlock]bool{}, false, false, nil, 0)
			c.Check(!skipped, R, fmt.Sprintf("Format:cell-width#%d:every-cell", n), p.pos(bo.Pos()), "computed on every iteration of the cell loop",
				"some cells are skipped before their width is computed: a cell whose text is empty but whose left margin is visible (a rule column) is still printed by the emitter, so its column gets width 0, the margin overruns it and the following columns start at different offsets on lines with and without that cell")
		}
		c.Check(ok2, R, fmt.Sprintf("Format:cell-width#%d", n), p.pos(bo.Pos()), "text width + the column's margin from the margin table",
			"a cell's width is computed with something other than its column's entry in the margin table (e.g. the cell's own margin): the emitter pads with the column's margin, so a span narrower-margined than its start column overruns and later cells on that line shift right")
	})
	c.Floor(R, "cell width computations", n, 1)
	// the width loops together measure cells of every span
	for _, s := range []int64{1, 2, 3} {
		covered := false
		for i := 1; i <= n; i++ {
			if !skippedSpans[i][s] {
				covered = true
			}
		}
		c.Check(covered, R, fmt.Sprintf("Format:cells-of-span-%d-measured", s), site, "some width loop measures cells of this span", fmt.Sprintf("no width computation is reached for cells that span %d column(s): every site skips them, so their text never widens a column", s))
	}
	// the emitter pads the margin with the same table
	okEmit := false
	// the margin table as seen by the emitter: the table itself, or the parameter of a table method that Format hands it to
	isTable := func(v ssa.Value) bool {
		if v == table {
			return true
		}
		prm, ok := v.(*ssa.Parameter)
		if !ok {
			return false
		}
		h := prm.Parent()
		pi := -1
		for i, q := range h.Params {
			if q == prm {
				pi = i
			}
		}
		passes := false
		eachInstr(fn, func(_ *ssa.BasicBlock, in2 ssa.Instruction) {
			if call, ok := in2.(*ssa.Call); ok && call.Call.StaticCallee() == h && pi >= 0 && pi < len(call.Call.Args) && call.Call.Args[pi] == table {
				passes = true
			}
		})
		return passes
	}
	for _, eg := range c16WithTableMethods(fn) {
		eachInstr(eg, func(_ *ssa.BasicBlock, in ssa.Instruction) {
			if call, ok := in.(*ssa.Call); ok && objIs(calleeObj(&call.Call), "fmt", "", "Fprintf") {
				if f, _ := constString(call.Call.Args[1]); strings.Contains(f, "%*s%*s") {
					// varargs contain a load of table[cell.col]
					if sl, ok := call.Call.Args[2].(*ssa.Slice); ok {
						if al, ok := sl.X.(*ssa.Alloc); ok {
							for _, st := range storesInto(al) {
								if mi, ok := st.Val.(*ssa.MakeInterface); ok {
									if la := loadAddr(mi.X); la != nil {
										if ia, ok := la.(*ssa.IndexAddr); ok && isTable(ia.X) {
											okEmit = true
										}
									}
								}
							}
						}
					}
				}
			}
		})
	}
	c.Check(okEmit, R, "Format:emit-margin", site, "the emitter pads each cell's margin to the column's margin width", "the emitter does not pad margins from the per-column margin table")
}

func c16Siblings(c *Ctx, p *Prog) {
	const R = "C16/R2"
	text := p.Method(btabRel, "Table", "ToText")
	csv := p.Method(btabRel, "Table", "ToCSV")
	if text == nil || csv == nil {
		c.Undecided(R, "anchor:Table.ToText/ToCSV", "", "renderers not found")
		return
	}
	watch := map[string]bool{"benchtab.Table": true, "benchtab.TableCell": true, "benchtab.TableSummary": true, "benchmath.Summary": true, "benchmath.Comparison": true, "benchmath.Sample": true}
	reads := func(root *ssa.Function) (map[string]bool, map[string]bool) {
		fields, calls := map[string]bool{}, map[string]bool{}
		for _, f := range staticReach([]*ssa.Function{root}, rp(btabRel)) {
			eachInstr(f, func(_ *ssa.BasicBlock, in ssa.Instruction) {
				switch x := in.(type) {
				case *ssa.FieldAddr:
					fl, _ := fieldOfAddr(x)
					if o := ownerOfField(fl); watch[o] {
						// reads only
						isRead := false
						for _, r := range *x.Referrers() {
							switch r.(type) {
							case *ssa.UnOp, *ssa.FieldAddr, *ssa.IndexAddr:
								isRead = true
							}
						}
						if isRead {
							fields[o+"."+fl.Name()] = true
						}
					}
				case *ssa.Field:
					fl, _ := fieldOfVal(x)
					if o := ownerOfField(fl); watch[o] {
						fields[o+"."+fl.Name()] = true
					}
				case *ssa.Call:
					if co := calleeObj(&x.Call); co != nil {
						if sig := co.Type().(*types.Signature); sig.Recv() != nil {
							rn := recvName(sig.Recv().Type())
							if co.Pkg() != nil && watch[co.Pkg().Name()+"."+rn] {
								calls[rn+"."+co.Name()] = true
							}
						}
					}
				}
			})
		}
		return fields, calls
	}
	tf, tc := reads(text)
	cf, cc := reads(csv)
	diff := func(a, b map[string]bool) []string {
		var out []string
		for k := range a {
			if !b[k] {
				out = append(out, k)
			}
		}
		sort.Strings(out)
		return out
	}
	onlyText, onlyCSV := diff(tf, cf), diff(cf, tf)
	c.Check(len(onlyText) == 0 && len(onlyCSV) == 0, R, "renderers:same-fields", p.pos(text.Pos()), fmt.Sprintf("both renderers read %d fields of the table data", len(tf)),
		fmt.Sprintf("the text and CSV renderers do not read the same data (only text: %v; only CSV: %v): one rendering shows deltas, p-values, summaries or warnings the other omits", onlyText, onlyCSV))
	mT, mC := diff(tc, cc), diff(cc, tc)
	// String-formatting helpers legitimately differ (scaled vs exact numbers); compare the statistical accessors only
	stat := func(xs []string) []string {
		var out []string
		for _, x := range xs {
			if strings.HasSuffix(x, "FormatDelta") || strings.HasSuffix(x, "String") && strings.HasPrefix(x, "Comparison") {
				out = append(out, x)
			}
		}
		return out
	}
	c.Check(len(stat(mT)) == 0 && len(stat(mC)) == 0, R, "renderers:same-methods", p.pos(csv.Pos()), "both renderers format deltas and comparison summaries through the same methods",
		fmt.Sprintf("delta/p-value formatting differs between the renderers (only text: %v; only CSV: %v)", stat(mT), stat(mC)))
	c.Floor(R, "fields read by the text renderer", len(tf), 8)
}

func c16Metric(c *Ctx, p *Prog) {
	const R = "C16/R3"
	n, nRune := 0, 0
	for _, fn := range p.Funcs(ttabRel) {
		i := 0
		eachInstr(fn, func(_ *ssa.BasicBlock, in ssa.Instruction) {
			call, ok := in.(*ssa.Call)
			if !ok {
				return
			}
			if objIs(calleeObj(&call.Call), "unicode/utf8", "", "RuneCountInString") {
				nRune++
				return
			}
			bi, ok := call.Call.Value.(*ssa.Builtin)
			if !ok || bi.Name() != "len" || !isString(call.Call.Args[0].Type()) {
				return
			}
			n++
			i++
			okUse := true
			for _, r := range *call.Referrers() {
				switch x := r.(type) {
				case *ssa.DebugRef:
				case *ssa.BinOp:
					k, isK := constInt(x.Y)
					if !(isK && k == 0 && (x.Op == token.EQL || x.Op == token.NEQ || x.Op == token.GTR)) {
						okUse = false
					}
				default:
					okUse = false
				}
			}
			c.Check(okUse, R, fmt.Sprintf("%s:len(string)#%d", fnName(fn), i), p.pos(call.Pos()), "byte length used only to test for emptiness",
				"the byte length of a string is used as a width: text with multi-byte characters (µ, ±, ∞, non-ASCII benchmark names) is padded short, so columns stop lining up")
		})
	}
	c.OK(R, "metric:summary", "", fmt.Sprintf("%d rune-count width computations, %d byte-length uses (emptiness tests only)", nRune, n))
	c.Floor(R, "rune-count width computations", nRune, 3)
}

func c16Header(c *Ctx, p *Prog) {
	const R = "C16/R4"
	fn := p.Fn("benchproc", "NewKeyHeader")
	valueF := p.Field("benchproc", "KeyHeaderNode", "Value")
	lenF := p.Field("benchproc", "KeyHeaderNode", "Len")
	startF := p.Field("benchproc", "KeyHeaderNode", "Start")
	if fn == nil || valueF == nil || lenF == nil || startF == nil {
		c.Undecided(R, "anchor:NewKeyHeader", "", "not found")
		return
	}
	// the walk closure: the anonymous function with a loop that allocates KeyHeaderNode
	// (a recursive closure, or — with an explicit worklist — NewKeyHeader itself): the innermost loop that asks a key for
	// its value
	var walk *ssa.Function
	var lp *loopInfo
	cands := append([]*ssa.Function{fn}, fn.AnonFuncs...)
	// ... or a (recursive) function of the package that NewKeyHeader calls
	eachInstr(fn, func(_ *ssa.BasicBlock, in ssa.Instruction) {
		if call, ok := in.(*ssa.Call); ok {
			if h := call.Call.StaticCallee(); h != nil && h.Pkg == fn.Pkg && h.Blocks != nil && h != fn {
				cands = append(cands, h)
			}
		}
	})
	for _, a := range cands {
		for _, l := range naturalLoops(a) {
			hasGet := false
			for b := range l.Blocks {
				for _, in := range b.Instrs {
					if call, ok := in.(*ssa.Call); ok {
						if co := calleeObj(&call.Call); co != nil && co.Name() == "Get" {
							hasGet = true
						}
					}
				}
			}
			if hasGet && (lp == nil || len(l.Blocks) < len(lp.Blocks)) {
				walk, lp = a, l
			}
		}
	}
	if walk == nil {
		c.Undecided(R, "header:walk", p.pos(fn.Pos()), "tree-building loop not found")
		return
	}
	site := p.pos(walk.Pos())
	start := loopBodyStart(lp)
	outs, why := e6Enumerate(func() *e6Interp { return &e6Interp{PureCall: func(f *types.Func) bool { return f.Name() == "Get" }} }, start, lp.Header, iterStop(lp, start), 64)
	if why != "" {
		c.Undecided(R, "header:table", site, why)
		return
	}
	// the low bound of the sub-slice the loop ranges over, if any
	var sliceLow ssa.Value
	for b := range lp.Blocks {
		for _, in := range b.Instrs {
			if ia, ok := in.(*ssa.IndexAddr); ok {
				if sl, ok := ia.X.(*ssa.Slice); ok && sl.Low != nil {
					sliceLow = sl.Low
				}
			}
		}
	}
	n := 0
	for _, o := range outs {
		var haveNode, same *bool
		bad := ""
		for _, k := range o.AtomKeys() {
			v := o.Assign[k]
			_ = v
			s := o.AtomSyms[k]
			vv := v
			switch {
			case s.Op == "binop" && s.Tok == token.EQL && s.Args[1].isConst() && s.Args[1].IsNil:
				t := !v
				haveNode = &t
			case s.Op == "binop" && s.Tok == token.EQL && isString2(s.Args[0].Type):
				// must compare the key's value (a Get call) with the current node's Value
				a0, a1 := s.Args[0], s.Args[1]
				isGet := func(x *Sym) bool { return x.Op == "call" && strings.Contains(x.Name, ".Get") }
				isNodeVal := func(x *Sym) bool { return x.IsFieldLoad(valueF) }
				if (isGet(a0) && isNodeVal(a1)) || (isGet(a1) && isNodeVal(a0)) {
					same = &vv
				} else {
					bad = k
				}
			default:
				bad = k
			}
		}
		if bad != "" {
			c.Bad(R, "header:run-test", site, "a header node is extended by a test other than 'this key's value equals the current node's value' ("+truncate(bad, 160)+"): runs are cut or merged at the wrong column, so a column appears under the wrong header cell")
			return
		}
		n++
		extend := haveNode != nil && *haveNode && same != nil && *same
		var lenStore, newNode bool
		var startOK bool
		dbgStart := ""
		for _, a := range o.Actions {
			if a.Kind == "store" && a.Args[0].Op == "fieldaddr" && a.Args[0].Obj == lenF && a.Args[0].Args[0].Op != "alloc" {
				// node.Len = node.Len + 1
				b, off, ok := linDecomp(a.Args[1])
				if ok && b != nil && b.IsFieldLoad(lenF) && off == 1 {
					lenStore = true
				}
			}
			if a.Kind == "store" && a.Args[0].Op == "fieldaddr" && a.Args[0].Obj == startF && a.Args[0].Args[0].Op == "alloc" {
				newNode = true
				// the new node starts at the absolute position of the key being visited: keys[lo:hi][j] is at lo+j,
				// keys[i] at i
				v := a.Args[1]
				canon := func(s *Sym) string {
					if s.Op == "binop" && s.Tok == token.ADD {
						x, y := s.Args[0].String(), s.Args[1].String()
						if y < x {
							x, y = y, x
						}
						return x + "+" + y
					}
					return s.String()
				}
				var where []*Sym
				for _, k2 := range o.AtomKeys() {
					where = append(where, o.AtomSyms[k2])
				}
				for _, a2 := range o.Actions {
					where = append(where, a2.Args...)
				}
				for _, w := range where {
					w.Walk(func(g *Sym) {
						if g.Op != "call" || !strings.Contains(g.Name, ".Get") || len(g.Args) == 0 {
							return
						}
						recv := g.Args[0]
						if recv.Op == "load" && recv.Args[0].Op == "indexaddr" {
							base, idx := recv.Args[0].Args[0], recv.Args[0].Args[1]
							abs := idx.String()
							if base.Op == "opaque" && sliceLow != nil {
								// the ranged sub-slice was cut before the loop: keys[lo:hi][j] is at lo+j
								x, y := strings.TrimPrefix(o.Val(sliceLow).String(), "opaque:"), idx.String()
								if y < x {
									x, y = y, x
								}
								abs = x + "+" + y
							}
							if base.Op == "slice" && len(base.Args) >= 2 && !(base.Args[1].Op == "zero" || base.Args[1].String() == "0") {
								x, y := base.Args[1].String(), idx.String()
								if y < x {
									x, y = y, x
								}
								abs = x + "+" + y
							}
							if strings.ReplaceAll(canon(v), "opaque:*", "*") == strings.ReplaceAll(abs, "opaque:*", "*") {
								startOK = true
							} else {
								dbgStart = canon(v) + " vs " + abs + " base=" + base.Op
							}
						}
					})
				}
			}
		}
		key := fmt.Sprintf("header[current node=%s same value=%s]", boolPtrStr(haveNode), boolPtrStr(same))
		if extend {
			c.Check(lenStore && !newNode, R, key, site, "the current node grows by one", "an equal value does not extend the current header node by one")
		} else {
			c.Check(newNode && startOK && !lenStore, R, key, site, "a new node starts at parent.Start + j", "a differing value does not start a new header node at the key's position (parent.Start + j) "+truncate(dbgStart, 300))
		}
	}
	c.Floor(R, "header run cases", n, 3)
	// children only within the parent's range: the ranged slice is keys[parent.Start : parent.Start+parent.Len]
	okRange := false
	eachInstr(walk, func(_ *ssa.BasicBlock, in ssa.Instruction) {
		if sl, ok := in.(*ssa.Slice); ok && sl.Low != nil && sl.High != nil {
			lf, _ := loadOfField(sl.Low)
			if lf == startF {
				if bo, ok := sl.High.(*ssa.BinOp); ok && bo.Op == token.ADD {
					f1, _ := loadOfField(bo.X)
					f2, _ := loadOfField(bo.Y)
					if (f1 == startF && f2 == lenF) || (f1 == lenF && f2 == startF) {
						okRange = true
					}
				}
			}
		}
	})
	// or an index loop from parent.Start while i < parent.Start+parent.Len
	for _, lp2 := range naturalLoops(walk) {
		for _, in := range lp2.Header.Instrs {
			phi, ok := in.(*ssa.Phi)
			if !ok || !isInteger(phi.Type()) {
				continue
			}
			fromStart := false
			for i, e := range phi.Edges {
				if !lp2.Blocks[lp2.Header.Preds[i]] {
					if f, _ := loadOfField(e); f == startF {
						fromStart = true
					}
				}
			}
			if !fromStart {
				continue
			}
			for _, r := range *phi.Referrers() {
				bo, ok := r.(*ssa.BinOp)
				if !ok || bo.Op != token.LSS || bo.X != phi {
					continue
				}
				if sum, ok := bo.Y.(*ssa.BinOp); ok && sum.Op == token.ADD {
					f1, _ := loadOfField(sum.X)
					f2, _ := loadOfField(sum.Y)
					if (f1 == startF && f2 == lenF) || (f1 == lenF && f2 == startF) {
						okRange = true
					}
				}
			}
		}
	}
	c.Check(okRange, R, "header:parent-range", site, "children are built from keys[parent.Start : parent.Start+parent.Len]", "a node's children are not built from exactly its own key range")
}

func c16Emit(c *Ctx, p *Prog) {
	const R = "C16/R5"
	fn := p.Method(ttabRel, "Table", "Format")
	if fn == nil {
		return
	}
	site := p.pos(fn.Pos())
	spanF := p.Field(ttabRel, "textCell", "span")
	colF := p.Field(ttabRel, "textCell", "col")
	// the emission may sit in Format or in a method of the table that Format calls
	scope := c16WithTableMethods(fn)
	eachInScope := func(f func(*ssa.BasicBlock, ssa.Instruction)) {
		for _, g := range scope {
			eachInstr(g, f)
		}
	}
	// total width: offs[col+span] - offs[col] - lmargin[col]
	okTW := false
	eachInScope(func(_ *ssa.BasicBlock, in ssa.Instruction) {
		bo, ok := in.(*ssa.BinOp)
		if !ok || bo.Op != token.SUB {
			return
		}
		inner, ok := bo.X.(*ssa.BinOp)
		if !ok || inner.Op != token.SUB {
			return
		}
		idxOf := func(v ssa.Value) ssa.Value {
			if la := loadAddr(v); la != nil {
				if ia, ok := la.(*ssa.IndexAddr); ok {
					return ia.Index
				}
			}
			return nil
		}
		i1, i2, i3 := idxOf(inner.X), idxOf(inner.Y), idxOf(bo.Y)
		if i1 == nil || i2 == nil || i3 == nil {
			return
		}
		isCol := func(v ssa.Value) bool {
			f, _ := loadOfField(v)
			if f == nil {
				f, _ = fieldOfVal(v)
			}
			return f == colF
		}
		if add, ok := i1.(*ssa.BinOp); ok && add.Op == token.ADD && isCol(i2) && isCol(i3) {
			fa, _ := loadOfField(add.X)
			if fa == nil {
				fa, _ = fieldOfVal(add.X)
			}
			fb, _ := loadOfField(add.Y)
			if fb == nil {
				fb, _ = fieldOfVal(add.Y)
			}
			if (fa == colF && fb == spanF) || (fa == spanF && fb == colF) {
				okTW = true
			}
		}
	})
	c.Check(okTW, R, "emit:cell-width", site, "a cell is padded to offs[col+span] - offs[col] - margin", "the printed cell width is not the span's total width minus the margin: right-aligned cells of a column stop ending at the same offset")
	// blank cells skipped
	okSkip := false
	eachInScope(func(_ *ssa.BasicBlock, in ssa.Instruction) {
		if call, ok := in.(*ssa.Call); ok && objIs(calleeObj(&call.Call), "strings", "", "TrimSpace") {
			okSkip = true
		}
	})
	c.Check(okSkip, R, "emit:skip-blank", site, "cells that are blank (value and margin) are skipped", "blank cells are emitted: lines end in blanks")
}

func c16Refill(c *Ctx, p *Prog) {
	const R = "C16/R6"
	nL, nF := 0, 0
	for _, fn := range p.Funcs(btabRel, ttabRel, "benchproc") {
		nF++
		al, k := refillAliases(fn)
		nL += k
		for i, a := range al {
			c.Bad(R, fmt.Sprintf("%s:refill#%d", fnName(fn), i+1), p.pos(a.Append.Pos()), fmt.Sprintf("%s is refilled in place (append onto its truncated self) while %s, which received the same slice at the end of the previous pass, is still being read at %s: with three or more header levels the children overwrite the nodes being walked and the text renderer panics or prints a wrong header where CSV renders fine", a.Names[0], a.Names[1], p.pos(a.Read.Pos())))
		}
	}
	c.OK(R, "refill:none", "", fmt.Sprintf("%d loops with two or more loop-carried slices in %d functions; none refills a slice another one still reads", nL, nF))
	ctl := mustLoad(c, loadOpts{dir: c.HomeDir + "/checker"}, "./testdata/lookbehind")
	nCtl := 0
	for _, fn := range ctl.Funcs("perfcheck/testdata/lookbehind") {
		al, _ := refillAliases(fn)
		nCtl += len(al)
	}
	if nCtl == 0 {
		c.Undecided(R, "positive-control", "", "the refill-alias matcher no longer recognises its own positive example")
	} else {
		c.OK(R, "positive-control", "checker/testdata/lookbehind/lb.go", "matcher fires on the stored level walk")
	}
}

func c16Shrink(c *Ctx, p *Prog) {
	const R = "C16/R7"
	n := 0
	for _, fn := range p.Funcs(btabRel) {
		eachInstr(fn, func(b *ssa.BasicBlock, in ssa.Instruction) {
			call, ok := in.(*ssa.Call)
			if !ok || !objIs(calleeObj(&call.Call), modPath+"/"+ttabRel, "Table", "SetShrink") {
				return
			}
			n++
			args := callArgs(&call.Call)
			j := args[1]
			bounded := false
			for _, f := range factsAt(b) {
				cmp, ok := f.Cond.(*ssa.BinOp)
				if !ok {
					continue
				}
				isCur := func(v ssa.Value) bool {
					cc, ok := v.(*ssa.Call)
					return ok && objIs(calleeObj(&cc.Call), modPath+"/"+ttabRel, "Table", "CurCol")
				}
				switch {
				case cmp.Op == token.LSS && f.True && sameValue(cmp.X, j) && isCur(cmp.Y),
					cmp.Op == token.GTR && f.True && sameValue(cmp.Y, j) && isCur(cmp.X),
					cmp.Op == token.GEQ && !f.True && sameValue(cmp.X, j) && isCur(cmp.Y),
					cmp.Op == token.LEQ && !f.True && sameValue(cmp.Y, j) && isCur(cmp.X):
					bounded = true
				}
			}
			c.Check(bounded, R, fmt.Sprintf("%s:SetShrink#%d", fnName(fn), n), p.pos(call.Pos()), "the marked column is below the layout's current column",
				"a column is marked shrink without being tested against the layout's current column: for a column group with fewer cells than the bound assumes (the baseline group has no delta columns) the mark lands on the next group's stretch column, so a wide label over that group overflows its span and the header rules no longer line up")
		})
	}
	c.Floor(R, "SetShrink calls in the table renderer", n, 1)
}

// c16WithTableMethods: fn and the methods of its receiver type that it calls (the layout and the emission may have been
// split into two methods of the table).
func c16WithTableMethods(fn *ssa.Function) []*ssa.Function {
	out := []*ssa.Function{fn}
	if fn.Signature.Recv() == nil {
		return out
	}
	rn := recvName(fn.Signature.Recv().Type())
	eachInstr(fn, func(_ *ssa.BasicBlock, in ssa.Instruction) {
		if call, ok := in.(*ssa.Call); ok {
			if sc := call.Call.StaticCallee(); sc != nil && sc.Pkg == fn.Pkg && sc.Blocks != nil && sc.Signature.Recv() != nil && recvName(sc.Signature.Recv().Type()) == rn {
				dup := false
				for _, o := range out {
					dup = dup || o == sc
				}
				if !dup {
					out = append(out, sc)
				}
			}
		}
	})
	return out
}

// c16SpanFits (C16/R11): a cell that spans several columns and is wider than they are together must make some column
// grow. The layout decides "wider than its columns" by comparing the cell's width with the sum of the widths table over
// the span; from the "needs room" side of that test, every path back to the loop over the cells must store into the
// widths table. Paths are explored with one piece of state — whether the work list of columns that may grow (a list
// emptied and then filled by appends) is known empty, known non-empty or unknown: a test of its length is answered
// from the state, a loop over it runs at least once when it is non-empty and not at all when it is empty, and a counted
// loop over the cell's own span runs at least once (spans are positive). A path that reaches the next cell without
// having stored a width is a cell that overflows its columns and shifts everything after it on its line.
func c16SpanFits(c *Ctx, p *Prog) {
	const R = "C16/R11"
	n := 0
	for _, fn := range p.Funcs(ttabRel) {
		if fn.Blocks == nil {
			continue
		}
		loops := naturalLoops(fn)
		// the anchor: if sum >= w (or w <= sum, sum < w, ...) with sum a loop phi accumulating elements of an []int
		for _, b := range fn.Blocks {
			ifi, ok := b.Instrs[len(b.Instrs)-1].(*ssa.If)
			if !ok {
				continue
			}
			cmp, ok := ifi.Cond.(*ssa.BinOp)
			if !ok {
				continue
			}
			var table ssa.Value // the widths table: the slice, or the cell holding it
			sumOnLeft := false
			for side, v := range []ssa.Value{cmp.X, cmp.Y} {
				// the sum taken by a helper of the package over a slice it is handed (sumWidths(ws, first, end))
				if call, ok := v.(*ssa.Call); ok {
					if h := call.Call.StaticCallee(); h != nil && h.Pkg == fn.Pkg && h.Blocks != nil && isInteger(v.Type()) {
						for _, hb := range h.Blocks {
							ret, ok := hb.Instrs[len(hb.Instrs)-1].(*ssa.Return)
							if !ok || len(ret.Results) != 1 {
								continue
							}
							hphi, ok := ret.Results[0].(*ssa.Phi)
							if !ok {
								continue
							}
							for _, e := range hphi.Edges {
								add, ok := e.(*ssa.BinOp)
								if !ok || add.Op != token.ADD || (add.X != ssa.Value(hphi) && add.Y != ssa.Value(hphi)) {
									continue
								}
								other := add.Y
								if add.Y == ssa.Value(hphi) {
									other = add.X
								}
								if ia, ok := loadAddr(other).(*ssa.IndexAddr); ok {
									for pi, prm := range h.Params {
										if ia.X == ssa.Value(prm) && pi < len(call.Call.Args) {
											if st, ok := prm.Type().Underlying().(*types.Slice); ok && isInteger(st.Elem()) {
												table = call.Call.Args[pi]
												if la := loadAddr(table); la != nil {
													table = la
												}
												sumOnLeft = side == 0
											}
										}
									}
								}
							}
						}
					}
					continue
				}
				phi, ok := v.(*ssa.Phi)
				if !ok || !isInteger(phi.Type()) {
					continue
				}
				for _, e := range phi.Edges {
					add, ok := e.(*ssa.BinOp)
					if !ok || add.Op != token.ADD || (add.X != ssa.Value(phi) && add.Y != ssa.Value(phi)) {
						continue
					}
					other := add.Y
					if add.Y == ssa.Value(phi) {
						other = add.X
					}
					if ia, ok := loadAddr(other).(*ssa.IndexAddr); ok {
						if st, ok := ia.X.Type().Underlying().(*types.Slice); ok && isInteger(st.Elem()) {
							table = ia.X
							if la := loadAddr(ia.X); la != nil {
								table = la
							}
							sumOnLeft = side == 0
						}
					}
				}
			}
			if table == nil {
				continue
			}
			// which successor is "the columns are too narrow": sum < w
			var needs *ssa.BasicBlock
			op := cmp.Op
			if !sumOnLeft {
				switch op {
				case token.LSS:
					op = token.GTR
				case token.GTR:
					op = token.LSS
				case token.LEQ:
					op = token.GEQ
				case token.GEQ:
					op = token.LEQ
				}
			}
			switch op {
			case token.GEQ: // sum >= w: enough
				needs = b.Succs[1]
			case token.LSS: // sum < w: too narrow
				needs = b.Succs[0]
			default:
				continue
			}
			// the loop over the cells: the innermost loop that contains the test and the needs-room successor
			var cells *loopInfo
			for _, l := range loops {
				if l.Blocks[b] && l.Blocks[needs] && (cells == nil || len(l.Blocks) < len(cells.Blocks)) {
					cells = l
				}
			}
			if cells == nil {
				continue
			}
			n++
			key := fmt.Sprintf("%s:span-gets-room#%d", fnName(fn), n)
			ok2, why := c16GrowsOnEveryPath(fn, loops, cells, needs, table)
			switch {
			case why != "":
				c.Undecided(R, key, p.pos(cmp.Pos()), why)
			case ok2:
				c.OK(R, key, p.pos(cmp.Pos()), "from 'the spanned columns are too narrow' every path to the next cell widens a column")
			default:
				c.Bad(R, key, p.pos(cmp.Pos()), "a spanning cell that is wider than its columns can reach the next cell without any column having been widened: the list of columns allowed to grow may be empty (every column under the cell is a shrink column) and nothing handles that, so the cell's text runs past its columns and everything after it on that line — the header rule included — is shifted out of its column")
			}
		}
	}
	c.Floor(R, "spanning-cell width tests in the layout", n, 1)
}

// c16GrowsOnEveryPath: see c16SpanFits.
func c16GrowsOnEveryPath(fn *ssa.Function, loops []*loopInfo, cells *loopInfo, start *ssa.BasicBlock, table ssa.Value) (bool, string) {
	isTable := func(v ssa.Value) bool {
		if v == table {
			return true
		}
		if la := loadAddr(v); la != nil && la == table {
			return true
		}
		return false
	}
	storesWidth := func(b *ssa.BasicBlock) bool {
		for _, in := range b.Instrs {
			if st, ok := in.(*ssa.Store); ok {
				if ia, ok := st.Addr.(*ssa.IndexAddr); ok && isTable(ia.X) {
					return true
				}
			}
		}
		return false
	}
	// the work list: a local []int cell that is stored an emptied slice (x[:0] or nil) inside the cells loop
	var list *ssa.Alloc
	for b := range cells.Blocks {
		for _, in := range b.Instrs {
			st, ok := in.(*ssa.Store)
			if !ok {
				continue
			}
			al, ok := st.Addr.(*ssa.Alloc)
			if !ok {
				continue
			}
			if sl, ok := st.Val.(*ssa.Slice); ok && sl.Low == nil && sl.High != nil {
				if k, ok := constInt(sl.High); ok && k == 0 {
					list = al
				}
			}
			if k, ok := st.Val.(*ssa.Const); ok && k.IsNil() {
				if _, isSl := al.Type().(*types.Pointer).Elem().Underlying().(*types.Slice); isSl {
					list = al
				}
			}
		}
	}
	isList := func(v ssa.Value) bool {
		return list != nil && loadAddr(v) == ssa.Value(list)
	}
	isLenOfList := func(v ssa.Value) bool {
		call, ok := v.(*ssa.Call)
		if !ok {
			return false
		}
		bi, ok := call.Call.Value.(*ssa.Builtin)
		return ok && bi.Name() == "len" && isList(call.Call.Args[0])
	}
	headerOf := map[*ssa.BasicBlock]*loopInfo{}
	for _, l := range loops {
		if l != cells && cells.Blocks[l.Header] {
			headerOf[l.Header] = l
		}
	}
	// spanLoop: header test idx < F1 + F2 with both loaded from fields of one struct cell (the cell's column and span)
	isFieldLoad := func(v ssa.Value) bool {
		f, _ := loadOfField(v)
		return f != nil
	}
	spanLoop := func(h *ssa.BasicBlock) bool {
		ifi, ok := h.Instrs[len(h.Instrs)-1].(*ssa.If)
		if !ok {
			return false
		}
		cmp, ok := ifi.Cond.(*ssa.BinOp)
		if !ok || cmp.Op != token.LSS {
			return false
		}
		add, ok := cmp.Y.(*ssa.BinOp)
		return ok && add.Op == token.ADD && isFieldLoad(add.X) && isFieldLoad(add.Y)
	}
	// listLoop: header test idx < len(list) (the length may have been taken before the loop)
	listLoop := func(h *ssa.BasicBlock) bool {
		ifi, ok := h.Instrs[len(h.Instrs)-1].(*ssa.If)
		if !ok {
			return false
		}
		cmp, ok := ifi.Cond.(*ssa.BinOp)
		return ok && cmp.Op == token.LSS && isLenOfList(cmp.Y)
	}
	const (
		unknown = iota
		empty
		nonEmpty
	)
	type state struct {
		b      *ssa.BasicBlock
		list   int
		stored bool
	}
	type key struct {
		b      *ssa.BasicBlock
		list   int
		stored bool
		seen   string
	}
	bad := false
	steps := 0
	visited := map[key]bool{}
	var walk func(s state, iter map[*ssa.BasicBlock]int)
	walk = func(s state, iter map[*ssa.BasicBlock]int) {
		if bad || steps > 200000 {
			return
		}
		steps++
		if s.b == cells.Header || !cells.Blocks[s.b] {
			if !s.stored && s.b == cells.Header {
				bad = true
			}
			return
		}
		var seen []string
		for h, k := range iter {
			seen = append(seen, fmt.Sprintf("%d:%d", h.Index, k))
		}
		sort.Strings(seen)
		k := key{s.b, s.list, s.stored, strings.Join(seen, ",")}
		if visited[k] {
			return
		}
		visited[k] = true
		// effects of the block
		if storesWidth(s.b) {
			s.stored = true
		}
		for _, in := range s.b.Instrs {
			st, ok := in.(*ssa.Store)
			if !ok || list == nil || st.Addr != ssa.Value(list) {
				continue
			}
			switch v := st.Val.(type) {
			case *ssa.Slice:
				if k, ok := constInt(v.High); ok && k == 0 && v.Low == nil {
					s.list = empty
				} else {
					s.list = unknown
				}
			case *ssa.Const:
				s.list = empty
			case *ssa.Call:
				if bi, ok := v.Call.Value.(*ssa.Builtin); ok && bi.Name() == "append" && isList(v.Call.Args[0]) {
					s.list = nonEmpty
				} else {
					s.list = unknown
				}
			default:
				s.list = unknown
			}
		}
		last := s.b.Instrs[len(s.b.Instrs)-1]
		ifi, isIf := last.(*ssa.If)
		if !isIf {
			for _, nx := range s.b.Succs {
				walk(state{nx, s.list, s.stored}, iter)
			}
			return
		}
		takeT, takeF := true, true
		tList, fList := s.list, s.list
		// a loop header: how many times may the body run
		if lp, ok := headerOf[s.b]; ok {
			visits := iter[s.b]
			it2 := map[*ssa.BasicBlock]int{}
			for h, k := range iter {
				it2[h] = k
			}
			it2[s.b] = visits + 1
			iter = it2
			bodyOnT := lp.Blocks[s.b.Succs[0]]
			mustEnter := visits == 0 && (spanLoop(s.b) || (listLoop(s.b) && s.list == nonEmpty))
			mustSkip := visits >= 1 || (listLoop(s.b) && s.list == empty)
			// (one iteration of every inner loop is enough to see whether a width is stored in it)
			if mustEnter {
				takeT, takeF = bodyOnT, !bodyOnT
			} else if mustSkip {
				takeT, takeF = !bodyOnT, bodyOnT
			}
		} else if cmp, ok := ifi.Cond.(*ssa.BinOp); ok {
			// a test of the list's length against 0
			var kk int64
			var isK, lenLeft bool
			if isLenOfList(cmp.X) {
				kk, isK = constInt(cmp.Y)
				lenLeft = true
			} else if isLenOfList(cmp.Y) {
				kk, isK = constInt(cmp.X)
			}
			if isK {
				truth := func(n int64) bool {
					a, b := n, kk
					if !lenLeft {
						a, b = kk, n
					}
					switch cmp.Op {
					case token.EQL:
						return a == b
					case token.NEQ:
						return a != b
					case token.LSS:
						return a < b
					case token.LEQ:
						return a <= b
					case token.GTR:
						return a > b
					case token.GEQ:
						return a >= b
					}
					return false
				}
				// the test separates "empty" from "not empty" when it answers 0 one way and 1, 2, 7 the other
				if truth(0) != truth(1) && truth(1) == truth(2) && truth(2) == truth(7) {
					emptyOnT := truth(0)
					switch s.list {
					case empty:
						takeT, takeF = emptyOnT, !emptyOnT
					case nonEmpty:
						takeT, takeF = !emptyOnT, emptyOnT
					default:
						if emptyOnT {
							tList, fList = empty, nonEmpty
						} else {
							tList, fList = nonEmpty, empty
						}
					}
				}
			}
		}
		if takeT {
			walk(state{s.b.Succs[0], tList, s.stored}, iter)
		}
		if takeF {
			walk(state{s.b.Succs[1], fList, s.stored}, iter)
		}
	}
	walk(state{start, unknown, false}, map[*ssa.BasicBlock]int{})
	// a column put back on the work list gives back the width that was taken off the cell's need for it: a loop that
	// appends to the list where the list is known to be empty (the fallback) also adds an element of the widths table
	// to an integer it carries (w += ws[col]); without it only the shortfall is distributed and the cell still overflows
	if !bad && list != nil {
		for _, lp := range loops {
			if lp == cells || !cells.Blocks[lp.Header] {
				continue
			}
			appends, underEmpty, givesBack := false, false, false
			for b := range lp.Blocks {
				for _, in := range b.Instrs {
					if st, ok := in.(*ssa.Store); ok && st.Addr == ssa.Value(list) {
						if call, ok := st.Val.(*ssa.Call); ok {
							if bi, ok := call.Call.Value.(*ssa.Builtin); ok && bi.Name() == "append" {
								appends = true
							}
						}
					}
					if bo, ok := in.(*ssa.BinOp); ok && bo.Op == token.ADD && isInteger(bo.Type()) {
						for _, side := range []ssa.Value{bo.X, bo.Y} {
							if ia, ok := loadAddr(side).(*ssa.IndexAddr); ok && isTable(ia.X) {
								givesBack = true
							}
						}
					}
				}
			}
			for _, f := range factsAt(lp.Header) {
				if bo, ok := f.Cond.(*ssa.BinOp); ok && (isLenOfList(bo.X) || isLenOfList(bo.Y)) {
					underEmpty = true
				}
			}
			if appends && underEmpty && !givesBack {
				return false, ""
			}
		}
	}
	if steps > 200000 {
		return false, "too many paths through the width computation"
	}
	return !bad, ""
}

// c16Placed (C16/R12): in the text renderer every cell written while walking the logical columns is placed absolutely:
// inside a loop over the table's columns, each path from the start of the iteration to a call that emits a cell passes a
// Col(...) call whose argument is computed from this iteration's own column index. A cell emitted at "wherever the
// previous column left the cursor" lands in the wrong logical column as soon as the previous column printed fewer cells
// than it has room for (no baseline, no delta), which is where text and CSV stop agreeing.
func c16Placed(c *Ctx, p *Prog) {
	const R = "C16/R12"
	fn := p.Method(btabRel, "Table", "ToText")
	colsF := p.Field(btabRel, "Table", "Cols")
	if fn == nil || colsF == nil {
		c.Undecided(R, "anchor:Table.ToText/Cols", "", "not found")
		return
	}
	ttab := modPath + "/" + ttabRel
	// closures of ToText that emit cells
	emits := map[*ssa.Function]bool{}
	for _, a := range fn.AnonFuncs {
		eachInstr(a, func(_ *ssa.BasicBlock, in ssa.Instruction) {
			if call, ok := in.(*ssa.Call); ok && (objIs(calleeObj(&call.Call), ttab, "Table", "Cell") || objIs(calleeObj(&call.Call), ttab, "Table", "Span")) {
				emits[a] = true
			}
		})
	}
	isEmit := func(in ssa.Instruction) bool {
		call, ok := in.(*ssa.Call)
		if !ok {
			return false
		}
		if objIs(calleeObj(&call.Call), ttab, "Table", "Cell") || objIs(calleeObj(&call.Call), ttab, "Table", "Span") {
			return true
		}
		// a call of a local closure that emits
		if call.Call.StaticCallee() == nil && !call.Call.IsInvoke() {
			v := call.Call.Value
			if la := loadAddr(v); la != nil {
				if al, ok := la.(*ssa.Alloc); ok {
					for _, st := range storesInto(al) {
						v = st.Val
					}
				}
			}
			if mc, ok := v.(*ssa.MakeClosure); ok && emits[mc.Fn.(*ssa.Function)] {
				return true
			}
		}
		return false
	}
	var mentions func(v ssa.Value, idx ssa.Value, d int) bool
	mentions = func(v ssa.Value, idx ssa.Value, d int) bool {
		if v == idx {
			return true
		}
		if d > 6 {
			return false
		}
		switch x := v.(type) {
		case *ssa.BinOp:
			return mentions(x.X, idx, d+1) || mentions(x.Y, idx, d+1)
		case *ssa.Call:
			for _, a := range x.Call.Args {
				if mentions(a, idx, d+1) {
					return true
				}
			}
		case *ssa.Convert:
			return mentions(x.X, idx, d+1)
		}
		return false
	}
	n := 0
	for _, lp := range naturalLoops(fn) {
		// a loop over t.Cols: the header's counter indexes the slice loaded from the Cols field
		var idx ssa.Value
		for b := range lp.Blocks {
			for _, in := range b.Instrs {
				if ia, ok := in.(*ssa.IndexAddr); ok {
					if f, _ := loadOfField(ia.X); f == colsF {
						if bo, ok := ia.Index.(*ssa.BinOp); ok {
							if ph, ok := bo.X.(*ssa.Phi); ok && ph.Block() == lp.Header {
								idx = ia.Index
							}
						}
						if ph, ok := ia.Index.(*ssa.Phi); ok && ph.Block() == lp.Header {
							idx = ia.Index
						}
					}
				}
			}
		}
		if idx == nil {
			continue
		}
		// innermost such loop only (an outer loop over rows contains it)
		placed := func(in ssa.Instruction) bool {
			call, ok := in.(*ssa.Call)
			return ok && objIs(calleeObj(&call.Call), ttab, "Table", "Col") && len(call.Call.Args) >= 2 && mentions(call.Call.Args[1], idx, 0)
		}
		for _, b := range fn.Blocks {
			if !lp.Blocks[b] {
				continue
			}
			for i, in := range b.Instrs {
				if !isEmit(in) {
					continue
				}
				n++
				// backwards from the emission to the iteration's start
				ok := false
				for j := i - 1; j >= 0 && !ok; j-- {
					if placed(b.Instrs[j]) {
						ok = true
					}
				}
				unplaced := ""
				if !ok {
					seen := map[*ssa.BasicBlock]bool{}
					work := append([]*ssa.BasicBlock{}, b.Preds...)
					if b == lp.Header {
						work = nil
						unplaced = "the loop header"
					}
					for len(work) > 0 && unplaced == "" {
						x := work[len(work)-1]
						work = work[:len(work)-1]
						if seen[x] || !lp.Blocks[x] {
							continue
						}
						seen[x] = true
						has := false
						for _, in2 := range x.Instrs {
							if placed(in2) {
								has = true
							}
						}
						if has {
							continue
						}
						if x == lp.Header {
							unplaced = "the start of the iteration"
							break
						}
						work = append(work, x.Preds...)
					}
				}
				c.Check(unplaced == "", R, fmt.Sprintf("ToText:cell-placed#%d", n), p.pos(in.Pos()), "the cell is emitted after the cursor was set from this column's own index",
					"a cell can be emitted in the loop over the columns without the cursor having been set from this iteration's column index (a path from "+unplaced+" reaches it with no Col(startCol(exp)…) call): it lands wherever the previous column stopped — under that column's delta or p-value header when the previous column printed fewer cells than it has room for — so the text no longer shows the value under the column the CSV attributes it to")
			}
		}
	}
	c.Floor(R, "cells emitted inside the column loops of the text renderer", n, 4)
}

// c16EveryChildQueued (C16/R13): the text renderer walks the header tree level by level; every node's children are
// queued for the next level, whatever the node's own label is — in the loop that visits the nodes of a level, each path
// through one iteration passes the append of that node's Children. A node skipped because its value is blank takes the
// header cells of everything beneath it with it, and the text then labels fewer columns than the CSV.
func c16EveryChildQueued(c *Ctx, p *Prog) {
	const R = "C16/R13"
	childrenF := p.Field("benchproc", "KeyHeaderNode", "Children")
	if childrenF == nil {
		c.Undecided(R, "anchor:KeyHeaderNode.Children", "", "not found")
		return
	}
	n := 0
	for _, fn := range p.Funcs(btabRel) {
		for _, lp := range naturalLoops(fn) {
			// the append of Children inside this loop
			var queue *ssa.BasicBlock
			for _, b := range fn.Blocks {
				if !lp.Blocks[b] {
					continue
				}
				for _, in := range b.Instrs {
					call, ok := in.(*ssa.Call)
					if !ok || len(call.Call.Args) < 2 {
						continue
					}
					if bi, ok := call.Call.Value.(*ssa.Builtin); !ok || bi.Name() != "append" {
						continue
					}
					if f, _ := loadOfField(call.Call.Args[1]); f == childrenF {
						queue = b
					}
				}
			}
			if queue == nil {
				continue
			}
			// innermost loop containing it only
			inner := true
			for _, l2 := range naturalLoops(fn) {
				if l2 != lp && l2.Blocks[queue] && len(l2.Blocks) < len(lp.Blocks) {
					inner = false
				}
			}
			if !inner {
				continue
			}
			n++
			start := loopBodyStart(lp)
			skip := ""
			seen := map[*ssa.BasicBlock]bool{}
			work := []*ssa.BasicBlock{start}
			for len(work) > 0 && skip == "" && start != nil {
				b := work[len(work)-1]
				work = work[:len(work)-1]
				if seen[b] || b == queue || !lp.Blocks[b] {
					continue
				}
				seen[b] = true
				for _, s := range b.Succs {
					if s == lp.Header {
						skip = p.pos(b.Instrs[len(b.Instrs)-1].Pos())
						if skip == "" {
							skip = "a continue"
						}
					} else {
						work = append(work, s)
					}
				}
			}
			c.Check(skip == "", R, fmt.Sprintf("%s:children-queued#%d", fnName(fn), n), p.pos(queue.Instrs[0].Pos()), "every visited header node's children are queued for the next level",
				"a header node can be passed over without its children being queued for the next level (the iteration reaches the loop head again near "+skip+"): every header cell beneath that node is missing from the text, which then labels fewer columns than the CSV")
		}
	}
	c.Floor(R, "level walks over the header tree", n, 1)
}
