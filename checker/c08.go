// c08.go: C08 — keys identify projected tuples; projections plus residue lose nothing.
package main

import (
	"fmt"
	"go/constant"
	"go/token"
	"go/types"
	"strings"

	"golang.org/x/tools/go/ssa"
)

func init() { register("C08", checkC08) }

func checkC08(c *Ctx) {
	c.Rule("C08/R1", "interning uses one row: the sequence hashed, the sequence compared with existing keys and the sequence copied into a new key node are the same trimmed row; the node holds a fresh copy; a new node is appended to the existing candidates under its hash, never replacing them")
	c.Rule("C08/R2", "exclusions are read late: the parser's excluded-key sets are consulted inside the projection closures (through the parser), and the full-name extractor is built lazily inside the closure under a nil guard, so the result does not depend on the order in which projections were parsed")
	c.Rule("C08/R3", "residue: each group (.config, .fullname) is added to the residue exactly when its have-flag is unset, and the flag is set on the path that projects the group")
	c.Rule("C08/R4", "per-measurement projection: between two interning calls only the .unit slot of the row is written")
	c.Rule("C08/R5", "field growth: the field count and the row buffer grow together, and adding a field resets the flattened-field cache")
	c.Rule("C08/R6", "sub-name key patterns (lookup prefix and exclusion patterns) are the key followed by '=', so a key never matches a longer key it is a prefix of")
	c.Rule("C08/R7", "a key returns for each field the value at that field's index, or the empty string when the row was trimmed before it")
	c.Rule("C08/R8", "what a projection remembers about a key depends on the key alone: every per-projection cache filled while projecting (the .config key-to-field table) is keyed by every per-result input of the cached decision — whether a key belongs to .config is a property of the result (file vs internal configuration), so it must not be cached per key")

	c.Rule("C08/R11", "extractors keep no state between results: no closure built by the extractor constructors writes memory it captured (a remembered 'last name' aliases the reader's reused line buffer, so a later benchmark gets an earlier one's key)")
	c.Rule("C08/R12", "the name is returned unchanged only when nothing is to be left out: every path on which the excluding .fullname extractor returns the full name as it is has established that either GOMAXPROCS is not excluded or the name carries no '-' (the -N suffix has no '/', so a test for '/' alone cannot stand in for it)")
	c.Rule("C08/R19", "a set of fields is not kept in one machine word: no left shift in benchproc is by a loop index that the code does not bound")
	c.Rule("C08/R18", "what a key shows depends on how it is asked: every one-slot cache in benchproc (a field holding the last computed value) is reused only when every input of the computation that is known at the test takes part in the test")
	c.Rule("C08/R17", "two rows are one key only if every value agrees: keyNode.equalRow compares the stored values with the row's element by element (the hash alone does not decide)")
	c.Rule("C08/R16", "a sub-name field holds what the name says: the lookup scans the parts in order and takes the text after the prefix of the first part that has it; the -N form is consulted only for /gomaxprocs, only on the last part, and only behind its dash (same rule as C05/R4)")
	c.Rule("C08/R15", "values enter keys verbatim: every argument of Projection.intern in the projection functions is an extractor's result or a configuration entry's Value, never a function of it")
	c.Rule("C08/R14", "exclusions only grow: nothing deletes from the parser's set of claimed configuration keys or stores anything but true into it, and the list of claimed name keys is only ever appended to")
	c.Rule("C08/R13", "every projection starts from an empty row: before the projection functions run, the whole row buffer is reset (a loop storing \"\" into every element, or clear), so a field no function assigns for this result reads as missing rather than as the previous result's value")
	c.Rule("C08/R10", "trimmed values are read with care: only the reviewed accessors (Key.Get, Key.string, keyNode.equalRow) index a key's stored values, everything else reads through Key.Get; where a walk over fields meets a field beyond the stored values it skips that field and continues")
	c.Rule("C08/R9", "keys see every field: the flattened-field cache that Key.String, StringValues and the residue rely on is rebuilt whenever a field is added (same rule as C09/R10: builder leaves non-nil, reset guarded by != nil)")
	p := mustLoad(c, loadOpts{}, "./benchproc", "./benchproc/internal/parse", "./benchfmt")
	c08Memo(c, p)
	c08Intern(c, p)
	c08Late(c, p)
	c08Residue(c, p)
	c08Values(c, p)
	c08Growth(c, p)
	c08Patterns(c, p)
	c08Get(c, p)
	c09FlatInvariant(c, p, "C08/R9")
	c08ValueAccess(c, p)
	// R11: the extractor constructors: functions of benchproc that return an extractor
	ctors := extractorCtors(p)
	var ctorsOld []*ssa.Function
	_ = ctorsOld
	extT := p.Named("benchproc", "extractor")
	for _, fn := range p.Funcs("benchproc") {
		if fn.Parent() != nil || extT == nil {
			continue
		}
		res := fn.Signature.Results()
		for i := 0; i < res.Len(); i++ {
			if types.Identical(res.At(i).Type(), extT) {
				ctorsOld = append(ctorsOld, fn)
				break
			}
		}
	}
	c08Untransformed(c, p)
	c08RowReset(c, p)
	c08ExclusionsGrow(c, p)
	c08Verbatim(c, p)
	c05Lookup(c, p, "C08/R16")
	c08EqualRowCompares(c, p)
	slotMemoRule(c, p, "C08/R18", true, "benchproc")
	c08NoWordSizedSets(c, p)
	closuresKeepNoState(c, p, "C08/R11", ctors, 2, "an extractor writes memory it captured (at %s): whatever it remembers of one result — the name it last saw is a view into the reader's reused line buffer — is stale or overwritten when the next result arrives, so a different benchmark can be given the previous one's key")
}

func c08Intern(c *Ctx, p *Prog) {
	const R = "C08/R1"
	keysF := p.Field("benchproc", "Projection", "keys")
	rowF := p.Field("benchproc", "Projection", "row")
	valsF := p.Field("benchproc", "keyNode", "vals")
	if keysF == nil || rowF == nil || valsF == nil {
		c.Undecided(R, "anchor:Projection.keys/row, keyNode.vals", "", "fields not found")
		return
	}
	// the interning function: updates Projection.keys
	var fn *ssa.Function
	for _, f := range p.Funcs("benchproc") {
		eachInstr(f, func(_ *ssa.BasicBlock, in ssa.Instruction) {
			if mu, ok := in.(*ssa.MapUpdate); ok {
				if fl, _ := loadOfField(mu.Map); fl == keysF {
					fn = f
				}
			}
		})
	}
	if fn == nil {
		c.Undecided(R, "anchor:interning function", "", "no function updates Projection.keys")
		return
	}
	site := p.pos(fn.Pos())
	// (a) the hashed sequence: the slice ranged over in the loop that calls WriteString
	var hashed, compared, copied ssa.Value
	for _, lp := range naturalLoops(fn) {
		hasWrite := false
		var ranged ssa.Value
		for b := range lp.Blocks {
			for _, in := range b.Instrs {
				if call, ok := in.(*ssa.Call); ok {
					if co := calleeObj(&call.Call); co != nil && co.Pkg() != nil && co.Pkg().Path() == "hash/maphash" && strings.HasPrefix(co.Name(), "Write") {
						hasWrite = true
					}
				}
				if ia, ok := in.(*ssa.IndexAddr); ok && isStringSlice(ia.X.Type()) {
					ranged = ia.X
				}
			}
		}
		if hasWrite {
			hashed = ranged
		}
	}
	// the hashing may live in a helper of the package that ranges over its slice parameter: the hashed row is the argument
	hashHelper := func(h *ssa.Function) int {
		if h == nil || h.Blocks == nil || h.Pkg == nil || h.Pkg.Pkg.Path() != bprocPkg {
			return -1
		}
		for _, lp := range naturalLoops(h) {
			hasWrite := false
			var ranged ssa.Value
			for b := range lp.Blocks {
				for _, in := range b.Instrs {
					if call, ok := in.(*ssa.Call); ok {
						if co := calleeObj(&call.Call); co != nil && co.Pkg() != nil && co.Pkg().Path() == "hash/maphash" && strings.HasPrefix(co.Name(), "Write") {
							hasWrite = true
						}
					}
					if ia, ok := in.(*ssa.IndexAddr); ok && isStringSlice(ia.X.Type()) {
						ranged = ia.X
					}
				}
			}
			if hasWrite {
				for i, prm := range h.Params {
					if ranged == prm {
						return i
					}
				}
			}
		}
		return -1
	}
	if hashed == nil {
		eachInstr(fn, func(_ *ssa.BasicBlock, in ssa.Instruction) {
			if call, ok := in.(*ssa.Call); ok {
				if i := hashHelper(call.Call.StaticCallee()); i >= 0 {
					hashed = callArgs(&call.Call)[i]
				}
			}
		})
	}
	// a captured variable is one value: loads of the same slot (in the function or, through the binding, in a closure)
	// stand for it
	rep := func(v ssa.Value, in *ssa.Function, mc *ssa.MakeClosure) ssa.Value {
		if la := loadAddr(v); la != nil {
			if fv, ok := la.(*ssa.FreeVar); ok && mc != nil {
				for i, f := range in.FreeVars {
					if f == fv {
						return mc.Bindings[i]
					}
				}
			}
			if al, ok := la.(*ssa.Alloc); ok {
				return al
			}
		}
		return v
	}
	var predicate *ssa.MakeClosure // a closure that compares a candidate with the row (handed to slices.IndexFunc)
	eachInstr(fn, func(_ *ssa.BasicBlock, in ssa.Instruction) {
		call, ok := in.(*ssa.Call)
		if !ok {
			return
		}
		if sc := call.Call.StaticCallee(); sc != nil && sc.Signature.Recv() != nil && recvName(sc.Signature.Recv().Type()) == "keyNode" && len(call.Call.Args) == 2 && isStringSlice(call.Call.Args[1].Type()) {
			compared = rep(call.Call.Args[1], fn, nil)
		}
	})
	if compared == nil {
		eachInstr(fn, func(_ *ssa.BasicBlock, in ssa.Instruction) {
			mc, ok := in.(*ssa.MakeClosure)
			if !ok {
				return
			}
			cl := mc.Fn.(*ssa.Function)
			eachInstr(cl, func(_ *ssa.BasicBlock, in2 ssa.Instruction) {
				call, ok := in2.(*ssa.Call)
				if !ok {
					return
				}
				if sc := call.Call.StaticCallee(); sc != nil && sc.Signature.Recv() != nil && recvName(sc.Signature.Recv().Type()) == "keyNode" && len(call.Call.Args) == 2 && isStringSlice(call.Call.Args[1].Type()) {
					compared = rep(call.Call.Args[1], cl, mc)
					predicate = mc
				}
			})
		})
	}
	if hashed != nil {
		hashed = rep(hashed, fn, nil)
	}
	var copyFresh bool
	for _, st := range storesToField(fn, valsF) {
		if call, ok := st.Val.(*ssa.Call); ok {
			if b, ok := call.Call.Value.(*ssa.Builtin); ok && b.Name() == "append" && len(call.Call.Args) == 2 {
				copied = rep(call.Call.Args[1], fn, nil)
				if k, ok := call.Call.Args[0].(*ssa.Const); ok && k.IsNil() {
					copyFresh = true
				}
			}
		} else {
			copied = rep(st.Val, fn, nil)
		}
	}
	if hashed == nil || compared == nil || copied == nil {
		c.Undecided(R, "intern:shape", site, fmt.Sprintf("hash/compare/copy sites not all recognised (hashed %v, compared %v, copied %v)", hashed != nil, compared != nil, copied != nil))
		return
	}
	c.Check(hashed == compared && compared == copied, R, "intern:one-row", site, "hash, comparison and stored copy all use the same row value",
		fmt.Sprintf("the row that is hashed (%s), the row compared with existing keys (%s) and the row stored in a new key (%s) are not one and the same: a tuple interned before the field set grew gets a second node afterwards, so equal tuples yield unequal keys", hashed.Name(), compared.Name(), copied.Name()))
	c.Check(copyFresh, R, "intern:fresh-copy", site, "the key node stores a fresh copy of the row", "the key node keeps the reusable row buffer (or a view of it): later projections overwrite the values of existing keys")
	// (b) the row is the trimmed one: a phi of the trimming loop, derived from Projection.row
	trimmed := false
	if phi, ok := hashed.(*ssa.Phi); ok {
		trimmed = c08ResliceTrim(fn, phi)
	}
	// or one reslice after counting down: n := len(buf); for n > 0 && buf[n-1] == "" { n-- }; row := buf[:n]
	if sl, ok := hashed.(*ssa.Slice); ok && sl.Low == nil && sl.High != nil && sl.Max == nil {
		trimmed = c08CountDownTrim(fn, sl)
	}
	// a captured row variable: trimmed in place by row = row[:len(row)-1]
	if al, ok := hashed.(*ssa.Alloc); ok {
		for _, r := range *al.Referrers() {
			if st, ok := r.(*ssa.Store); ok && st.Addr == al {
				if sl, ok := st.Val.(*ssa.Slice); ok && sl.Low == nil && sl.High != nil && loadAddr(sl.X) == ssa.Value(al) {
					trimmed = true
				}
			}
		}
	}
	// or the result of a trimming helper of the package: every return is a prefix of its slice parameter, and the
	// helper compares elements with ""
	if call, ok := hashed.(*ssa.Call); ok {
		if h := call.Call.StaticCallee(); h != nil && h.Blocks != nil && h.Pkg != nil && h.Pkg.Pkg.Path() == bprocPkg && len(h.Params) == 1 {
			prefix, cmpEmpty := true, false
			for _, b := range h.Blocks {
				if ret, ok := b.Instrs[len(b.Instrs)-1].(*ssa.Return); ok {
					sl, isSl := retVal(ret, 0).(*ssa.Slice)
					if !isSl || sl.Low != nil {
						if retVal(ret, 0) != h.Params[0] {
							prefix = false
						}
						continue
					}
					base := sl.X
					for d := 0; d < 4; d++ {
						if ph, ok := base.(*ssa.Phi); ok {
							base = ph.Edges[0]
							continue
						}
						if s2, ok := base.(*ssa.Slice); ok {
							base = s2.X
							continue
						}
						break
					}
					if base != h.Params[0] {
						prefix = false
					}
				}
			}
			eachInstr(h, func(_ *ssa.BasicBlock, in ssa.Instruction) {
				if bo, ok := in.(*ssa.BinOp); ok && (bo.Op == token.EQL || bo.Op == token.NEQ) {
					if s, ok := constString(bo.Y); ok && s == "" {
						cmpEmpty = true
					}
				}
			})
			if prefix && cmpEmpty {
				trimmed = true
			}
			// or the helper holds one of the two trimming loops over its parameter
			if !trimmed {
				all, any := true, false
				for _, b := range h.Blocks {
					ret, ok := b.Instrs[len(b.Instrs)-1].(*ssa.Return)
					if !ok {
						continue
					}
					any = true
					switch x := retVal(ret, 0).(type) {
					case *ssa.Phi:
						fromParam := false
						for _, e := range x.Edges {
							if e == ssa.Value(h.Params[0]) {
								fromParam = true
							}
						}
						if !fromParam || !c08ResliceTrim(h, x) {
							all = false
						}
					case *ssa.Slice:
						if x.X != ssa.Value(h.Params[0]) || !c08CountDownTrim(h, x) {
							all = false
						}
					default:
						all = false
					}
				}
				trimmed = any && all
			}
		}
	}
	c.Check(trimmed, R, "intern:trimmed", site, "the row is trimmed of trailing empty values before hashing", "the interned row is not the one with trailing empty values removed: keys from before and after the field set grew differ")
	// (c) chain append
	okChain := false
	eachInstr(fn, func(_ *ssa.BasicBlock, in ssa.Instruction) {
		mu, ok := in.(*ssa.MapUpdate)
		if !ok {
			return
		}
		if fl, _ := loadOfField(mu.Map); fl != keysF {
			return
		}
		if call, ok := mu.Value.(*ssa.Call); ok {
			if b, ok := call.Call.Value.(*ssa.Builtin); ok && b.Name() == "append" {
				if lk, ok := call.Call.Args[0].(*ssa.Lookup); ok && (lk.Index == mu.Key || sameValue(lk.Index, mu.Key)) {
					okChain = true
				}
			}
		}
	})
	c.Check(okChain, R, "intern:collision-chain", site, "a new node is appended to the candidates stored under its hash", "storing a new key replaces the candidates already stored under the same hash: after a collision the earlier tuple gets a fresh node on its next projection, so equal tuples yield unequal keys")
	// (d) every candidate is compared: the lookup result is iterated and a match returns that node
	okCmp := false
	for _, b := range fn.Blocks {
		if ret, ok := b.Instrs[len(b.Instrs)-1].(*ssa.Return); ok {
			for _, f := range factsAt(b) {
				if call, ok := f.Cond.(*ssa.Call); ok && f.True && len(call.Call.Args) == 2 && rep(call.Call.Args[1], fn, nil) == compared {
					_ = ret
					okCmp = true
				}
				// i := slices.IndexFunc(candidates, sameRow); i >= 0
				if bo, ok := f.Cond.(*ssa.BinOp); ok && predicate != nil {
					if call, ok := bo.X.(*ssa.Call); ok && len(call.Call.Args) == 2 && stripConv(call.Call.Args[1]) == ssa.Value(predicate) {
						if k, ok := constInt(bo.Y); ok && ((bo.Op == token.GEQ && k == 0 && f.True) || (bo.Op == token.LSS && k == 0 && !f.True) || (bo.Op == token.GTR && k == -1 && f.True)) {
							okCmp = true
						}
					}
				}
			}
		}
	}
	c.Check(okCmp, R, "intern:match-returns-existing", site, "an existing node with an equal row is returned", "an equal existing row does not lead to returning the existing key")
}

func c08Late(c *Ctx, p *Prog) {
	const R = "C08/R2"
	cfgKeysF := p.Field("benchproc", "ProjectionParser", "configKeys")
	fullKeysF := p.Field("benchproc", "ProjectionParser", "fullnameKeys")
	fullExtF := p.Field("benchproc", "ProjectionParser", "fullExtractor")
	if cfgKeysF == nil || fullKeysF == nil || fullExtF == nil {
		c.Undecided(R, "anchor:ProjectionParser fields", "", "exclusion sets not found")
		return
	}
	nLook, nBuild := 0, 0
	for _, fn := range p.Funcs("benchproc") {
		eachInstr(fn, func(b *ssa.BasicBlock, in ssa.Instruction) {
			switch x := in.(type) {
			case *ssa.Lookup:
				if f, _ := loadOfField(x.X); f == cfgKeysF {
					nLook++
					c.Check(fn.Parent() != nil || calledOnlyFrom(fn, p.Funcs("benchproc"), func(g *ssa.Function) bool { return g.Parent() != nil }), R, fmt.Sprintf("%s:reads configKeys#%d", fnName(fn), nLook), p.pos(x.Pos()), "the excluded file keys are consulted while projecting, inside the closure",
						"the excluded file keys are consulted at parse time: keys named by projections parsed later are not excluded from .config, so the result depends on the order of Parse calls")
				}
			case *ssa.Call:
				// uses of fullnameKeys as an argument of a function (not the builtin append that grows the list)
				if _, isB := x.Call.Value.(*ssa.Builtin); isB {
					return
				}
				for _, a := range x.Call.Args {
					if f, _ := loadOfField(a); f == fullKeysF {
						nBuild++
						guarded := false
						for _, ft := range factsAt(b) {
							if bo, ok := ft.Cond.(*ssa.BinOp); ok && bo.Op == token.EQL && ft.True {
								if lf, _ := loadOfField(bo.X); lf == fullExtF {
									guarded = true
								}
							}
						}
						// at projection time: in a closure, or in a function reached only from closures
						late := fn.Parent() != nil || calledOnlyFrom(fn, p.Funcs("benchproc"), func(g *ssa.Function) bool { return g.Parent() != nil })
						c.Check(late && guarded, R, fmt.Sprintf("%s:builds full-name extractor#%d", fnName(fn), nBuild), p.pos(x.Pos()), "the full-name extractor is built on first use, inside the closure, under a nil guard",
							"the full-name extractor is built at parse time (or rebuilt without a guard): sub-name keys named by projections parsed later are not removed from .fullname, so the result depends on the order of Parse calls")
					}
				}
			}
		})
	}
	c.Floor(R, "reads of the excluded file keys", nLook, 1)
	c.Floor(R, "constructions of the full-name extractor", nBuild, 1)
	// the closure reaches the sets through the parser pointer (captured receiver), not through a snapshot
	for _, fn := range p.Funcs("benchproc") {
		if fn.Parent() == nil {
			continue
		}
		eachInstr(fn, func(_ *ssa.BasicBlock, in ssa.Instruction) {
			if fa, ok := in.(*ssa.FieldAddr); ok {
				if f, _ := fieldOfAddr(fa); f == cfgKeysF || f == fullKeysF {
					okRoot := false
					for _, r := range rootsOf(fa.X) {
						if r.Kind == rkFree {
							okRoot = true
						}
					}
					c.Check(okRoot, R, fnName(fn)+":via-parser:"+f.Name(), p.pos(fa.Pos()), "read through the captured parser", "the exclusion set is not read through the parser")
				}
			}
		})
	}
}

func c08Residue(c *Ctx, p *Prog) {
	const R = "C08/R3"
	fn := p.Method("benchproc", "ProjectionParser", "Residue")
	mk := p.Method("benchproc", "ProjectionParser", "makeProjection")
	haveC := p.Field("benchproc", "ProjectionParser", "haveConfig")
	haveF := p.Field("benchproc", "ProjectionParser", "haveFullname")
	keyF := p.Field("benchproc/internal/parse", "Field", "Key")
	if fn == nil || mk == nil || haveC == nil || haveF == nil || keyF == nil {
		c.Undecided(R, "anchor:Residue/makeProjection", "", "not found")
		return
	}
	want := map[string]*types.Var{".config": haveC, ".fullname": haveF}
	seen := map[string]bool{}
	eachInstr(fn, func(b *ssa.BasicBlock, in ssa.Instruction) {
		call, ok := in.(*ssa.Call)
		if !ok {
			return
		}
		// the Field literal's Key
		var key string
		keyOf := func(mkCall *ssa.Call) ssa.Value {
			var kv ssa.Value
			for _, a := range mkCall.Call.Args {
				if la := loadAddr(a); la != nil {
					if al, ok := la.(*ssa.Alloc); ok {
						for _, st := range storesToFieldOf(al, keyF) {
							kv = st.Val
						}
					}
				}
			}
			return kv
		}
		switch h := call.Call.StaticCallee(); {
		case h == mk:
			if kv := keyOf(call); kv != nil {
				key, _ = constString(kv)
			}
		case h != nil && h.Pkg == fn.Pkg && h.Blocks != nil:
			// a helper that makes the group whose key it is handed (addResidueGroup(s, ".config"))
			found := false
			eachInstr(h, func(_ *ssa.BasicBlock, in2 ssa.Instruction) {
				c2, ok := in2.(*ssa.Call)
				if !ok || c2.Call.StaticCallee() != mk {
					return
				}
				kv := keyOf(c2)
				for i, prm := range h.Params {
					if kv == ssa.Value(prm) && i < len(call.Call.Args) {
						key, _ = constString(call.Call.Args[i])
						found = true
					}
				}
			})
			if !found {
				return
			}
		default:
			return
		}
		flag := want[key]
		if flag == nil {
			c.Undecided(R, "Residue:group "+key, p.pos(call.Pos()), "residue adds an unexpected group")
			return
		}
		seen[key] = true
		guarded := false
		for _, ft := range factsAt(b) {
			if lf, _ := loadOfField(ft.Cond); lf == flag && !ft.True {
				guarded = true
			}
		}
		c.Check(guarded, R, "Residue:adds "+key+" iff not projected", p.pos(call.Pos()), key+" joins the residue exactly when no projection used it",
			key+" is added to the residue regardless of (or against) its have-flag: keys are reported as varying although they were projected, or differences go unreported")
	})
	for k := range want {
		if !seen[k] {
			c.Bad(R, "Residue:adds "+k+" iff not projected", p.pos(fn.Pos()), "the residue never contains "+k+": results differing only there are merged silently")
		}
	}
	// flags set where the group is projected
	facts := constFacts(mk, func(v ssa.Value) bool { f, _ := loadOfField(v); return f == keyF })
	for key, flag := range want {
		ok := false
		for _, st := range storesToField(mk, flag) {
			fs := facts[st.Block()]
			if !fs.Top && !fs.Bot && len(fs.In) == 1 && fs.In[key] {
				if k, isK := st.Val.(*ssa.Const); isK && k.Value != nil && k.Value.String() == "true" {
					ok = true
				}
			}
		}
		c.Check(ok, R, "makeProjection:sets flag for "+key, p.pos(mk.Pos()), "the have-flag is set on the path that projects "+key, "projecting "+key+" does not set its have-flag: the residue duplicates the group")
	}
}

// storesToFieldOf: stores into field f of the object at alloc al.
func storesToFieldOf(al *ssa.Alloc, f *types.Var) []*ssa.Store {
	var out []*ssa.Store
	for _, r := range *al.Referrers() {
		if fa, ok := r.(*ssa.FieldAddr); ok {
			if ff, _ := fieldOfAddr(fa); ff == f {
				for _, r2 := range *fa.Referrers() {
					if st, ok := r2.(*ssa.Store); ok {
						out = append(out, st)
					}
				}
			}
		}
	}
	return out
}

func c08Values(c *Ctx, p *Prog) {
	const R = "C08/R4"
	fn := p.Method("benchproc", "Projection", "ProjectValues")
	rowF := p.Field("benchproc", "Projection", "row")
	unitF := p.Field("benchproc", "Projection", "unitField")
	idxF := p.Field("benchproc", "Field", "idx")
	vUnitF := p.Field("benchfmt", "Value", "Unit")
	if fn == nil || rowF == nil || unitF == nil || idxF == nil {
		c.Undecided(R, "anchor:ProjectValues", "", "not found")
		return
	}
	n := 0
	for _, lp := range naturalLoops(fn) {
		// loops that call the interning function
		interns := false
		for b := range lp.Blocks {
			for _, in := range b.Instrs {
				if call, ok := in.(*ssa.Call); ok {
					if sc := call.Call.StaticCallee(); sc != nil && sc.Signature.Recv() != nil && sc.Signature.Params().Len() == 0 && sc.Signature.Results().Len() == 1 && recvName(sc.Signature.Results().At(0).Type()) == "Key" {
						interns = true
					}
				}
			}
		}
		if !interns {
			continue
		}
		for b := range lp.Blocks {
			for _, in := range b.Instrs {
				st, ok := in.(*ssa.Store)
				if !ok {
					continue
				}
				if al, isAl := st.Addr.(*ssa.Alloc); isAl && !al.Heap {
					continue
				}
				ia, ok := st.Addr.(*ssa.IndexAddr)
				if !ok {
					continue
				}
				if f, _ := loadOfField(ia.X); f != rowF {
					continue // stores into the output slice etc.
				}
				n++
				okIdx := false
				if f, base := loadOfField(ia.Index); f == idxF {
					if uf, _ := loadOfField(base); uf == unitF {
						okIdx = true
					}
				}
				vf, _ := loadOfField(st.Val)
				c.Check(okIdx && vf == vUnitF, R, fmt.Sprintf("ProjectValues:row-write#%d", n), p.pos(st.Pos()), "only the .unit slot is rewritten, with the measurement's unit",
					"between two interning calls a row slot other than .unit is written (or .unit gets something other than the measurement's unit): keys of different measurements differ in more than the unit")
			}
		}
	}
	c.Floor(R, "row writes in the per-measurement loop", n, 1)
}

func c08Growth(c *Ctx, p *Prog) {
	const R = "C08/R5"
	nF := p.Field("benchproc", "Projection", "nFields")
	rowF := p.Field("benchproc", "Projection", "row")
	flatF := p.Field("benchproc", "Projection", "flatCache")
	n := 0
	for _, fn := range p.Funcs("benchproc") {
		if len(storesToField(fn, nF)) == 0 {
			continue
		}
		n++
		grows := false
		for _, st := range storesToField(fn, rowF) {
			if call, ok := st.Val.(*ssa.Call); ok {
				if b, ok := call.Call.Value.(*ssa.Builtin); ok && b.Name() == "append" {
					grows = true
				}
			}
		}
		resets := false
		// in the function itself, or in a method of the projection it calls on every path (a helper that discards
		// the cache)
		resetIn := func(g *ssa.Function) bool {
			for _, st := range storesToField(g, flatF) {
				if k, ok := st.Val.(*ssa.Const); ok && k.IsNil() {
					return true
				}
			}
			return false
		}
		resets = resetIn(fn)
		if !resets {
			eachInstr(fn, func(b *ssa.BasicBlock, in ssa.Instruction) {
				call, ok := in.(*ssa.Call)
				if !ok {
					return
				}
				sc := call.Call.StaticCallee()
				if sc == nil || sc.Blocks == nil || sc.Pkg != fn.Pkg || !resetIn(sc) {
					return
				}
				// the call is unconditional: its block lies on every path to a return
				all := true
				for _, rb := range fn.Blocks {
					if _, isRet := rb.Instrs[len(rb.Instrs)-1].(*ssa.Return); isRet && !(b == rb || b.Dominates(rb)) {
						all = false
					}
				}
				if all {
					resets = true
				}
			})
		}
		c.Check(grows && resets, R, fnName(fn)+":grows-together", p.pos(fn.Pos()), "field count, row buffer and flattened-field cache are updated together",
			fmt.Sprintf("adding a field does not keep the row buffer and the flattened-field cache in step (row grows: %v, cache reset: %v): later rows index past the buffer or comparisons walk a stale field list", grows, resets))
	}
	c.Floor(R, "functions assigning field indexes", n, 1)
}

func c08Patterns(c *Ctx, p *Prog) {
	const R = "C08/R6"
	n := 0
	for _, name := range []string{"newExtractor", "newExtractorFullName"} {
		fn := p.Fn("benchproc", name)
		if fn == nil {
			c.Undecided(R, "anchor:"+name, "", "function not found")
			continue
		}
		// a '=' byte is appended / stored into the pattern built from the key
		hasEq := storesEquals(fn, 0)
		n++
		c.Check(hasEq, R, name+":pattern-ends-with-equals", p.pos(fn.Pos()), "the sub-name pattern is key + '='", "the sub-name pattern is the bare key without '=': key /size also matches /sizeclass=..., so excluding or extracting one key affects another")
	}
	c.Floor(R, "sub-name pattern builders", n, 2)
}

func c08Get(c *Ctx, p *Prog) {
	const R = "C08/R7"
	fn := p.Method("benchproc", "Key", "Get")
	idxF := p.Field("benchproc", "Field", "idx")
	valsF := p.Field("benchproc", "keyNode", "vals")
	if fn == nil || idxF == nil || valsF == nil {
		c.Undecided(R, "anchor:Key.Get", "", "not found")
		return
	}
	okIdx, okEmpty := false, false
	safe := c08SafeAt(p)
	for _, b := range fn.Blocks {
		ret, ok := b.Instrs[len(b.Instrs)-1].(*ssa.Return)
		if !ok {
			continue
		}
		v := retVal(ret, 0)
		// through a bounds-checked accessor of the package: at(vals, field.idx)
		if call, ok := v.(*ssa.Call); ok && safe[call.Call.StaticCallee()] && len(call.Call.Args) == 2 {
			vf, _ := loadOfField(call.Call.Args[0])
			lf, _ := loadOfField(call.Call.Args[1])
			if vf == valsF && lf == idxF {
				okIdx, okEmpty = true, true
			}
		}
		if s, isC := constString(v); isC && s == "" {
			for _, f := range factsAt(b) {
				if bo, ok := f.Cond.(*ssa.BinOp); ok && ((bo.Op == token.GEQ && f.True) || (bo.Op == token.LSS && !f.True)) {
					if lf, _ := loadOfField(bo.X); lf == idxF {
						okEmpty = true
					}
				}
			}
		}
		if la := loadAddr(v); la != nil {
			if ia, ok := la.(*ssa.IndexAddr); ok {
				if vf, _ := loadOfField(ia.X); vf == valsF {
					if lf, _ := loadOfField(ia.Index); lf == idxF {
						okIdx = true
					}
				}
			}
		}
	}
	c.Check(okIdx && okEmpty, R, "Key.Get", p.pos(fn.Pos()), "returns vals[field.idx], or \"\" when the row was trimmed before that index", "Key.Get does not return the value at the field's index (with \"\" for trimmed rows)")
}

func c08Memo(c *Ctx, p *Prog) {
	const R = "C08/R8"
	mp := p.Method("benchproc", "ProjectionParser", "makeProjection")
	if mp == nil {
		c.Undecided(R, "anchor:makeProjection", "", "not found")
		return
	}
	var fns []*ssa.Function
	var addAnon func(f *ssa.Function)
	addAnon = func(f *ssa.Function) {
		fns = append(fns, f)
		for _, a := range f.AnonFuncs {
			addAnon(a)
		}
	}
	addAnon(mp)
	n := checkMemoSites(c, p, R, findMemoSites(fns), nil)
	c.Floor(R, "cache stores in the projection closures", n, 1)
}

// c08ValueAccess: a key's value slice is trimmed, so every reader must handle "field beyond the stored values".
// (a) Only the reviewed accessors index keyNode.vals directly; everything else goes through Key.Get, which supplies ""
// for a trimmed field. (b) Where an accessor walks several fields and skips one that lies beyond the stored values,
// the skip continues with the next field: flattened order is not index order, so leaving the loop drops fields.
func c08ValueAccess(c *Ctx, p *Prog) {
	const R = "C08/R10"
	valsF := p.Field("benchproc", "keyNode", "vals")
	idxF := p.Field("benchproc", "Field", "idx")
	if valsF == nil || idxF == nil {
		c.Undecided(R, "anchor:keyNode.vals", "", "field not found")
		return
	}
	allowed := map[string]string{
		"(benchproc.Key).Get":           "the accessor itself: returns \"\" beyond the stored values (C08/R7)",
		"(benchproc.Key).string":        "prints each field; skipping a trimmed field per field is checked below",
		"(*benchproc.keyNode).equalRow": "compares the stored values with a row of the same (trimmed) length",
	}
	n := 0
	safe := c08SafeAt(p)
	for _, fn := range p.Funcs("benchproc") {
		eachInstr(fn, func(b *ssa.BasicBlock, in ssa.Instruction) {
			if call, ok := in.(*ssa.Call); ok && safe[call.Call.StaticCallee()] && len(call.Call.Args) == 2 {
				if f, _ := loadOfField(call.Call.Args[0]); f == valsF {
					n++
					c.OK(R, fmt.Sprintf("%s:reads-vals-through-%s#%d", fnName(fn), call.Call.StaticCallee().Name(), n), p.pos(call.Pos()), "read through a bounds-checked accessor that supplies \"\" beyond the stored values")
				}
				return
			}
			ia, ok := in.(*ssa.IndexAddr)
			if !ok {
				return
			}
			if f, _ := loadOfField(ia.X); f != valsF {
				return
			}
			n++
			name := fnName(fn)
			if why, ok := allowed[name]; ok {
				c.Allow(R, name, why)
				c.OK(R, fmt.Sprintf("%s:indexes-vals#%d", name, n), p.pos(ia.Pos()), "reviewed accessor")
				return
			}
			c.Bad(R, fmt.Sprintf("%s:indexes-vals#%d", name, n), p.pos(ia.Pos()), "a key's stored values are indexed directly outside the reviewed accessors: the values are trimmed of trailing empty strings, so a field added after the key was interned lies beyond them; code that skips such a key instead of reading \"\" (as Key.Get does) treats 'missing' differently from 'empty' — e.g. residue keys that differ only by a missing trailing configuration key are no longer reported")
		})
		// (b) per-field skip
		for _, lp := range naturalLoops(fn) {
			for blk := range lp.Blocks {
				ifi, ok := blk.Instrs[len(blk.Instrs)-1].(*ssa.If)
				if !ok {
					continue
				}
				bo, ok := ifi.Cond.(*ssa.BinOp)
				if !ok {
					continue
				}
				// field.idx >= len(vals)  (or its mirror images)
				isIdx := func(v ssa.Value) bool { f, _ := loadOfField(v); return f == idxF }
				isLen := func(v ssa.Value) bool {
					call, ok := v.(*ssa.Call)
					if !ok {
						return false
					}
					bi, ok := call.Call.Value.(*ssa.Builtin)
					if !ok || bi.Name() != "len" {
						return false
					}
					f, _ := loadOfField(call.Call.Args[0])
					return f == valsF
				}
				var missingEdge int = -1
				switch {
				case isIdx(bo.X) && isLen(bo.Y) && bo.Op == token.GEQ, isLen(bo.X) && isIdx(bo.Y) && bo.Op == token.LEQ:
					missingEdge = 0
				case isIdx(bo.X) && isLen(bo.Y) && bo.Op == token.LSS, isLen(bo.X) && isIdx(bo.Y) && bo.Op == token.GTR:
					missingEdge = 1
				default:
					continue
				}
				tgt := blk.Succs[missingEdge]
				// follow jump-only blocks
				for len(tgt.Instrs) == 1 && lp.Blocks[tgt] && tgt != lp.Header {
					if _, isJ := tgt.Instrs[0].(*ssa.Jump); !isJ {
						break
					}
					tgt = tgt.Succs[0]
				}
				stays := lp.Blocks[tgt]
				c.Check(stays, R, fnName(fn)+":trimmed-field-skip", p.pos(ifi.Pos()), "a field beyond the stored values is skipped and the walk goes on",
					"when a field lies beyond the key's stored values the walk over the fields ends instead of going on to the next field: flattened field order is not index order (a .config sub-field discovered late has a higher index than .fullname after it), so the remaining fields are dropped from the key's printed form")
			}
		}
	}
	c.Floor(R, "direct reads of a key's stored values", n, 2)
}

// c08SafeAt: the bounds-checked element accessors of benchproc: func(vals []string, i int) string that returns vals[i] on
// exactly the paths where i < len(vals) is known and "" on all others.
func c08SafeAt(p *Prog) map[*ssa.Function]bool {
	out := map[*ssa.Function]bool{}
	for _, fn := range p.Funcs("benchproc") {
		if fn.Parent() != nil || fn.Signature.Recv() != nil || len(fn.Params) != 2 || fn.Signature.Results().Len() != 1 || !isString(fn.Signature.Results().At(0).Type()) {
			continue
		}
		sl, ok := fn.Params[0].Type().Underlying().(*types.Slice)
		if !ok || !isString(sl.Elem()) || !isInteger(fn.Params[1].Type()) || len(naturalLoops(fn)) > 0 {
			continue
		}
		good, nRet := true, 0
		for _, b := range fn.Blocks {
			ret, ok := b.Instrs[len(b.Instrs)-1].(*ssa.Return)
			if !ok {
				continue
			}
			nRet++
			v := retVal(ret, 0)
			if s, isC := constString(v); isC && s == "" {
				continue
			}
			okElem := false
			if la := loadAddr(v); la != nil {
				if ia, ok := la.(*ssa.IndexAddr); ok && ia.X == ssa.Value(fn.Params[0]) && ia.Index == ssa.Value(fn.Params[1]) {
					for _, f := range factsAt(b) {
						bo, ok := f.Cond.(*ssa.BinOp)
						if !ok {
							continue
						}
						isLen := func(v ssa.Value) bool {
							call, ok := v.(*ssa.Call)
							if !ok {
								return false
							}
							bi, ok := call.Call.Value.(*ssa.Builtin)
							return ok && bi.Name() == "len" && call.Call.Args[0] == ssa.Value(fn.Params[0])
						}
						i := ssa.Value(fn.Params[1])
						switch {
						case bo.X == i && isLen(bo.Y) && ((bo.Op == token.LSS && f.True) || (bo.Op == token.GEQ && !f.True)),
							isLen(bo.X) && bo.Y == i && ((bo.Op == token.GTR && f.True) || (bo.Op == token.LEQ && !f.True)):
							okElem = true
						}
					}
				}
			}
			if !okElem {
				good = false
			}
		}
		if good && nRet >= 2 {
			out[fn] = true
		}
	}
	return out
}

// c08Untransformed (C08/R12).
func c08Untransformed(c *Ctx, p *Prog) {
	const R = "C08/R12"
	// the excluding extractor: the benchproc function with a *Result parameter and two bool parameters
	var fn *ssa.Function
	for _, f := range p.Funcs("benchproc") {
		nb := 0
		for _, prm := range f.Params {
			if isBoolean(prm.Type()) {
				nb++
			}
		}
		if f.Parent() == nil && nb == 2 && len(callsIn(f, bfPkg, "Name", "Full")) > 0 && len(callsIn(f, bfPkg, "Name", "Parts")) > 0 {
			fn = f
		}
	}
	if fn == nil {
		c.Undecided(R, "anchor:excluding fullname extractor", "", "not found")
		return
	}
	site := p.pos(fn.Pos())
	var bools []string
	for _, prm := range fn.Params {
		if isBoolean(prm.Type()) {
			bools = append(bools, "param:"+prm.Name())
		}
	}
	// which of the two switches is the GOMAXPROCS one: the one tested next to a '-' test
	gmp := ""
	eachInstr(fn, func(b *ssa.BasicBlock, in ssa.Instruction) {
		bo, ok := in.(*ssa.BinOp)
		if !ok || bo.Op != token.EQL {
			return
		}
		if k, ok := constInt(bo.Y); !ok || k != '-' {
			return
		}
		for _, f := range factsAt(b) {
			if prm, ok := f.Cond.(*ssa.Parameter); ok && f.True && isBoolean(prm.Type()) {
				gmp = "param:" + prm.Name()
			}
		}
	})
	if gmp == "" && len(bools) == 2 {
		// the '-' test may sit in a helper: then the GOMAXPROCS switch is the one consulted next to the search for '-' in
		// the name (the pre-check), or the one handed to a helper that tests a byte against '-'
		eachInstr(fn, func(_ *ssa.BasicBlock, in ssa.Instruction) {
			call, ok := in.(*ssa.Call)
			if !ok {
				return
			}
			sc := call.Call.StaticCallee()
			if sc == nil || sc.Pkg != fn.Pkg || sc.Blocks == nil {
				return
			}
			dash := false
			eachInstr(sc, func(_ *ssa.BasicBlock, in2 ssa.Instruction) {
				if bo, ok := in2.(*ssa.BinOp); ok && bo.Op == token.EQL {
					if k, ok := constInt(bo.Y); ok && k == '-' {
						dash = true
					}
				}
			})
			if !dash {
				return
			}
			for _, a := range call.Call.Args {
				if prm, ok := a.(*ssa.Parameter); ok && isBoolean(prm.Type()) {
					gmp = "param:" + prm.Name()
				}
			}
		})
	}
	if gmp == "" || len(bools) != 2 {
		c.Undecided(R, "anchor:exclusion switches", site, "cannot tell the name switch from the GOMAXPROCS switch")
		return
	}
	nameSw := bools[0]
	if nameSw == gmp {
		nameSw = bools[1]
	}
	outs, why := regionOutcomes(fn, func() *e6Interp {
		return &e6Interp{PureCall: func(f *types.Func) bool { return true }, MaxAtoms: 16, OuterName: func(v ssa.Value) string {
			if call, ok := v.(*ssa.Call); ok && objIs(calleeObj(&call.Call), bfPkg, "Name", "Full") {
				return "the-full-name"
			}
			return v.Name()
		}}
	}, 2048)
	if why != "" {
		c.Undecided(R, "extractor:paths", site, why)
		return
	}
	// established(o, gmp): the path conditions of o say that GOMAXPROCS is kept or that the name has no '-'
	established := func(o *e6Outcome, gmpName string) (gmpOff, noDash bool) {
		for _, k := range o.AtomKeys() {
			v := o.Assign[k]
			s := o.AtomSyms[k]
			switch {
			case s.String() == gmpName && !v:
				gmpOff = true
			case s.Op == "binop" && strings.Contains(s.String(), "bytes.IndexByte") && strings.Contains(s.String(), ",45)") && len(s.Args) == 2:
				lhsIsCall := s.Args[0].Op == "call"
				switch {
				case lhsIsCall && s.Tok == token.GEQ && !v, lhsIsCall && s.Tok == token.LSS && v, !lhsIsCall && s.Tok == token.LEQ && !v, !lhsIsCall && s.Tok == token.GTR && v:
					noDash = true
				}
			}
		}
		return
	}
	// a predicate of the package deciding "nothing to do": all its false returns must establish the same
	predOK := func(g *ssa.Function, gmpIdx int) (bool, string) {
		if g == nil || g.Blocks == nil || gmpIdx < 0 || gmpIdx >= len(g.Params) {
			return false, "the predicate cannot be inspected"
		}
		gouts, why := regionOutcomes(g, func() *e6Interp {
			return &e6Interp{PureCall: func(f *types.Func) bool { return true }, MaxAtoms: 16}
		}, 2048)
		if why != "" {
			return false, why
		}
		nFalse := 0
		for _, o := range gouts {
			if o.Term != "return" || len(o.Results) != 1 {
				continue
			}
			res := o.Results[0]
			isFalse := res.isConst() && res.Const != nil && res.Const.Kind() == constant.Bool && !constant.BoolVal(res.Const)
			if res.isConst() && !isFalse {
				continue // returns true
			}
			nFalse++
			off, nd := established(o, "param:"+g.Params[gmpIdx].Name())
			if !isFalse {
				// a computed verdict: it may be false; that is fine when its being false means "no '-' in the name"
				if res.Op == "binop" && len(res.Args) == 2 && strings.Contains(res.String(), "bytes.IndexByte") && strings.Contains(res.String(), ",45)") {
					lhsIsCall := res.Args[0].Op == "call"
					if (lhsIsCall && res.Tok == token.GEQ) || (!lhsIsCall && res.Tok == token.LEQ) || (lhsIsCall && res.Tok == token.NEQ) {
						nd = true
					}
				}
				if res.String() == "param:"+g.Params[gmpIdx].Name() {
					off = true
				}
			}
			if !(off || nd) {
				return false, "a false return of " + g.Name() + " does not depend on the GOMAXPROCS switch or on a '-' in the name"
			}
		}
		return nFalse > 0, "no false return found in " + g.Name()
	}
	n := 0
	for _, o := range outs {
		if o.Term != "return" || len(o.Results) != 1 {
			continue
		}
		r := o.Results[0]
		if !(r.Op == "call" && strings.Contains(r.Name, ".Full")) && !strings.Contains(r.String(), "the-full-name") {
			continue
		}
		n++
		gmpOff, noDash := established(o, gmp)
		viaPred := false
		predWhy := ""
		if !(gmpOff || noDash) {
			for _, k := range o.AtomKeys() {
				s := o.AtomSyms[k]
				if s.Op != "call" || o.Assign[k] {
					continue
				}
				// which argument is the GOMAXPROCS switch
				gi := -1
				for ai, a := range s.Args {
					if a.String() == gmp {
						gi = ai
					}
				}
				if gi < 0 {
					continue
				}
				var g *ssa.Function
				for _, f := range p.Funcs("benchproc") {
					if f.Parent() == nil && strings.HasSuffix(strings.Split(s.Name, "@")[0], "."+f.Name()) && len(f.Params) == len(s.Args) {
						g = f
					}
				}
				viaPred, predWhy = predOK(g, gi)
			}
		}
		key := fmt.Sprintf("untransformed-return#%d", n)
		c.Check(gmpOff || noDash || viaPred, R, key, site, "returned unchanged only with no GOMAXPROCS suffix to drop", fmt.Sprintf("the full name is returned unchanged on a path that has not established that nothing is to be left out (GOMAXPROCS kept: %v, no '-' in the name: %v%s): with /gomaxprocs projected separately, Alloc-4 and Alloc-8 keep their suffix in .fullname and in the residue", gmpOff, noDash, map[bool]string{true: "; " + predWhy, false: ""}[predWhy != ""]))
	}
	c.Floor(R, "returns of the unchanged name", n, 1)
}

// c08RowReset (C08/R13).
func c08RowReset(c *Ctx, p *Prog) {
	const R = "C08/R13"
	rowF := p.Field("benchproc", "Projection", "row")
	projF := p.Field("benchproc", "Projection", "project")
	if rowF == nil || projF == nil {
		c.Undecided(R, "anchor:Projection.row/project", "", "fields not found")
		return
	}
	n := 0
	for _, fn := range p.Funcs("benchproc") {
		// the function that runs the projection functions: a dynamic call of an element of Projection.project
		var run *ssa.Call
		eachInstr(fn, func(_ *ssa.BasicBlock, in ssa.Instruction) {
			call, ok := in.(*ssa.Call)
			if !ok || call.Call.IsInvoke() || call.Call.StaticCallee() != nil {
				return
			}
			if ld, ok := call.Call.Value.(*ssa.UnOp); ok {
				if ia, ok := ld.X.(*ssa.IndexAddr); ok {
					if f, _ := loadOfField(ia.X); f == projF {
						run = call
					}
				}
			}
		})
		if run == nil {
			continue
		}
		n++
		// a reset of the whole row that every path to the first projection call passes: clear(row), or a loop whose body
		// stores "" into row[i] and whose header dominates the call
		reset := false
		eachInstr(fn, func(b *ssa.BasicBlock, in ssa.Instruction) {
			switch x := in.(type) {
			case *ssa.Call:
				if bi, ok := x.Call.Value.(*ssa.Builtin); ok && bi.Name() == "clear" {
					if f, _ := loadOfField(x.Call.Args[0]); f == rowF && (b == run.Block() || b.Dominates(run.Block())) {
						reset = true
					}
				}
			case *ssa.Store:
				s, ok := constString(x.Val)
				if !ok || s != "" {
					return
				}
				ia, ok := x.Addr.(*ssa.IndexAddr)
				if !ok {
					return
				}
				if f, _ := loadOfField(ia.X); f != rowF {
					return
				}
				for _, lp := range naturalLoops(fn) {
					if lp.Blocks[b] && !lp.Blocks[run.Block()] && lp.Header.Dominates(run.Block()) {
						// over the whole row: the loop's counter runs up to the length of the row buffer itself (not
						// of a prefix of it)
						if ifi, ok := lp.Header.Instrs[len(lp.Header.Instrs)-1].(*ssa.If); ok {
							if cmp, ok := ifi.Cond.(*ssa.BinOp); ok && cmp.Op == token.LSS {
								if lc, ok := cmp.Y.(*ssa.Call); ok {
									if bi, ok := lc.Call.Value.(*ssa.Builtin); ok && bi.Name() == "len" {
										if f, _ := loadOfField(lc.Call.Args[0]); f == rowF {
											reset = true
										}
									}
								}
							}
						}
					}
				}
			}
		})
		c.Check(reset, R, fnName(fn)+":row-reset", p.pos(run.Pos()), "the whole row buffer is reset before the projection functions run", "the projection functions run on a row buffer that still holds the previous result's values: a field that no function assigns for this result (the unit after a ProjectValues call, a key a sparse group did not see) keeps its old value, so two results with different values get equal keys, or equal ones different keys, depending on what was projected before")
	}
	c.Floor(R, "functions running the projection functions", n, 1)
}

// storesEquals: fn puts the byte '=' into a buffer, itself or through a function of its package that returns a byte slice
// (a helper building the "key=" pattern).
func storesEquals(fn *ssa.Function, d int) bool {
	if fn == nil || fn.Blocks == nil || d > 2 {
		return false
	}
	found := false
	eachInstr(fn, func(_ *ssa.BasicBlock, in ssa.Instruction) {
		switch x := in.(type) {
		case *ssa.Store:
			if k, ok := constInt(x.Val); ok && k == '=' {
				if b, ok := x.Val.Type().Underlying().(*types.Basic); ok && b.Kind() == types.Uint8 {
					found = true
				}
			}
		case *ssa.Call:
			sc := x.Call.StaticCallee()
			if sc != nil && sc.Pkg == fn.Pkg && sc != fn && sc.Signature.Results().Len() == 1 {
				// a helper building the pattern, or a constructor of an extractor object that holds it
				takesKey := false
				for _, prm := range sc.Params {
					if isString(prm.Type()) {
						takesKey = true
					}
				}
				if takesKey && storesEquals(sc, d+1) {
					found = true
				}
			}
		}
	})
	return found
}

// c08CountDownTrim: sl is buf[:n] with n the counter of a loop that starts at len(buf), steps down by one, and goes on
// exactly while n > 0 and buf[n-1] == "" — so buf[:n] is buf without its trailing empty values. buf is one and the
// same slice throughout: a value, or loads of one field of the receiver with no store or call in between (the loop).
func c08CountDownTrim(fn *ssa.Function, sl *ssa.Slice) bool {
	nphi, ok := sl.High.(*ssa.Phi)
	if !ok || len(nphi.Edges) != 2 {
		return false
	}
	sameBuf := func(a, b ssa.Value) bool {
		if a == b {
			return true
		}
		fa, ba := loadOfField(a)
		fb, bb := loadOfField(b)
		return fa != nil && fa == fb && ba == bb && len(fn.Params) > 0 && ba == ssa.Value(fn.Params[0])
	}
	var lp *loopInfo
	for _, l := range naturalLoops(fn) {
		if l.Header == nphi.Block() {
			lp = l
		}
	}
	if lp == nil {
		return false
	}
	// edges: len(buf) from outside, n-1 from inside
	initOK, stepOK := false, false
	for i, e := range nphi.Edges {
		if lp.Blocks[lp.Header.Preds[i]] {
			if bo, ok := e.(*ssa.BinOp); ok && bo.Op == token.SUB && bo.X == ssa.Value(nphi) {
				if k, ok := constInt(bo.Y); ok && k == 1 {
					stepOK = true
				}
			}
		} else if call, ok := e.(*ssa.Call); ok {
			if bi, ok := call.Call.Value.(*ssa.Builtin); ok && bi.Name() == "len" && sameBuf(call.Call.Args[0], sl.X) {
				initOK = true
			}
		}
	}
	return initOK && stepOK && c08TrimExits(lp, func(v ssa.Value) bool { return v == ssa.Value(nphi) }, func(v ssa.Value) bool { return sameBuf(v, sl.X) })
}

// c08ResliceTrim: row is the phi of a loop that starts with the buffer and reslices row = row[:len(row)-1], going on
// exactly while len(row) > 0 and row[len(row)-1] == "".
func c08ResliceTrim(fn *ssa.Function, row *ssa.Phi) bool {
	var lp *loopInfo
	for _, l := range naturalLoops(fn) {
		if l.Header == row.Block() {
			lp = l
		}
	}
	if lp == nil || len(row.Edges) != 2 {
		return false
	}
	isLen := func(v ssa.Value) bool {
		call, ok := v.(*ssa.Call)
		if !ok {
			return false
		}
		bi, ok := call.Call.Value.(*ssa.Builtin)
		return ok && bi.Name() == "len" && call.Call.Args[0] == ssa.Value(row)
	}
	stepOK := false
	for i, e := range row.Edges {
		if !lp.Blocks[lp.Header.Preds[i]] {
			continue
		}
		if sl, ok := e.(*ssa.Slice); ok && sl.X == ssa.Value(row) && sl.Low == nil && sl.Max == nil {
			if bo, ok := sl.High.(*ssa.BinOp); ok && bo.Op == token.SUB && isLen(bo.X) {
				if k, ok := constInt(bo.Y); ok && k == 1 {
					stepOK = true
				}
			}
		}
	}
	return stepOK && c08TrimExits(lp, isLen, func(v ssa.Value) bool { return v == ssa.Value(row) })
}

// c08TrimExits: the loop has no effects and exactly two exits: it leaves when the length quantity q is 0 (stays for 1
// and more), and when buf[q-1] is not the empty string.
func c08TrimExits(lp *loopInfo, isQ, isBuf func(ssa.Value) bool) bool {
	for b := range lp.Blocks {
		for _, in := range b.Instrs {
			switch x := in.(type) {
			case *ssa.Store, *ssa.MapUpdate, *ssa.Go, *ssa.Defer:
				return false
			case *ssa.Call:
				if bi, ok := x.Call.Value.(*ssa.Builtin); !ok || bi.Name() != "len" {
					return false
				}
			}
		}
	}
	nExits, good := 0, true
	for b := range lp.Blocks {
		ifi, ok := b.Instrs[len(b.Instrs)-1].(*ssa.If)
		if !ok {
			continue
		}
		stayT, stayF := lp.Blocks[b.Succs[0]], lp.Blocks[b.Succs[1]]
		if stayT && stayF {
			continue
		}
		nExits++
		bo, ok := ifi.Cond.(*ssa.BinOp)
		if !ok {
			good = false
			continue
		}
		switch {
		case isQ(bo.X) || isQ(bo.Y):
			k, isK := constInt(bo.Y)
			onLeft := false
			if isQ(bo.Y) {
				k, isK = constInt(bo.X)
				onLeft = true
			}
			stays := func(n int64) bool {
				a, c := n, k
				if onLeft {
					a, c = k, n
				}
				var t bool
				switch bo.Op {
				case token.GTR:
					t = a > c
				case token.GEQ:
					t = a >= c
				case token.LSS:
					t = a < c
				case token.LEQ:
					t = a <= c
				case token.NEQ:
					t = a != c
				case token.EQL:
					t = a == c
				}
				return t == stayT
			}
			if !isK || stays(0) || !stays(1) || !stays(5) {
				good = false
			}
		default:
			var elem, empty ssa.Value = bo.X, bo.Y
			if s, ok := constString(elem); ok && s == "" {
				elem, empty = bo.Y, bo.X
			}
			if s, ok := constString(empty); !ok || s != "" {
				good = false
				continue
			}
			ia, ok := loadAddr(elem).(*ssa.IndexAddr)
			if !ok || !isBuf(ia.X) {
				good = false
				continue
			}
			ix, ok := ia.Index.(*ssa.BinOp)
			if !ok || ix.Op != token.SUB || !isQ(ix.X) {
				good = false
				continue
			}
			if k, ok := constInt(ix.Y); !ok || k != 1 {
				good = false
			}
			if !((bo.Op == token.EQL && stayT) || (bo.Op == token.NEQ && stayF)) {
				good = false
			}
		}
	}
	return good && nExits == 2
}

// c08ExclusionsGrow (C08/R14): the keys other projections have claimed are never forgotten. A projection built earlier
// relies on them (its .config and .fullname leave them out), so the parser's exclusion sets only grow: nothing in
// benchproc deletes from ProjectionParser.configKeys, stores false into it, or assigns fullnameKeys anything but an
// append onto itself (or its initial value).
func c08ExclusionsGrow(c *Ctx, p *Prog) {
	const R = "C08/R14"
	cfgF := p.Field("benchproc", "ProjectionParser", "configKeys")
	fullF := p.Field("benchproc", "ProjectionParser", "fullnameKeys")
	if cfgF == nil || fullF == nil {
		c.Undecided(R, "anchor:ProjectionParser.configKeys/fullnameKeys", "", "not found")
		return
	}
	n := 0
	for _, fn := range p.Funcs("benchproc") {
		eachInstr(fn, func(_ *ssa.BasicBlock, in ssa.Instruction) {
			switch x := in.(type) {
			case *ssa.Call:
				if bi, ok := x.Call.Value.(*ssa.Builtin); ok && (bi.Name() == "delete" || bi.Name() == "clear") {
					if f, _ := loadOfField(x.Call.Args[0]); f == cfgF {
						n++
						c.Bad(R, fmt.Sprintf("%s:forgets-config-key#%d", fnName(fn), n), p.pos(x.Pos()), "a key is removed from the set of configuration keys claimed by projections: a projection parsed earlier that named this key no longer keeps it out of .config (and of the residue), so the same value is counted in two places and keys that should be equal differ")
					}
				}
			case *ssa.MapUpdate:
				if f, _ := loadOfField(x.Map); f == cfgF {
					n++
					v, isConst := x.Value.(*ssa.Const)
					c.Check(isConst && v.Value != nil && constant.BoolVal(v.Value), R, fmt.Sprintf("%s:claims-config-key#%d", fnName(fn), n), p.pos(x.Pos()), "a claimed key is recorded as true", "a claimed configuration key is recorded with a value that is not the constant true")
				}
			case *ssa.Store:
				f, _ := fieldOfAddr(x.Addr)
				if f != fullF {
					return
				}
				n++
				okGrow := false
				if k, ok := x.Val.(*ssa.Const); ok && k.IsNil() && fn.Name() != "Parse" {
					okGrow = true // initial value in a constructor
				}
				if call, ok := x.Val.(*ssa.Call); ok {
					if bi, ok := call.Call.Value.(*ssa.Builtin); ok && bi.Name() == "append" {
						if f2, _ := loadOfField(call.Call.Args[0]); f2 == fullF {
							okGrow = true
						}
					}
				}
				c.Check(okGrow, R, fmt.Sprintf("%s:claims-name-key#%d", fnName(fn), n), p.pos(x.Pos()), "the list of claimed name keys grows by append", "the list of name keys claimed by projections is assigned something other than an append onto itself (truncated, replaced): a projection parsed earlier loses its exclusions from .fullname")
			}
		})
	}
	c.Floor(R, "writes to the parser's exclusion sets", n, 2)
}

// c08Verbatim (C08/R15): a key's value for a field is the value the field's extractor (or the configuration entry)
// holds, byte for byte: in the projection functions made by makeProjection every argument of Projection.intern is the
// result of a dynamic call (an extractor) or the Value field of a configuration entry — never the result of a library
// or package function applied to it (trimming, case folding, normalising).
func c08Verbatim(c *Ctx, p *Prog) {
	const R = "C08/R15"
	mp := p.Method("benchproc", "ProjectionParser", "makeProjection")
	intern := p.Method("benchproc", "Projection", "intern")
	if mp == nil || intern == nil {
		c.Undecided(R, "anchor:makeProjection/intern", "", "not found")
		return
	}
	n := 0
	// helpers that intern one of their parameters as it comes (setField(row, field, val)): judged at their call sites
	wrapper := map[*ssa.Function]int{}
	for _, h := range p.Funcs("benchproc") {
		if h == intern || h.Parent() != nil {
			continue
		}
		eachInstr(h, func(_ *ssa.BasicBlock, in ssa.Instruction) {
			if call, ok := in.(*ssa.Call); ok && call.Call.StaticCallee() == intern {
				a := stripConv(callArgs(&call.Call)[1])
				for i, prm := range h.Params {
					if a == ssa.Value(prm) {
						wrapper[h] = i
					}
				}
			}
		})
	}
	var visit func(fn *ssa.Function)
	visit = func(fn *ssa.Function) {
		eachInstr(fn, func(_ *ssa.BasicBlock, in ssa.Instruction) {
			call, ok := in.(*ssa.Call)
			if !ok {
				return
			}
			var arg ssa.Value
			if call.Call.StaticCallee() == intern {
				arg = callArgs(&call.Call)[1]
			} else if i, isW := wrapper[call.Call.StaticCallee()]; isW && call.Call.StaticCallee() != nil {
				arg = callArgs(&call.Call)[i]
			} else {
				return
			}
			n++
			var okArg func(v ssa.Value, d int) bool
			okArg = func(v ssa.Value, d int) bool {
				if d > 4 {
					return false
				}
				v = stripConv(v)
				switch x := v.(type) {
				case *ssa.Call:
					return x.Call.StaticCallee() == nil && !x.Call.IsInvoke() && func() bool { _, b := x.Call.Value.(*ssa.Builtin); return !b }()
				case *ssa.Phi:
					for _, e := range x.Edges {
						if !okArg(e, d+1) {
							return false
						}
					}
					return true
				case *ssa.UnOp:
					if f, _ := loadOfField(x); f != nil && f.Name() == "Value" {
						return true
					}
					// a captured local holding the extractor's result
					if al, ok := x.X.(*ssa.Alloc); ok && x.Op == token.MUL {
						for _, st := range storesInto(al) {
							if !okArg(st.Val, d+1) {
								return false
							}
						}
						return true
					}
				case *ssa.Field:
					if f, _ := fieldOfVal(x); f != nil && f.Name() == "Value" {
						return true
					}
				}
				return false
			}
			c.Check(okArg(arg, 0), R, fmt.Sprintf("%s:interned-verbatim#%d", fnName(fn), n), p.pos(call.Pos()), "the value interned is the extractor's result or the configuration entry's Value itself",
				"the value put into the key is not the extracted value itself but something computed from it: configurations that differ only in what the computation removes (surrounding white space) become one key under .config and the residue, although projecting the same key by name still tells them apart, and Get returns a value that was never in the result")
		})
		for _, a := range fn.AnonFuncs {
			visit(a)
		}
	}
	visit(mp)
	c.Floor(R, "values interned by the projection functions", n, 3)
}

// extractorCtors: the functions of benchproc that return an extractor.
func extractorCtors(p *Prog) []*ssa.Function {
	var ctors []*ssa.Function
	extT := p.Named("benchproc", "extractor")
	for _, fn := range p.Funcs("benchproc") {
		if fn.Parent() != nil || extT == nil {
			continue
		}
		res := fn.Signature.Results()
		for i := 0; i < res.Len(); i++ {
			if types.Identical(res.At(i).Type(), extT) {
				ctors = append(ctors, fn)
				break
			}
		}
	}
	return ctors
}
