// flow.go: E3 helpers — small forward dataflow analyses over SSA blocks.
package main

import (
	"go/constant"
	"go/token"
	"go/types"
	"sort"

	"golang.org/x/tools/go/ssa"
)

// constSet is the abstract value of one tracked expression: either it is known
// to be one of In (Top=false), or it is anything except Not (Top=true).
type constSet struct {
	Top bool
	In  map[string]bool
	Not map[string]bool
	Bot bool // unreachable
}

func csTop() constSet { return constSet{Top: true, Not: map[string]bool{}} }
func csBot() constSet { return constSet{Bot: true} }

func (a constSet) clone() constSet {
	b := constSet{Top: a.Top, Bot: a.Bot}
	if a.In != nil {
		b.In = map[string]bool{}
		for k := range a.In {
			b.In[k] = true
		}
	}
	if a.Not != nil {
		b.Not = map[string]bool{}
		for k := range a.Not {
			b.Not[k] = true
		}
	}
	return b
}

func (a constSet) join(b constSet) constSet {
	switch {
	case a.Bot:
		return b.clone()
	case b.Bot:
		return a.clone()
	case !a.Top && !b.Top:
		r := constSet{In: map[string]bool{}}
		for k := range a.In {
			r.In[k] = true
		}
		for k := range b.In {
			r.In[k] = true
		}
		return r
	case a.Top && b.Top:
		r := constSet{Top: true, Not: map[string]bool{}}
		for k := range a.Not {
			if b.Not[k] {
				r.Not[k] = true
			}
		}
		return r
	case a.Top:
		r := constSet{Top: true, Not: map[string]bool{}}
		for k := range a.Not {
			if !b.In[k] {
				r.Not[k] = true
			}
		}
		return r
	default:
		return b.join(a)
	}
}

func (a constSet) equal(b constSet) bool {
	if a.Bot != b.Bot || a.Top != b.Top || len(a.In) != len(b.In) || len(a.Not) != len(b.Not) {
		return false
	}
	for k := range a.In {
		if !b.In[k] {
			return false
		}
	}
	for k := range a.Not {
		if !b.Not[k] {
			return false
		}
	}
	return true
}

func (a constSet) assume(c string, eq bool) constSet {
	if a.Bot {
		return a
	}
	r := a.clone()
	if eq {
		if a.Top {
			if a.Not[c] {
				return csBot()
			}
			return constSet{In: map[string]bool{c: true}}
		}
		if !a.In[c] {
			return csBot()
		}
		return constSet{In: map[string]bool{c: true}}
	}
	if a.Top {
		r.Not[c] = true
		return r
	}
	delete(r.In, c)
	if len(r.In) == 0 {
		return csBot()
	}
	return r
}

func (a constSet) String() string {
	if a.Bot {
		return "unreachable"
	}
	ks := func(m map[string]bool) []string {
		var out []string
		for k := range m {
			out = append(out, k)
		}
		sort.Strings(out)
		return out
	}
	if a.Top {
		return "any except " + joinQ(ks(a.Not))
	}
	return "one of " + joinQ(ks(a.In))
}

func joinQ(s []string) string {
	out := "{"
	for i, x := range s {
		if i > 0 {
			out += ", "
		}
		out += x
	}
	return out + "}"
}

// constFacts computes, for every block of fn, what is known on entry about the
// value of the tracked expression from equality tests against constants.
// tracked reports whether an SSA value denotes the tracked expression.
func constFacts(fn *ssa.Function, tracked func(ssa.Value) bool) map[*ssa.BasicBlock]constSet {
	in := map[*ssa.BasicBlock]constSet{}
	for _, b := range fn.Blocks {
		in[b] = csBot()
	}
	if len(fn.Blocks) == 0 {
		return in
	}
	in[fn.Blocks[0]] = csTop()
	work := []*ssa.BasicBlock{fn.Blocks[0]}
	for len(work) > 0 {
		b := work[0]
		work = work[1:]
		st := in[b]
		outs := make([]constSet, len(b.Succs))
		for i := range outs {
			outs[i] = st
		}
		if ifi, ok := b.Instrs[len(b.Instrs)-1].(*ssa.If); ok {
			cond := ifi.Cond
			neg := false
			for {
				if u, ok := cond.(*ssa.UnOp); ok && u.Op == token.NOT {
					cond = u.X
					neg = !neg
					continue
				}
				break
			}
			if bo, ok := cond.(*ssa.BinOp); ok && (bo.Op == token.EQL || bo.Op == token.NEQ) {
				var cv *ssa.Const
				var other ssa.Value
				if c, ok := bo.Y.(*ssa.Const); ok {
					cv, other = c, bo.X
				} else if c, ok := bo.X.(*ssa.Const); ok {
					cv, other = c, bo.Y
				}
				if cv != nil && cv.Value != nil && tracked(other) {
					cs := constKey(cv.Value)
					eqOnTrue := (bo.Op == token.EQL) != neg
					outs[0] = st.assume(cs, eqOnTrue)
					outs[1] = st.assume(cs, !eqOnTrue)
				}
			}
		}
		for i, s := range b.Succs {
			n := in[s].join(outs[i])
			if !n.equal(in[s]) {
				in[s] = n
				work = append(work, s)
			}
		}
	}
	return in
}

func constKey(v constant.Value) string {
	if v.Kind() == constant.String {
		return constant.StringVal(v)
	}
	if v.Kind() == constant.Int {
		if n, ok := constant.Int64Val(v); ok && n >= 32 && n < 127 {
			return string(rune(n))
		}
	}
	return v.ExactString()
}

// isNonNilValue reports whether v is certainly non-nil (a fresh allocation, possibly boxed in an interface).
func isNonNilValue(v ssa.Value) bool {
	switch x := v.(type) {
	case *ssa.MakeInterface:
		if c, ok := x.X.(*ssa.Const); ok {
			return !c.IsNil()
		}
		return isNonNilValue(x.X) || !isNillable(x.X)
	case *ssa.Alloc, *ssa.MakeMap, *ssa.MakeSlice, *ssa.MakeClosure, *ssa.Function:
		return true
	case *ssa.ChangeType:
		return isNonNilValue(x.X)
	case *ssa.ChangeInterface:
		return isNonNilValue(x.X)
	case *ssa.Call:
		// constructors of errors
		co := calleeObj(&x.Call)
		if objIs(co, "fmt", "", "Errorf") || objIs(co, "errors", "", "New") {
			return true
		}
	}
	return false
}

func isNillable(v ssa.Value) bool {
	switch v.Type().Underlying().(type) {
	case *types.Pointer, *types.Map, *types.Slice, *types.Signature, *types.Chan, *types.Interface:
		return true
	}
	return false
}
