// c14.go: C14 — benchstat puts each measurement in one cell and reports its true statistics.
package main

import (
	"fmt"
	"go/constant"
	"go/token"
	"go/types"
	"math/big"
	"strings"

	"golang.org/x/tools/go/ssa"
)

func init() { register("C14", checkC14) }

const btabRel = "cmd/benchstat/internal/benchtab"

func checkC14(c *Ctx) {
	c.Rule("C14/R1", "wiring in the command: a result is added only after Filter.Apply kept it (same record); -table/-row/-col/-ignore are parsed by one parser and Residue is taken after all of them; the unit metadata given to ToTables comes from the Files that was scanned")
	c.Rule("C14/R2", "once per measurement: in Builder.Add the value appended in iteration i of the per-measurement table keys is Values[i].Value, appended exactly once, to the cell found under that iteration's table key and the result's (row, column) key")
	c.Rule("C14/R3", "baseline: the baseline column is element 0 of the sorted column keys; Compare receives (baseline sample, cell sample); both renderers pass (baseline centre, cell centre) to FormatDelta")
	c.Rule("C14/R4", "the statistical assumption is looked up with the unit read from the table key's .unit field")
	c.Rule("C14/R5", "column summary: every present cell's centre enters the geomean; the per-row ratio is 1 when equal, marks the column bad when the baseline is 0, else centre/baseline; the differing-count and non-positive warnings are raised as documented")
	c.Rule("C14/R6", "key identity (shared with C08/R1): interning hashes, compares and stores one trimmed row, so equal tuples give equal keys and a measurement cannot land in a cell of its own")
	c.Rule("C14/R7", "unit metadata survives from file to file: Files never replaces its reader wholesale and the reader creates its unit table only when it has none")

	c.Rule("C14/R8", "-filter stays in force when -table/-row/-col carry a fixed value list: the projection parser ANDs the list's membership tests with the caller's filter, keeping that filter among the operands (same rule as C06/R6), so a measurement the filter rejects cannot reach a cell")
	c.Rule("C14/R15", "a measurement lands in the column of its file (same rule as C02/R8): only unlabelled inputs count towards 'same path given twice', labelled inputs keep the user's label")
	c.Rule("C14/R17", "measurements land in the cell of their own key: two rows are one key only if every value agrees (same rule as C08/R17)")
	c.Rule("C14/R19", "an exact unit's centre is the first of the most frequent values (same rule as C13/R10)")
	c.Rule("C14/R18", "the warning that merged results vary names the keys they vary in: trimmed key values are read only through the reviewed accessors (same rule as C08/R10), so a value unset in the first residue still counts as differing")
	c.Rule("C14/R16", "what a cell prints is the documented rendering of its summary and comparison (same rule as C13/R5)")
	c.Rule("C14/R14", "every measurement's residue is recorded: in Builder.Add each append of a value to a cell is followed on every path of that step by an update of the cell's residue set")
	c.Rule("C14/R13", "the -alpha setting reaches every comparison (same rule as C13/R8): NewSample keeps the thresholds it was handed, verbatim")
	c.Rule("C14/R12", "every cell is summarised under its own unit's assumption (same rule as C15/R12): no goroutine started in the per-table loop captures a variable declared outside the loop and assigned inside it")
	c.Rule("C14/R11", "which column is the baseline (same rule as C09/R1 and R4): column order for first-observation fields is the recorded rank; a rank is stored for every flattened field of every row, the empty value of a trimmed trailing field included, only when the value is new, and equals the number of values seen before")
	c.Rule("C14/R10", "table keys are announced incrementally and completely: before each table a key line is printed for exactly the fields other than .unit whose value differs from the previous table's (or all of them for the first table); nothing else — such as the new value being empty — decides")
	c.Rule("C14/R9", "the residue warning sees fields discovered late: flattened-field cache invariant (same rule as C09/R10)")
	p := mustLoad(c, loadOpts{}, "./cmd/benchstat", "./"+btabRel, "./benchproc", "./benchfmt", "./benchmath", "./benchproc/internal/parse")
	c14Wiring(c, p)
	c14Add(c, p, "C14/R2")
	c14Baseline(c, p)
	c14Assumption(c, p)
	c14Summary(c, p)
	c08InternAs(c, p, "C14/R6")
	c14Units(c, p, "C14/R7")
	c06Conjoin(c, p, "C14/R8")
	c09FlatInvariant(c, p, "C14/R9")
	c14TableKeys(c, p)
	c15LoopCaptures(c, p, "C14/R12")
	c13Thresholds(c, p, "C14/R13")
	c14ResidueRecorded(c, p)
	c.Under("C02/R8", "C14/R15", func() { c02Labels(c, p) })
	c.Under("C13/R5", "C14/R16", func() { c13Render(c, p) })
	c.Under("C08/R17", "C14/R17", func() { c08EqualRowCompares(c, p) })
	c.Under("C08/R10", "C14/R18", func() { c08ValueAccess(c, p) })
	c13FirstModeWins(c, p, "C14/R19")
	// the baseline is the first column in the columns' order, and for first-observation fields that order is the
	// recorded ranks: same rule as C09/R1 + R4
	if fm := p.Method("benchproc", "Projection", "FlattenedFields"); fm != nil {
		if fo, ok := fm.Object().(*types.Func); ok {
			c.Under("C09/R1", "C14/R11", func() {
				c.Under("C09/R4", "C14/R11", func() {
					c09Producer(c, p, p.Field("benchproc", "Field", "order"), p.Field("benchproc", "Field", "idx"), fo)
				})
			})
		}
	} else {
		c.Undecided("C14/R11", "anchor:Projection.FlattenedFields", "", "not found")
	}
}

// c14TableKeys (C14/R10): which table a block of rows belongs to is told incrementally: before each table a "key: value"
// line is printed for exactly the table-key fields (other than .unit) whose value differs from the previous table's — also
// when the new value is empty, which is how a reader learns that the key no longer applies.
func c14TableKeys(c *Ctx, p *Prog) {
	const R = "C14/R10"
	fn := p.Method(btabRel, "Tables", "printTables")
	if fn == nil || len(fn.Params) < 2 {
		c.Undecided(R, "anchor:Tables.printTables", "", "not found")
		return
	}
	site := p.pos(fn.Pos())
	hdr := fn.Params[1]
	// the loop over the key fields: the innermost loop that calls Key.Get
	var lp *loopInfo
	for _, l := range naturalLoops(fn) {
		has := false
		for b := range l.Blocks {
			for _, in := range b.Instrs {
				if call, ok := in.(*ssa.Call); ok && objIs(calleeObj(&call.Call), bprocPkg, "Key", "Get") {
					has = true
				}
			}
		}
		if has && (lp == nil || len(l.Blocks) < len(lp.Blocks)) {
			lp = l
		}
	}
	if lp == nil {
		c.Undecided(R, "printTables:field-loop", site, "no loop over the table key's fields")
		return
	}
	start := loopBodyStart(lp)
	outs, why := e6Enumerate(func() *e6Interp {
		return &e6Interp{PureCall: func(f *types.Func) bool { return f.Name() == "Get" || f.Name() == "IsZero" }}
	}, start, lp.Header, iterStop(lp, start), 256)
	if why != "" {
		c.Undecided(R, "printTables:table", site, why)
		return
	}
	// the .unit test may have been applied once, before the tables are walked: the loop then ranges over a list into
	// which a field is put only where its name is known not to be ".unit"
	preFiltered := false
	for b := range lp.Blocks {
		for _, in := range b.Instrs {
			if ia, ok := in.(*ssa.IndexAddr); ok {
				if sl, ok := ia.X.Type().Underlying().(*types.Slice); ok && strings.HasSuffix(sl.Elem().String(), "benchproc.Field") {
					if c14ListWithoutUnit(ia.X, map[ssa.Value]bool{}) {
						preFiltered = true
					}
				}
			}
		}
	}
	n := 0
	for _, o := range outs {
		var unit, zero, differs *bool
		if preFiltered {
			f := false
			unit = &f
		}
		var extra []string
		for _, k := range o.AtomKeys() {
			v := o.Assign[k]
			s := o.AtomSyms[k]
			vv := v
			str := s.String()
			switch {
			case s.Op == "binop" && (s.Tok == token.EQL || s.Tok == token.NEQ) && strings.Contains(str, ".Name") && s.Args[1].isConst():
				if cs, ok := constString2(s.Args[1]); ok && cs == ".unit" {
					t := (s.Tok == token.EQL) == v
					unit = &t
				} else {
					extra = append(extra, k)
				}
			case s.Op == "call" && strings.HasSuffix(strings.Split(s.Name, "@")[0], "IsZero"):
				zero = &vv
			case s.Op == "opaque" && isBoolT(s.Type) && strings.Contains(s.Name, "IsZero"):
				// "is this the first table" asked once per table, before the fields are walked
				zero = &vv
			case s.Op == "binop" && len(s.Args) == 2 && ((s.Args[0].Op == "opaque" && isInteger2(s.Args[0].Type) && s.Args[1].isConst() && s.Args[1].Const != nil && s.Args[1].Const.Kind() == constant.Int) || (s.Args[1].Op == "opaque" && isInteger2(s.Args[1].Type) && s.Args[0].isConst() && s.Args[0].Const != nil && s.Args[0].Const.Kind() == constant.Int)):
				// "is this the first table" asked of the table's index: a comparison with a constant that separates
				// index 0 from the later ones
				constLeft := s.Args[0].isConst()
				kc := s.Args[1]
				if constLeft {
					kc = s.Args[0]
				}
				kv, _ := constant.Int64Val(kc.Const)
				at := func(i int64) bool {
					a, b := i, kv
					if constLeft {
						a, b = kv, i
					}
					switch s.Tok {
					case token.GTR:
						return a > b
					case token.GEQ:
						return a >= b
					case token.LSS:
						return a < b
					case token.LEQ:
						return a <= b
					case token.EQL:
						return a == b
					case token.NEQ:
						return a != b
					}
					return false
				}
				if at(0) != at(1) && at(1) == at(3) {
					t := v == at(0)
					zero = &t
				} else {
					extra = append(extra, k)
				}
			case s.Op == "binop" && (s.Tok == token.EQL || s.Tok == token.NEQ) && s.Args[0].Op == "call" && s.Args[1].Op == "call" && strings.Contains(s.Args[0].Name, ".Get") && strings.Contains(s.Args[1].Name, ".Get"):
				t := (s.Tok == token.NEQ) == v
				differs = &t
			case s.Op == "binop" && s.Args[1].isConst() && s.Args[1].IsNil:
				// err != nil after the header callback
			default:
				extra = append(extra, k)
			}
		}
		calls := false
		for _, a := range o.Actions {
			if a.Kind == "call" && a.Fn != nil && a.Fn.String() == "param:"+hdr.Name() {
				calls = true
			}
		}
		n++
		key := fmt.Sprintf("printTables[unit=%s first=%s differs=%s]#%d", boolPtrStr(unit), boolPtrStr(zero), boolPtrStr(differs), n)
		if len(extra) > 0 {
			c.Bad(R, key, site, "whether a table-key line is printed also depends on "+truncate(strings.Join(extra, "; "), 160)+": a key whose value becomes empty in a later table is then not announced, and that table reads as if it still had the previous table's value")
			continue
		}
		want := unit != nil && !*unit && ((zero != nil && *zero) || (differs != nil && *differs))
		if unit != nil && *unit {
			want = false
		}
		c.Check(calls == want, R, key, site, fmt.Sprintf("header line printed=%v", calls), fmt.Sprintf("a table-key line is printed=%v where the rule (not .unit, and first table or value changed) says %v", calls, want))
	}
	c.Floor(R, "cases of the table-key announcement", n, 3)
}

func c14Wiring(c *Ctx, p *Prog) {
	const R = "C14/R1"
	// the function in cmd/benchstat that calls Builder.Add
	var fn *ssa.Function
	var addCall *ssa.Call
	for _, f := range p.Funcs("cmd/benchstat") {
		eachInstr(f, func(_ *ssa.BasicBlock, in ssa.Instruction) {
			if call, ok := in.(*ssa.Call); ok && objIs(calleeObj(&call.Call), rp(btabRel), "Builder", "Add") {
				fn, addCall = f, call
			}
		})
	}
	if fn == nil {
		c.Undecided(R, "anchor:caller of Builder.Add", "", "the command no longer calls Builder.Add")
		return
	}
	// (a) Apply ok on the same record
	okApply := false
	for _, f := range factsAt(addCall.Block()) {
		ex, ok := f.Cond.(*ssa.Extract)
		if !ok || ex.Index != 0 || !f.True {
			continue
		}
		if call, ok := ex.Tuple.(*ssa.Call); ok && objIs(calleeObj(&call.Call), bprocPkg, "Filter", "Apply") {
			if call.Call.Args[1] == addCall.Call.Args[1] || sameValue(call.Call.Args[1], addCall.Call.Args[1]) {
				okApply = true
			}
		}
	}
	c.Check(okApply, R, "add-after-apply", p.pos(addCall.Pos()), "a result is added only when Filter.Apply on that same result reported matches", "results reach the table builder without (or before) the filter being applied to them: filtered-out measurements are counted")
	// (b) parser discipline
	var residue *ssa.Call
	addFn := fn
	for _, f := range p.Funcs("cmd/benchstat") {
		eachInstr(f, func(_ *ssa.BasicBlock, in ssa.Instruction) {
			if call, ok := in.(*ssa.Call); ok && objIs(calleeObj(&call.Call), bprocPkg, "ProjectionParser", "Residue") {
				residue = call
				fn = f // the function that parses the flags (the results may be added by a helper it calls)
			}
		})
	}
	if residue == nil {
		c.Bad(R, "residue-after-flags", p.pos(fn.Pos()), "the command never takes the residue projection: merged results that differ in unprojected keys are not reported")
	} else {
		// parsing calls: direct Parse/ParseWithUnit calls, or calls of closures that contain them
		parses := func(f *ssa.Function) bool {
			found := false
			eachInstr(f, func(_ *ssa.BasicBlock, in ssa.Instruction) {
				if call, ok := in.(*ssa.Call); ok {
					co := calleeObj(&call.Call)
					if objIs(co, bprocPkg, "ProjectionParser", "Parse") || objIs(co, bprocPkg, "ProjectionParser", "ParseWithUnit") {
						found = true
					}
				}
			})
			return found
		}
		nParse, late := 0, 0
		eachInstr(fn, func(_ *ssa.BasicBlock, in ssa.Instruction) {
			call, ok := in.(*ssa.Call)
			if !ok {
				return
			}
			isParse := false
			co := calleeObj(&call.Call)
			if objIs(co, bprocPkg, "ProjectionParser", "Parse") || objIs(co, bprocPkg, "ProjectionParser", "ParseWithUnit") {
				isParse = true
			}
			if mc, ok := call.Call.Value.(*ssa.MakeClosure); ok && parses(mc.Fn.(*ssa.Function)) {
				isParse = true
			}
			// or a function/method of the command that wraps the parser
			if sc := call.Call.StaticCallee(); sc != nil && sc.Pkg == fn.Pkg && sc.Blocks != nil && parses(sc) {
				isParse = true
			}
			if !isParse {
				return
			}
			nParse++
			if !instrDominates(call, residue) {
				late++
			}
		})
		c.Check(nParse >= 4 && late == 0, R, "residue-after-flags", p.pos(residue.Pos()), fmt.Sprintf("all %d projection flags are parsed before the residue is taken", nParse),
			fmt.Sprintf("%d of %d projection flags are parsed after (or not on every path before) the residue is taken: keys named by those flags (e.g. -ignore) still appear in the residue, so cells carry 'benchmarks vary in ...' warnings for keys that were projected or ignored", late, nParse))
		// one parser: the closures' captured parser and Residue's receiver are the same variable
		recv := residue.Call.Args[0]
		same := true
		eachInstr(fn, func(_ *ssa.BasicBlock, in ssa.Instruction) {
			if mc, ok := in.(*ssa.MakeClosure); ok && parses(mc.Fn.(*ssa.Function)) {
				found := false
				for _, b := range mc.Bindings {
					if b == recv {
						found = true
					}
				}
				if !found {
					same = false
				}
			}
		})
		// wrapper form: the wrapper parses with a field of its receiver, and the residue is taken from that field of the
		// very object the wrapper was called on
		eachInstr(fn, func(_ *ssa.BasicBlock, in ssa.Instruction) {
			call, ok := in.(*ssa.Call)
			if !ok {
				return
			}
			sc := call.Call.StaticCallee()
			if sc == nil || sc.Parent() != nil || sc.Pkg != fn.Pkg || sc.Blocks == nil || !parses(sc) || len(call.Call.Args) == 0 {
				return
			}
			fa, ok := recv.(*ssa.FieldAddr)
			if !ok || fa.X != call.Call.Args[0] {
				same = false
				return
			}
			fld, _ := fieldOfAddr(fa)
			eachInstr(sc, func(_ *ssa.BasicBlock, in2 ssa.Instruction) {
				if c2, ok := in2.(*ssa.Call); ok {
					co := calleeObj(&c2.Call)
					if objIs(co, bprocPkg, "ProjectionParser", "Parse") || objIs(co, bprocPkg, "ProjectionParser", "ParseWithUnit") {
						f2, base := fieldOfAddr(c2.Call.Args[0])
						if f2 != fld || base != ssa.Value(sc.Params[0]) {
							same = false
						}
					}
				}
			})
		})
		c.Check(same, R, "one-parser", p.pos(residue.Pos()), "the flags and the residue share one ProjectionParser", "the residue is taken from a different parser than the one that parsed the flags")
	}
	// (c) units from the scanned Files
	var scanRecv, unitsRecv ssa.Value
	var scanFn, unitsFn *ssa.Function
	for _, f := range p.Funcs("cmd/benchstat") {
		eachInstr(f, func(_ *ssa.BasicBlock, in ssa.Instruction) {
			if call, ok := in.(*ssa.Call); ok {
				co := calleeObj(&call.Call)
				if objIs(co, bfPkg, "Files", "Scan") {
					scanRecv, scanFn = call.Call.Args[0], f
				}
				if objIs(co, bfPkg, "Files", "Units") {
					unitsRecv, unitsFn = call.Call.Args[0], f
				}
			}
		})
	}
	sameFiles := scanRecv != nil && scanRecv == unitsRecv
	if !sameFiles && scanFn != nil && unitsFn != nil && scanFn != unitsFn {
		// the scan sits in a helper: the Files it scans is its parameter, and the caller that asks for the units
		// passes the same Files to the helper
		if prm, ok := scanRecv.(*ssa.Parameter); ok {
			pi := -1
			for i, q := range scanFn.Params {
				if q == prm {
					pi = i
				}
			}
			eachInstr(unitsFn, func(_ *ssa.BasicBlock, in ssa.Instruction) {
				if call, ok := in.(*ssa.Call); ok && call.Call.StaticCallee() == scanFn && pi >= 0 && pi < len(call.Call.Args) && call.Call.Args[pi] == unitsRecv {
					sameFiles = true
				}
			})
		}
	}
	_ = addFn
	c.Check(sameFiles, R, "units-from-scanned-files", p.pos(fn.Pos()), "ToTables receives the unit metadata of the Files that was scanned", "the unit metadata handed to ToTables does not come from the Files whose results were added: units' assumptions and labels are lost")
}

func c14Add(c *Ctx, p *Prog, R string) {
	fn := p.Method(btabRel, "Builder", "Add")
	valuesF := p.Field(btabRel, "builderCell", "values")
	resValuesF := p.Field("benchfmt", "Result", "Values")
	vValueF := p.Field("benchfmt", "Value", "Value")
	cellsF := p.Field(btabRel, "builderTable", "cells")
	tablesF := p.Field(btabRel, "Builder", "tables")
	if fn == nil || valuesF == nil {
		c.Undecided(R, "anchor:Builder.Add", "", "not found")
		return
	}
	site := p.pos(fn.Pos())
	n := 0
	nLoops := 0
	for li, lp := range naturalLoops(fn) {
		// only loops that add values to cells
		adds := false
		for b := range lp.Blocks {
			for _, in := range b.Instrs {
				if st, ok := in.(*ssa.Store); ok {
					if f, _ := fieldOfAddr(st.Addr); f == valuesF {
						adds = true
					}
				}
			}
		}
		if !adds {
			continue
		}
		nLoops++
		start := loopBodyStart(lp)
		outs, why := e6Enumerate(func() *e6Interp {
			return &e6Interp{Inline: func(f *ssa.Function) bool {
				// the get-or-create of a cell may be a helper: one result, a *builderCell
				if f.Pkg != fn.Pkg || f.Parent() != nil || len(naturalLoops(f)) != 0 || len(f.Blocks) > 10 || f.Signature.Results().Len() != 1 {
					return false
				}
				pt, ok := f.Signature.Results().At(0).Type().(*types.Pointer)
				if !ok {
					return false
				}
				nt, ok := pt.Elem().(*types.Named)
				return ok && nt.Obj().Name() == "builderCell"
			}}
		}, start, lp.Header, iterStop(lp, start), 256)
		if why != "" {
			c.Undecided(R, "Add:table", site, why)
			return
		}
		_ = li
		// the loop index value
		var idx ssa.Value
		var ranged ssa.Value
		for _, in := range lp.Header.Instrs {
			if phi, ok := in.(*ssa.Phi); ok && isInteger(phi.Type()) {
				for _, r := range *phi.Referrers() {
					if bo, ok := r.(*ssa.BinOp); ok && bo.Op == token.ADD {
						idx = bo
					}
				}
			}
		}
		for b := range lp.Blocks {
			for _, in := range b.Instrs {
				if ia, ok := in.(*ssa.IndexAddr); ok && ia.Index == idx {
					if call, ok := ia.X.(*ssa.Call); ok && objIs(calleeObj(&call.Call), bprocPkg, "Projection", "ProjectValues") {
						ranged = call
					}
				}
			}
		}
		c.Check(ranged != nil, R, fmt.Sprintf("Add:iterates-table-keys#%d", nLoops), site, "the loop walks the per-measurement table keys", "the loop in Add does not walk ProjectValues' per-measurement keys")
		for _, o := range outs {
			n++
			nApp := 0
			var errs []string
			for _, a := range o.Actions {
				if a.Kind != "store" || a.Args[0].Op != "fieldaddr" || a.Args[0].Obj != valuesF {
					continue
				}
				v := a.Args[1]
				if v.Op != "call" || v.Name != "append" {
					continue
				}
				nApp++
				els := o.VarArgs(e6Action{Args: v.Args})
				if len(els) != 1 {
					errs = append(errs, "more than one value appended at once")
					continue
				}
				el := els[0]
				// load(fieldaddr Value of indexaddr(load result.Values, idx))
				okEl := el.IsFieldLoad(vValueF) && el.Args[0].Args[0].Op == "indexaddr" && el.Args[0].Args[0].Args[0].IsFieldLoad(resValuesF) && el.Args[0].Args[0].Args[1].String() == o.Val(idx).String()
				if !okEl {
					errs = append(errs, "the appended value is not the measurement at this iteration's index ("+el.String()+")")
				}
				// the cell: either the one found in <table>.cells under the cell key, or a new one stored there
				cell := a.Args[0].Args[0]
				okCell := false
				if cell.Op == "lookup" && cell.Args[0].IsFieldLoad(cellsF) {
					okCell = true
				}
				if cell.Op == "alloc" {
					for _, a2 := range o.Actions {
						if a2.Kind == "mapupdate" && a2.Args[0].IsFieldLoad(cellsF) && a2.Args[2].String() == cell.String() {
							okCell = true
						}
					}
				}
				if !okCell {
					errs = append(errs, "the value is not appended to the cell looked up (or created) in this measurement's table under the (row, column) key")
				}
			}
			if nApp != 1 {
				errs = append(errs, fmt.Sprintf("%d values are appended per measurement (must be exactly one)", nApp))
			}
			key := fmt.Sprintf("Add[%s]", o.AssignStr())
			if len(key) > 150 {
				key = fmt.Sprintf("Add[path %d]", n)
			}
			if nLoops > 1 {
				key += fmt.Sprintf("@loop%d", nLoops)
			}
			if len(errs) > 0 {
				c.Bad(R, key, site, strings.Join(errs, "; "))
			} else {
				c.OK(R, key, site, "one measurement, one append, right cell")
			}
		}
	}
	c.Check(nLoops >= 1, R, "Add:loop", site, "values are added in a loop over the per-measurement table keys", "no loop in Add appends values to cells")
	c.Floor(R, "paths through one Add iteration", n, 2)
	_ = cellsF
	_ = tablesF
	// the cell key pairs the row and column projections of this result
	tk := p.Named(btabRel, "TableKey")
	okKey := false
	if tk != nil {
		eachInstr(fn, func(_ *ssa.BasicBlock, in ssa.Instruction) {
			if st, ok := in.(*ssa.Store); ok {
				if f, _ := fieldOfAddr(st.Addr); f != nil && fieldOwnerName(f) == "TableKey" && f.Name() == "Row" {
					if call, ok := st.Val.(*ssa.Call); ok && objIs(calleeObj(&call.Call), bprocPkg, "Projection", "Project") {
						if rf, _ := loadOfField(call.Call.Args[0]); rf != nil && rf.Name() == "rowBy" {
							okKey = true
						}
					}
				}
			}
		})
	}
	c.Check(okKey, R, "Add:cell-key", site, "the cell key's row is the row projection of this result", "the cell key's row is not the row projection of the result being added")
}

func c14Baseline(c *Ctx, p *Prog) {
	const R = "C14/R3"
	fn := p.Method(btabRel, "Builder", "ToTables")
	if fn == nil {
		c.Undecided(R, "anchor:ToTables", "", "not found")
		return
	}
	site := p.pos(fn.Pos())
	baselineF := p.Field(btabRel, "TableCell", "Baseline")
	sampleF := p.Field(btabRel, "TableCell", "Sample")
	// baseline key: element 0 of the sorted column keys — the sorted list itself, or a field (Table.Cols) that only ever
	// receives it
	sortedCols := func(v ssa.Value) bool {
		call, ok := v.(*ssa.Call)
		if !ok {
			return false
		}
		sc := call.Call.StaticCallee()
		if sc == nil {
			return false
		}
		if o := sc.Origin(); o != nil {
			sc = o // a generic helper: read the generic body
		}
		sorts := false
		eachInstr(sc, func(_ *ssa.BasicBlock, in2 ssa.Instruction) {
			if c2, ok := in2.(*ssa.Call); ok && objIs(calleeObj(&c2.Call), bprocPkg, "", "SortKeys") {
				sorts = true
			}
		})
		if len(call.Call.Args) == 0 {
			return false
		}
		f, _ := loadOfField(call.Call.Args[0])
		return f != nil && f.Name() == "cols" && sorts
	}
	var isSortedCols func(v ssa.Value, d int) bool
	isSortedCols = func(v ssa.Value, d int) bool {
		if d > 3 {
			return false
		}
		if sortedCols(v) {
			return true
		}
		if fld, _ := loadOfField(v); fld != nil {
			n, all := 0, true
			for _, g := range p.Funcs(btabRel) {
				for _, st := range storesToField(g, fld) {
					n++
					if !isSortedCols(st.Val, d+1) {
						all = false
					}
				}
			}
			return n > 0 && all
		}
		return false
	}
	okBase := false
	baseKeys := map[ssa.Value]bool{}
	for _, g := range p.Funcs(btabRel) {
		eachInstr(g, func(_ *ssa.BasicBlock, in ssa.Instruction) {
			u, ok := in.(*ssa.UnOp)
			if !ok || u.Op != token.MUL || recvName(u.Type()) != "Key" {
				return
			}
			ia, ok := u.X.(*ssa.IndexAddr)
			if !ok {
				return
			}
			if k, ok := constInt(ia.Index); !ok || k != 0 {
				return
			}
			if isSortedCols(ia.X, 0) {
				okBase = true
				baseKeys[u] = true
			}
		})
	}
	c.Check(okBase, R, "baseline:first-sorted-column", site, "the baseline is the first of the sorted column keys", "the baseline column is not element 0 of the sorted column keys: deltas are computed against an arbitrary column")
	isBaseKey := func(v ssa.Value) bool {
		if baseKeys[v] {
			return true
		}
		for k := range baseKeys {
			if sameValue(v, k) {
				return true
			}
		}
		return false
	}
	// cell.Baseline is the cell of the same row in the baseline column
	okLink := false
	nLink := 0
	for _, g := range p.Funcs(btabRel) {
		for _, st := range storesToField(g, baselineF) {
			nLink++
			// the looked-up cell: the first result of a comma-ok lookup, or a plain lookup (a missing key yields nil)
			var lkv *ssa.Lookup
			if ex, ok := st.Val.(*ssa.Extract); ok && ex.Index == 0 {
				lkv, _ = ex.Tuple.(*ssa.Lookup)
			} else if l2, ok := st.Val.(*ssa.Lookup); ok {
				lkv = l2
			}
			if lkv != nil {
				if lk := lkv; lk != nil {
					// key literal {k.Row, baselineCfg}
					if la := loadAddr(lk.Index); la != nil {
						if al, ok := la.(*ssa.Alloc); ok {
							rowOK, colOK := false, false
							for _, r := range *al.Referrers() {
								if fa, ok := r.(*ssa.FieldAddr); ok {
									f, _ := fieldOfAddr(fa)
									for _, r2 := range *fa.Referrers() {
										if s2, ok := r2.(*ssa.Store); ok {
											if f.Name() == "Col" && isBaseKey(s2.Val) {
												colOK = true
											}
											if f.Name() == "Row" {
												if lf, _ := loadOfField(s2.Val); lf != nil && lf.Name() == "Row" {
													rowOK = true
												}
												if fv, ok := s2.Val.(*ssa.Field); ok {
													if lf, _ := fieldOfVal(fv); lf != nil && lf.Name() == "Row" {
														rowOK = true
													}
												}
											}
										}
									}
								}
							}
							okLink = rowOK && colOK
						}
					}
				}
			}
		}
	}
	okLink = okLink && nLink == 1
	c.Check(okLink, R, "baseline:same-row", site, "a cell's baseline is the cell of the same row in the baseline column", "a cell's baseline is not looked up under (this row, baseline column)")
	// Compare(baseline sample, cell sample)
	n := 0
	for _, f := range p.Funcs(btabRel) {
		eachInstr(f, func(_ *ssa.BasicBlock, in ssa.Instruction) {
			call, ok := in.(*ssa.Call)
			if !ok || !call.Call.IsInvoke() || call.Call.Method.Name() != "Compare" {
				return
			}
			n++
			a0, a1 := call.Call.Args[0], call.Call.Args[1]
			viaBaseline := func(v ssa.Value) bool {
				f, base := loadOfField(v)
				if f != sampleF {
					return false
				}
				bf, _ := loadOfField(base)
				return bf == baselineF
			}
			direct := func(v ssa.Value) bool {
				f, base := loadOfField(v)
				if f != sampleF {
					return false
				}
				bf, _ := loadOfField(base)
				return bf != baselineF
			}
			c.Check(viaBaseline(a0) && direct(a1), R, fmt.Sprintf("%s:Compare-args#%d", fnName(f), n), p.pos(call.Pos()), "Compare(baseline sample, cell sample)", "the comparison does not receive (baseline sample, cell sample) in that order")
		})
	}
	c.Floor(R, "Compare call sites", n, 1)
	// FormatDelta(baseline centre, cell centre) in both renderers
	nf := 0
	for _, f := range p.Funcs(btabRel) {
		eachInstr(f, func(_ *ssa.BasicBlock, in ssa.Instruction) {
			call, ok := in.(*ssa.Call)
			if !ok || !objIs(calleeObj(&call.Call), bmathPkg, "Comparison", "FormatDelta") {
				return
			}
			nf++
			mentionsBaseline := func(v ssa.Value) bool {
				found := false
				var walk func(v ssa.Value, d int)
				walk = func(v ssa.Value, d int) {
					if d > 8 || found {
						return
					}
					if f, base := loadOfField(v); f != nil {
						if f == baselineF {
							found = true
							return
						}
						walk(base, d+1)
						return
					}
					switch x := v.(type) {
					case *ssa.FieldAddr:
						if ff, _ := fieldOfAddr(x); ff == baselineF {
							found = true
							return
						}
						walk(x.X, d+1)
					case *ssa.UnOp:
						walk(x.X, d+1)
					}
				}
				walk(v, 0)
				return found
			}
			a := call.Call.Args
			c.Check(mentionsBaseline(a[1]) && !mentionsBaseline(a[2]), R, fmt.Sprintf("%s:FormatDelta-args#%d", fnName(f), nf), p.pos(call.Pos()), "FormatDelta(baseline centre, cell centre)", "the delta is rendered with (old, new) not being (baseline centre, cell centre): the sign or the reference of the percentage is wrong")
		})
	}
	c.Floor(R, "FormatDelta call sites", nf, 1)
	// both renderers get their delta from such a call, directly or through a helper of the package
	nr := 0
	for _, name := range []string{"ToText", "ToCSV"} {
		if r := p.Method(btabRel, "Table", name); r != nil {
			for _, f := range staticReach([]*ssa.Function{r}, modPath+"/"+btabRel) {
				if len(callsIn(f, bmathPkg, "Comparison", "FormatDelta")) > 0 {
					nr++
					break
				}
			}
		}
	}
	c.Floor(R, "renderers that format the delta through FormatDelta", nr, 2)
}

func c14Assumption(c *Ctx, p *Prog) {
	const R = "C14/R4"
	unitFieldF := p.Field(btabRel, "Builder", "unitField")
	n := 0
	for _, f := range p.Funcs(btabRel) {
		eachInstr(f, func(_ *ssa.BasicBlock, in ssa.Instruction) {
			call, ok := in.(*ssa.Call)
			if !ok || !objIs(calleeObj(&call.Call), bfPkg, "UnitMetadataMap", "GetAssumption") {
				return
			}
			n++
			ok2 := false
			if get, ok := call.Call.Args[1].(*ssa.Call); ok && objIs(calleeObj(&get.Call), bprocPkg, "Key", "Get") {
				if uf, _ := loadOfField(get.Call.Args[1]); uf == unitFieldF && uf != nil {
					ok2 = true
				}
			}
			c.Check(ok2, R, fmt.Sprintf("%s:assumption-unit#%d", fnName(f), n), p.pos(call.Pos()), "the assumption is chosen for the table key's .unit value", "the statistical assumption is not looked up with the table's unit")
		})
	}
	c.Floor(R, "assumption lookups", n, 1)
}

func c14Summary(c *Ctx, p *Prog) {
	const R = "C14/R5"
	fn := p.Fn(btabRel, "summarizeCol")
	if fn == nil {
		c.Undecided(R, "anchor:summarizeCol", "", "not found")
		return
	}
	site := p.pos(fn.Pos())
	baselineF := p.Field(btabRel, "TableCell", "Baseline")
	loops := naturalLoops(fn)
	if len(loops) != 1 {
		c.Undecided(R, "summary:loop", site, "expected one loop over the rows")
		return
	}
	lp := loops[0]
	// loop-carried: summaries, ratios (slices), badRatio (bool)
	var sliceP []*ssa.Phi
	var badP *ssa.Phi
	for _, in := range lp.Header.Instrs {
		if phi, ok := in.(*ssa.Phi); ok {
			switch {
			case isBoolT(phi.Type()):
				badP = phi
			case isFloatSlice(phi.Type()):
				sliceP = append(sliceP, phi)
			}
		}
	}
	if len(sliceP) != 2 {
		c.Undecided(R, "summary:accumulators", site, "expected two float accumulators (centres and ratios)")
		return
	}
	start := loopBodyStart(lp)
	outs, why := e6Enumerate(func() *e6Interp {
		return &e6Interp{Inline: func(f *ssa.Function) bool {
			// arithmetic helpers of the package over centres: loop-free functions of floats
			if f.Pkg != fn.Pkg || f.Blocks == nil || f.Signature.Recv() != nil || len(naturalLoops(f)) > 0 || len(f.Blocks) > 12 || len(f.Params) == 0 {
				return false
			}
			for _, prm := range f.Params {
				if !isFloat(prm.Type()) {
					return false
				}
			}
			return true
		}}
	}, start, lp.Header, iterStop(lp, start), 256)
	if why != "" {
		c.Undecided(R, "summary:table", site, why)
		return
	}
	leafOf := func(s *Sym) string {
		if s.Op == "load" && strings.HasSuffix(s.String(), ".Summary.Center)") {
			if s.MentionsField(baselineF) {
				return "base"
			}
			return "cell"
		}
		return ""
	}
	n := 0
	for _, o := range outs {
		var present, hasBase, equal, baseZero *bool
		for _, k := range o.AtomKeys() {
			v := o.Assign[k]
			_ = v
			s := o.AtomSyms[k]
			vv := v
			switch {
			case s.Op == "extract" && s.Idx == 1 && len(s.Args) == 1 && s.Args[0].Op == "lookup":
				present = &vv
			case s.Op == "binop" && s.Tok == token.EQL && s.Args[1].isConst() && s.Args[1].IsNil:
				t := !v
				hasBase = &t
			case s.Op == "binop" && s.Tok == token.EQL && s.Args[1].isConst():
				baseZero = &vv
			case s.Op == "binop" && s.Tok == token.EQL:
				equal = &vv
			}
		}
		if present == nil {
			continue
		}
		n++
		if o.Term != "exit" || o.Exit != lp.Header {
			c.Bad(R, "summary:continues", site, "a row ends the summary loop early")
			continue
		}
		next := map[*ssa.Phi]*Sym{}
		for _, ph := range append(append([]*ssa.Phi{}, sliceP...), badP) {
			if ph == nil {
				continue
			}
			for j, pr := range lp.Header.Preds {
				if pr == o.ExitFrom {
					next[ph] = o.Val(ph.Edges[j])
				}
			}
		}
		// which accumulator is which: the one that grows whenever the cell is present is "centres"
		appended := func(ph *ssa.Phi) (*Sym, bool) {
			v := next[ph]
			if v != nil && v.Op == "call" && v.Name == "append" {
				els := o.VarArgs(e6Action{Args: v.Args})
				if len(els) == 1 {
					return els[0], true
				}
			}
			return nil, false
		}
		key := fmt.Sprintf("summary[present=%v baseline=%s equal=%s baseZero=%s]", *present, boolPtrStr(hasBase), boolPtrStr(equal), boolPtrStr(baseZero))
		var errs []string
		var centreApp, ratioApp *Sym
		nApp := 0
		for _, ph := range sliceP {
			if el, ok := appended(ph); ok {
				nApp++
				if leafOf(el) == "cell" && centreApp == nil && ph.Comment != "ratios" {
					centreApp = el
				} else {
					ratioApp = el
				}
			}
		}
		if !*present {
			if nApp != 0 {
				errs = append(errs, "a missing cell contributes to the summary")
			}
		} else {
			if centreApp == nil {
				errs = append(errs, "a present cell's centre does not enter the geomean")
			}
			switch {
			case hasBase != nil && !*hasBase:
				if ratioApp != nil {
					errs = append(errs, "a cell without baseline contributes a ratio")
				}
			case hasBase != nil && *hasBase && equal != nil && *equal:
				if ratioApp == nil || !ratioApp.isConst() || ratioApp.Const.String() != "1" {
					errs = append(errs, "equal centres must contribute the ratio 1")
				}
			case hasBase != nil && *hasBase && baseZero != nil && *baseZero:
				if badP != nil {
					if b, ok := next[badP].boolConst(); !ok || !b {
						errs = append(errs, "a zero baseline must mark the ratio geomean as unavailable")
					}
				}
			case hasBase != nil && *hasBase && baseZero != nil && !*baseZero:
				if ratioApp == nil {
					errs = append(errs, "no ratio recorded for a comparable cell")
				} else {
					ok, d := e7Equal(ratioApp, func(g func(string) *big.Rat) *big.Rat { return rQuo(g("cell"), g("base")) },
						[]map[string]*big.Rat{{"cell": rat(7, 2), "base": rat(5, 3)}, {"cell": rat(2, 9), "base": rat(11, 4)}}, leafOf)
					if !ok {
						errs = append(errs, "ratio: "+d)
					}
				}
			}
		}
		if len(errs) > 0 {
			c.Bad(R, key, site, strings.Join(errs, "; "))
		} else {
			c.OK(R, key, site, "conforms")
		}
	}
	c.Floor(R, "summary row cases", n, 4)
	// warnings after the loop
	var warnTexts []string
	eachInstr(fn, func(_ *ssa.BasicBlock, in ssa.Instruction) {
		if call, ok := in.(*ssa.Call); ok && objIs(calleeObj(&call.Call), "fmt", "", "Errorf") {
			if s, ok := constString(call.Call.Args[0]); ok {
				warnTexts = append(warnTexts, s)
			}
		}
	})
	// three situations raise a warning (benchmark set differs; summaries must be >0; ratios must be >0): three places
	// append to the summary's warnings — where the text is made (here, or in a helper that returns it) is free
	nWarn := 0
	eachInstr(fn, func(_ *ssa.BasicBlock, in ssa.Instruction) {
		st, ok := in.(*ssa.Store)
		if !ok {
			return
		}
		if f, _ := fieldOfAddr(st.Addr); f == nil || f.Name() != "Warnings" {
			return
		}
		if call, ok := st.Val.(*ssa.Call); ok {
			if bi, ok := call.Call.Value.(*ssa.Builtin); ok && bi.Name() == "append" {
				nWarn++
			}
		}
	})
	c.Check(nWarn == 3, R, "summary:warnings", site, fmt.Sprintf("three places raise a warning (texts made here: %q)", warnTexts), fmt.Sprintf("the column summary raises a warning in %d places, documented are three: benchmark set differs; summaries must be >0; ratios must be >0", nWarn))
	// the differing-set warning compares nBase with the number of ratios under !isBase
	okSet := false
	eachInstr(fn, func(b *ssa.BasicBlock, in ssa.Instruction) {
		bo, ok := in.(*ssa.BinOp)
		if !ok || bo.Op != token.NEQ {
			return
		}
		isLen := func(v ssa.Value) bool {
			call, ok := v.(*ssa.Call)
			if !ok {
				return false
			}
			bi, ok := call.Call.Value.(*ssa.Builtin)
			return ok && bi.Name() == "len"
		}
		if (bo.X == fn.Params[3] && isLen(bo.Y)) || (bo.Y == fn.Params[3] && isLen(bo.X)) {
			okSet = true
		}
	})
	c.Check(okSet, R, "summary:set-mismatch-test", site, "the benchmark-set warning compares the baseline count with the number of ratios", "the benchmark-set warning is not derived from (baseline count != number of ratios)")
}

func isFloatSlice(t types.Type) bool {
	s, ok := t.Underlying().(*types.Slice)
	return ok && isFloat(s.Elem())
}

// c08InternAs runs the interning rule under another rule id.
func c08InternAs(c *Ctx, p *Prog, rule string) {
	sub := newCtx(c.Prop, c.Tier)
	sub.RepoDir, sub.VerifDir, sub.HomeDir = c.RepoDir, c.VerifDir, c.HomeDir
	c08Intern(sub, p)
	for _, o := range sub.obs {
		o.Rule = rule
		c.add(o)
	}
}

func c14Units(c *Ctx, p *Prog, R string) {
	readerF := p.Field("benchfmt", "Files", "reader")
	unitsF := p.Field("benchfmt", "Reader", "units")
	if readerF == nil || unitsF == nil {
		c.Undecided(R, "anchor:Files.reader/Reader.units", "", "fields not found")
		return
	}
	n := 0
	for _, fn := range p.Funcs("benchfmt") {
		for _, st := range storesToField(fn, readerF) {
			n++
			c.Bad(R, fnName(fn)+":replaces reader", p.pos(st.Pos()), "Files replaces its Reader wholesale: unit metadata read from earlier files (e.g. 'Unit x assume=exact') is forgotten, so later tables use the default assumption")
		}
		for i, st := range storesToField(fn, unitsF) {
			n++
			guarded := false
			for _, f := range factsAt(st.Block()) {
				if bo, ok := f.Cond.(*ssa.BinOp); ok && bo.Op == token.EQL && f.True {
					if lf, _ := loadOfField(bo.X); lf == unitsF {
						if k, ok := bo.Y.(*ssa.Const); ok && k.IsNil() {
							guarded = true
						}
					}
				}
			}
			c.Check(guarded, R, fmt.Sprintf("%s:creates unit table#%d", fnName(fn), i+1), p.pos(st.Pos()), "the unit table is created only when there is none", "the reader's unit table is recreated unconditionally on Reset: unit metadata does not carry from one file to the next")
		}
	}
	c.Floor(R, "writes to the reader's unit table", n, 1)
}

// c14ListWithoutUnit: every element of the slice v was appended where the element's Name is known to differ from
// ".unit" (v is nil, or an append of such an element onto such a list, or a phi of such lists).
func c14ListWithoutUnit(v ssa.Value, seen map[ssa.Value]bool) bool {
	if seen[v] {
		return true
	}
	seen[v] = true
	switch x := v.(type) {
	case *ssa.Const:
		return x.IsNil()
	case *ssa.Phi:
		for _, e := range x.Edges {
			if !c14ListWithoutUnit(e, seen) {
				return false
			}
		}
		return true
	case *ssa.Call:
		bi, ok := x.Call.Value.(*ssa.Builtin)
		if !ok || bi.Name() != "append" || len(x.Call.Args) != 2 || !c14ListWithoutUnit(x.Call.Args[0], seen) {
			return false
		}
		// the appended element: append(list, e) builds a one-element array
		sl, ok := x.Call.Args[1].(*ssa.Slice)
		if !ok {
			return false
		}
		al, ok := sl.X.(*ssa.Alloc)
		if !ok {
			return false
		}
		sts := storesInto(al)
		if len(sts) != 1 {
			return false
		}
		elem := sts[0].Val
		for _, f := range factsAt(x.Block()) {
			bo, ok := f.Cond.(*ssa.BinOp)
			if !ok {
				continue
			}
			if s, ok := constString(bo.Y); !ok || s != ".unit" {
				continue
			}
			fld, base := loadOfField(bo.X)
			if fld == nil || fld.Name() != "Name" || base != elem {
				continue
			}
			if (bo.Op == token.NEQ && f.True) || (bo.Op == token.EQL && !f.True) {
				return true
			}
		}
		return false
	}
	return false
}

// c14ResidueRecorded (C14/R14): the warning that merged results differ names exactly the keys they differ in, so every
// measurement's residue is recorded: in Builder.Add each store that appends a value to a cell is followed, on every
// path to the end of that step, by an update of that cell's residue set (no condition — such as "the set already has
// two members" — in between).
func c14ResidueRecorded(c *Ctx, p *Prog) {
	const R = "C14/R14"
	fn := p.Method(btabRel, "Builder", "Add")
	valuesF := p.Field(btabRel, "builderCell", "values")
	residueF := p.Field(btabRel, "builderCell", "residue")
	if fn == nil || valuesF == nil || residueF == nil {
		c.Undecided(R, "anchor:Builder.Add/builderCell", "", "not found")
		return
	}
	n := 0
	for _, st := range storesToField(fn, valuesF) {
		n++
		// forward from the store: a path to a return or back to a loop header that passes no residue update
		isUpdate := func(in ssa.Instruction) bool {
			mu, ok := in.(*ssa.MapUpdate)
			if !ok {
				return false
			}
			f, _ := loadOfField(mu.Map)
			return f == residueF
		}
		headers := map[*ssa.BasicBlock]bool{}
		for _, lp := range naturalLoops(fn) {
			headers[lp.Header] = true
		}
		missing := ""
		b := st.Block()
		found := false
		after := false
		for _, in := range b.Instrs {
			if in == ssa.Instruction(st) {
				after = true
				continue
			}
			if after && isUpdate(in) {
				found = true
			}
		}
		if !found {
			seen := map[*ssa.BasicBlock]bool{}
			work := append([]*ssa.BasicBlock{}, b.Succs...)
			for len(work) > 0 && missing == "" {
				x := work[len(work)-1]
				work = work[:len(work)-1]
				if seen[x] {
					continue
				}
				seen[x] = true
				has := false
				for _, in := range x.Instrs {
					if isUpdate(in) {
						has = true
					}
				}
				if has {
					continue
				}
				if _, isRet := x.Instrs[len(x.Instrs)-1].(*ssa.Return); isRet || headers[x] {
					missing = p.pos(x.Instrs[len(x.Instrs)-1].Pos())
					if missing == "" {
						missing = "the end of the step"
					}
					break
				}
				work = append(work, x.Succs...)
			}
		}
		c.Check(missing == "", R, fmt.Sprintf("Add:residue-recorded#%d", n), p.pos(st.Pos()), "every appended value's residue key is recorded",
			"a value can be appended to a cell without its residue key being recorded (a path reaches "+missing+" with no update of the cell's residue set): the 'benchmarks vary in …' warning then names only some of the keys the merged results differ in")
	}
	c.Floor(R, "value appends in Builder.Add", n, 1)
}
